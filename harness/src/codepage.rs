//! Code page commands.  `cp_*` are mirrored by the model; `x_cp_*` are exhaustive
//! sweeps judged directly against the property (the model answers `(any)`).
use crate::sx::Sx;
use encoding_rs::{EncoderResult, Encoding};
use msi::CodePage;

pub const ALL_IDS: [i32; 26] = [
    932, 936, 949, 950, 951, 1250, 1251, 1252, 1253, 1254, 1255, 1256, 1257, 1258, 10000, 10007, 20127, 28591,
    28592, 28593, 28594, 28595, 28596, 28597, 28598, 65001,
];

/// SPEC side: the encoding each Windows identifier names (None = US-ASCII, handled by hand).
pub fn reference_encoding(id: i32) -> Option<&'static Encoding> {
    Some(match id {
        932 => encoding_rs::SHIFT_JIS,
        936 => encoding_rs::GBK,
        949 => encoding_rs::EUC_KR, // encoding_rs's EUC-KR is windows-949 (Unified Hangul Code)
        950 | 951 => encoding_rs::BIG5, // WHATWG Big5 includes the HKSCS extensions
        1250 => encoding_rs::WINDOWS_1250,
        1251 => encoding_rs::WINDOWS_1251,
        1252 => encoding_rs::WINDOWS_1252,
        1253 => encoding_rs::WINDOWS_1253,
        1254 => encoding_rs::WINDOWS_1254,
        1255 => encoding_rs::WINDOWS_1255,
        1256 => encoding_rs::WINDOWS_1256,
        1257 => encoding_rs::WINDOWS_1257,
        1258 => encoding_rs::WINDOWS_1258,
        10000 => encoding_rs::MACINTOSH,
        10007 => encoding_rs::X_MAC_CYRILLIC,
        28591 => encoding_rs::WINDOWS_1252, // WHATWG: the label iso-8859-1 means windows-1252
        28592 => encoding_rs::ISO_8859_2,
        28593 => encoding_rs::ISO_8859_3,
        28594 => encoding_rs::ISO_8859_4,
        28595 => encoding_rs::ISO_8859_5,
        28596 => encoding_rs::ISO_8859_6,
        28597 => encoding_rs::ISO_8859_7,
        28598 => encoding_rs::ISO_8859_8,
        65001 => encoding_rs::UTF_8,
        _ => return None,
    })
}

fn ref_encode_char(id: i32, ch: char) -> Vec<u8> {
    if id == 20127 {
        return if ch.is_ascii() { vec![ch as u8] } else { vec![b'?'] };
    }
    let enc = reference_encoding(id).unwrap();
    let mut encoder = enc.new_encoder();
    let mut buf = [0u8; 16];
    let mut s = [0u8; 4];
    let st: &str = ch.encode_utf8(&mut s);
    let (res, _read, written) = encoder.encode_from_utf8_without_replacement(st, &mut buf, true);
    match res {
        EncoderResult::Unmappable(_) => vec![b'?'],
        _ => buf[..written].to_vec(),
    }
}

fn cp(id: i128) -> CodePage {
    CodePage::from_id(id as i32).expect("harness: unknown code page id")
}

fn chars() -> impl Iterator<Item = char> {
    (0u32..0x110000).filter_map(char::from_u32)
}

pub fn codepage_cmd(name: &str, args: &[Sx]) -> Option<Sx> {
    match (name, args) {
        ("cp_from_id", [i]) => {
            let v = i.as_int();
            let id = if v >= i32::MIN as i128 && v <= i32::MAX as i128 { CodePage::from_id(v as i32) } else { None };
            Some(Sx::opt(id.map(|c| Sx::I(c.id() as i128))))
        }
        ("cp_encode", [i, s]) => Some(Sx::bytes(&cp(i.as_int()).encode(&s.as_string()))),
        ("cp_decode", [i, b]) => Some(Sx::string(&cp(i.as_int()).decode(&b.as_bytes()))),
        // every scalar: encode(c) decodes back to c, or is the single byte '?'
        ("x_cp_sweep", [i]) => {
            let page = cp(i.as_int());
            let mut bad = 0i128;
            let mut first = Vec::new();
            let mut mapped = 0i128;
            for ch in chars() {
                let mut b = [0u8; 4];
                let s: &str = ch.encode_utf8(&mut b);
                let e = page.encode(s);
                let ok = if e == [b'?'] && ch != '?' {
                    true
                } else {
                    mapped += 1;
                    page.decode(&e) == s
                };
                if !ok {
                    bad += 1;
                    if first.len() < 40 {
                        first.push(Sx::L(vec![Sx::I(ch as u32 as i128), Sx::bytes(&e), Sx::string(&page.decode(&e))]));
                    }
                }
            }
            Some(Sx::L(vec![Sx::I(bad), Sx::I(mapped), Sx::L(first)]))
        }
        // every scalar: encode(c) equals the encoding of c under the encoding the identifier names
        ("x_cp_ref", [i]) => {
            let id = i.as_int() as i32;
            let page = cp(id as i128);
            let mut bad = 0i128;
            let mut first = Vec::new();
            for ch in chars() {
                let mut b = [0u8; 4];
                let s: &str = ch.encode_utf8(&mut b);
                let e = page.encode(s);
                let r = ref_encode_char(id, ch);
                if e != r {
                    bad += 1;
                    if first.len() < 3 {
                        first.push(Sx::L(vec![Sx::I(ch as u32 as i128), Sx::bytes(&e), Sx::bytes(&r)]));
                    }
                }
            }
            Some(Sx::L(vec![Sx::I(bad), Sx::L(first)]))
        }
        // encode(s) = concatenation of per-character encodings, for the given string
        ("x_cp_concat", [i, s]) => {
            let page = cp(i.as_int());
            let st = s.as_string();
            let whole = page.encode(&st);
            let mut parts = Vec::new();
            for ch in st.chars() {
                let mut b = [0u8; 4];
                parts.extend_from_slice(&page.encode(ch.encode_utf8(&mut b)));
            }
            Some(Sx::boolean(whole == parts))
        }
        // all 1- and 2-byte sequences decode (no panic); returns how many were decoded
        ("x_cp_decode2", [i]) => {
            let page = cp(i.as_int());
            let mut n = 0i128;
            for a in 0u16..256 {
                let _ = page.decode(&[a as u8]);
                n += 1;
                for b in 0u16..256 {
                    let _ = page.decode(&[a as u8, b as u8]);
                    n += 1;
                }
            }
            let _ = page.decode(&[]);
            Some(Sx::I(n))
        }
        // decode(encode(s)) for a representable string must give s back (no prefix is special)
        ("x_cp_roundtrip", [i, s]) => {
            let page = cp(i.as_int());
            let st = s.as_string();
            let e = page.encode(&st);
            // representable: every character encodes to something other than the replacement
            let representable = st.chars().all(|ch| {
                let mut b = [0u8; 4];
                ch == '?' || page.encode(ch.encode_utf8(&mut b)) != [b'?']
            });
            Some(Sx::L(vec![Sx::boolean(representable), Sx::boolean(page.decode(&e) == st)]))
        }
        _ => None,
    }
}
