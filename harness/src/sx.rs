//! Minimal s-expression type shared by all driver commands.
use std::fmt;

#[derive(Clone, Debug, PartialEq)]
pub enum Sx {
    I(i128),
    Y(String),
    L(Vec<Sx>),
}

impl Sx {
    pub fn sym(s: &str) -> Sx {
        Sx::Y(s.to_string())
    }
    pub fn boolean(b: bool) -> Sx {
        Sx::I(if b { 1 } else { 0 })
    }
    pub fn string(s: &str) -> Sx {
        Sx::L(s.chars().map(|c| Sx::I(c as u32 as i128)).collect())
    }
    pub fn bytes(b: &[u8]) -> Sx {
        Sx::L(b.iter().map(|&c| Sx::I(c as i128)).collect())
    }
    pub fn ok(v: Sx) -> Sx {
        Sx::L(vec![Sx::sym("ok"), v])
    }
    pub fn unit() -> Sx {
        Sx::L(vec![])
    }
    pub fn err() -> Sx {
        Sx::sym("err")
    }
    pub fn panic() -> Sx {
        Sx::sym("panic")
    }
    pub fn opt(o: Option<Sx>) -> Sx {
        match o {
            Some(v) => Sx::L(vec![v]),
            None => Sx::L(vec![]),
        }
    }
    pub fn as_int(&self) -> i128 {
        match self {
            Sx::I(i) => *i,
            _ => panic!("harness: expected int, got {}", self),
        }
    }
    pub fn as_bool(&self) -> bool {
        self.as_int() != 0
    }
    pub fn as_list(&self) -> &[Sx] {
        match self {
            Sx::L(l) => l,
            _ => panic!("harness: expected list, got {}", self),
        }
    }
    pub fn as_sym(&self) -> &str {
        match self {
            Sx::Y(s) => s,
            _ => panic!("harness: expected symbol, got {}", self),
        }
    }
    pub fn as_string(&self) -> String {
        self.as_list()
            .iter()
            .map(|c| char::from_u32(c.as_int() as u32).expect("harness: bad scalar"))
            .collect()
    }
    pub fn as_bytes(&self) -> Vec<u8> {
        self.as_list().iter().map(|c| c.as_int() as u8).collect()
    }
    pub fn as_opt(&self) -> Option<&Sx> {
        let l = self.as_list();
        if l.is_empty() {
            None
        } else {
            Some(&l[0])
        }
    }
}

impl fmt::Display for Sx {
    fn fmt(&self, f: &mut fmt::Formatter) -> fmt::Result {
        match self {
            Sx::I(i) => write!(f, "{}", i),
            Sx::Y(s) => write!(f, "{}", s),
            Sx::L(l) => {
                write!(f, "(")?;
                for (i, x) in l.iter().enumerate() {
                    if i > 0 {
                        write!(f, " ")?;
                    }
                    write!(f, "{}", x)?;
                }
                write!(f, ")")
            }
        }
    }
}

pub fn parse(line: &str) -> Sx {
    let b = line.as_bytes();
    let mut pos = 0usize;
    fn one(b: &[u8], pos: &mut usize) -> Sx {
        while *pos < b.len() && (b[*pos] == b' ' || b[*pos] == b'\t' || b[*pos] == b'\r') {
            *pos += 1;
        }
        if *pos >= b.len() {
            panic!("harness: unexpected end of line");
        }
        if b[*pos] == b'(' {
            *pos += 1;
            let mut items = Vec::new();
            loop {
                while *pos < b.len() && (b[*pos] == b' ' || b[*pos] == b'\t') {
                    *pos += 1;
                }
                if *pos >= b.len() {
                    panic!("harness: unclosed list");
                }
                if b[*pos] == b')' {
                    *pos += 1;
                    return Sx::L(items);
                }
                items.push(one(b, pos));
            }
        }
        let st = *pos;
        while *pos < b.len() && b[*pos] != b' ' && b[*pos] != b'(' && b[*pos] != b')' {
            *pos += 1;
        }
        let tok = std::str::from_utf8(&b[st..*pos]).unwrap();
        let c0 = tok.as_bytes()[0];
        if c0.is_ascii_digit() || (c0 == b'-' && tok.len() > 1) {
            Sx::I(tok.parse::<i128>().expect("harness: bad int"))
        } else {
            Sx::Y(tok.to_string())
        }
    }
    one(b, &mut pos)
}
