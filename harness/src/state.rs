//! Mutable state threaded through a case: the package under test and its medium.
use crate::medium::Medium;
use msi::Package;

pub struct State {
    pub pkg: Option<Package<Medium>>,
    pub medium: Option<Medium>,
}

impl State {
    pub fn new() -> State {
        State { pkg: None, medium: None }
    }
}
