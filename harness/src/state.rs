//! Mutable state threaded through a case (a package under test, etc.).
pub struct State {}

impl State {
    pub fn new() -> State {
        State {}
    }
}
