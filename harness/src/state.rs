//! Mutable state threaded through a case: the package under test and its medium.
use crate::medium::Medium;
use msi::Package;

pub struct State {
    pub pkg: Option<Package<Medium>>,
    pub medium: Option<Medium>,
}

impl State {
    pub fn new() -> State {
        State { pkg: None, medium: None }
    }
}

/// file and line of the most recent panic (written by the driver's panic hook): lets the oracle tell a panic inside
/// rust-msi from one inside a dependency
pub static LAST_PANIC: std::sync::Mutex<String> = std::sync::Mutex::new(String::new());
