//! Column / category commands (mirror coq/theories/ColumnCmd.v).
use crate::expr::{sx_value, value_sx};
use crate::sx::Sx;
use msi::{Category, Column, ColumnBuilder, ColumnType, Language, Value};
use uuid::Uuid;

pub fn sx_category(s: &Sx) -> Category {
    let ident = s.as_string();
    match ident.as_str() {
        "Text" => Category::Text,
        "UpperCase" => Category::UpperCase,
        "LowerCase" => Category::LowerCase,
        "Integer" => Category::Integer,
        "DoubleInteger" => Category::DoubleInteger,
        "TimeDate" => Category::TimeDate,
        "Identifier" => Category::Identifier,
        "Property" => Category::Property,
        "Filename" => Category::Filename,
        "WildCardFilename" => Category::WildCardFilename,
        "Path" => Category::Path,
        "Paths" => Category::Paths,
        "AnyPath" => Category::AnyPath,
        "DefaultDir" => Category::DefaultDir,
        "RegPath" => Category::RegPath,
        "Formatted" => Category::Formatted,
        "FormattedSddlText" => Category::FormattedSddlText,
        "Template" => Category::Template,
        "Condition" => Category::Condition,
        "Guid" => Category::Guid,
        "Version" => Category::Version,
        "Language" => Category::Language,
        "Binary" => Category::Binary,
        "CustomSource" => Category::CustomSource,
        "Cabinet" => Category::Cabinet,
        "Shortcut" => Category::Shortcut,
        o => panic!("harness: bad category {}", o),
    }
}

pub fn category_sx(c: Category) -> Sx {
    // the variant identifier, i.e. the Debug rendering
    Sx::string(&format!("{:?}", c))
}

/// (col NAME TYPE loc null pk RANGE FK CAT ENUM) -> builder with everything but the type applied
pub fn sx_builder(s: &Sx) -> (ColumnBuilder, Sx) {
    let l = s.as_list();
    assert!(l[0].as_sym() == "col", "harness: bad column");
    let mut b = Column::build(l[1].as_string());
    if l[3].as_bool() {
        b = b.localizable();
    }
    if l[4].as_bool() {
        b = b.nullable();
    }
    if l[5].as_bool() {
        b = b.primary_key();
    }
    if let Some(r) = l[6].as_opt() {
        let r = r.as_list();
        b = b.range(r[0].as_int() as i32, r[1].as_int() as i32);
    }
    if let Some(f) = l[7].as_opt() {
        let f = f.as_list();
        b = b.foreign_key(&f[0].as_string(), f[1].as_int() as i32);
    }
    if let Some(c) = l[8].as_opt() {
        b = b.category(sx_category(c));
    }
    let en: Vec<String> = l[9].as_list().iter().map(|e| e.as_string()).collect();
    if !en.is_empty() {
        let refs: Vec<&str> = en.iter().map(|e| e.as_str()).collect();
        b = b.enum_values(&refs);
    }
    (b, l[2].clone())
}

pub fn sx_column(s: &Sx) -> Column {
    let (b, t) = sx_builder(s);
    match &t {
        Sx::Y(y) if y == "i16" => b.int16(),
        Sx::Y(y) if y == "i32" => b.int32(),
        Sx::L(l) => b.string(l[1].as_int() as usize),
        _ => panic!("harness: bad coltype"),
    }
}

pub fn column_sx(c: &Column) -> Sx {
    let t = match c.coltype() {
        ColumnType::Int16 => Sx::sym("i16"),
        ColumnType::Int32 => Sx::sym("i32"),
        ColumnType::Str(w) => Sx::L(vec![Sx::sym("str"), Sx::I(w as i128)]),
    };
    Sx::L(vec![
        Sx::sym("col"),
        Sx::string(c.name()),
        t,
        Sx::boolean(c.is_localizable()),
        Sx::boolean(c.is_nullable()),
        Sx::boolean(c.is_primary_key()),
        Sx::opt(c.value_range().map(|(a, b)| Sx::L(vec![Sx::I(a as i128), Sx::I(b as i128)]))),
        Sx::opt(msi::verif_hooks::column_foreign_key(c).map(|(n, i)| Sx::L(vec![Sx::string(&n), Sx::I(i as i128)]))),
        Sx::opt(c.category().map(category_sx)),
        Sx::L(c.enum_values().map(|v| v.iter().map(|e| Sx::string(e)).collect()).unwrap_or_default()),
    ])
}

pub fn column_cmd(name: &str, args: &[Sx]) -> Option<Sx> {
    match (name, args) {
        ("cat_validate", [c, s]) => Some(Sx::ok(Sx::boolean(sx_category(c).validate(&s.as_string())))),
        ("cat_names", []) => Some(Sx::L(msi::verif_hooks::category_names().iter().map(|n| Sx::string(n)).collect())),
        ("cat_from_str", [s]) => Some(Sx::opt(s.as_string().parse::<Category>().ok().map(category_sx))),
        ("col_valid", [c, v]) => Some(Sx::ok(Sx::boolean(sx_column(c).is_valid_value(&sx_value(v))))),
        ("col_bits", [c]) => Some(Sx::I(msi::verif_hooks::column_bitfield(&sx_column(c)) as i128)),
        ("col_of_bits", [c, b]) => {
            let (builder, _) = sx_builder(c);
            match msi::verif_hooks::column_with_bitfield(builder, b.as_int() as i32) {
                Ok(col) => Some(Sx::ok(column_sx(&col))),
                Err(_) => Some(Sx::err()),
            }
        }
        ("col_name_valid", [s]) => Some(Sx::boolean(msi::verif_hooks::column_is_valid_name(&s.as_string()))),
        ("value_of_uuid", [b]) => {
            let bytes = b.as_bytes();
            let mut arr = [0u8; 16];
            arr.copy_from_slice(&bytes);
            Some(value_sx(&Value::from(Uuid::from_bytes(arr))))
        }
        ("value_of_langs", [l]) => {
            let langs: Vec<Language> = l.as_list().iter().map(|c| Language::from_code(c.as_int() as u16)).collect();
            Some(value_sx(&Value::from(&langs[..])))
        }
        ("value_of_lang", [c]) => Some(value_sx(&Value::from(Language::from_code(c.as_int() as u16)))),
        _ => None,
    }
}
