//! Stateful package commands (mirror coq/theories/PackageCmd.v).
use crate::column::{column_sx, sx_column};
use crate::expr::{sx_expr, sx_value, value_sx};
use crate::medium::Medium;
use crate::pure::{ns_of_system_time, system_time_of_ns};
use crate::state::State;
use crate::sx::Sx;
use msi::{CodePage, Delete, Insert, Language, Package, PackageType, Select, Update};
use std::io::{Cursor, Read, Write};
use uuid::Uuid;

pub fn sx_select(s: &Sx) -> Select {
    let l = s.as_list();
    assert!(l[0].as_sym() == "sel", "harness: bad select");
    let from = l[1].as_list();
    let mut q = match from[0].as_sym() {
        "t" => Select::table(from[1].as_string()),
        "inner" => sx_select(&from[1]).inner_join(sx_select(&from[2]), sx_expr(&from[3])),
        "left" => sx_select(&from[1]).left_join(sx_select(&from[2]), sx_expr(&from[3])),
        o => panic!("harness: bad join {}", o),
    };
    let names: Vec<String> = l[2].as_list().iter().map(|n| n.as_string()).collect();
    if !names.is_empty() {
        q = q.columns(&names);
    }
    if let Some(c) = l[3].as_opt() {
        for part in conjuncts(c) {
            q = q.with(sx_expr(part));
        }
    }
    q
}

/// A condition `(and (and a b) c)` is handed over as the documented chain `.with(a).with(b).with(c)`, which must mean
/// the same as the single conjunction; deeper conjunctions still go through `Expr::and`.
fn conjuncts(c: &Sx) -> Vec<&Sx> {
    let l = c.as_list();
    if l.len() == 3 && l[0] == Sx::sym("and") {
        let mut v = conjuncts(&l[1]);
        v.push(&l[2]);
        v
    } else {
        vec![c]
    }
}

pub fn sx_delete(n: &Sx, cond: &Sx) -> Delete {
    let mut q = Delete::from(n.as_string());
    if let Some(c) = cond.as_opt() {
        for part in conjuncts(c) {
            q = q.with(sx_expr(part));
        }
    }
    q
}

pub fn sx_update(n: &Sx, ups: &Sx, cond: &Sx) -> Update {
    let mut q = Update::table(n.as_string());
    for u in ups.as_list() {
        let u = u.as_list();
        q = q.set(u[0].as_string(), sx_value(&u[1]));
    }
    if let Some(c) = cond.as_opt() {
        for part in conjuncts(c) {
            q = q.with(sx_expr(part));
        }
    }
    q
}

pub fn sx_insert(n: &Sx, rows: &Sx) -> Insert {
    let mut q = Insert::into(n.as_string());
    for r in rows.as_list() {
        q = q.row(r.as_list().iter().map(sx_value).collect());
    }
    q
}

fn unit_res(r: std::io::Result<()>) -> Sx {
    match r {
        Ok(()) => Sx::ok(Sx::unit()),
        Err(_) => Sx::err(),
    }
}

fn ptype(t: i128) -> PackageType {
    match t {
        0 => PackageType::Installer,
        1 => PackageType::Patch,
        2 => PackageType::Transform,
        _ => panic!("harness: bad package type"),
    }
}

pub fn sorted_tables(p: &Package<Medium>) -> Sx {
    let mut v: Vec<(String, Sx)> =
        p.tables().map(|t| (t.name().to_string(), Sx::L(t.columns().iter().map(column_sx).collect()))).collect();
    v.sort_by(|a, b| a.0.cmp(&b.0));
    Sx::L(v.into_iter().map(|(n, c)| Sx::L(vec![Sx::string(&n), c])).collect())
}

pub fn summary_sx(p: &Package<Medium>) -> Sx {
    let s = p.summary_info();
    let os = |o: Option<&str>| Sx::opt(o.map(Sx::string));
    Sx::L(vec![
        Sx::I(s.codepage().id() as i128),
        os(s.title()),
        os(s.subject()),
        os(s.author()),
        os(s.comments()),
        os(s.creating_application()),
        Sx::opt(s.uuid().map(|u| Sx::bytes(u.as_bytes()))),
        Sx::opt(s.word_count().map(|w| Sx::I(w as i128))),
        Sx::opt(s.creation_time().map(|t| Sx::I(ns_of_system_time(t)))),
        os(s.arch()),
        Sx::L(s.languages().iter().map(|l| Sx::I(l.code() as i128)).collect()),
    ])
}

pub fn select_sx(p: &mut Package<Medium>, q: Select) -> Sx {
    match p.select_rows(q) {
        Ok(rows) => {
            let cols = Sx::L(rows.columns().iter().map(column_sx).collect());
            let declared = rows.len();
            let mut out = Vec::new();
            for row in rows {
                let mut vals = Vec::new();
                assert!(row.len() == row.columns().len(), "harness: Row::len disagrees with its columns");
                for i in 0..row.len() {
                    vals.push(value_sx(&row[i]));
                }
                out.push(Sx::L(vals));
            }
            if declared != out.len() {
                return Sx::L(vec![Sx::sym("len_mismatch"), Sx::I(declared as i128), Sx::I(out.len() as i128)]);
            }
            Sx::ok(Sx::L(vec![cols, Sx::L(out)]))
        }
        Err(_) => Sx::err(),
    }
}

pub fn all_rows_sx(p: &mut Package<Medium>) -> Sx {
    let mut names: Vec<String> = p.tables().map(|t| t.name().to_string()).collect();
    names.sort();
    let mut out = Vec::new();
    for n in names {
        let r = std::panic::catch_unwind(std::panic::AssertUnwindSafe(|| select_sx(p, Select::table(n.clone()))));
        let r = match r {
            Ok(Sx::L(l)) if l.len() == 2 && l[0] == Sx::sym("ok") => Sx::ok(l[1].as_list()[1].clone()),
            Ok(o) => o,
            Err(_) => Sx::panic(),
        };
        out.push(Sx::L(vec![Sx::string(&n), r]));
    }
    Sx::L(out)
}

pub fn stream_data_sx(p: &mut Package<Medium>) -> Sx {
    let mut v: Vec<String> = p.streams().collect();
    v.sort();
    let mut out = Vec::new();
    for n in v {
        let d = match p.read_stream(&n) {
            Ok(mut r) => {
                let mut b = Vec::new();
                match r.read_to_end(&mut b) {
                    Ok(_) => Sx::ok(Sx::bytes(&b)),
                    Err(_) => Sx::err(),
                }
            }
            Err(_) => Sx::err(),
        };
        out.push(Sx::L(vec![Sx::string(&n), d]));
    }
    Sx::L(out)
}

/// the raw streams of the medium, read with the cfb crate only
pub fn raw_sx(bytes: Vec<u8>) -> Sx {
    let mut comp = match cfb::CompoundFile::open(Cursor::new(bytes)) {
        Ok(c) => c,
        Err(_) => return Sx::err(),
    };
    let mut entries: Vec<(String, bool)> = comp.read_root_storage().map(|e| (e.name().to_string(), e.is_stream())).collect();
    entries.sort();
    let mut out = Vec::new();
    for (name, is_stream) in entries {
        if !is_stream {
            out.push(Sx::L(vec![Sx::string(&name), Sx::sym("storage")]));
            continue;
        }
        let mut data = Vec::new();
        let mut path = std::path::PathBuf::from("/");
        path.push(&name);
        match comp.open_stream(&path) {
            Ok(mut s) => {
                s.read_to_end(&mut data).unwrap();
                out.push(Sx::L(vec![Sx::string(&name), Sx::bytes(&data)]));
            }
            Err(_) => out.push(Sx::L(vec![Sx::string(&name), Sx::err()])),
        }
    }
    Sx::L(out)
}

/// build a compound file from (name, bytes) entries with the cfb crate only
pub fn build_cfb(clsid: &[u8], entries: &[(String, Vec<u8>)]) -> Vec<u8> {
    let mut comp = cfb::CompoundFile::create(Cursor::new(Vec::new())).expect("harness: cfb create");
    if clsid.len() == 16 {
        let mut arr = [0u8; 16];
        arr.copy_from_slice(clsid);
        comp.set_storage_clsid("/", Uuid::from_bytes(arr)).expect("harness: clsid");
    }
    for (name, data) in entries {
        // "Storage/Inner": a stream inside a sub-storage (patch packages and embedded transforms are laid out like that)
        let mut path = std::path::PathBuf::from("/");
        let parts: Vec<&str> = name.split('/').collect();
        for dir in &parts[..parts.len() - 1] {
            path.push(dir);
            if !comp.is_storage(&path) {
                comp.create_storage(&path).expect("harness: cfb create_storage");
            }
        }
        path.push(parts[parts.len() - 1]);
        let mut s = comp.create_stream(&path).expect("harness: cfb create_stream");
        s.write_all(data).expect("harness: cfb write");
    }
    comp.flush().expect("harness: cfb flush");
    comp.into_inner().into_inner()
}

fn reopen(st: &mut State, mode: &str) -> Sx {
    let p = st.pkg.take().expect("harness: no package");
    let medium = st.medium.clone().expect("harness: no medium");
    match mode {
        "flush" => {
            let mut p = p;
            if p.flush().is_err() {
                st.pkg = Some(p);
                return Sx::sym("flush_err");
            }
            // the bytes present when flush returned are what is reopened (crash right after flush)
            let bytes = medium.snapshot();
            std::mem::forget(p);
            open_bytes(st, bytes)
        }
        "into_inner" => match p.into_inner() {
            Ok(m) => {
                let bytes = m.snapshot();
                open_bytes(st, bytes)
            }
            Err(_) => Sx::sym("into_inner_err"),
        },
        "drop" => {
            drop(p);
            let bytes = medium.snapshot();
            open_bytes(st, bytes)
        }
        o => panic!("harness: bad reopen mode {}", o),
    }
}

pub fn open_bytes(st: &mut State, bytes: Vec<u8>) -> Sx {
    let medium = Medium::new(bytes);
    st.medium = Some(medium.clone());
    st.pkg = None;
    match Package::open(medium) {
        Ok(p) => {
            st.pkg = Some(p);
            Sx::ok(Sx::unit())
        }
        Err(_) => Sx::err(),
    }
}

/// create a package whose database and summary use code page `id`, store `text` in a row, a stream-independent
/// summary property, save in the given mode, reopen: (database string back, summary string back, code pages back)
fn cp_roundtrip_pkg(id: i32, text: &str, mode: &str) -> Sx {
    let cp = CodePage::from_id(id).expect("harness: bad cp");
    let medium = Medium::new(Vec::new());
    let mut p = Package::create(PackageType::Installer, medium.clone()).unwrap();
    p.set_database_codepage(cp);
    p.summary_info_mut().set_codepage(cp);
    p.summary_info_mut().set_author(text.to_string());
    p.summary_info_mut().set_comments(format!("{}{}", text, text));
    p.create_table("T", vec![msi::Column::build("K").primary_key().int16(), msi::Column::build("V").nullable().string(0)])
        .unwrap();
    p.insert_rows(Insert::into("T").row(vec![msi::Value::Int(1), msi::Value::Str(text.to_string())])).unwrap();
    let bytes = match mode {
        "flush" => {
            p.flush().unwrap();
            let b = medium.snapshot();
            std::mem::forget(p);
            b
        }
        "into_inner" => p.into_inner().unwrap().snapshot(),
        _ => {
            drop(p);
            medium.snapshot()
        }
    };
    let mut q = match Package::open(Medium::new(bytes)) {
        Ok(q) => q,
        Err(_) => return Sx::sym("reopen_failed"),
    };
    let db_ok = {
        let rows: Vec<msi::Row> = q.select_rows(Select::table("T")).unwrap().collect();
        rows.len() == 1 && rows[0][1] == msi::Value::Str(text.to_string())
    };
    let sum_ok = q.summary_info().author() == Some(text) && q.summary_info().comments() == Some(format!("{}{}", text, text).as_str());
    let cp_ok = q.database_codepage() == cp && q.summary_info().codepage() == cp;
    Sx::L(vec![Sx::sym("ok"), Sx::boolean(db_ok), Sx::boolean(sum_ok), Sx::boolean(cp_ok)])
}

/// C16: save the package, open the saved bytes on a fresh counting medium, use every read operation, close in the
/// given mode; reports (write calls issued to the medium by the whole session, bytes identical afterwards)
fn readonly_session(st: &mut State, mode: &str) -> Sx {
    let p = st.pkg.take().expect("harness: no package");
    let bytes = match p.into_inner() {
        Ok(m) => m.snapshot(),
        Err(_) => return Sx::sym("into_inner_err"),
    };
    let medium = Medium::new(bytes.clone());
    let handle = medium.handle();
    let mut q = match Package::open(medium.clone()) {
        Ok(q) => q,
        Err(_) => return Sx::err(),
    };
    let _ = q.package_type();
    let _ = q.database_codepage();
    let _ = sorted_tables(&q);
    let _ = all_rows_sx(&mut q);
    let names: Vec<String> = q.tables().map(|t| t.name().to_string()).collect();
    for n in names.iter() {
        let _ = q.has_table(n);
        let _ = q.get_table(n).map(|t| t.primary_key_indices());
        if let Some(first) = names.first() {
            // a join with a constant condition, and one naming a column that does not exist
            let j = Select::table(first.clone()).inner_join(Select::table(n.clone()), msi::Expr::boolean(true));
            let _ = select_sx(&mut q, j);
            let j = Select::table(first.clone()).left_join(Select::table(n.clone()), msi::Expr::col("Nope.Nope"));
            let _ = select_sx(&mut q, j);
        }
    }
    let _ = stream_data_sx(&mut q);
    let _ = q.has_stream("nope");
    let _ = q.read_stream("nope").is_ok();
    let _ = q.has_digital_signature();
    let _ = summary_sx(&q);
    match mode {
        "flush" => {
            if q.flush().is_err() {
                return Sx::sym("flush_err");
            }
            let snap = medium.snapshot();
            let w = handle.borrow().writes;
            std::mem::forget(q);
            let _ = open_bytes(st, bytes.clone());
            return Sx::ok(Sx::L(vec![Sx::I(w as i128), Sx::boolean(snap == bytes)]));
        }
        "into_inner" => {
            if q.into_inner().is_err() {
                return Sx::sym("into_inner_err");
            }
        }
        _ => drop(q),
    }
    let w = handle.borrow().writes;
    let equal = medium.snapshot() == bytes;
    let _ = open_bytes(st, bytes);
    Sx::ok(Sx::L(vec![Sx::I(w as i128), Sx::boolean(equal)]))
}

/// C16 through the path-based entry points of the crate (msi::open, msi::open_rw): the package is saved to a file under
/// build/, opened by path, read, closed in the given way; -> (ok file-bytes-identical)
fn readonly_path(st: &mut State, how: &str, mode: &str) -> Sx {
    let p = st.pkg.take().expect("harness: no package");
    let bytes = match p.into_inner() {
        Ok(m) => m.snapshot(),
        Err(_) => return Sx::sym("into_inner_err"),
    };
    let dir = std::env::var("MSI_VERIF_TMP").unwrap_or_else(|_| "/verif/build/tmp".to_string());
    let _ = std::fs::create_dir_all(&dir);
    let path = format!("{}/ro-{}.msi", dir, std::process::id());
    if std::fs::write(&path, &bytes).is_err() {
        return Sx::sym("harness_error");
    }
    let r = std::panic::catch_unwind(|| -> Result<(), ()> {
        let mut q = if how == "rw" { msi::open_rw(&path).map_err(|_| ())? } else { msi::open(&path).map_err(|_| ())? };
        let _ = q.package_type();
        let _ = q.database_codepage();
        let names: Vec<String> = q.tables().map(|t| t.name().to_string()).collect();
        for n in names.iter() {
            let _ = q.has_table(n);
            if let Ok(rows) = q.select_rows(Select::table(n.clone())) {
                let _ = rows.count();
            }
        }
        let streams: Vec<String> = q.streams().collect();
        for s in streams.iter() {
            if let Ok(mut r) = q.read_stream(s) {
                let mut b = Vec::new();
                let _ = r.read_to_end(&mut b);
            }
        }
        let _ = q.has_digital_signature();
        let _ = q.summary_info().author().map(|a| a.len());
        match mode {
            "flush" if how == "rw" => {
                // (a package opened read-only by path has no flush: its file is not writable)
                let mut q = q;
                q.flush().map_err(|_| ())?;
                drop(q);
            }
            "into_inner" => {
                let _ = q.into_inner().map_err(|_| ())?;
            }
            _ => drop(q),
        }
        Ok(())
    });
    let after = std::fs::read(&path).unwrap_or_default();
    let _ = std::fs::remove_file(&path);
    let _ = open_bytes(st, bytes.clone());
    match r {
        Ok(Ok(())) => Sx::ok(Sx::boolean(after == bytes)),
        Ok(Err(())) => Sx::err(),
        Err(_) => Sx::panic(),
    }
}

/// C15: run a script on a fresh package whose medium fails write call number `k` (once, or from then on), close it in
/// the given mode, then disarm the fault and reopen whatever bytes reached the medium.
/// -> ((result per call incl. create) close-result faults-hit write-calls snapshot-after-reopen)
fn fault_run(k: i128, persistent: bool, mode: &str, cmds: &[Sx], start: Option<Vec<u8>>) -> Sx {
    use std::panic::{catch_unwind, AssertUnwindSafe};
    let existing = start.is_some();
    let medium = Medium::new(start.unwrap_or_default());
    let mut st = State::new();
    st.medium = Some(medium.clone());
    if k >= 0 {
        medium.inner.borrow_mut().fail_write_at = Some((k as u64, persistent));
    }
    let mut results = Vec::new();
    match catch_unwind(AssertUnwindSafe(|| {
        if existing {
            Package::open(medium.clone())
        } else {
            Package::create(PackageType::Installer, medium.clone())
        }
    })) {
        Ok(Ok(p)) => {
            st.pkg = Some(p);
            results.push(Sx::sym("ok"));
        }
        Ok(Err(_)) => results.push(Sx::sym("err")),
        Err(_) => results.push(Sx::sym("panic")),
    }
    if st.pkg.is_some() {
        for c in cmds {
            let items = c.as_list();
            let name = items[0].as_sym().to_string();
            let r = catch_unwind(AssertUnwindSafe(|| pkg_cmd(&mut st, &name, &items[1..])));
            results.push(match r {
                Ok(Some(o)) => {
                    let t = format!("{}", o);
                    if t == "err" || t.ends_with("_err") {
                        Sx::sym("err")
                    } else {
                        Sx::sym("ok")
                    }
                }
                Ok(None) => Sx::sym("badcmd"),
                Err(_) => Sx::sym("panic"),
            });
            if st.pkg.is_none() {
                break;
            }
        }
    }
    let close = match st.pkg.take() {
        Some(mut p) => match mode {
            "flush" => match catch_unwind(AssertUnwindSafe(|| p.flush())) {
                Ok(Ok(())) => {
                    std::mem::forget(p);
                    Sx::sym("ok")
                }
                Ok(Err(_)) => {
                    std::mem::forget(p);
                    Sx::sym("err")
                }
                Err(_) => Sx::sym("panic"),
            },
            _ => match catch_unwind(AssertUnwindSafe(|| p.into_inner())) {
                Ok(Ok(_)) => Sx::sym("ok"),
                Ok(Err(_)) => Sx::sym("err"),
                Err(_) => Sx::sym("panic"),
            },
        },
        None => Sx::sym("none"),
    };
    let (hit, writes) = {
        let mut g = medium.inner.borrow_mut();
        g.fail_write_at = None;
        (g.faults_hit, g.writes)
    };
    let mut st2 = State::new();
    let snap = match catch_unwind(AssertUnwindSafe(|| open_bytes(&mut st2, medium.snapshot()))) {
        Ok(o) if format!("{}", o) == "(ok ())" => {
            let snap = pkg_cmd(&mut st2, "snapshot", &[]).unwrap_or(Sx::sym("nosnap"));
            if existing {
                // a session on an existing (possibly signed) file: the signature state is part of what must have been saved
                let sig = pkg_cmd(&mut st2, "has_sig", &[]).unwrap_or(Sx::sym("nosig"));
                Sx::L(vec![snap, sig])
            } else {
                snap
            }
        }
        Ok(_) => Sx::sym("unopenable"),
        Err(_) => Sx::sym("open_panicked"),
    };
    Sx::L(vec![Sx::L(results), close, Sx::I(hit as i128), Sx::I(writes as i128), snap])
}

/// C09: save the package, damage `n` bytes of the saved FILE (below the stream level: header, FAT, directory, data),
/// open the result and use every read operation and one mutation + flush.  -> ok | err | panic (never anything else)
fn mutate_open(st: &mut State, seed: u64, n: u64, mode: u64) -> Sx {
    use std::panic::{catch_unwind, AssertUnwindSafe};
    let bytes = match &st.medium {
        Some(m) => m.snapshot(),
        None => return Sx::sym("nopkg"),
    };
    if bytes.is_empty() {
        return Sx::sym("nopkg");
    }
    let mut x = seed.wrapping_mul(0x9E3779B97F4A7C15) | 1;
    let mut next = move || {
        x ^= x << 13;
        x ^= x >> 7;
        x ^= x << 17;
        x
    };
    let mut b = bytes.clone();
    for _ in 0..n {
        let r = next();
        // mode 0: anywhere; 1: the first 512-byte header; 2: truncate; 3: zero a 64-byte run
        match mode {
            1 => {
                let i = (r % 512.min(b.len() as u64)) as usize;
                b[i] = (next() & 0xff) as u8;
            }
            2 => {
                let keep = (r % (b.len() as u64 + 1)) as usize;
                b.truncate(keep.max(1));
            }
            3 => {
                let i = (r % b.len() as u64) as usize;
                for j in i..(i + 64).min(b.len()) {
                    b[j] = 0;
                }
            }
            _ => {
                let i = (r % b.len() as u64) as usize;
                b[i] = (next() & 0xff) as u8;
            }
        }
    }
    let r = catch_unwind(AssertUnwindSafe(|| {
        let mut p = match Package::open(Medium::new(b)) {
            Ok(p) => p,
            Err(_) => return "err",
        };
        let _ = sorted_tables(&p);
        let _ = all_rows_sx(&mut p);
        let _ = stream_data_sx(&mut p);
        let _ = summary_sx(&p);
        let names: Vec<String> = p.tables().map(|t| t.name().to_string()).collect();
        for n in names.iter() {
            let _ = p.delete_rows(Delete::from(n.clone()).with(msi::Expr::boolean(false)));
        }
        if let Some(n) = names.iter().find(|n| !n.starts_with('_')) {
            let _ = p.delete_rows(Delete::from(n.clone()));
            let _ = p.drop_table(n);
        }
        let _ = p.create_table("Zz9", vec![msi::Column::build("K").primary_key().int16()]);
        p.summary_info_mut().set_author("a".to_string());
        let _ = p.flush();
        "ok"
    }));
    match r {
        Ok(s) => Sx::sym(s),
        Err(_) => {
            // where did it panic?  (rust-msi itself, or a dependency such as the cfb container crate)
            let at = crate::state::LAST_PANIC.lock().map(|g| g.clone()).unwrap_or_default();
            let at = at.rsplit_once(':').map(|x| x.0.to_string()).unwrap_or(at);      // drop the line number
            let site = match at.rfind("/src/") {
                Some(i) => {
                    let krate = at[..i].rsplit('/').next().unwrap_or("").to_string();
                    let rest: String = at[i + 5..].chars().map(|c| if c.is_ascii_alphanumeric() || c == '.' || c == '_' { c } else { '_' }).collect();
                    format!("{}__{}", krate.replace(|c: char| !(c.is_ascii_alphanumeric() || c == '.' || c == '_' || c == '-'), "_"), rest)
                }
                None => "unknown".to_string(),
            };
            Sx::L(vec![Sx::panic(), Sx::sym(&site)])
        }
    }
}

/// C11: save the package, add the two digital-signature streams with the cfb crate only, open the result
fn add_signature(st: &mut State) -> Sx {
    let p = st.pkg.take().expect("harness: no package");
    let bytes = match p.into_inner() {
        Ok(m) => m.snapshot(),
        Err(_) => return Sx::sym("into_inner_err"),
    };
    let mut comp = cfb::CompoundFile::open(Cursor::new(bytes)).expect("harness: cfb open");
    for (name, data) in [("\u{5}DigitalSignature", vec![1u8, 2, 3]), ("\u{5}MsiDigitalSignatureEx", vec![4u8, 5])] {
        let mut path = std::path::PathBuf::from("/");
        path.push(name);
        let mut s = comp.create_stream(&path).expect("harness: cfb create_stream");
        s.write_all(&data).expect("harness: cfb write");
    }
    comp.flush().expect("harness: cfb flush");
    let bytes = comp.into_inner().into_inner();
    open_bytes(st, bytes)
}

pub fn pkg_cmd(st: &mut State, name: &str, args: &[Sx]) -> Option<Sx> {
    match (name, args) {
        ("x_ffi_probe", []) => Some(ffi_probe(st)),
        ("query_text", [q]) => {
            let l = q.as_list();
            let text = match l[0].as_sym() {
                "insert" => sx_insert(&l[1], &l[2]).to_string(),
                "delete" => sx_delete(&l[1], &l[2]).to_string(),
                "update" => sx_update(&l[1], &l[2], &l[3]).to_string(),
                _ => sx_select(q).to_string(),
            };
            Some(Sx::ok(Sx::string(&text)))
        }
        ("x_fault_run", [k, persistent, mode, cmds]) => Some(fault_run(k.as_int(), persistent.as_bool(), mode.as_sym(), cmds.as_list(), None)),
        // the same on the package at hand: it is saved, and the script runs on a session that OPENS the saved bytes
        ("x_fault_on", [k, persistent, mode, cmds]) => {
            let p = match st.pkg.take() {
                Some(p) => p,
                None => return Some(Sx::sym("nopkg")),
            };
            let bytes = match p.into_inner() {
                Ok(m) => m.snapshot(),
                Err(_) => return Some(Sx::sym("into_inner_err")),
            };
            let r = fault_run(k.as_int(), persistent.as_bool(), mode.as_sym(), cmds.as_list(), Some(bytes.clone()));
            let _ = open_bytes(st, bytes);
            Some(r)
        }
        // arm / disarm a write fault on the medium of the package at hand (a save that fails, then is retried)
        ("x_arm", [k, persistent]) => Some(match &st.medium {
            Some(m) => {
                let mut g = m.inner.borrow_mut();
                g.armed_writes = 0;
                g.fail_write_at = Some((k.as_int() as u64, persistent.as_bool()));
                Sx::unit()
            }
            None => Sx::sym("nopkg"),
        }),
        ("x_disarm", []) => Some(match &st.medium {
            Some(m) => {
                let mut g = m.inner.borrow_mut();
                g.fail_write_at = None;
                Sx::I(g.faults_hit as i128)
            }
            None => Sx::sym("nopkg"),
        }),
        ("x_readonly_path", [how, mode]) => {
            if st.pkg.is_none() {
                return Some(Sx::sym("nopkg"));
            }
            Some(readonly_path(st, how.as_sym(), mode.as_sym()))
        }
        ("x_mutate_open", [seed, n, mode]) => Some(mutate_open(st, seed.as_int() as u64, n.as_int() as u64, mode.as_int() as u64)),
        ("add_signature", []) => {
            if st.pkg.is_none() {
                return Some(Sx::sym("nopkg"));
            }
            Some(add_signature(st))
        }
        ("readonly_session", [mode]) => {
            if st.pkg.is_none() {
                return Some(Sx::sym("nopkg"));
            }
            Some(readonly_session(st, mode.as_sym()))
        }
        ("x_cp_roundtrip_pkg", [id, text, mode]) => Some(cp_roundtrip_pkg(id.as_int() as i32, &text.as_string(), mode.as_sym())),
        ("create", [t]) => {
            let medium = Medium::new(Vec::new());
            st.medium = Some(medium.clone());
            st.pkg = None;
            match Package::create(ptype(t.as_int()), medium) {
                Ok(p) => {
                    st.pkg = Some(p);
                    Some(Sx::ok(Sx::unit()))
                }
                Err(_) => Some(Sx::err()),
            }
        }
        ("open_raw", [clsid, entries]) | ("x_open_raw", [clsid, entries]) => {
            let es: Vec<(String, Vec<u8>)> =
                entries.as_list().iter().map(|e| (e.as_list()[0].as_string(), e.as_list()[1].as_bytes())).collect();
            let bytes = build_cfb(&clsid.as_bytes(), &es);
            Some(open_bytes(st, bytes))
        }
        _ => {
            if !matches!(
                name,
                "create_table" | "drop_table" | "insert" | "delete" | "update" | "select" | "tables" | "ptype" | "db_cp"
                    | "set_db_cp" | "streams" | "has_stream" | "read_stream" | "write_stream" | "remove_stream" | "has_sig"
                    | "remove_sig" | "sum_get" | "sum_set" | "sum_clear" | "flush" | "reopen" | "raw" | "rows" | "stream_data"
                    | "writes" | "snapshot" | "x_raw" | "x_insert_range" | "x_count" | "x_delete_range" | "x_read_seek" | "x_write_seek"
            ) {
                return None;
            }
            if name == "reopen" {
                if st.pkg.is_none() {
                    return Some(Sx::sym("nopkg"));
                }
                return Some(reopen(st, args[0].as_sym()));
            }
            if name == "raw" || name == "x_raw" {
                return Some(match &st.medium {
                    Some(m) => raw_sx(m.snapshot()),
                    None => Sx::sym("nopkg"),
                });
            }
            if name == "writes" {
                return Some(match &st.medium {
                    Some(m) => Sx::I(m.inner.borrow().writes as i128),
                    None => Sx::sym("nopkg"),
                });
            }
            let p = match st.pkg.as_mut() {
                Some(p) => p,
                None => return Some(Sx::sym("nopkg")),
            };
            Some(match (name, args) {
                // bulk helpers for the capacity boundaries (C20); judged by the oracle only ("x_": the model is silent)
                ("x_insert_range", [n, lo, hi, with_str]) => {
                    let mut q = Insert::into(n.as_string());
                    for k in lo.as_int()..=hi.as_int() {
                        let mut row = vec![msi::Value::Int(k as i32)];
                        match with_str.as_int() {
                            1 => row.push(msi::Value::Str(format!("s{}", k))),
                            2 => row.push(msi::Value::Null),
                            _ => {}
                        }
                        q = q.row(row);
                    }
                    unit_res(p.insert_rows(q))
                }
                ("x_count", [n]) => match p.select_rows(Select::table(n.as_string())) {
                    Ok(rows) => Sx::ok(Sx::I(rows.count() as i128)),
                    Err(_) => Sx::err(),
                },
                ("x_delete_range", [n, lo, hi]) => {
                    let cond = msi::Expr::col("K").ge(msi::Expr::integer(lo.as_int() as i32)).and(msi::Expr::col("K").le(msi::Expr::integer(hi.as_int() as i32)));
                    unit_res(p.delete_rows(Delete::from(n.as_string()).with(cond)))
                }
                ("create_table", [n, cols]) => {
                    unit_res(p.create_table(n.as_string(), cols.as_list().iter().map(sx_column).collect()))
                }
                ("drop_table", [n]) => unit_res(p.drop_table(&n.as_string())),
                ("insert", [n, rows]) => unit_res(p.insert_rows(sx_insert(n, rows))),
                ("delete", [n, c]) => unit_res(p.delete_rows(sx_delete(n, c))),
                ("update", [n, u, c]) => unit_res(p.update_rows(sx_update(n, u, c))),
                ("select", [s]) => select_sx(p, sx_select(s)),
                ("tables", []) => sorted_tables(p),
                ("ptype", []) => Sx::I(match p.package_type() {
                    PackageType::Installer => 0,
                    PackageType::Patch => 1,
                    PackageType::Transform => 2,
                }),
                ("db_cp", []) => Sx::I(p.database_codepage().id() as i128),
                ("set_db_cp", [i]) => {
                    p.set_database_codepage(CodePage::from_id(i.as_int() as i32).expect("harness: bad cp"));
                    Sx::unit()
                }
                ("streams", []) => {
                    let mut v: Vec<String> = p.streams().collect();
                    v.sort();
                    Sx::L(v.iter().map(|s| Sx::string(s)).collect())
                }
                ("has_stream", [n]) => Sx::boolean(p.has_stream(&n.as_string())),
                ("read_stream", [n]) => match p.read_stream(&n.as_string()) {
                    Ok(mut r) => {
                        let mut v = Vec::new();
                        match r.read_to_end(&mut v) {
                            Ok(_) => Sx::ok(Sx::bytes(&v)),
                            Err(_) => Sx::err(),
                        }
                    }
                    Err(_) => Sx::err(),
                },
                ("write_stream", [n, b]) => match p.write_stream(&n.as_string()) {
                    Ok(mut w) => {
                        let r = w.write_all(&b.as_bytes()).and_then(|_| w.flush());
                        unit_res(r)
                    }
                    Err(_) => Sx::err(),
                },
                // one StreamReader, used the way a parser of an embedded file uses it: reads interleaved with seeks
                ("x_read_seek", [n, ops]) => match p.read_stream(&n.as_string()) {
                    Ok(mut r) => {
                        use std::io::{Seek, SeekFrom};
                        let mut out = Vec::new();
                        for op in ops.as_list() {
                            let op = op.as_list();
                            let arg = if op.len() > 1 { op[1].as_int() } else { 0 };
                            let res = match op[0].as_sym() {
                                "r" => {
                                    let mut buf = vec![0u8; arg as usize];
                                    let mut got = 0usize;
                                    let mut failed = false;
                                    while got < buf.len() {
                                        match r.read(&mut buf[got..]) {
                                            Ok(0) => break,
                                            Ok(k) => got += k,
                                            Err(_) => {
                                                failed = true;
                                                break;
                                            }
                                        }
                                    }
                                    if failed {
                                        Sx::err()
                                    } else {
                                        Sx::bytes(&buf[..got])
                                    }
                                }
                                "s" => r.seek(SeekFrom::Start(arg as u64)).map(|x| Sx::I(x as i128)).unwrap_or_else(|_| Sx::err()),
                                "c" => r.seek(SeekFrom::Current(arg as i64)).map(|x| Sx::I(x as i128)).unwrap_or_else(|_| Sx::err()),
                                "e" => r.seek(SeekFrom::End(arg as i64)).map(|x| Sx::I(x as i128)).unwrap_or_else(|_| Sx::err()),
                                _ => r.stream_position().map(|x| Sx::I(x as i128)).unwrap_or_else(|_| Sx::err()),
                            };
                            out.push(res);
                        }
                        Sx::ok(Sx::L(out))
                    }
                    Err(_) => Sx::err(),
                },
                // write, ask for the position (a seek that stays inside the buffered window), flush, drop
                ("x_write_seek", [n, b]) => match p.write_stream(&n.as_string()) {
                    Ok(mut w) => {
                        use std::io::Seek;
                        let r = w.write_all(&b.as_bytes()).and_then(|_| w.stream_position()).and_then(|_| w.flush());
                        unit_res(r)
                    }
                    Err(_) => Sx::err(),
                },
                ("remove_stream", [n]) => unit_res(p.remove_stream(&n.as_string())),
                ("has_sig", []) => Sx::boolean(p.has_digital_signature()),
                ("remove_sig", []) => unit_res(p.remove_digital_signature()),
                ("sum_get", []) => summary_sx(p),
                ("sum_set", [prop, v]) => {
                    let s = p.summary_info_mut();
                    match prop.as_sym() {
                        "codepage" => s.set_codepage(CodePage::from_id(v.as_int() as i32).expect("harness: bad cp")),
                        "title" => s.set_title(v.as_string()),
                        "subject" => s.set_subject(v.as_string()),
                        "author" => s.set_author(v.as_string()),
                        "comments" => s.set_comments(v.as_string()),
                        "app" => s.set_creating_application(v.as_string()),
                        "arch" => s.set_arch(v.as_string()),
                        "langs" => {
                            let l: Vec<Language> = v.as_list().iter().map(|c| Language::from_code(c.as_int() as u16)).collect();
                            s.set_languages(&l)
                        }
                        "words" => s.set_word_count(v.as_int() as i32),
                        "ctime" => s.set_creation_time(system_time_of_ns(v.as_int()).expect("harness: time")),
                        "uuid" => {
                            let mut arr = [0u8; 16];
                            arr.copy_from_slice(&v.as_bytes());
                            s.set_uuid(Uuid::from_bytes(arr))
                        }
                        o => panic!("harness: bad summary property {}", o),
                    }
                    Sx::ok(Sx::unit())
                }
                ("sum_clear", [prop]) => {
                    let s = p.summary_info_mut();
                    match prop.as_sym() {
                        "title" => s.clear_title(),
                        "subject" => s.clear_subject(),
                        "author" => s.clear_author(),
                        "comments" => s.clear_comments(),
                        "app" => s.clear_creating_application(),
                        "arch" => s.clear_arch(),
                        "langs" => s.clear_languages(),
                        "words" => s.clear_word_count(),
                        "ctime" => s.clear_creation_time(),
                        "uuid" => s.clear_uuid(),
                        o => panic!("harness: bad summary property {}", o),
                    }
                    Sx::ok(Sx::unit())
                }
                ("flush", []) => unit_res(p.flush()),
                ("rows", []) => all_rows_sx(p),
                ("snapshot", []) => {
                    let pt = Sx::I(match p.package_type() {
                        PackageType::Installer => 0,
                        PackageType::Patch => 1,
                        PackageType::Transform => 2,
                    });
                    let cp = Sx::I(p.database_codepage().id() as i128);
                    let tabs = sorted_tables(p);
                    let rows = all_rows_sx(p);
                    let streams = stream_data_sx(p);
                    let sum = summary_sx(p);
                    Sx::L(vec![pt, cp, tabs, rows, streams, sum])
                }
                ("stream_data", []) => stream_data_sx(p),
                ("stream_data_old", []) => {
                    let mut v: Vec<String> = p.streams().collect();
                    v.sort();
                    let mut out = Vec::new();
                    for n in v {
                        let d = match p.read_stream(&n) {
                            Ok(mut r) => {
                                let mut b = Vec::new();
                                match r.read_to_end(&mut b) {
                                    Ok(_) => Sx::ok(Sx::bytes(&b)),
                                    Err(_) => Sx::err(),
                                }
                            }
                            Err(_) => Sx::err(),
                        };
                        out.push(Sx::L(vec![Sx::string(&n), d]));
                    }
                    Sx::L(out)
                }
                _ => panic!("harness: bad arguments for {}", name),
            })
        }
    }
}

/// C09: the FFI layer (ffi/src/lib.rs): write the current medium to a file under build/ and call get_information and
/// get_table for every table through the exported functions; a panic there would cross the C boundary
pub fn ffi_probe(st: &mut State) -> Sx {
    use safer_ffi::prelude::*;
    let bytes = match &st.medium {
        Some(m) => m.snapshot(),
        None => return Sx::sym("nopkg"),
    };
    let dir = std::env::var("MSI_VERIF_TMP").unwrap_or_else(|_| "/verif/build/tmp".to_string());
    let _ = std::fs::create_dir_all(&dir);
    let path = format!("{}/ffi-{}.msi", dir, std::process::id());
    if std::fs::write(&path, &bytes).is_err() {
        return Sx::sym("harness_error");
    }
    let names: Vec<String> = match st.pkg.as_ref() {
        Some(p) => p.tables().map(|t| t.name().to_string()).collect(),
        None => vec!["T".to_string(), "U".to_string(), "_Tables".to_string(), "_Columns".to_string(), "_Validation".to_string()],
    };
    // the exported functions are reached as a C caller reaches them: through their C symbols.  A panic inside them
    // cannot unwind across the C boundary: the process aborts, which the orchestrator attributes to this command.
    extern "C" {
        fn get_information(path: char_p::Ref<'_>) -> msi_ffi::MsiInformation;
        fn free_information(info: msi_ffi::MsiInformation);
        fn get_table(path: char_p::Ref<'_>, table_name: char_p::Ref<'_>) -> repr_c::Vec<repr_c::Vec<repr_c::String>>;
        fn free_table(table: repr_c::Vec<repr_c::Vec<repr_c::String>>);
    }
    let r = std::panic::catch_unwind(|| {
        let cpath = char_p::new(path.as_str());
        let mut rows = 0usize;
        unsafe {
            let info = get_information(cpath.as_ref());
            free_information(info);
            for n in names.iter().filter(|n| !n.contains('\0')) {
                // (a C caller cannot pass a name with an interior NUL)
                let cname = char_p::new(n.as_str());
                let t = get_table(cpath.as_ref(), cname.as_ref());
                rows += t.len();
                free_table(t);
            }
        }
        rows
    });
    let _ = std::fs::remove_file(&path);
    match r {
        Ok(n) => Sx::ok(Sx::I(n as i128)),
        Err(_) => Sx::panic(),
    }
}
