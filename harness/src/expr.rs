//! Expression commands (mirror coq/theories/ExprCmd.v).
use crate::sx::Sx;
use msi::{Expr, Value};

pub fn sx_value(s: &Sx) -> Value {
    match s {
        Sx::Y(y) if y == "null" => Value::Null,
        Sx::L(l) if l.len() == 2 && l[0] == Sx::sym("i") => Value::Int(l[1].as_int() as i32),
        Sx::L(l) if l.len() == 2 && l[0] == Sx::sym("s") => Value::Str(l[1].as_string()),
        _ => panic!("harness: bad value {}", s),
    }
}

pub fn value_sx(v: &Value) -> Sx {
    match v {
        Value::Null => Sx::sym("null"),
        Value::Int(i) => Sx::L(vec![Sx::sym("i"), Sx::I(*i as i128)]),
        Value::Str(s) => Sx::L(vec![Sx::sym("s"), Sx::string(s)]),
    }
}

/// Builds the expression through the public constructors (which fold literals).
pub fn sx_expr(s: &Sx) -> Expr {
    let l = s.as_list();
    match l[0].as_sym() {
        "lit" => match sx_value(&l[1]) {
            Value::Null => Expr::null(),
            Value::Int(i) => Expr::integer(i),
            Value::Str(st) => Expr::string(st),
        },
        "col" => Expr::col(l[1].as_string()),
        "un" => {
            let a = sx_expr(&l[2]);
            match l[1].as_sym() {
                "neg" => -a,
                "bitnot" => a.bitinv(),
                "not" => a.not(),
                o => panic!("harness: bad unop {}", o),
            }
        }
        "bin" => {
            let a = sx_expr(&l[2]);
            let b = sx_expr(&l[3]);
            match l[1].as_sym() {
                "eq" => a.eq(b),
                "ne" => a.ne(b),
                "lt" => a.lt(b),
                "le" => a.le(b),
                "gt" => a.gt(b),
                "ge" => a.ge(b),
                "add" => a + b,
                "sub" => a - b,
                "mul" => a * b,
                "div" => a / b,
                "band" => a & b,
                "bor" => a | b,
                "bxor" => a ^ b,
                "shl" => a << b,
                "shr" => a >> b,
                o => panic!("harness: bad binop {}", o),
            }
        }
        "and" => sx_expr(&l[1]).and(sx_expr(&l[2])),
        "or" => sx_expr(&l[1]).or(sx_expr(&l[2])),
        o => panic!("harness: bad expr {}", o),
    }
}

pub fn expr_cmd(name: &str, args: &[Sx]) -> Option<Sx> {
    match (name, args) {
        ("expr_eval", [e, r]) => {
            let mut names = Vec::new();
            let mut values = Vec::new();
            for p in r.as_list() {
                let p = p.as_list();
                names.push(p[0].as_string());
                values.push(sx_value(&p[1]));
            }
            let row = msi::verif_hooks::make_row("T", &names, values);
            let expr = sx_expr(e);
            Some(Sx::ok(value_sx(&expr.eval(&row))))
        }
        // ONE expression object evaluated on rows of several layouts, one after the other
        ("x_expr_eval_rows", [e, rows]) => {
            let expr = sx_expr(e);
            let mut out = Vec::new();
            for r in rows.as_list() {
                let mut names = Vec::new();
                let mut values = Vec::new();
                for p in r.as_list() {
                    let p = p.as_list();
                    names.push(p[0].as_string());
                    values.push(sx_value(&p[1]));
                }
                let row = msi::verif_hooks::make_row("T", &names, values);
                out.push(value_sx(&expr.eval(&row)));
            }
            Some(Sx::ok(Sx::L(out)))
        }
        ("expr_text", [e]) => Some(Sx::ok(Sx::string(&sx_expr(e).to_string()))),
        ("expr_cols", [e]) => {
            let expr = sx_expr(e);
            let mut names: Vec<String> = expr.column_names().into_iter().map(|s| s.to_string()).collect();
            names.sort();
            Some(Sx::L(names.iter().map(|n| Sx::string(n)).collect()))
        }
        _ => None,
    }
}
