//! A shared in-memory medium with write/read/seek counters and fault injection.
use std::cell::RefCell;
use std::io::{self, Read, Seek, SeekFrom, Write};
use std::rc::Rc;

#[derive(Default)]
pub struct Inner {
    pub data: Vec<u8>,
    pub writes: u64,
    pub reads: u64,
    pub seeks: u64,
    pub flushes: u64,
    /// fail write number k (0-based count of write calls since arming); persistent = k and all later
    pub fail_write_at: Option<(u64, bool)>,
    pub fail_read_at: Option<u64>,
    pub fail_seek_at: Option<u64>,
    pub armed_writes: u64,
    pub armed_reads: u64,
    pub armed_seeks: u64,
    pub faults_hit: u64,
}

#[derive(Clone, Default)]
pub struct Medium {
    pub inner: Rc<RefCell<Inner>>,
    pos: u64,
}

impl Medium {
    pub fn new(data: Vec<u8>) -> Medium {
        let m = Medium::default();
        m.inner.borrow_mut().data = data;
        m
    }
    pub fn snapshot(&self) -> Vec<u8> {
        self.inner.borrow().data.clone()
    }
    pub fn handle(&self) -> Rc<RefCell<Inner>> {
        self.inner.clone()
    }
}

fn fault() -> io::Error {
    io::Error::new(io::ErrorKind::Other, "injected fault")
}

impl Read for Medium {
    fn read(&mut self, buf: &mut [u8]) -> io::Result<usize> {
        let mut g = self.inner.borrow_mut();
        g.reads += 1;
        if let Some(k) = g.fail_read_at {
            let n = g.armed_reads;
            g.armed_reads += 1;
            if n == k {
                g.faults_hit += 1;
                return Err(fault());
            }
        }
        let len = g.data.len() as u64;
        if self.pos >= len {
            return Ok(0);
        }
        let n = std::cmp::min(buf.len() as u64, len - self.pos) as usize;
        buf[..n].copy_from_slice(&g.data[self.pos as usize..self.pos as usize + n]);
        self.pos += n as u64;
        Ok(n)
    }
}

impl Write for Medium {
    fn write(&mut self, buf: &[u8]) -> io::Result<usize> {
        let mut g = self.inner.borrow_mut();
        g.writes += 1;
        if let Some((k, persistent)) = g.fail_write_at {
            let n = g.armed_writes;
            g.armed_writes += 1;
            if n == k || (persistent && n > k) {
                g.faults_hit += 1;
                return Err(fault());
            }
        }
        let end = self.pos as usize + buf.len();
        if g.data.len() < end {
            g.data.resize(end, 0);
        }
        g.data[self.pos as usize..end].copy_from_slice(buf);
        self.pos = end as u64;
        Ok(buf.len())
    }
    fn flush(&mut self) -> io::Result<()> {
        self.inner.borrow_mut().flushes += 1;
        Ok(())
    }
}

impl Seek for Medium {
    fn seek(&mut self, from: SeekFrom) -> io::Result<u64> {
        let mut g = self.inner.borrow_mut();
        g.seeks += 1;
        if let Some(k) = g.fail_seek_at {
            let n = g.armed_seeks;
            g.armed_seeks += 1;
            if n == k {
                g.faults_hit += 1;
                return Err(fault());
            }
        }
        let len = g.data.len() as i128;
        let new = match from {
            SeekFrom::Start(p) => p as i128,
            SeekFrom::End(d) => len + d as i128,
            SeekFrom::Current(d) => self.pos as i128 + d as i128,
        };
        if new < 0 {
            return Err(io::Error::new(io::ErrorKind::InvalidInput, "seek before start"));
        }
        self.pos = new as u64;
        Ok(self.pos)
    }
}
