//! Stateless commands: each mirrors a clause of `pure_cmd` in coq/theories/Dispatch.v.
use crate::sx::Sx;
use msi::verif_hooks as hooks;
use std::time::{Duration, SystemTime, UNIX_EPOCH};

/// nanoseconds relative to the Unix epoch -> SystemTime (None if outside the platform range)
pub fn system_time_of_ns(t: i128) -> Option<SystemTime> {
    let abs = t.unsigned_abs();
    let secs = (abs / 1_000_000_000) as u64;
    let nanos = (abs % 1_000_000_000) as u32;
    if abs / 1_000_000_000 > u64::MAX as u128 {
        return None;
    }
    let d = Duration::new(secs, nanos);
    if t >= 0 {
        UNIX_EPOCH.checked_add(d)
    } else {
        UNIX_EPOCH.checked_sub(d)
    }
}

pub fn ns_of_system_time(time: SystemTime) -> i128 {
    match time.duration_since(UNIX_EPOCH) {
        Ok(d) => d.as_nanos() as i128,
        Err(e) => -(e.duration().as_nanos() as i128),
    }
}

pub fn pure_cmd(name: &str, args: &[Sx]) -> Option<Sx> {
    match (name, args) {
        ("time_from", [Sx::I(t)]) => {
            let st = system_time_of_ns(*t).expect("harness: time outside platform range");
            Some(Sx::I(hooks::timestamp_from_system_time(st) as i128))
        }
        ("time_to", [Sx::I(k)]) => {
            Some(Sx::I(ns_of_system_time(hooks::timestamp_to_system_time(*k as u64))))
        }
        ("time_rt", [Sx::I(t)]) => {
            // through the public API only
            let st = system_time_of_ns(*t).expect("harness: time outside platform range");
            let cursor = std::io::Cursor::new(Vec::new());
            let mut package = msi::Package::create(msi::PackageType::Installer, cursor).unwrap();
            package.summary_info_mut().set_creation_time(st);
            let got = package.summary_info().creation_time().unwrap();
            Some(Sx::I(ns_of_system_time(got)))
        }
        ("lang_from_tag", [t]) => Some(Sx::I(msi::Language::from_tag(&t.as_string()).code() as i128)),
        ("lang_tag", [c]) => Some(Sx::string(msi::Language::from_code(c.as_int() as u16).tag())),
        _ => None,
    }
}
