//! Runs a command script against the real library (/repo's working tree).
//! stdin: one s-expression per line; stdout: one observation per line.
use msi_verif_harness::codepage::codepage_cmd;
use msi_verif_harness::column::column_cmd;
use msi_verif_harness::expr::expr_cmd;
use msi_verif_harness::package::pkg_cmd;
use msi_verif_harness::pure::pure_cmd;
use msi_verif_harness::state::State;
use msi_verif_harness::sx::{parse, Sx};
use std::io::{BufRead, Write};
use std::panic::{catch_unwind, AssertUnwindSafe};

fn dispatch(st: &mut State, cmd: &Sx) -> Sx {
    let items = cmd.as_list();
    let name = items[0].as_sym().to_string();
    let args = &items[1..];
    if let Some(o) = pure_cmd(&name, args) {
        return o;
    }
    if let Some(o) = expr_cmd(&name, args) {
        return o;
    }
    if let Some(o) = column_cmd(&name, args) {
        return o;
    }
    if let Some(o) = codepage_cmd(&name, args) {
        return o;
    }
    if name == "profile" {
        return Sx::unit();
    }
    if let Some(o) = pkg_cmd(st, &name, args) {
        return o;
    }
    Sx::sym("badcmd")
}

fn main() {
    let show = std::env::var("MSI_VERIF_SHOW_PANICS").is_ok();
    let default_hook = std::panic::take_hook();
    std::panic::set_hook(Box::new(move |info| {
        if let Some(l) = info.location() {
            if let Ok(mut g) = msi_verif_harness::state::LAST_PANIC.lock() {
                *g = format!("{}:{}", l.file(), l.line());
            }
        }
        if show {
            default_hook(info);
        }
    }));
    let stdin = std::io::stdin();
    let stdout = std::io::stdout();
    let mut out = std::io::BufWriter::new(stdout.lock());
    let mut st = State::new();
    for line in stdin.lock().lines() {
        let line = line.unwrap();
        if line.is_empty() {
            continue;
        }
        if line == "(reset)" {
            st = State::new();
            writeln!(out, "(reset)").unwrap();
            out.flush().unwrap();
            continue;
        }
        // everything printed so far must be out before a command that may abort the process
        out.flush().unwrap();
        let cmd = parse(&line);
        let res = catch_unwind(AssertUnwindSafe(|| dispatch(&mut st, &cmd)));
        match res {
            Ok(o) => writeln!(out, "{}", o).unwrap(),
            Err(e) => {
                let msg = if let Some(s) = e.downcast_ref::<String>() {
                    s.clone()
                } else if let Some(s) = e.downcast_ref::<&str>() {
                    s.to_string()
                } else {
                    String::new()
                };
                if msg.starts_with("harness:") {
                    writeln!(out, "(harness_error)").unwrap();
                } else {
                    writeln!(out, "panic").unwrap();
                }
            }
        }
    }
    out.flush().unwrap();
}
