pub mod sx;
pub mod pure;
pub mod state;
pub mod expr;
pub mod column;
pub mod codepage;
pub mod medium;
pub mod package;
