(* C14 (single-byte pages) -- statements only; proofs in theories/SingleByteProofs.v.
   The 128-entry index tables are regenerated from the encoding_rs release pinned by Cargo.lock (gen/GenSingleByte.v);
   the wiring code page -> encoding from codepage.rs (gen/GenCodePage.v). *)
From MsiModel Require Import Base CodePage CodePageProofs SingleByteSpec SingleByteProofs.
From MsiGen Require Import GenCodePage GenSingleByte.
Open Scope N_scope.

(* every table of the pinned encoding_rs release is well formed (finite: vm_compute) *)
Theorem C14_sb_tables_ok :
  forallb (fun p => sb_table_ok (snd p)) SB_TABLES = true.
Proof. exact sb_tables_ok. Qed.
Print Assumptions C14_sb_tables_ok.

(* every code page that codepage.rs wires to a single-byte encoding has its table, and it is well formed *)
Theorem C14_sb_wiring :
  forallb wired_ok CP_ENCODING = true.
Proof. exact sb_wiring. Qed.
Print Assumptions C14_sb_wiring.

(* C14, first clause, for EVERY character and any well-formed table: the byte decodes back to the character, or it is '?' *)
Theorem C14_sb_char_law :
  forall t c, sb_table_ok t = true -> sb_dec1 t (sb_enc1 t c) = c \/ sb_enc1 t c = CP_REPLACEMENT.
Proof. exact sb_char_law. Qed.
Print Assumptions C14_sb_char_law.

(* representable characters are never replaced *)
Theorem C14_sb_repr_exact :
  forall t c, sb_table_ok t = true -> sb_repr t c -> sb_dec1 t (sb_enc1 t c) = c.
Proof. exact sb_repr_exact. Qed.
Print Assumptions C14_sb_repr_exact.

(* and unrepresentable ones always are *)
Theorem C14_sb_unrepr :
  forall t c, sb_table_ok t = true -> ~ sb_repr t c -> sb_enc1 t c = CP_REPLACEMENT.
Proof. exact sb_unrepr. Qed.
Print Assumptions C14_sb_unrepr.

(* every produced byte is a byte *)
Theorem C14_sb_byte :
  forall t c, sb_table_ok t = true -> sb_enc1 t c < 256.
Proof. exact sb_byte. Qed.
Print Assumptions C14_sb_byte.

(* strings of every length *)
Theorem C14_sb_roundtrip :
  forall t s, sb_table_ok t = true -> Forall (sb_repr t) s -> sb_decode t (sb_encode t s) = s.
Proof. exact sb_roundtrip. Qed.
Print Assumptions C14_sb_roundtrip.

Theorem C14_sb_concat :
  forall t a b, sb_encode t (a ++ b) = sb_encode t a ++ sb_encode t b.
Proof. exact sb_concat. Qed.
Print Assumptions C14_sb_concat.

Theorem C14_sb_flat :
  forall t s, sb_encode t s = flat_map (fun c => sb_encode t [c]) s.
Proof. exact sb_flat. Qed.
Print Assumptions C14_sb_flat.

Theorem C14_sb_decode_len :
  forall t b, length (sb_decode t b) = length b.
Proof. exact sb_decode_len. Qed.
Print Assumptions C14_sb_decode_len.

(* decoding accepts any bytes: every byte yields a scalar value *)
Theorem C14_sb_decode_scalar :
  forall t b, sb_table_ok t = true -> forallb is_scalar (sb_decode t b) = true.
Proof. exact sb_decode_scalar. Qed.
Print Assumptions C14_sb_decode_scalar.

Theorem C14_sb_loop :
  forall t room fuel s, 0 < room -> room <= CP_ENCODE_BUFFER -> 1 <= room ->
  (length s < fuel)%nat -> enc_loop (sb_enc1opt t) room fuel s = Some (sb_encode t s).
Proof. exact sb_loop. Qed.
Print Assumptions C14_sb_loop.

(* at code page level *)
Theorem C14_cp_sb :
  forall c t, sb_table c = Some t -> str_eqb c cp_ascii = false -> str_eqb c cp_utf8 = false ->
  (forall s, cp_encode c s = Some (sb_encode t s)) /\ (forall b, cp_decode c b = Some (sb_decode t b)).
Proof. exact cp_sb. Qed.
Print Assumptions C14_cp_sb.

Theorem C14_cp_sb_roundtrip :
  forall c t s, sb_table c = Some t -> sb_table_ok t = true ->
  str_eqb c cp_ascii = false -> str_eqb c cp_utf8 = false -> Forall (sb_repr t) s ->
  exists b, cp_encode c s = Some b /\ cp_decode c b = Some s.
Proof. exact cp_sb_roundtrip. Qed.
Print Assumptions C14_cp_sb_roundtrip.

Theorem C14_sb_example :
  exists t, sb_table cp_1252 = Some t /\ sb_table_ok t = true /\
  cp_encode cp_1252 [233; 8364; 65; 256] = Some [233; 128; 65; 63] /\ cp_decode cp_1252 [233; 128; 65; 63] = Some [233; 8364; 65; 63].
Proof. exact sb_example. Qed.
Print Assumptions C14_sb_example.
