(* C13 -- Expression evaluation is total and follows the documented operators.
   Statements only; proofs in theories/ExprProofs.v. *)
From MsiModel Require Import Base Value Expr ExprProofs.
Open Scope Z_scope.

(* never a panic on a row that has the referenced columns *)
Theorem C13_total : forall r e, has_columns r e -> exists v, eval r e = Ok v.
Proof. exact eval_total. Qed.
(* results are 32-bit two's-complement integers (or null / strings) *)
Theorem C13_range : forall r e v, row_ok r = true -> ast_ok e = true -> eval r e = Ok v -> value_ok v = true.
Proof. exact eval_ok. Qed.
(* constant folding at construction is invisible; building is a total function
   (mk_unop / mk_binop / build return plain values, there is no Panic to return) *)
Theorem C13_fold : forall r e, eval r (build e) = eval r e.
Proof. exact build_eval. Qed.
Theorem C13_literal_vs_lazy : forall r e, has_columns r e ->
  eval r (build (subst r e)) = eval r (build e).
Proof. exact literal_vs_lazy. Qed.

(* the operator table *)
Theorem C13_add : forall a b, binop_eval OAdd (VInt a) (VInt b) = VInt (wrap32 (a + b)).
Proof. exact op_add. Qed.
Theorem C13_sub : forall a b, binop_eval OSub (VInt a) (VInt b) = VInt (wrap32 (a - b)).
Proof. exact op_sub. Qed.
Theorem C13_mul : forall a b, binop_eval OMul (VInt a) (VInt b) = VInt (wrap32 (a * b)).
Proof. exact op_mul. Qed.
Theorem C13_concat : forall a b, binop_eval OAdd (VStr a) (VStr b) = VStr (a ++ b).
Proof. exact op_concat. Qed.
Theorem C13_div_zero : forall v, binop_eval ODiv v (VInt 0) = VNull.
Proof. exact op_div_zero. Qed.
Theorem C13_div : forall a b, b <> 0 -> ~ (a = i32_min /\ b = -1) ->
  binop_eval ODiv (VInt a) (VInt b) = VInt (Z.quot a b).
Proof. exact op_div. Qed.
Theorem C13_div_overflow : binop_eval ODiv (VInt i32_min) (VInt (-1)) = VNull.
Proof. exact op_div_overflow. Qed.
Theorem C13_neg : forall a, unop_eval Neg (VInt a) = VInt (wrap32 (- a)).
Proof. exact op_neg. Qed.
Theorem C13_bitnot : forall a, unop_eval BitNot (VInt a) = VInt (wrap32 (- a - 1)).
Proof. exact op_bitnot. Qed.
Theorem C13_shl : forall a b, 0 <= b < 32 -> binop_eval OShl (VInt a) (VInt b) = VInt (wrap32 (a * 2 ^ b)).
Proof. exact op_shl. Qed.
Theorem C13_shr : forall a b, 0 <= b < 32 -> binop_eval OShr (VInt a) (VInt b) = VInt (a / 2 ^ b).
Proof. exact op_shr. Qed.
Theorem C13_shift_range : forall a b, ~ (0 <= b < 32) ->
  (binop_eval OShl (VInt a) (VInt b) = VNull) /\ (binop_eval OShr (VInt a) (VInt b) = VNull).
Proof. exact op_shift_range. Qed.
Theorem C13_bits : forall a b,
  binop_eval OBitAnd (VInt a) (VInt b) = VInt (wrap32 (Z.land a b)) /\
  binop_eval OBitOr (VInt a) (VInt b) = VInt (wrap32 (Z.lor a b)) /\
  binop_eval OBitXor (VInt a) (VInt b) = VInt (wrap32 (Z.lxor a b)).
Proof. exact op_bits. Qed.
Theorem C13_wrong_type : forall op v1 v2, arith op = true -> is_int v1 && is_int v2 = false ->
  binop_eval op v1 v2 = VNull.
Proof. exact op_wrong_type. Qed.
Theorem C13_add_wrong_type : forall v1 v2,
  (forall a b, (v1, v2) <> (VInt a, VInt b)) -> (forall a b, (v1, v2) <> (VStr a, VStr b)) ->
  binop_eval OAdd v1 v2 = VNull.
Proof. exact op_add_wrong_type. Qed.
Theorem C13_neg_wrong_type : forall v, is_int v = false ->
  (unop_eval Neg v = VNull) /\ (unop_eval BitNot v = VNull).
Proof. exact op_neg_wrong_type. Qed.
Theorem C13_cmp : forall v1 v2,
  binop_eval OEq v1 v2 = from_bool (value_eqb v1 v2) /\
  binop_eval ONe v1 v2 = from_bool (negb (value_eqb v1 v2)) /\
  binop_eval OLt v1 v2 = from_bool (value_ltb v1 v2) /\
  binop_eval OLe v1 v2 = from_bool (value_leb v1 v2) /\
  binop_eval OGt v1 v2 = from_bool (value_ltb v2 v1) /\
  binop_eval OGe v1 v2 = from_bool (value_leb v2 v1).
Proof. exact op_cmp. Qed.
Theorem C13_truthiness : to_bool VNull = false /\ to_bool (VInt 0) = false /\ to_bool (VStr []) = false /\
  (forall z, z <> 0 -> to_bool (VInt z) = true) /\ (forall c s, to_bool (VStr (c :: s)) = true).
Proof. exact truthiness. Qed.
Theorem C13_and : forall r a b va, eval r a = Ok va ->
  eval r (And a b) = if to_bool va then rmap (fun vb => from_bool (to_bool vb)) (eval r b) else Ok (VInt 0).
Proof. exact op_and. Qed.
Theorem C13_or : forall r a b va, eval r a = Ok va ->
  eval r (Or a b) = if to_bool va then Ok (VInt 1) else rmap (fun vb => from_bool (to_bool vb)) (eval r b).
Proof. exact op_or. Qed.
Theorem C13_not : forall v, unop_eval BoolNot v = from_bool (negb (to_bool v)).
Proof. exact op_not. Qed.

Check C13_total : forall r e, has_columns r e -> exists v, eval r e = Ok v.
Check C13_fold : forall r e, eval r (build e) = eval r e.
Print Assumptions C13_total.
Print Assumptions C13_range.
Print Assumptions C13_literal_vs_lazy.
