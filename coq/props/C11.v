(* C11 -- Binary streams keep their names and contents, apart from the tables.
   The name codec is injective on the names the library accepts and is inverted by decode; under the container's
   case-insensitive comparison two accepted names collide only if they are identical; an encoded stream name is never
   a table stream, never the pool / summary / signature entries; the stream interface refines a finite map
   (write/read/remove/has with the frame); rejected calls change nothing; no stream call panics for ANY name;
   removing the digital signature removes exactly the two signature entries.
   Container = name -> bytes map with cfb's comparison modelled over ASCII (DESIGN 2.3); cfb's Unicode upper-casing of
   non-ASCII letters is outside the model (names equal under it are excluded by the property itself).
   Statements only; every proof is `exact <lemma>` from theories/. *)
From MsiModel Require Import Base Sexp Value Expr Category Column CodePage Pool Table Container StreamName StreamNameProofs Propset Summary Query Package StreamProofs PoolProofs TableProofs QueryProofs DbInv CatalogProofs PropsetCodecProofs PackageProofs PkgInv UpdateRefine PkgInv2 InsertRefine DeleteRefine DmlPkgProofs DropTableProofs MiscOpsProofs ReopenProofs CreateTableLemmas CreateTableProofs Reach ReachStreams.
From MsiGen Require Import GenConsts GenStreamName.
Open Scope N_scope.

(* packing ranges, table marker, 31-unit limit: the ones in streamname.rs now *)
Theorem C11_constants :
  TABLE_PREFIX = 18496 /\
         SN_PAIR_LO = 14336 /\
         SN_PAIR_HI = 18432 /\
         SN_SINGLE_LO = 18432 /\
         SN_SINGLE_HI = 18496 /\
         SN_ENC_PAIR_BASE = 14336 /\ SN_ENC_SHIFT = 6 /\ SN_ENC_SINGLE_BASE = 18432 /\ SN_MAX_UNITS = 31.
Proof. exact sn_constants_pinned. Qed.

(* is_valid refuses the packing range U+3800..U+4840 and / \ : ! *)
Theorem C11_reserved :
  SN_RESERVED_RANGES = [(14336, 18496)] /\ SN_RESERVED_CHARS = [47; 92; 58; 33].
Proof. exact sn_reserved_pinned. Qed.

(* decode (encode n) = n for every accepted name (stream or table) *)
Theorem C11_codec :
  forall (n : str) (b : bool), sn_is_valid n b = true -> sn_decode (sn_encode n b) = (n, b).
Proof. exact sn_roundtrip_valid. Qed.

(* distinct names have distinct encodings *)
Theorem C11_injective :
  forall (n1 : list N) (b1 : bool) (n2 : list N) (b2 : bool),
         Forall safe n1 ->
         Forall safe n2 -> n1 <> [] -> n2 <> [] -> sn_encode n1 b1 = sn_encode n2 b2 -> n1 = n2 /\ b1 = b2.
Proof. exact sn_encode_injective. Qed.

(* ... also under the container's case-insensitive comparison *)
Theorem C11_no_collision :
  forall n1 n2 : str,
         sn_is_valid n1 false = true ->
         sn_is_valid n2 false = true -> name_eqb (sn_encode n1 false) (sn_encode n2 false) = true -> n1 = n2.
Proof. exact encoded_name_eqb. Qed.

(* never a protected name, never starts with the table marker, never contains '/' *)
Theorem C11_never_protected :
  forall n : str,
         sn_is_valid n false = true ->
         ~ In (sn_encode n false) protected_names /\
         (forall (c : N) (r : list N), sn_encode n false = c :: r -> c <> TABLE_PREFIX) /\ ~ In 47 (sn_encode n false).
Proof. exact sn_never_protected. Qed.

(* no accepted stream name resolves to any table stream (incl. _StringPool, _StringData, catalog tables) *)
Theorem C11_not_table :
  forall n tn : str, sn_is_valid n false = true -> name_eqb (sn_encode n false) (sn_encode tn true) = false.
Proof. exact stream_not_table. Qed.

(* ... nor to summary information / signature entries *)
Theorem C11_not_protected :
  forall n p : str, sn_is_valid n false = true -> In p protected_names -> name_eqb (sn_encode n false) p = false.
Proof. exact stream_not_protected. Qed.

(* the container is a finite map under its comparison *)
Theorem C11_find_put :
  forall (l : list (str * bytes)) (n : str) (b : bytes) (n' : str),
         ct_find (ct_put l n b) n' = (if name_eqb n n' then Some b else ct_find l n').
Proof. exact find_put. Qed.

Theorem C11_find_remove :
  forall (c : container) (n : str) (c' : container) (n' : str),
         ct_remove c n = Ok c' ->
         ct_find (ct_entries c') n' = (if name_eqb n n' then None else ct_find (ct_entries c) n').
Proof. exact find_remove. Qed.

(* a stream reads back the bytes last written; every other name is unaffected *)
Theorem C11_write_then_read :
  forall (k : pkg) (n : str) (b : bytes) (k' : pkg),
         pkg_write_stream k n b = (k', Ok tt) ->
         pkg_read_stream k' n = Ok b /\
         pkg_has_stream k' n = true /\
         (forall n' : str,
          sn_is_valid n' false = true ->
          n' <> n -> pkg_read_stream k' n' = pkg_read_stream k n' /\ pkg_has_stream k' n' = pkg_has_stream k n').
Proof. exact write_then_read. Qed.

Theorem C11_remove_then_read :
  forall (k : pkg) (n : str) (k' : pkg),
         pkg_remove_stream k n = (k', Ok tt) ->
         pkg_read_stream k' n = Err /\
         pkg_has_stream k' n = false /\
         (forall n' : str,
          sn_is_valid n' false = true ->
          n' <> n -> pkg_read_stream k' n' = pkg_read_stream k n' /\ pkg_has_stream k' n' = pkg_has_stream k n').
Proof. exact remove_then_read. Qed.

(* streams() lists exactly the accepted names whose entry exists (entries in packed form, as the library writes them) *)
Theorem C11_listing :
  forall (k : pkg) (n : str),
         sn_is_valid n false = true ->
         NoDup (map name_key (ct_names (k_cont k))) ->
         (forall m : str, In m (ct_names (k_cont k)) -> entry_canonical m) ->
         In n (pkg_streams k) <-> (exists m : str, In m (ct_names (k_cont k)) /\ m = sn_encode n false).
Proof. exact streams_listing. Qed.

Theorem C11_listing_has :
  forall (k : pkg) (n : str),
         sn_is_valid n false = true ->
         (forall m : str, In m (ct_names (k_cont k)) -> entry_canonical m) ->
         In n (pkg_streams k) -> pkg_has_stream k n = true.
Proof. exact streams_listing_has_stream. Qed.

(* a rejected stream call changes nothing *)
Theorem C11_err_noop :
  forall (k : pkg) (n : str) (b : bytes) (k1 k2 : pkg),
         (pkg_write_stream k n b = (k1, Err) -> k1 = k) /\ (pkg_remove_stream k n = (k2, Err) -> k2 = k).
Proof. exact stream_err_noop. Qed.

(* no stream call panics, whatever the name *)
Theorem C11_total :
  forall (k : pkg) (n : str) (b : bytes),
         pkg_read_stream k n <> Panic /\ snd (pkg_write_stream k n b) <> Panic /\ snd (pkg_remove_stream k n) <> Panic.
Proof. exact stream_total. Qed.

(* table streams, pool, summary, signatures untouched by stream calls *)
Theorem C11_frame :
  forall (k : pkg) (n : str) (b : bytes) (k' : pkg) (s : str),
         pkg_write_stream k n b = (k', Ok tt) \/ pkg_remove_stream k n = (k', Ok tt) ->
         In s protected_names \/ (exists tn : str, s = sn_encode tn true) ->
         ct_find (ct_entries (k_cont k')) s = ct_find (ct_entries (k_cont k)) s.
Proof. exact stream_ops_frame. Qed.

(* removing the signature leaves every other entry alone *)
Theorem C11_signature_frame :
  forall (k : pkg) (s : str),
         name_eqb s DIGITAL_SIGNATURE_STREAM_NAME = false ->
         name_eqb s MSI_DIGITAL_SIGNATURE_EX_STREAM_NAME = false ->
         ct_find (ct_entries (k_cont (pkg_remove_signature k))) s = ct_find (ct_entries (k_cont k)) s.
Proof. exact remove_signature_frame. Qed.

Theorem C11_signature_removed :
  forall k : pkg, pkg_has_signature (pkg_remove_signature k) = false.
Proof. exact remove_signature_removes. Qed.

(* on every reachable package each container entry is a protected entry, a table / pool stream, or the packed form of a valid stream name; entry names are pairwise distinct *)
Theorem C11_reachable_entries :
  forall (prof : profile) (k : pkg),
         reachable prof k -> entries_accounted k /\ NoDup (map name_key (ct_names (k_cont k))).
Proof. exact reachable_entries_accounted. Qed.

(* hence streams() lists exactly the names for which has_stream holds *)
Theorem C11_reachable_listing :
  forall (prof : profile) (k : pkg) (n : str),
         reachable prof k -> In n (pkg_streams k) <-> pkg_has_stream k n = true.
Proof. exact reachable_listing. Qed.

Theorem C11_reachable_listing_nodup :
  forall (prof : profile) (k : pkg), reachable prof k -> NoDup (pkg_streams k).
Proof. exact reachable_listing_nodup. Qed.

Print Assumptions C11_constants.
Print Assumptions C11_reserved.
Print Assumptions C11_codec.
Print Assumptions C11_injective.
Print Assumptions C11_no_collision.
Print Assumptions C11_never_protected.
Print Assumptions C11_not_table.
Print Assumptions C11_not_protected.
Print Assumptions C11_find_put.
Print Assumptions C11_find_remove.
Print Assumptions C11_write_then_read.
Print Assumptions C11_remove_then_read.
Print Assumptions C11_listing.
Print Assumptions C11_listing_has.
Print Assumptions C11_err_noop.
Print Assumptions C11_total.
Print Assumptions C11_frame.
Print Assumptions C11_signature_frame.
Print Assumptions C11_signature_removed.
Print Assumptions C11_reachable_entries.
Print Assumptions C11_reachable_listing.
Print Assumptions C11_reachable_listing_nodup.
