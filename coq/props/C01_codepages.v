(* C01 (code pages) -- statements only; proofs in theories/CodecPages.v.  The string pool and the summary property set written under ANY single-byte code page read back exactly (the UTF-8 versions are C01_pool_codec / C01_summary_codec). *)
From MsiModel Require Import Base CodePage CodePageProofs SingleByteSpec SingleByteProofs Pool PoolProofs Propset PropsetCodecProofs CodecPagesSpec CodecPages.
From MsiGen Require Import GenCodePage GenSingleByte GenConsts.
Open Scope N_scope.

Theorem C01_pool_roundtrip_sb :
  forall (p : pool) (c : codepage) (t : list N),
  cp_single c t -> p_cp p = c -> pool_wf_sb t p ->
  exists pb db : bytes, write_pool p = Some pb /\ write_data p = Some db /\ read_pool pb db = Ok (pool_mark_unmodified p).
Proof. exact pool_roundtrip_sb. Qed.
Print Assumptions C01_pool_roundtrip_sb.

Theorem C01_sb_encoded_length :
  forall t s, nlen (sb_encode t s) = nlen s.
Proof. exact sb_encoded_length. Qed.
Print Assumptions C01_sb_encoded_length.

Theorem C01_ps_roundtrip_sb :
  forall (t : list N) (ps : propset),
  ps_ok_sb t ps -> exists b : bytes, ps_write ps = Some b /\ ps_read b = Ok ps.
Proof. exact ps_roundtrip_sb. Qed.
Print Assumptions C01_ps_roundtrip_sb.

Theorem C01_codec_pages_example :
  exists t, cp_single cp_1252 t /\
    pool_wf_sb t {| p_cp := cp_1252; p_strings := [([233; 8364; 65], 2); ([], 0); ([255; 254], 1)]; p_long := false; p_mod := false |} /\
    ps_ok_sb t {| ps_os := 2; ps_os_version := 10; ps_clsid := repeat 0 16; ps_fmtid := FMTID; ps_cp := cp_1252;
                  ps_props := [(1, PI2 1252%Z); (2, PStr [233; 8364]); (4, PStr [255; 254; 65])] |}.
Proof. exact codec_pages_example. Qed.
Print Assumptions C01_codec_pages_example.
