(* C01 (single-byte database code pages) -- statements only; proofs in theories/ReopenPages.v.
   For every state satisfying the package invariant -- in particular every package reachable through the API -- whose
   pool strings are representable in a single-byte page c: set_database_codepage(c), save, reopen shows exactly what was
   observable before closing, the reopened package has code page c, and saving it again changes nothing. *)
From MsiModel Require Import Base Value CodePage CodePageProofs SingleByteSpec SingleByteProofs Pool PoolProofs Propset
  PropsetCodecProofs CodecPagesSpec CodecPages Table Container Package PkgInv PkgInv2 CreateTableProofs ReopenLemmas ReopenProofs Reach
  ReopenPagesSpec ReopenPages HistoryPagesSpec HistoryPages.
From MsiGen Require Import GenCodePage GenSingleByte GenConsts.
Open Scope N_scope.

Theorem C01_reopen_roundtrip_pages :
  forall prof k c t,
  PInv prof k -> cp_single c t -> pool_repr t (k_pool k) ->
  exists k1 k2, pkg_flush (pkg_set_db_codepage k c) = Some k1 /\ pkg_open prof (k_cont k1) = Ok k2 /\
    same_obs prof (pkg_set_db_codepage k c) k2 /\ same_obs prof (pkg_set_db_codepage k c) k1 /\
    p_cp (k_pool k2) = c /\ pkg_flush k2 = Some k2.
Proof. exact reopen_roundtrip_pages. Qed.
Print Assumptions C01_reopen_roundtrip_pages.

(* for every package reachable through the API (Reach.reachable) *)
Theorem C01_reachable_roundtrip_pages :
  forall prof k c t,
  reachable prof k -> cp_single c t -> pool_repr t (k_pool k) ->
  exists k1 k2, pkg_flush (pkg_set_db_codepage k c) = Some k1 /\ pkg_open prof (k_cont k1) = Ok k2 /\
    same_obs prof (pkg_set_db_codepage k c) k2 /\ same_obs prof (pkg_set_db_codepage k c) k1 /\
    p_cp (k_pool k2) = c /\ pkg_flush k2 = Some k2.
Proof. exact reachable_roundtrip_pages. Qed.
Print Assumptions C01_reachable_roundtrip_pages.

(* non-vacuity: a freshly created package (ASCII catalog strings only) is representable in every single-byte page *)
Theorem C01_fresh_pool_repr :
  forall prof ty k t, pkg_create prof ty = Ok k -> sb_table_ok t = true -> pool_repr t (k_pool k).
Proof. exact fresh_pool_repr. Qed.
Print Assumptions C01_fresh_pool_repr.

(* a history commutes with the switch of the code page: same answers, same resulting state up to the code page *)
Theorem C01_run_commutes :
  forall prof c k ops, Forall cp_free ops ->
  run prof (pkg_set_db_codepage k c) ops = option_map (fun k' => pkg_set_db_codepage k' c) (run prof k ops).
Proof. exact run_commutes. Qed.
Print Assumptions C01_run_commutes.

(* create; set_database_codepage(c); any admissible history; save; reopen *)
Theorem C01_history_after_switch :
  forall prof ty k0 c t ops k',
  pkg_create prof ty = Ok k0 -> Forall op_ok ops -> Forall cp_free ops -> cp_single c t ->
  run prof (pkg_set_db_codepage k0 c) ops = Some k' -> pool_repr t (k_pool k') ->
  exists k1 k2, pkg_flush k' = Some k1 /\ pkg_open prof (k_cont k1) = Ok k2 /\
    same_obs prof k' k2 /\ same_obs prof k' k1 /\ p_cp (k_pool k2) = c /\ pkg_flush k2 = Some k2.
Proof. exact history_after_switch. Qed.
Print Assumptions C01_history_after_switch.
