(* C18 -- Creation times convert to and from Windows timestamps without drift.
   Statements only; proofs live in theories/TimestampProofs.v. *)
From MsiModel Require Import Base Timestamp TimestampProofs.
From MsiGen Require Import GenConsts.
Open Scope Z_scope.

(* the model's constants are the ones in /repo/src/internal/timestamp.rs now *)
Theorem C18_constants :
  UNIX_EPOCH_TIMESTAMP = 116444736000000000%N /\
  TS_D2T_FACTORS = [10000000; 100]%N /\ TS_T2D_FACTORS = [10000000; 10000000; 100]%N.
Proof. exact ts_constants_pinned. Qed.

(* any time between 1601 (LO) and 60056 (HI) comes back within one tick *)
Theorem C18_near : forall t, LO <= t <= HI -> Z.abs (to_time (from_time t) - t) < 100.
Proof. exact c18_near. Qed.

(* every tick value is a fixed point, hence setting a returned time returns it *)
Theorem C18_ticks_exact : forall k, 0 <= k <= U64MAX -> from_time (to_time k) = k.
Proof. exact c18_ticks_exact. Qed.
Theorem C18_idempotent : forall t,
  to_time (from_time (to_time (from_time t))) = to_time (from_time t).
Proof. exact c18_idempotent. Qed.

Theorem C18_from_mono : forall t1 t2, t1 <= t2 -> from_time t1 <= from_time t2.
Proof. exact c18_from_mono. Qed.
Theorem C18_to_mono : forall k1 k2, 0 <= k1 <= k2 -> k2 <= U64MAX -> to_time k1 <= to_time k2.
Proof. exact c18_to_mono. Qed.

(* saturation at both ends; totality is by construction (no res/Panic) and the
   result is always a u64 *)
Theorem C18_saturate_lo : forall t, t <= LO -> from_time t = 0.
Proof. exact c18_saturate_lo. Qed.
Theorem C18_saturate_hi : forall t, HI <= t -> from_time t = U64MAX.
Proof. exact c18_saturate_hi. Qed.
Theorem C18_range : forall t, 0 <= from_time t <= U64MAX.
Proof. exact from_time_range. Qed.

Check C18_near : forall t, LO <= t <= HI -> Z.abs (to_time (from_time t) - t) < 100.
Check C18_ticks_exact : forall k, 0 <= k <= U64MAX -> from_time (to_time k) = k.
Check C18_from_mono : forall t1 t2, t1 <= t2 -> from_time t1 <= from_time t2.

Print Assumptions C18_constants.
Print Assumptions C18_near.
Print Assumptions C18_ticks_exact.
Print Assumptions C18_idempotent.
Print Assumptions C18_from_mono.
Print Assumptions C18_to_mono.
Print Assumptions C18_saturate_lo.
Print Assumptions C18_saturate_hi.
Print Assumptions C18_range.
