(* C07 -- Rows are accepted exactly when every value is valid for its column.
   Statements only; proofs in theories/CategoryProofs.v (value level) and
   theories/QueryProofs.v (the insert/update gate). *)
From MsiModel Require Import Base Value Category Column CategoryProofs.
From MsiGen Require Import GenCategory.
Open Scope N_scope.

(* the generated tables are the ones the model was written against *)
Theorem C07_tables :
  map cat_ident all_categories = CAT_ALL_IDENTS /\
  CAT_VALIDATE_NUMBERS = [0; 1; 2; 3; 4; 8; 37; 38] /\ CAT_CABINET_IN_CHARS = true.
Proof. split; [exact cat_all_pinned | split; apply cat_numbers_pinned]. Qed.

(* the validators answer for every string; the &string[1..37] slice is always on
   character boundaries *)
Theorem C07_validate_total : forall c s, exists b, validate c s = Ok b.
Proof. exact validate_total. Qed.
Theorem C07_is_valid_value_total : forall col v, exists b, is_valid_value col v = Ok b.
Proof. exact is_valid_value_total. Qed.

(* validate = the documented grammar of each category (in_category is declarative:
   Forall / exists over characters, digit strings, separators) *)
Theorem C07_validate_iff : forall k s, validate k s = Ok true <-> in_category k s.
Proof. exact validate_iff. Qed.

(* a value is valid exactly when: null -> nullable; integer -> integer column, storable
   range (most negative value reserved), declared range; string -> string column, width
   in characters, enumeration, category grammar *)
Theorem C07_valid_iff : forall col v, value_ok v = true ->
  (is_valid_value col v = Ok true <-> valid_spec col v).
Proof. exact valid_iff. Qed.

(* the values the library itself builds from a UUID / a non-empty language list *)
Theorem C07_uuid_value : forall bs, length bs = 16%nat -> Forall (fun b => b < 256) bs ->
  validate CGuid (uuid_value_text bs) = Ok true.
Proof. exact uuid_value_valid. Qed.
Theorem C07_langs_value : forall codes, codes <> [] -> Forall (fun c => c < 65536) codes ->
  validate CLanguage (langs_value_text codes) = Ok true.
Proof. exact langs_value_valid. Qed.

(* category names round-trip through FromStr (used by the _Validation table) *)
Theorem C07_cat_names : forall c, exists c', cat_from_str (cat_as_str c) = Some c' /\ cat_ident c' = cat_ident c.
Proof. exact cat_from_as. Qed.

Check C07_valid_iff : forall col v, value_ok v = true -> (is_valid_value col v = Ok true <-> valid_spec col v).
Print Assumptions C07_validate_total.
Print Assumptions C07_validate_iff.
Print Assumptions C07_valid_iff.
Print Assumptions C07_uuid_value.
