(* C14 -- Code pages encode losslessly what they can represent and match their names.
   Statements only; proofs in theories/CodePageProofs.v. *)
From MsiModel Require Import Base CodePage CodePageProofs.
From MsiGen Require Import GenCodePage.
Open Scope N_scope.

(* identifier lookup and reverse lookup are mutually inverse (tables regenerated from codepage.rs) *)
Theorem C14_id_from_id : forall v i, In (v, i) CP_ID -> cp_from_id (Z.of_N i) = Some v.
Proof. exact cp_id_from_id. Qed.
Theorem C14_from_id_id : forall i v, (i <> 0)%Z -> cp_from_id i = Some v -> Z.of_N (cp_id v) = i.
Proof. exact cp_from_id_id. Qed.

(* each page is wired to the encoding its Windows identifier names (reference_wiring is the spec) *)
Theorem C14_wiring : wiring_ok = true.
Proof. exact cp_wiring. Qed.
(* decoding treats no prefix specially *)
Theorem C14_no_bom_sniffing : CP_DECODE_SNIFFS_BOM = false.
Proof. exact cp_no_bom_sniffing. Qed.

(* the 1024-byte refill loop equals per-character concatenation for every string,
   for any encoder meeting the stated step contract *)
Theorem C14_loop : forall (enc1 : N -> option bytes) (room : N),
  0 < room -> room <= CP_ENCODE_BUFFER -> (forall c bs, enc1 c = Some bs -> nlen bs <= room) ->
  forall fuel s, (length s < fuel)%nat -> enc_loop enc1 room fuel s = Some (flat_map (enc_char enc1) s).
Proof. exact enc_loop_law. Qed.

(* US-ASCII and UTF-8, whose codecs are inside the model *)
Theorem C14_ascii_char : forall c, ascii_encode [c] = [c] /\ c < 128 \/ ascii_encode [c] = [63].
Proof. exact ascii_char_law. Qed.
Theorem C14_ascii_concat : forall s, ascii_encode s = flat_map (fun c => ascii_encode [c]) s.
Proof. exact ascii_concat. Qed.
Theorem C14_ascii_roundtrip : forall s, Forall (fun c => c < 128) s -> ascii_decode (ascii_encode s) = s.
Proof. exact ascii_roundtrip. Qed.
Theorem C14_utf8_roundtrip : forall s, forallb is_scalar s = true -> utf8_decode (utf8_enc s) = s.
Proof. exact utf8_roundtrip. Qed.

Check C14_loop.
Print Assumptions C14_loop.
Print Assumptions C14_utf8_roundtrip.
Print Assumptions C14_wiring.
