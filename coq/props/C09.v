(* C09 -- No input file can make the library panic.
   Over the stream-level model: for EVERY container (any streams with any bytes < 256) the readers never return Panic:
   the string pool reader, the table reader, SELECT / JOIN execution for any query tree in both profiles; on a state
   satisfying the package invariant DELETE never panics and drop_table either fails on an argument check or succeeds.
   The unwrap() calls of Package::open, the panics of decref and the debug assertion of incref are generated flags
   (OPEN_UNWRAPS_CATALOG_CELLS, POOL_DECREF_PANICS, POOL_INCREF_ASSERTS_EMPTY): all false on this tree (fixes c2fee45,
   b3803e7), pinned by C09_failure_flags.
   Partial: cfb's parser (bytes -> container), hangs and memory exhaustion are outside the model; they are covered by the
   byte-level damage run and the driver's time / address-space limits only.
   Statements only; every proof is `exact <lemma>` from theories/. *)
From MsiModel Require Import Base Sexp Value Expr Category Column CodePage Pool Table Container StreamName StreamNameProofs Propset Summary Query Package PoolProofs TableProofs SelectTotal StreamProofs OpenTotal Ffi.
From MsiGen Require Import GenConsts.
Open Scope N_scope.

(* the source has no unguarded unwrap in open, decref and incref do not panic on foreign pools *)
Theorem C09_failure_flags :
  OPEN_UNWRAPS_CATALOG_CELLS = false /\ POOL_DECREF_PANICS = false /\ POOL_INCREF_ASSERTS_EMPTY = false.
Proof. exact failure_flags_now. Qed.

(* the pool reader: Ok or Err for any bytes *)
Theorem C09_read_pool_total :
  forall pb db : bytes, read_pool pb db <> Panic.
Proof. exact read_pool_total. Qed.

(* the table reader *)
Theorem C09_read_rows_total :
  forall (t : table) (b : bytes), read_rows t b <> Panic.
Proof. exact read_rows_total. Qed.

(* Package::open never panics, for every container *)
Theorem C09_open_total :
  forall (prof : profile) (c : container), bytes_ok c -> pkg_open prof c <> Panic.
Proof. exact open_total. Qed.

(* SELECT on anything that opened: never a panic, for any query *)
Theorem C09_select_total :
  forall (prof : profile) (c : container) (p : pool) (ts : tables) (s : sel),
         bytes_ok c -> exec_select prof c p ts s <> Panic.
Proof. exact select_total. Qed.

Theorem C09_join_total :
  forall (prof : profile) (c : container) (p : pool) (ts : tables) (j : join),
         bytes_ok c -> exec_join prof c p ts j <> Panic.
Proof. exact join_total. Qed.

Theorem C09_pkg_select_total :
  forall (prof : profile) (k : pkg) (s : sel), bytes_ok (k_cont k) -> pkg_select prof k s <> Panic.
Proof. exact pkg_select_total. Qed.

(* stream calls: never a panic, whatever the name *)
Theorem C09_streams_total :
  forall (k : pkg) (n : str) (b : bytes),
         pkg_read_stream k n <> Panic /\ snd (pkg_write_stream k n b) <> Panic /\ snd (pkg_remove_stream k n) <> Panic.
Proof. exact stream_total. Qed.

(* the property-set reader: Ok or Err for any bytes *)
Theorem C09_ps_read_total :
  forall b : bytes, ps_read b <> Panic.
Proof. exact ps_read_total. Qed.

(* DELETE on any container / pool / table map: never a panic (dangling and unused references tolerated) *)
Theorem C09_delete_total :
  forall (prof : profile) (c : container) (p : pool) (ts : tables) (tn : str) (cond : option ast),
         bytes_ok c -> exec_delete prof c p ts tn cond <> Panic.
Proof. exact delete_total_any. Qed.

Theorem C09_pkg_delete_total :
  forall (prof : profile) (k : pkg) (tn : str) (cond : option ast),
         bytes_ok (k_cont k) -> snd (pkg_delete prof k tn cond) <> Panic.
Proof. exact pkg_delete_total_any. Qed.

(* INSERT: never a panic below the pool capacity (the capacity panic is known finding pool_full_panic) *)
Theorem C09_insert_total :
  forall (prof : profile) (c : container) (p : pool) (ts : tables) (tn : str) (rows : list (list value)),
         bytes_ok c -> room p (nlen (List.concat rows)) -> exec_insert prof c p ts tn rows <> Panic.
Proof. exact insert_total_any. Qed.

(* UPDATE: likewise *)
Theorem C09_update_total :
  forall (prof : profile) (c : container) (p : pool) (ts : tables) (tn : str) (ups : list (str * value))
           (cond : option ast) (rows : list (list vref)) (t : table),
         bytes_ok c ->
         find_table ts tn = Some t ->
         load_rows c t = Ok rows -> room p (nlen rows * nlen ups) -> exec_update prof c p ts tn ups cond <> Panic.
Proof. exact update_total_any. Qed.

(* the FFI get_table no longer calls expect() on the select result (fix 0688157) *)
Theorem C09_ffi_flag :
  FFI_GET_TABLE_EXPECTS = false.
Proof. exact ffi_expect_removed. Qed.

(* no panic can cross the C boundary of get_table, whatever the file holds *)
Theorem C09_ffi_total :
  forall (prof : profile) (c : container) (name : str), bytes_ok c -> ffi_get_table prof c name <> Panic.
Proof. exact ffi_get_table_total. Qed.

(* FFI get_information: rendering the creation time never panics (guard regenerated from ffi/src/lib.rs) *)
Theorem C09_ffi_info_time_total :
  forall ticks : option N, ffi_info_time ticks <> Panic.
Proof. exact ffi_info_time_total. Qed.

(* the repaired defect (dea2b60): unguarded, 10000-01-01 panics *)
Theorem C09_ffi_info_time_before_fix :
  RFC2822_LIMIT_TICKS < 18446744073709551616 /\ ffi_info_time_with true (Some RFC2822_LIMIT_TICKS) = Panic.
Proof. exact ffi_info_time_unguarded_panics. Qed.

Print Assumptions C09_failure_flags.
Print Assumptions C09_read_pool_total.
Print Assumptions C09_read_rows_total.
Print Assumptions C09_open_total.
Print Assumptions C09_select_total.
Print Assumptions C09_join_total.
Print Assumptions C09_pkg_select_total.
Print Assumptions C09_streams_total.
Print Assumptions C09_ps_read_total.
Print Assumptions C09_delete_total.
Print Assumptions C09_pkg_delete_total.
Print Assumptions C09_insert_total.
Print Assumptions C09_update_total.
Print Assumptions C09_ffi_flag.
Print Assumptions C09_ffi_total.
Print Assumptions C09_ffi_info_time_total.
Print Assumptions C09_ffi_info_time_before_fix.
