(* C09 placeholder *)
From MsiModel Require Import Base.
