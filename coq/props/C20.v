(* C20 placeholder *)
From MsiModel Require Import Base.
