(* C20 -- Capacity limits are enforced as errors, and symmetrically.
   The limits are generated constants (32 columns, 65,536 rows both in the reader and in INSERT, 31 packed name units,
   two- and three-byte reference ranges).  Over-limit calls: more than 32 columns is an argument error of create_table
   that returns the package itself; an INSERT that succeeds never exceeds the row limit the reader enforces, so the
   library always reads what it wrote (with the save/reopen theorem of C01); accepted names fit the container; names the
   catalog cannot hold are refused before anything changes (C04_create_table_err).  Within the limits: insert_accepts.
   The one limit that is a panic, not an error, is the 65,536th distinct string under two-byte references: known finding
   pool_full_panic, witnessed here by C20_pool_full_refuted.
   Statements only; every proof is `exact <lemma>` from theories/. *)
From Coq Require Import Sorting.Sorted Permutation.
From MsiModel Require Import Base Sexp Value Expr Category Column CodePage Pool Table Container StreamName Propset Summary Query Package PoolProofs TableProofs QueryProofs DbInv InsertRefine PackageProofs Limits.
From MsiGen Require Import GenConsts GenCatalog GenStreamName.
Open Scope N_scope.

(* the limits in the source now *)
Theorem C20_limits :
  MAX_NUM_TABLE_COLUMNS = 32 /\
         MAX_ROWS_READ = 65536 /\
         MAX_ROWS_INSERT = Some 65536 /\
         SN_MAX_UNITS = 31 /\ MAX_STRING_REF = 16777215 /\ LONG_STRING_REFS_BIT = 2147483648.
Proof. exact limits_pinned. Qed.

(* > 32 columns, no key, bad names ...: Err and the package itself is returned *)
Theorem C20_columns_and_arguments :
  forall (prof : profile) (k : pkg) (tn : str) (cols : list column),
         is_valid_tname tn = false \/
         existsb (str_eqb tn) CREATE_TABLE_EXTRA_RESERVED = true \/
         cols = [] \/
         MAX_NUM_TABLE_COLUMNS < nlen cols \/
         existsb c_pk cols = false \/ first_dup_or_bad cols [] = false \/ find_table (k_tabs k) tn <> None ->
         pkg_create_table prof k tn cols = (k, Err).
Proof. exact create_table_arg_errors. Qed.

(* a successful INSERT leaves at most as many rows as the reader accepts *)
Theorem C20_rows_symmetric :
  forall (prof : profile) (c : container) (p : pool) (ts : tables) (tn : str) (rows : list (list value))
           (c' : container) (p' : pool),
         exec_insert prof c p ts tn rows = Ok (c', p') ->
         exists (t : table) (old : list (list vref)),
           find_table ts tn = Some t /\ load_rows c t = Ok old /\ nlen old + nlen rows <= MAX_ROWS_READ.
Proof. exact insert_within_row_limit. Qed.

(* one more row than the limit is never accepted *)
Theorem C20_rows_rejected :
  forall (prof : profile) (c : container) (p : pool) (ts : tables) (tn : str) (t : table)
           (rows : list (list value)) (old : list (list vref)),
         find_table ts tn = Some t ->
         load_rows c t = Ok old ->
         MAX_ROWS_READ < nlen old + nlen rows ->
         forall (c' : container) (p' : pool), exec_insert prof c p ts tn rows <> Ok (c', p').
Proof. exact insert_over_row_limit_rejected. Qed.

(* up to the limit, what is written is read back *)
Theorem C20_rows_read_back :
  forall (prof : profile) (t : table) (rows : list (list vref)),
         t_cols t <> [] ->
         Forall (row_ok t) rows ->
         nlen rows <= MAX_ROWS_READ ->
         exists bs : bytes,
           write_rows prof t rows = Ok bs /\ nlen bs = nlen rows * row_size t /\ read_rows t bs = Ok rows.
Proof. exact rows_roundtrip. Qed.

(* accepted names fit the container's 31 units *)
Theorem C20_names_fit :
  forall (n : str) (b : bool), sn_is_valid n b = true -> utf16_len (sn_encode n b) <= SN_MAX_UNITS.
Proof. exact valid_name_units. Qed.

(* valid rows with new keys, within the row and pool limits, are accepted *)
Theorem C20_within_limits_accepted :
  forall (prof : profile) (d : db) (tn : str) (t : table) (rows old : list (list value)),
         Inv d ->
         In (tn, t) (d_tabs d) ->
         find_table (d_tabs d) tn = Some t ->
         tvals prof d t = Ok old ->
         sorted_by_key t old ->
         Forall (fun r : list value => length r = length (t_cols t) /\ all_valid (t_cols t) r = Ok true) rows ->
         NoDup (map (key_of t) (old ++ map (map normalize_value) rows)) ->
         nlen old + nlen rows <= 65536 ->
         nlen (p_strings (d_pool d)) + nlen (List.concat rows) < 65535 ->
         exists (c' : container) (p' : pool), exec_insert prof (d_cont d) (d_pool d) (d_tabs d) tn rows = Ok (c', p').
Proof. exact insert_accepts. Qed.

(* below 65,535 entries interning never panics *)
Theorem C20_pool_room :
  forall (prof : profile) (p : pool) (s : str),
         pool_wf p -> nlen (p_strings p) < 65535 -> exists (p' : pool) (r : N), pool_incref prof p s = Ok (p', r).
Proof. exact pool_room_no_panic. Qed.

(* known finding: at 65,535 entries one more distinct string panics *)
Theorem C20_pool_full_refuted :
  pool_incref Release full_pool [98] = Panic /\ nlen (p_strings full_pool) = 65535.
Proof. exact pool_full_panics. Qed.

Print Assumptions C20_limits.
Print Assumptions C20_columns_and_arguments.
Print Assumptions C20_rows_symmetric.
Print Assumptions C20_rows_rejected.
Print Assumptions C20_rows_read_back.
Print Assumptions C20_names_fit.
Print Assumptions C20_within_limits_accepted.
Print Assumptions C20_pool_room.
Print Assumptions C20_pool_full_refuted.
