(* C10 (continued) -- a change made through summary_info_mut() reaches the next save, in WHATEVER state the package is: no
   invariant is assumed, so this covers the state a failed save leaves behind (summary still marked modified, deferred
   save already consumed).  After a successful summary change the next successful save writes the encoding of the summary
   as last changed to the summary stream, and the pool writes of the same save do not disturb it.
   Statements only; every proof is `exact <lemma>` from theories/ChainOps.v. *)
From Coq Require Import Permutation.
From MsiModel Require Import Base Value Expr Category Column CodePage Pool Table Container StreamName Propset Summary Query Package QueryProofs DbInv
  PkgInv PkgInv2 UpdateRefine DmlPkgProofs WithChain ChainOps.
From MsiGen Require Import GenConsts GenCatalog GenStreamName.

Theorem C10_summary_change_reaches_next_save : forall k f k1 k2,
  pkg_summary_mut k f = (k1, Ok tt) -> pkg_flush k1 = Some k2 ->
  exists b, ps_write (k_sum k1) = Some b /\ ct_read (k_cont k2) SUMMARY_INFO_STREAM_NAME = Ok b /\
            k_sum k2 = k_sum k1 /\ k_sum_mod k2 = false /\ k_fin k2 = false.
Proof. exact summary_change_reaches_next_save. Qed.

Print Assumptions C10_summary_change_reaches_next_save.
