(* C06 -- A created table reopens with the schema it was created with.
   Codec level: the 16-bit type word (ColumnProofs) and the _Columns/_Validation rows (CatalogProofs) that create_table
   writes are inverted by the path pkg_open uses, for every column list create_table accepts; what the format cannot
   represent is refused.  Persistence of the catalog rows themselves is C01 (rows / pool round trip).
   Statements only; every proof is `exact <lemma>` from theories/. *)
From MsiModel Require Import Base Sexp Value Expr Category CategoryProofs Column ColumnProofs CodePage Pool Table Container StreamName Propset Summary Query Package CatalogProofs PoolProofs TableProofs QueryProofs DbInv PropsetCodecProofs PackageProofs PkgInv UpdateRefine PkgInv2 InsertRefine DeleteRefine DmlPkgProofs DropTableProofs MiscOpsProofs ReopenProofs CreateTableLemmas CreateTableProofs StreamProofs Reach ReachStreams.
From MsiGen Require Import GenConsts GenCatalog GenColumn.
Open Scope N_scope.

(* the masks of the type word are the ones in column.rs now *)
Theorem C06_constants :
  COL_FIELD_SIZE_MASK = 255 /\
         COL_LOCALIZABLE_BIT = 512 /\
         COL_STRING_BIT = 2048 /\
         COL_NULLABLE_BIT = 4096 /\
         COL_PRIMARY_KEY_BIT = 8192 /\
         COL_VALID_BIT = 256 /\
         COL_NONBINARY_BIT = 1024 /\
         COLTYPE_INT16_BITS = 2 /\ COLTYPE_INT32_BITS = 4 /\ FROM_BITFIELD_INT_SIZES = [(4, 32); (2, 16); (1, 16)].
Proof. exact column_constants_pinned. Qed.

(* type, width (<= 255), localizable, nullable, primary-key flags survive the 16-bit word; the word fits the Int16 catalog cell *)
Theorem C06_type_word :
  forall c : column,
         storable_type (c_type c) = true ->
         exists c' : column,
           col_with_bits c (col_bits c) = Ok c' /\
           c_type c' = c_type c /\
           c_loc c' = c_loc c /\
           c_null c' = c_null c /\
           c_pk c' = c_pk c /\
           c_name c' = c_name c /\
           c_range c' = c_range c /\
           c_fk c' = c_fk c /\ c_cat c' = c_cat c /\ c_enum c' = c_enum c /\ (-32768 < col_bits c <= 32767)%Z.
Proof. exact col_bits_roundtrip. Qed.

(* every category name parses back to the same category *)
Theorem C06_category_names :
  forall c : category, exists c' : category, cat_from_str (cat_as_str c) = Some c' /\ cat_ident c' = cat_ident c.
Proof. exact cat_from_as. Qed.

(* nullable, range, foreign key, category, enumeration survive one _Validation row *)
Theorem C06_validation_row :
  forall (tn : str) (c : column),
         col_storable c ->
         exists b : column,
           builder_from_validation (c_name c) (Some (map normalize_value (nth 0 (validation_rows tn [c]) []))) = Ok b /\
           c_name b = c_name c /\
           c_null b = c_null c /\ c_range b = c_range c /\ c_fk b = c_fk c /\ c_cat b = c_cat c /\ c_enum b = c_enum c.
Proof. exact builder_roundtrip. Qed.

(* the whole column list, in order *)
Theorem C06_columns :
  forall (tn : str) (cols : list column),
         Forall col_storable cols ->
         NoDup (map c_name cols) -> build_columns tn (specs_of cols) (vals_of tn cols) = Ok cols.
Proof. exact build_columns_roundtrip. Qed.

(* _Columns rows + _Validation rows -> the table open rebuilds is the table created *)
Theorem C06_catalog :
  forall (tn : list N) (cols : list column) (long : bool),
         tn <> [] ->
         cols <> [] ->
         Forall col_storable cols ->
         NoDup (map c_name cols) ->
         cmap <- read_columns_rows [tn] (stored (columns_rows tn cols)) [];;
         vals <- read_validation_rows (stored (validation_rows tn cols)) [];; build_tables [tn] cmap vals long [] =
         Ok [(tn, {| t_name := tn; t_cols := cols; t_long := long |})].
Proof. exact catalog_roundtrip. Qed.

(* the checks create_table performs imply the hypotheses of the round trip *)
Theorem C06_accepted_storable :
  forall (tn : str) (long : bool) (cols : list column),
         first_dup_or_bad cols [] = true ->
         rows_fit (Some (validation_table long)) (validation_rows tn cols) = Ok true ->
         Forall col_storable cols /\ NoDup (map c_name cols).
Proof. exact accepted_cols_storable. Qed.

(* hence: every accepted definition reopens identically *)
Theorem C06_accepted_reopens :
  forall (tn : str) (cols : list column) (long long' : bool),
         is_valid_tname tn = true ->
         cols <> [] ->
         first_dup_or_bad cols [] = true ->
         rows_fit (Some (validation_table long')) (validation_rows tn cols) = Ok true ->
         cmap <- read_columns_rows [tn] (stored (columns_rows tn cols)) [];;
         vals <- read_validation_rows (stored (validation_rows tn cols)) [];; build_tables [tn] cmap vals long [] =
         Ok [(tn, {| t_name := tn; t_cols := cols; t_long := long |})].
Proof. exact accepted_table_reopens. Qed.

(* > 32 columns, no key, width > 255, empty / ';' enumeration values: refused, package unchanged *)
Theorem C06_refused :
  forall (prof : profile) (k : pkg) (tn : str) (cols : list column),
         MAX_NUM_TABLE_COLUMNS < nlen cols \/
         cols = [] \/
         existsb c_pk cols = false \/
         (exists c : column, In c cols /\ match c_type c with
                                          | Str w => 255 < w
                                          | _ => False
                                          end) \/
         (exists (c : column) (v : str), In c cols /\ In v (c_enum c) /\ (v = [] \/ In 59 v)) ->
         pkg_create_table prof k tn cols = (k, Err).
Proof. exact create_table_refuses. Qed.

(* why widths above 255 must be refused: the word would decode to Str(44) *)
Theorem C06_width_300 :
  rmap c_type
           (col_with_bits (mk_probe (Str 300) false false false false)
              (col_bits (mk_probe (Str 300) false false false false))) = Ok (Str 44).
Proof. exact width_300_not_representable. Qed.

(* end to end: a table create_table accepted on a reachable package is reported with exactly the columns given, immediately and after saving and reopening *)
Theorem C06_created_table_reopens :
  forall (prof : profile) (k : pkg) (tn : str) (cols : list column) (k' : pkg),
         reachable prof k ->
         enums_scalar cols ->
         pkg_create_table prof k tn cols = (k', Ok tt) ->
         find_table (k_tabs k') tn = Some {| t_name := tn; t_cols := cols; t_long := p_long (k_pool k) |} /\
         (exists k1 k2 : pkg,
            pkg_flush k' = Some k1 /\
            pkg_open prof (k_cont k1) = Ok k2 /\
            find_table (k_tabs k2) tn = Some {| t_name := tn; t_cols := cols; t_long := p_long (k_pool k) |}).
Proof. exact created_table_reopens. Qed.

(* what a successful create_table does, in full *)
Theorem C06_create_table_ok :
  forall (prof : profile) (k : pkg) (tn : str) (cols : list column) (k' : pkg),
         PInv3 prof k ->
         enums_scalar cols ->
         pkg_create_table prof k tn cols = (k', Ok tt) ->
         PInv3 prof k' /\
         find_table (k_tabs k) tn = None /\
         find_table (k_tabs k') tn = Some {| t_name := tn; t_cols := cols; t_long := p_long (k_pool k) |} /\
         tvals prof (the_db k') {| t_name := tn; t_cols := cols; t_long := p_long (k_pool k) |} = Ok [] /\
         (forall n : str, n <> tn -> find_table (k_tabs k') n = find_table (k_tabs k) n) /\
         (forall e : str * table,
          In e (k_tabs k) ->
          is_core (fst e) = false ->
          fst e <> VALIDATION_TABLE_NAME -> tvals prof (the_db k') (snd e) = tvals prof (the_db k) (snd e)) /\
         k_type k' = k_type k /\
         k_sum k' = k_sum k /\
         pkg_streams k' = pkg_streams k /\
         (forall n : str,
          sn_is_valid n false = true ->
          ct_find (ct_entries (k_cont k')) (sn_encode n false) = ct_find (ct_entries (k_cont k)) (sn_encode n false)) /\
         cols <> [] /\ nlen cols <= MAX_NUM_TABLE_COLUMNS.
Proof. exact create_table_ok. Qed.

Print Assumptions C06_constants.
Print Assumptions C06_type_word.
Print Assumptions C06_category_names.
Print Assumptions C06_validation_row.
Print Assumptions C06_columns.
Print Assumptions C06_catalog.
Print Assumptions C06_accepted_storable.
Print Assumptions C06_accepted_reopens.
Print Assumptions C06_refused.
Print Assumptions C06_width_300.
Print Assumptions C06_created_table_reopens.
Print Assumptions C06_create_table_ok.
