(* C06 -- placeholder *)
From MsiModel Require Import Base Package.
