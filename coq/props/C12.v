(* C12 -- Joins and projections produce the documented row combinations.
   exec_select / exec_join of Query.v: a base-table select is "filter by the condition, then project, order kept";
   join_rows is the nested-loop comprehension (inner: every pair satisfying ON in left-major order; left: plus each
   unmatched left row once, null padded); SELECT and JOIN never panic for ANY container, pool, table map and query tree
   (both profiles); unknown tables / columns in a projection, a filter or an ON condition are errors.
   Statements only; every proof is `exact <lemma>` from theories/. *)
From Coq Require Import Sorting.Sorted Permutation.
From MsiModel Require Import Base Sexp Value Expr Category Column CodePage Pool Table Container StreamName Propset Summary Query Package QueryProofs SelectTotal JoinNames JoinSem.
From MsiGen Require Import GenConsts.
Open Scope N_scope.

(* filtering = List.filter by the condition on the decoded rows *)
Theorem C12_filter :
  forall (prof : profile) (p : pool) (t : table) (cond : option ast) (rows : list (list vref))
           (vals : list (list value)) (out : list (list vref)),
         rmapM (row_to_values prof p) rows = Ok vals ->
         filter_rows prof p t cond rows = Ok out ->
         rmapM (row_to_values prof p) out = Ok (filter (holds_v t cond) vals).
Proof. exact filter_rows_spec. Qed.

(* base table: filter then project in the requested order; result column names *)
Theorem C12_select_table :
  forall (prof : profile) (c : container) (p : pool) (ts : tables) (tn : str) (names : list str)
           (cond : option ast) (t' : table) (out : list (list vref)) (all : list (list value)) 
           (t : table),
         find_table ts tn = Some t ->
         rows_all <- load_rows c t;; rmapM (row_to_values prof p) rows_all = Ok all ->
         exec_select prof c p ts (Sel (JTable tn) names cond) = Ok (t', out) ->
         exists idx : list nat,
           indices_of t names = Some idx /\
           rmapM (row_to_values prof p) out =
           Ok
             (map (fun r : list value => match idx with
                                         | [] => r
                                         | _ :: _ => project idx r
                                         end) (filter (holds_v t cond) all)) /\
           map c_name (t_cols t') = match names with
                                    | [] => map c_name (t_cols t)
                                    | _ :: _ => names
                                    end.
Proof. exact select_table_spec. Qed.

(* the nested-loop comprehension, inner and left *)
Theorem C12_join_rows :
  forall (prof : profile) (p : pool) (jt : table) (on : ast) (left : bool) (n2 : nat)
           (rows1 rows2 out : list (list vref)),
         join_rows prof p jt on left n2 rows1 rows2 = Ok out ->
         out =
         flat_map
           (fun r1 : list vref =>
            match filter (pair_holds prof p jt on) (map (fun r2 : list vref => r1 ++ r2) rows2) with
            | [] => if left then [r1 ++ repeat RNull n2] else []
            | l0 :: l1 => l0 :: l1
            end) rows1.
Proof. exact join_rows_spec. Qed.

(* result columns of a join are named table.column for named inputs, unchanged for anonymous ones; right side of a left join nullable *)
Theorem C12_result_names :
  forall (prof : profile) (c : container) (p : pool) (ts : tables) (a b : sel) (on : ast) 
           (t1 : table) (r1 : list (list vref)) (t2 : table) (r2 : list (list vref)),
         exec_select prof c p ts a = Ok (t1, r1) ->
         exec_select prof c p ts b = Ok (t2, r2) ->
         (forall (jt : table) (rows : list (list vref)),
          exec_join prof c p ts (JInner a b on) = Ok (jt, rows) ->
          t_name jt = [] /\
          map c_name (t_cols jt) = map (prefixed (t_name t1)) (t_cols t1) ++ map (prefixed (t_name t2)) (t_cols t2) /\
          map c_null (t_cols jt) = map c_null (t_cols t1) ++ map c_null (t_cols t2)) /\
         (forall (jt : table) (rows : list (list vref)),
          exec_join prof c p ts (JLeft a b on) = Ok (jt, rows) ->
          t_name jt = [] /\
          map c_name (t_cols jt) = map (prefixed (t_name t1)) (t_cols t1) ++ map (prefixed (t_name t2)) (t_cols t2) /\
          map c_null (t_cols jt) = map c_null (t_cols t1) ++ map (fun _ : column => true) (t_cols t2)).
Proof. exact join_result_names. Qed.

(* every yielded row has exactly one cell per result column *)
Theorem C12_shape :
  forall (prof : profile) (c : container) (p : pool) (ts : tables) (s : sel) (t : table)
           (rows : list (list vref)), bytes_ok c -> exec_select prof c p ts s = Ok (t, rows) -> rows_shaped t rows.
Proof. exact select_shape. Qed.

(* never a panic, whatever the query names *)
Theorem C12_select_total :
  forall (prof : profile) (c : container) (p : pool) (ts : tables) (s : sel),
         bytes_ok c -> exec_select prof c p ts s <> Panic.
Proof. exact select_total. Qed.

Theorem C12_join_total :
  forall (prof : profile) (c : container) (p : pool) (ts : tables) (j : join),
         bytes_ok c -> exec_join prof c p ts j <> Panic.
Proof. exact join_total. Qed.

Theorem C12_pkg_select_total :
  forall (prof : profile) (k : pkg) (s : sel), bytes_ok (k_cont k) -> pkg_select prof k s <> Panic.
Proof. exact pkg_select_total. Qed.

(* unknown table: error *)
Theorem C12_unknown_table :
  forall (prof : profile) (c : container) (p : pool) (ts : tables) (tn : str) (names : list str)
           (cond : option ast), find_table ts tn = None -> exec_select prof c p ts (Sel (JTable tn) names cond) = Err.
Proof. exact select_unknown_table. Qed.

(* unknown column in a projection: error, not panic *)
Theorem C12_unknown_projection_or_filter :
  forall (prof : profile) (c : container) (p : pool) (ts : tables) (tn : str) (names : list str)
           (cond : option ast) (t : table),
         find_table ts tn = Some t ->
         (exists n : str, In n names /\ has_col t n = false) ->
         exec_select prof c p ts (Sel (JTable tn) names cond) <> Panic /\
         is_ok (exec_select prof c p ts (Sel (JTable tn) names cond)) = false.
Proof. exact select_unknown_column. Qed.

(* unknown column in an ON condition: error (was a panic before fix eca3f75) *)
Theorem C12_unknown_on_column :
  forall (prof : profile) (c : container) (p : pool) (ts : tables) (a b : sel) (on : ast) 
           (t1 : table) (r1 : list (list vref)) (t2 : table) (r2 : list (list vref)),
         exec_select prof c p ts a = Ok (t1, r1) ->
         exec_select prof c p ts b = Ok (t2, r2) ->
         cols_ok
           {|
             t_name := [];
             t_cols := map (with_prefix (t_name t1)) (t_cols t1) ++ map (with_prefix (t_name t2)) (t_cols t2);
             t_long := p_long p
           |} (cols_of on) = false -> exec_join prof c p ts (JInner a b on) = Err.
Proof. exact join_unknown_on_column. Qed.

(* execution computes the denotational semantics of ANY select / join tree (nested joins, sub-selects, projections, filters) *)
Theorem C12_select_semantics :
  forall (prof : profile) (c : container) (p : pool) (ts : tables) (s : sel) (t : table)
           (rows : list (list vref)),
         bytes_ok c ->
         (forall (n : str) (t' : table), find_table ts n = Some t' -> t_name t' = n) ->
         exec_select prof c p ts s = Ok (t, rows) ->
         exists vals : list (list value),
           rmapM (row_to_values prof p) rows = Ok vals /\
           sem_sel (env_of prof c p ts) s =
           Some {| r_name := t_name t; r_cols := map c_name (t_cols t); r_rows := vals |}.
Proof. exact exec_select_sem. Qed.

Theorem C12_join_semantics :
  forall (prof : profile) (c : container) (p : pool) (ts : tables) (j : join) (t : table)
           (rows : list (list vref)),
         bytes_ok c ->
         (forall (n : str) (t' : table), find_table ts n = Some t' -> t_name t' = n) ->
         exec_join prof c p ts j = Ok (t, rows) ->
         exists vals : list (list value),
           rmapM (row_to_values prof p) rows = Ok vals /\
           sem_join (env_of prof c p ts) j =
           Some {| r_name := t_name t; r_cols := map c_name (t_cols t); r_rows := vals |}.
Proof. exact exec_join_sem. Qed.

(* whenever the semantics is defined (all names known) execution succeeds *)
Theorem C12_semantics_defined_exec_ok :
  forall (prof : profile) (c : container) (p : pool) (ts : tables) (s : sel) (r : rel),
         bytes_ok c ->
         (forall (n : str) (t' : table), find_table ts n = Some t' -> t_name t' = n) ->
         sem_sel (env_of prof c p ts) s = Some r ->
         exists (t : table) (rows : list (list vref)), exec_select prof c p ts s = Ok (t, rows).
Proof. exact sem_defined_exec_ok. Qed.

Print Assumptions C12_filter.
Print Assumptions C12_select_table.
Print Assumptions C12_join_rows.
Print Assumptions C12_result_names.
Print Assumptions C12_shape.
Print Assumptions C12_select_total.
Print Assumptions C12_join_total.
Print Assumptions C12_pkg_select_total.
Print Assumptions C12_unknown_table.
Print Assumptions C12_unknown_projection_or_filter.
Print Assumptions C12_unknown_on_column.
Print Assumptions C12_select_semantics.
Print Assumptions C12_join_semantics.
Print Assumptions C12_semantics_defined_exec_ok.
