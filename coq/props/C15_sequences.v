(* C15 (continued) -- a call made of several fallible container operations reports every failure.
   remove_digital_signature removes up to two entries; written with `?` on each removal it returns success only if each one
   succeeded (seq_result true); "run both, return the last result" would not (C15_keep_last_refuted).  Which shape the
   source has is regenerated on every run (GenIo.IO_REMOVE_SIG_PROPAGATES).
   Statements only; every proof is `exact <lemma>` from theories/Propagate.v. *)
From MsiModel Require Import Base Propagate.
From MsiGen Require Import GenIo.

Theorem C15_remove_sig_reports_every_failure :
  forall rs : list bool, seq_result IO_REMOVE_SIG_PROPAGATES rs = true -> Forall (fun b => b = true) rs.
Proof. exact remove_sig_reports_every_failure. Qed.
Theorem C15_keep_last_refuted : exists rs : list bool, seq_result false rs = true /\ ~ Forall (fun b => b = true) rs.
Proof. exact seq_keep_last_refuted. Qed.

Print Assumptions C15_remove_sig_reports_every_failure.
Print Assumptions C15_keep_last_refuted.
