(* C10 -- Summary information survives saving, in every code page.
   Theorems over the model of propset.rs / summary.rs: the written stream is a well-formed property set (4-aligned
   offsets pointing at the typed values actually written, exact section size) that reads back to the same set;
   set / get / clear laws with the frame (other properties untouched); the code page is the one last set for every
   supported code page (65001 is stored as a negative 16-bit value); architecture and languages are independent halves
   of the template property.  Creation times: C18.  Strings in non-UTF-8 code pages: representability is the
   hypothesis ps_cp = UTF-8 of the round trip; the other pages are covered on the implementation (evidence).
   Statements only; every proof is `exact <lemma>` from theories/. *)
From MsiModel Require Import Base CodePage Timestamp Language Category Propset Summary PropsetCodecProofs SummaryProofs.
From MsiGen Require Import GenConsts GenCodePage.
Open Scope N_scope.

(* every value type: written bytes read back to the value; length is a multiple of 4 *)
Theorem C10_value_roundtrip :
  forall (v : propval) (b : bytes) (rest : list N),
         val_ok v -> write_value cp_utf8 v = Some b -> read_value cp_utf8 (b ++ rest) = Ok v /\ nlen b mod 4 = 0.
Proof. exact value_roundtrip. Qed.

(* offsets 4-aligned, each offset points at the bytes written for its property, section size exact *)
Theorem C10_layout :
  forall (ps : propset) (enc : list bytes),
         PROPSET_OFFSETS_FROM_ENCODED = true ->
         omap (fun p : N * propval => write_value (ps_cp ps) (snd p)) (ps_props ps) = Some enc ->
         let start := 8 + 8 * nlen (ps_props ps) in
         let offs := offsets_from start (map nlen enc) in
         Forall (fun o : N => o mod 4 = 0) offs /\
         fold_left N.add (map nlen enc) start = start + nlen (concat enc) /\
         (forall (i : nat) (o : N) (e : bytes),
          nth_error offs i = Some o ->
          nth_error enc i = Some e -> firstn (length e) (skipn (N.to_nat (o - start)) (concat enc)) = e).
Proof. exact ps_layout. Qed.

(* ps_read (ps_write ps) = ps for every well-formed UTF-8 property set *)
Theorem C10_roundtrip :
  forall ps : propset, ps_ok ps -> exists b : bytes, ps_write ps = Some b /\ ps_read b = Ok ps.
Proof. exact ps_roundtrip. Qed.

(* a getter returns what was set *)
Theorem C10_get_after_set :
  forall (k : N) (v : propval) (l : list (N * propval)), ps_lookup k (ps_insert k v l) = Some v.
Proof. exact lookup_insert_same. Qed.

(* ... and every other property is untouched *)
Theorem C10_set_frame :
  forall (k k' : N) (v : propval) (l : list (N * propval)),
         k' <> k -> ps_lookup k' (ps_insert k v l) = ps_lookup k' l.
Proof. exact lookup_insert_other. Qed.

(* a cleared property is absent *)
Theorem C10_get_after_clear :
  forall (k : N) (l : list (N * propval)), ps_lookup k (ps_delete k l) = None.
Proof. exact lookup_delete_same. Qed.

(* ... and every other property is untouched *)
Theorem C10_clear_frame :
  forall (k k' : N) (l : list (N * propval)), k' <> k -> ps_lookup k' (ps_delete k l) = ps_lookup k' l.
Proof. exact lookup_delete_other. Qed.

(* setters keep the id order the writer relies on *)
Theorem C10_ids_ascending_set :
  forall (k : N) (v : propval) (l : list (N * propval)),
         k < 4294967296 -> ids_ascending l -> ids_ascending (ps_insert k v l).
Proof. exact insert_ascending. Qed.

Theorem C10_ids_ascending_clear :
  forall (k : N) (l : list (N * propval)), ids_ascending l -> ids_ascending (ps_delete k l).
Proof. exact delete_ascending. Qed.

(* the code page is the one last set, for all 26 pages, without panic in Debug *)
Theorem C10_codepage_last :
  forall (prof : profile) (ps : propset) (c : list N) (i : N),
         In (c, i) CP_ID ->
         exists ps' : propset, ps_set_codepage prof ps c = Ok ps' /\ ps_cp ps' = c /\ cp_consistent ps'.
Proof. exact set_codepage_last. Qed.

(* no other setter changes it *)
Theorem C10_codepage_kept :
  forall (prof : profile) (ps : propset) (k : N) (v : propval),
         k <> PROPERTY_CODEPAGE -> ps_cp (ps_set prof ps k v) = ps_cp ps.
Proof. exact set_other_keeps_cp. Qed.

(* architecture (';'-free) reads back *)
Theorem C10_arch :
  forall (prof : profile) (ps : propset) (a : list N),
         a <> [] -> ~ In 59 a -> sum_arch (sum_set_arch prof ps a) = Some a.
Proof. exact arch_after_set_arch. Qed.

(* ... and leaves the languages alone *)
Theorem C10_langs_kept_by_arch :
  forall (prof : profile) (ps : propset) (a : list N),
         ~ In 59 a -> sum_languages (sum_set_arch prof ps a) = sum_languages ps.
Proof. exact langs_after_set_arch. Qed.

(* language lists read back *)
Theorem C10_langs :
  forall (prof : profile) (ps : propset) (codes : list N),
         Forall (fun c : N => c < 65536) codes ->
         codes <> [] -> sum_languages (sum_set_languages prof ps codes) = codes.
Proof. exact langs_after_set_langs. Qed.

(* ... and leave the architecture alone *)
Theorem C10_arch_kept_by_langs :
  forall (prof : profile) (ps : propset) (codes : list N),
         sum_arch (sum_set_languages prof ps codes) = sum_arch ps.
Proof. exact arch_after_set_langs. Qed.

Print Assumptions C10_value_roundtrip.
Print Assumptions C10_layout.
Print Assumptions C10_roundtrip.
Print Assumptions C10_get_after_set.
Print Assumptions C10_set_frame.
Print Assumptions C10_get_after_clear.
Print Assumptions C10_clear_frame.
Print Assumptions C10_ids_ascending_set.
Print Assumptions C10_ids_ascending_clear.
Print Assumptions C10_codepage_last.
Print Assumptions C10_codepage_kept.
Print Assumptions C10_arch.
Print Assumptions C10_langs_kept_by_arch.
Print Assumptions C10_langs.
Print Assumptions C10_arch_kept_by_langs.
