(* C17 -- Language codes and tags map consistently.  Statements only. *)
From MsiModel Require Import Base Finite Language LanguageProofs.
From MsiGen Require Import GenLanguage.
Open Scope N_scope.

(* binary search over the table behaves as the model's first-match lookup *)
Theorem C17_table_sorted : table_sortedb = true.
Proof. exact table_sorted. Qed.
Theorem C17_table_ranges : table_rangesb = true.
Proof. exact table_ranges. Qed.

(* the code is preserved: from_code/code are the identity on u16 by
   construction (a Language is its code); tags round-trip for all 65,536 codes *)
Theorem C17_stable : forall c, c < 65536 -> tag_of (from_tag (tag_of c)) = tag_of c.
Proof. exact c17_stable. Qed.
Theorem C17_code_in_range : forall s, from_tag s < 65536.
Proof. exact c17_code_in_range. Qed.
Theorem C17_und : forall c, find_lang LANGUAGES (N.land c LANG_MASK) = None -> tag_of c = und.
Proof. exact c17_und. Qed.
Theorem C17_bare : forall c lc lt subs,
  find_lang LANGUAGES (N.land c LANG_MASK) = Some (lc, lt, subs) ->
  find_sub_code subs (N.shiftr c SUBLANG_SHIFT) = None -> tag_of c = lt.
Proof. exact c17_bare. Qed.

(* every tag in the table maps to its own code and back *)
Theorem C17_table_lang : forall lc lt subs,
  In (lc, lt, subs) LANGUAGES -> from_tag lt = lc /\ tag_of lc = lt.
Proof. exact c17_table_lang. Qed.
Theorem C17_table_sub : forall lc lt subs sc st,
  In (lc, lt, subs) LANGUAGES -> In (sc, st) subs ->
  from_tag st = mk_code lc sc /\ tag_of (mk_code lc sc) = st.
Proof. exact c17_table_sub. Qed.

(* the well-known Windows identifiers carry their standard tags *)
Theorem C17_reference : forallb reference_okb reference_pairs = true.
Proof. exact c17_reference. Qed.

(* all strings: unknown language -> neutral; known language, unknown region ->
   never the code of a different, known regional variant *)
Theorem C17_unknown_lang : forall s,
  (forall lc lt subs, In (lc, lt, subs) LANGUAGES -> lt <> fst (split_dash s)) -> from_tag s = 0.
Proof. exact c17_unknown_lang. Qed.
Theorem C17_no_foreign_region : forall s lc lt subs sc st,
  In (lc, lt, subs) LANGUAGES -> In (sc, st) subs -> from_tag s = mk_code lc sc -> s = st.
Proof. exact c17_no_foreign_region. Qed.

Check C17_stable : forall c, c < 65536 -> tag_of (from_tag (tag_of c)) = tag_of c.
Check C17_no_foreign_region : forall s lc lt subs sc st,
  In (lc, lt, subs) LANGUAGES -> In (sc, st) subs -> from_tag s = mk_code lc sc -> s = st.

Print Assumptions C17_stable.
Print Assumptions C17_no_foreign_region.
Print Assumptions C17_reference.
