(* C01 -- placeholder *)
From MsiModel Require Import Base Package.
