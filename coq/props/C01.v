(* C01 -- Everything written is read back after close and reopen.
   C01_reachable_roundtrip is the property: for EVERY package reachable from Package::create by any sequence of admissible
   API calls (Reach.v: insert / update / delete on user tables, create_table, drop_table, stream writes and removals,
   signature removal, summary changes, code page, flush, reopen -- whatever each call answered), saving and reopening
   shows the same package type, code page, summary, table map, rows of every table (as values, "" = null) and streams;
   the flushed state itself already shows them (flush = into_inner = drop in the model: one function, tied to the three
   real close modes by the correspondence); the reopened package is reachable again and saving it writes nothing.
   Admissible = values a Rust caller can build, UTF-8 database (representability), no INSERT/UPDATE/DELETE aimed at a
   catalog table (known finding catalog_dml, witnessed by C01_catalog_dml_refuted).
   Statements only; every proof is `exact <lemma>` from theories/. *)
From Coq Require Import Sorting.Sorted Permutation.
From MsiModel Require Import Base Sexp Value Expr Category Column CodePage Pool Table Container StreamName Propset Summary Query Package PoolProofs TableProofs QueryProofs DbInv CatalogProofs PropsetCodecProofs PackageProofs PkgInv UpdateRefine PkgInv2 InsertRefine DeleteRefine DmlPkgProofs DropTableProofs MiscOpsProofs ReopenProofs CreateTableLemmas CreateTableProofs StreamProofs Reach KnownFindings.
From MsiGen Require Import GenConsts GenCatalog GenStreamName.
Open Scope N_scope.

(* the property, for every reachable package *)
Theorem C01_reachable_roundtrip :
  forall (prof : profile) (k : pkg),
         reachable prof k ->
         exists k1 k2 : pkg,
           pkg_flush k = Some k1 /\
           pkg_open prof (k_cont k1) = Ok k2 /\
           same_obs prof k k2 /\ same_obs prof k k1 /\ reachable prof k2 /\ pkg_flush k2 = Some k2.
Proof. exact reachable_roundtrip. Qed.

(* every reachable package satisfies the package invariant *)
Theorem C01_reachable_invariant :
  forall (prof : profile) (k : pkg), reachable prof k -> PInv3 prof k.
Proof. exact reachable_inv. Qed.

(* ... and every package satisfying it (incl. opened foreign files that do) round-trips *)
Theorem C01_invariant_roundtrip :
  forall (prof : profile) (k : pkg),
         PInv prof k ->
         exists k1 k2 : pkg,
           pkg_flush k = Some k1 /\
           pkg_open prof (k_cont k1) = Ok k2 /\ same_obs prof k k2 /\ PInv prof k2 /\ k_cont k2 = k_cont k1.
Proof. exact reopen_roundtrip. Qed.

(* a flush keeps everything observable and clears every pending flag *)
Theorem C01_flush_spec :
  forall (prof : profile) (k k1 : pkg),
         PInv prof k ->
         pkg_flush k = Some k1 ->
         PInv prof k1 /\
         same_obs prof k k1 /\
         k_pool k1 = pool_mark_unmodified (k_pool k) /\
         k_fin k1 = false /\ k_sum_mod k1 = false /\ p_mod (k_pool k1) = false.
Proof. exact flush_spec. Qed.

(* opening a saved state rebuilds exactly its summary, pool and table map *)
Theorem C01_open_saved :
  forall (prof : profile) (k : pkg),
         PInv prof k ->
         k_fin k = false ->
         k_sum_mod k = false ->
         p_mod (k_pool k) = false ->
         exists k2 : pkg,
           pkg_open prof (k_cont k) = Ok k2 /\
           k_cont k2 = k_cont k /\
           k_type k2 = k_type k /\
           k_sum k2 = k_sum k /\
           k_pool k2 = k_pool k /\ k_tabs k2 = k_tabs k /\ k_fin k2 = false /\ k_sum_mod k2 = false.
Proof. exact open_saved. Qed.

(* save, reopen, save: the second save writes nothing *)
Theorem C01_idempotent :
  forall (prof : profile) (k k1 k2 : pkg),
         PInv prof k ->
         pkg_flush k = Some k1 -> pkg_open prof (k_cont k1) = Ok k2 -> pkg_flush k2 = Some k2 /\ k_cont k2 = k_cont k1.
Proof. exact reopen_idempotent. Qed.

(* table stream codec *)
Theorem C01_rows_codec :
  forall (prof : profile) (t : table) (rows : list (list vref)),
         t_cols t <> [] ->
         Forall (row_ok t) rows ->
         nlen rows <= MAX_ROWS_READ ->
         exists bs : bytes,
           write_rows prof t rows = Ok bs /\ nlen bs = nlen rows * row_size t /\ read_rows t bs = Ok rows.
Proof. exact rows_roundtrip. Qed.

(* string pool codec (long-string escape, both reference widths) *)
Theorem C01_pool_codec :
  forall p : pool,
         pool_wf p ->
         p_cp p = cp_utf8 ->
         exists pb db : bytes,
           write_pool p = Some pb /\ write_data p = Some db /\ read_pool pb db = Ok (pool_mark_unmodified p).
Proof. exact pool_roundtrip. Qed.

(* property-set codec *)
Theorem C01_summary_codec :
  forall ps : propset, ps_ok ps -> exists b : bytes, ps_write ps = Some b /\ ps_read b = Ok ps.
Proof. exact ps_roundtrip. Qed.

(* a freshly created package satisfies the invariant *)
Theorem C01_fresh_package :
  forall (prof : profile) (t : ptype) (k : pkg), pkg_create prof t = Ok k -> PInv3 prof k.
Proof. exact create_inv3. Qed.

(* known finding: insert into _Tables is accepted and the saved file no longer opens *)
Theorem C01_catalog_dml_refuted :
  exists k0 k1 k2 : pkg,
           pkg_create Debug Installer = Ok k0 /\
           pkg_insert Debug k0 TABLES_TABLE_NAME bogus_row = (k1, Ok tt) /\
           pkg_flush k1 = Some k2 /\ pkg_open Debug (k_cont k2) = Err.
Proof. exact catalog_dml_breaks_reopen. Qed.

Print Assumptions C01_reachable_roundtrip.
Print Assumptions C01_reachable_invariant.
Print Assumptions C01_invariant_roundtrip.
Print Assumptions C01_flush_spec.
Print Assumptions C01_open_saved.
Print Assumptions C01_idempotent.
Print Assumptions C01_rows_codec.
Print Assumptions C01_pool_codec.
Print Assumptions C01_summary_codec.
Print Assumptions C01_fresh_package.
Print Assumptions C01_catalog_dml_refuted.
