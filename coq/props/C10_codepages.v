(* C10 (code pages) -- statements only; proofs in theories/CodecPages.v.  The property-set codec with the code page a parameter over the single-byte pages. *)
From MsiModel Require Import Base CodePage CodePageProofs SingleByteSpec SingleByteProofs Pool PoolProofs Propset PropsetCodecProofs CodecPagesSpec CodecPages.
From MsiGen Require Import GenCodePage GenSingleByte GenConsts.
Open Scope N_scope.

Theorem C10_ps_roundtrip_sb :
  forall (t : list N) (ps : propset),
  ps_ok_sb t ps -> exists b : bytes, ps_write ps = Some b /\ ps_read b = Ok ps.
Proof. exact ps_roundtrip_sb. Qed.
Print Assumptions C10_ps_roundtrip_sb.
