(* C05 -- Stored tables always keep unique, ordered keys and valid cells.
   tables_sorted_valid: every table of the table map reads back as a list of rows that is STRICTLY ascending by
   primary key (hence no two rows share a key) and whose every cell is valid for its column (an accepted empty string is
   stored as null: the C01 identification).  It holds in every reachable state; the reopened state is reachable again
   (C01), so it holds after saving and reopening too.
   Statements only; every proof is `exact <lemma>` from theories/. *)
From Coq Require Import Sorting.Sorted Permutation.
From MsiModel Require Import Base Sexp Value Expr Category Column CodePage Pool Table Container StreamName Propset Summary Query Package PoolProofs TableProofs QueryProofs DbInv CatalogProofs PropsetCodecProofs PackageProofs PkgInv UpdateRefine PkgInv2 InsertRefine DeleteRefine DmlPkgProofs DropTableProofs MiscOpsProofs ReopenProofs CreateTableLemmas CreateTableProofs StreamProofs Reach KnownFindings.
From MsiGen Require Import GenConsts GenCatalog GenStreamName.
Open Scope N_scope.

(* the property, for every reachable package *)
Theorem C05_reachable :
  forall (prof : profile) (k : pkg), reachable prof k -> tables_sorted_valid prof k.
Proof. exact reachable_sorted_valid. Qed.

(* the reopened package is reachable (so C05_reachable applies to it) and shows the same rows *)
Theorem C05_after_reopen :
  forall (prof : profile) (k : pkg),
         reachable prof k ->
         exists k1 k2 : pkg,
           pkg_flush k = Some k1 /\
           pkg_open prof (k_cont k1) = Ok k2 /\
           same_obs prof k k2 /\ same_obs prof k k1 /\ reachable prof k2 /\ pkg_flush k2 = Some k2.
Proof. exact reachable_roundtrip. Qed.

(* INSERT: result strictly sorted, valid *)
Theorem C05_insert :
  forall (prof : profile) (k : pkg) (tn : str) (t : table) (rows : list (list value)) (k' : pkg),
         PInv2 prof k ->
         user_table_name tn ->
         find_table (k_tabs k) tn = Some t ->
         Forall (Forall value_storable) rows ->
         pkg_insert prof k tn rows = (k', Ok tt) ->
         PInv2 prof k' /\
         others_untouched prof k k' tn /\
         (exists old new : list (list value),
            tvals prof (the_db k) t = Ok old /\
            tvals prof (the_db k') t = Ok new /\
            Permutation new (old ++ map (map normalize_value) rows) /\ sorted_by_key t new /\ rows_valid t new).
Proof. exact pkg_insert_ok. Qed.

(* UPDATE: likewise, also when a key column is assigned (re-sorted, duplicates rejected) *)
Theorem C05_update :
  forall (prof : profile) (k : pkg) (tn : str) (t : table) (ups : list (str * value)) 
           (cond : option ast) (k' : pkg),
         PInv2 prof k ->
         user_table_name tn ->
         find_table (k_tabs k) tn = Some t ->
         ups_wf ups ->
         pkg_update prof k tn ups cond = (k', Ok tt) ->
         PInv2 prof k' /\
         others_untouched prof k k' tn /\
         (exists old new : list (list value),
            tvals prof (the_db k) t = Ok old /\
            tvals prof (the_db k') t = Ok new /\
            (if touches_key t ups
             then Permutation new (map (upd_row t ups cond) old)
             else new = map (upd_row t ups cond) old) /\ sorted_by_key t new /\ rows_valid t new).
Proof. exact pkg_update_ok. Qed.

Theorem C05_update_nonkey :
  forall (t : table) (ups : list (str * value)) (cond : option ast) (old : list (list value)),
         touches_key t ups = false ->
         Forall (fun r : list value => length r = length (t_cols t)) old ->
         sorted_by_key t old -> sorted_by_key t (map (upd_row t ups cond) old).
Proof. exact update_keeps_sorted. Qed.

(* DELETE: a filtered sorted list *)
Theorem C05_delete :
  forall (prof : profile) (k : pkg) (tn : str) (t : table) (cond : option ast) (k' : pkg),
         PInv2 prof k ->
         user_table_name tn ->
         find_table (k_tabs k) tn = Some t ->
         pkg_delete prof k tn cond = (k', Ok tt) ->
         PInv2 prof k' /\
         others_untouched prof k k' tn /\
         (exists old : list (list value),
            tvals prof (the_db k) t = Ok old /\
            tvals prof (the_db k') t = Ok (filter (fun r : list value => negb (holds_v t cond r)) old)).
Proof. exact pkg_delete_ok. Qed.

(* the BTreeMap model stays strictly sorted *)
Theorem C05_btreemap :
  forall (m : keyed) (k : list value) (row : list vref), keyed_sorted m -> keyed_sorted (keyed_insert m k row).
Proof. exact keyed_insert_sorted. Qed.

(* strictly sorted => unique keys *)
Theorem C05_unique :
  forall m : keyed, keyed_sorted m -> NoDup (map fst m).
Proof. exact sorted_nodup. Qed.

Theorem C05_key_order_total :
  forall a b : list value, key_cmp b a = CompOpp (key_cmp a b).
Proof. exact key_cmp_antisym. Qed.

Theorem C05_key_order_trans :
  forall a b c : list value, key_lt a b -> key_lt b c -> key_lt a c.
Proof. exact key_lt_trans. Qed.

Print Assumptions C05_reachable.
Print Assumptions C05_after_reopen.
Print Assumptions C05_insert.
Print Assumptions C05_update.
Print Assumptions C05_update_nonkey.
Print Assumptions C05_delete.
Print Assumptions C05_btreemap.
Print Assumptions C05_unique.
Print Assumptions C05_key_order_total.
Print Assumptions C05_key_order_trans.
