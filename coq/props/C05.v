(* C05 -- placeholder *)
From MsiModel Require Import Base Package.
