(* C03 -- placeholder: statements are added with QueryProofs *)
From MsiModel Require Import Base Query.
