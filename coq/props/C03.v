(* C03 -- Insert, update, delete and select follow the relational model.
   Value-level refinement on every state satisfying the package invariant (hence on every reachable state): after a
   successful INSERT the table is a Permutation of the old rows plus the (normalised) new ones, strictly sorted by key;
   after DELETE it is the old list filtered by the negated condition, order kept; after UPDATE it is map upd_row of the
   old list (exactly the matching rows, exactly the named columns, last assignment wins), same order -- or its
   key-sorted permutation when a key column is assigned; in each case every other table, the catalog, streams and the
   summary are untouched.  SELECT = filter then project in the requested order; every yielded row has one cell per
   result column (Rows::len() = rows yielded is checked on the implementation).
   Statements only; every proof is `exact <lemma>` from theories/. *)
From Coq Require Import Sorting.Sorted Permutation.
From MsiModel Require Import Base Sexp Value Expr Category Column CodePage Pool Table Container StreamName Propset Summary Query Package PoolProofs TableProofs QueryProofs DbInv CatalogProofs PropsetCodecProofs PackageProofs PkgInv UpdateRefine PkgInv2 InsertRefine DeleteRefine DmlPkgProofs DropTableProofs MiscOpsProofs ReopenProofs CreateTableLemmas CreateTableProofs StreamProofs Reach KnownFindings SelectTotal.
From MsiGen Require Import GenConsts GenCatalog GenStreamName.
Open Scope N_scope.

Theorem C03_insert :
  forall (prof : profile) (k : pkg) (tn : str) (t : table) (rows : list (list value)) (k' : pkg),
         PInv2 prof k ->
         user_table_name tn ->
         find_table (k_tabs k) tn = Some t ->
         Forall (Forall value_storable) rows ->
         pkg_insert prof k tn rows = (k', Ok tt) ->
         PInv2 prof k' /\
         others_untouched prof k k' tn /\
         (exists old new : list (list value),
            tvals prof (the_db k) t = Ok old /\
            tvals prof (the_db k') t = Ok new /\
            Permutation new (old ++ map (map normalize_value) rows) /\ sorted_by_key t new /\ rows_valid t new).
Proof. exact pkg_insert_ok. Qed.

Theorem C03_delete :
  forall (prof : profile) (k : pkg) (tn : str) (t : table) (cond : option ast) (k' : pkg),
         PInv2 prof k ->
         user_table_name tn ->
         find_table (k_tabs k) tn = Some t ->
         pkg_delete prof k tn cond = (k', Ok tt) ->
         PInv2 prof k' /\
         others_untouched prof k k' tn /\
         (exists old : list (list value),
            tvals prof (the_db k) t = Ok old /\
            tvals prof (the_db k') t = Ok (filter (fun r : list value => negb (holds_v t cond r)) old)).
Proof. exact pkg_delete_ok. Qed.

Theorem C03_update :
  forall (prof : profile) (k : pkg) (tn : str) (t : table) (ups : list (str * value)) 
           (cond : option ast) (k' : pkg),
         PInv2 prof k ->
         user_table_name tn ->
         find_table (k_tabs k) tn = Some t ->
         ups_wf ups ->
         pkg_update prof k tn ups cond = (k', Ok tt) ->
         PInv2 prof k' /\
         others_untouched prof k k' tn /\
         (exists old new : list (list value),
            tvals prof (the_db k) t = Ok old /\
            tvals prof (the_db k') t = Ok new /\
            (if touches_key t ups
             then Permutation new (map (upd_row t ups cond) old)
             else new = map (upd_row t ups cond) old) /\ sorted_by_key t new /\ rows_valid t new).
Proof. exact pkg_update_ok. Qed.

(* the same at the level of the table store, with the frame on container entries *)
Theorem C03_insert_store :
  forall (prof : profile) (d : db) (tn : str) (t : table) (rows : list (list value)) 
           (c' : container) (p' : pool),
         Inv' d ->
         Forall (Forall value_storable) rows ->
         In (tn, t) (d_tabs d) ->
         find_table (d_tabs d) tn = Some t ->
         exec_insert prof (d_cont d) (d_pool d) (d_tabs d) tn rows = Ok (c', p') ->
         let d' := {| d_cont := c'; d_pool := p'; d_tabs := d_tabs d |} in
         Inv' d' /\
         (exists old new : list (list value),
            tvals prof d t = Ok old /\
            tvals prof d' t = Ok new /\
            Permutation new (old ++ map (map normalize_value) rows) /\
            sorted_by_key t new /\ (rows_valid t old -> rows_valid t new)) /\
         (forall (n' : str) (t' : table), In (n', t') (d_tabs d) -> n' <> tn -> tvals prof d' t' = tvals prof d t') /\
         (forall s : str,
          name_eqb s (stream_name_of t) = false -> ct_find (ct_entries c') s = ct_find (ct_entries (d_cont d)) s) /\
         ct_clsid c' = ct_clsid (d_cont d).
Proof. exact insert_refines. Qed.

Theorem C03_delete_store :
  forall (prof : profile) (d : db) (tn : str) (t : table) (cond : option ast) (c' : container) (p' : pool),
         Inv d ->
         In (tn, t) (d_tabs d) ->
         find_table (d_tabs d) tn = Some t ->
         exec_delete prof (d_cont d) (d_pool d) (d_tabs d) tn cond = Ok (c', p') ->
         let d' := {| d_cont := c'; d_pool := p'; d_tabs := d_tabs d |} in
         Inv d' /\
         (exists old : list (list value),
            tvals prof d t = Ok old /\
            tvals prof d' t = Ok (filter (fun r : list value => negb (holds_v t cond r)) old)) /\
         (forall (n' : str) (t' : table), In (n', t') (d_tabs d) -> n' <> tn -> tvals prof d' t' = tvals prof d t') /\
         (forall s : str,
          name_eqb s (stream_name_of t) = false -> ct_find (ct_entries c') s = ct_find (ct_entries (d_cont d)) s) /\
         ct_clsid c' = ct_clsid (d_cont d).
Proof. exact delete_refines. Qed.

Theorem C03_update_store :
  forall (prof : profile) (d : db) (tn : str) (t : table) (ups : list (str * value)) 
           (cond : option ast) (c' : container) (p' : pool),
         UpdateRefine.Inv' d ->
         ups_wf ups ->
         In (tn, t) (d_tabs d) ->
         find_table (d_tabs d) tn = Some t ->
         exec_update prof (d_cont d) (d_pool d) (d_tabs d) tn ups cond = Ok (c', p') ->
         let d' := {| d_cont := c'; d_pool := p'; d_tabs := d_tabs d |} in
         UpdateRefine.Inv' d' /\
         (exists old new : list (list value),
            tvals prof d t = Ok old /\
            tvals prof d' t = Ok new /\
            (if touches_key t ups
             then Permutation new (map (upd_row t ups cond) old) /\ sorted_by_key t new
             else new = map (upd_row t ups cond) old) /\ (rows_valid t old -> rows_valid t new)) /\
         (forall (n' : str) (t' : table), In (n', t') (d_tabs d) -> n' <> tn -> tvals prof d' t' = tvals prof d t') /\
         (forall s : str,
          name_eqb s (stream_name_of t) = false -> ct_find (ct_entries c') s = ct_find (ct_entries (d_cont d)) s) /\
         ct_clsid c' = ct_clsid (d_cont d).
Proof. exact update_refines. Qed.

(* select = filter by the condition, then project, order preserved *)
Theorem C03_select :
  forall (prof : profile) (c : container) (p : pool) (ts : tables) (tn : str) (names : list str)
           (cond : option ast) (t' : table) (out : list (list vref)) (all : list (list value)) 
           (t : table),
         find_table ts tn = Some t ->
         rows_all <- load_rows c t;; rmapM (row_to_values prof p) rows_all = Ok all ->
         exec_select prof c p ts (Sel (JTable tn) names cond) = Ok (t', out) ->
         exists idx : list nat,
           indices_of t names = Some idx /\
           rmapM (row_to_values prof p) out =
           Ok
             (map (fun r : list value => match idx with
                                         | [] => r
                                         | _ :: _ => project idx r
                                         end) (filter (holds_v t cond) all)) /\
           map c_name (t_cols t') = match names with
                                    | [] => map c_name (t_cols t)
                                    | _ :: _ => names
                                    end.
Proof. exact select_table_spec. Qed.

Theorem C03_filter :
  forall (prof : profile) (p : pool) (t : table) (cond : option ast) (rows : list (list vref))
           (vals : list (list value)) (out : list (list vref)),
         rmapM (row_to_values prof p) rows = Ok vals ->
         filter_rows prof p t cond rows = Ok out ->
         rmapM (row_to_values prof p) out = Ok (filter (holds_v t cond) vals).
Proof. exact filter_rows_spec. Qed.

Theorem C03_row_shape :
  forall (prof : profile) (c : container) (p : pool) (ts : tables) (s : sel) (t : table)
           (rows : list (list vref)), bytes_ok c -> exec_select prof c p ts s = Ok (t, rows) -> rows_shaped t rows.
Proof. exact select_shape. Qed.

(* ascending order is strict: keys are unique *)
Theorem C03_keys_sorted_unique :
  forall m : keyed, keyed_sorted m -> NoDup (map fst m).
Proof. exact sorted_nodup. Qed.

Print Assumptions C03_insert.
Print Assumptions C03_delete.
Print Assumptions C03_update.
Print Assumptions C03_insert_store.
Print Assumptions C03_delete_store.
Print Assumptions C03_update_store.
Print Assumptions C03_select.
Print Assumptions C03_filter.
Print Assumptions C03_row_shape.
Print Assumptions C03_keys_sorted_unique.
