(* C10 (continued) -- a summary change is never lost to bookkeeping: in WHATEVER state the package is (also the one a failed
   save leaves behind: summary still marked modified, deferred save already consumed), summary_info_mut leaves the
   summary marked modified and the deferred save armed, so the next save writes it.  That the source sets both
   unconditionally is regenerated on every run (GenIo.SUMMARY_MUT_ARMS).
   Statements only; every proof is `exact <lemma>` from theories/Propagate.v. *)
From MsiModel Require Import Base Container Package Propagate.
From MsiGen Require Import GenIo.

Theorem C10_summary_mut_arms : forall k f,
  k_fin (fst (pkg_summary_mut k f)) = true /\ k_sum_mod (fst (pkg_summary_mut k f)) = true.
Proof. exact summary_mut_arms. Qed.
Theorem C10_summary_mut_arms_in_source : SUMMARY_MUT_ARMS = true.
Proof. exact summary_mut_arms_now. Qed.

Print Assumptions C10_summary_mut_arms.
Print Assumptions C10_summary_mut_arms_in_source.
