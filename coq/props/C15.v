(* C15 placeholder *)
From MsiModel Require Import Base.
