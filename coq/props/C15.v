(* C15 -- A successful flush means the data reached the medium, even when writes fail.
   Model (Io.v): a medium whose write calls fail according to ANY schedule (nat -> bool: one transient fault, a persistent
   one, any pattern), the container's buffered stream (8 KiB write-back buffer; Drop discards the result of its final flush),
   a write path = write the chunks with `?`, flush-and-propagate or not, drop; a save = a sequence of write paths each
   propagated.  Whether each real write function flushes and whether finish / flush / exec propagate is regenerated from
   the source on every run (GenIo.v): C15_discipline breaks as soon as one of them stops doing so.
   Partial: cfb's own sector / FAT / directory writes are below this model; they are exercised by the fault enumeration
   on the real medium (every write index of several scripts), which is the correspondence for this property.
   Statements only; every proof is `exact <lemma>` from theories/. *)
From MsiModel Require Import Base Io IoProofs.
From MsiGen Require Import GenIo.
Open Scope N_scope.

(* the four write paths end with a propagated flush; finish, flush and exec propagate every error *)
Theorem C15_discipline :
  IO_WRITE_ROWS_FLUSHES = true /\
         IO_WRITE_POOL_FLUSHES = true /\
         IO_WRITE_DATA_FLUSHES = true /\
         IO_PROPSET_WRITE_FLUSHES = true /\
         IO_FINISH_PROPAGATES = true /\ IO_FLUSH_PROPAGATES = true /\ IO_EXEC_PROPAGATES = true.
Proof. exact discipline_now. Qed.
(* Package::create propagates the error of its own final save *)
Theorem C15_create_propagates : IO_CREATE_PROPAGATES = true.
Proof. exact create_propagates_now. Qed.

(* a flushing write path that reports success has landed every byte, in order -- for every fault schedule *)
Theorem C15_durable :
  forall (sch : schedule) (s : sink) (chunks : list bytes) (s' : sink),
         write_path true sch s chunks = (s', true) -> landed s' = landed s ++ concat chunks.
Proof. exact write_path_durable. Qed.

(* a whole save: success implies everything landed *)
Theorem C15_save_durable :
  IO_WRITE_ROWS_FLUSHES = true ->
         IO_WRITE_POOL_FLUSHES = true ->
         IO_WRITE_DATA_FLUSHES = true ->
         IO_PROPSET_WRITE_FLUSHES = true ->
         forall (sch : schedule) (s : sink) (ws : list (wkind * list bytes)) (s' : sink),
         write_all sch s ws = (s', true) -> landed s' = landed s ++ all_bytes ws.
Proof. exact write_all_durable. Qed.

(* ... hence the medium holds what the fault-free run would have written *)
Theorem C15_same_as_fault_free :
  IO_WRITE_ROWS_FLUSHES = true ->
         IO_WRITE_POOL_FLUSHES = true ->
         IO_WRITE_DATA_FLUSHES = true ->
         IO_PROPSET_WRITE_FLUSHES = true ->
         forall (sch : schedule) (s : sink) (ws : list (wkind * list bytes)) (s' : sink),
         write_all sch s ws = (s', true) -> landed s' = landed (fst (write_all (fun _ : nat => false) s ws)).
Proof. exact write_all_same_as_fault_free. Qed.

(* a failed path never corrupts what had landed before *)
Theorem C15_prefix_safe :
  forall (fl : bool) (sch : schedule) (s : sink) (chunks : list bytes) (s' : sink) (ok : bool),
         write_path fl sch s chunks = (s', ok) -> exists more : list N, landed s' = landed s ++ more.
Proof. exact write_path_extends. Qed.

(* without faults every path succeeds *)
Theorem C15_fault_free :
  forall (fl : bool) (s : sink) (chunks : list bytes),
         write_path fl (fun _ : nat => false) s chunks =
         ({|
            landed := landed s ++ concat chunks; calls := calls (fst (write_path fl (fun _ : nat => false) s chunks))
          |}, true).
Proof. exact write_path_fault_free. Qed.

(* why the flush matters: without it there is a schedule where the path reports success and nothing landed (the defect repaired by 052f42f) *)
Theorem C15_unflushed_refuted :
  forall s : sink,
         exists (sch : schedule) (chunks : list (list N)) (s' : sink),
           chunks <> [] /\ concat chunks <> [] /\ write_path false sch s chunks = (s', true) /\ landed s' = landed s.
Proof. exact write_path_unflushed_loses. Qed.

Print Assumptions C15_discipline.
Print Assumptions C15_create_propagates.
Print Assumptions C15_durable.
Print Assumptions C15_save_durable.
Print Assumptions C15_same_as_fault_free.
Print Assumptions C15_prefix_safe.
Print Assumptions C15_fault_free.
Print Assumptions C15_unflushed_refuted.
