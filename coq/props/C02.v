(* C02 -- Independently encoded MSI databases are read exactly.
   Reader-side theorems, each quantified over every well-formed value of the format (not over the output of the
   library's writer): the pool reader inverts ANY well-formed pool -- two- and three-byte references, unused entries,
   duplicate strings, over-counted references, strings above 64 KiB (long-string escape); the table reader inverts any
   column-major stream of well-typed rows in ANY row order with either reference width; every 16-bit type word with
   integer field sizes 1/2/4; the catalog reader rebuilds any accepted column list from _Columns/_Validation rows;
   the property-set reader any well-formed set; readers are total.  And the composition (ReaderProofs.v): C02_open_encoded --
   for EVERY container that is the serialisation of some abstract state (RInv: pool laid out in any way the format allows --
   entry order, unused entries empty or still holding stale text, duplicates, over-counted references, either reference
   width; the rows of every table, the catalog tables included, in ANY order; with or without a _Validation table; no
   sortedness, no exact accounting assumed) Package::open returns exactly that state; every state the library saves is
   such an encoding; a hand-made non-canonical witness (three-byte references, no _Validation, stale and duplicate pool
   entries, descending _Columns rows) is shown to satisfy RInv, to violate the library's own invariant, and to open to
   itself.  Still covered by the correspondence only (independent encoder tools/msienc.py): property-set layouts other
   than the writer's (value order, gaps), integer field size 1, and non-UTF-8 code pages.
   Statements only; every proof is `exact <lemma>` from theories/. *)
From Coq Require Import Sorting.Sorted Permutation.
From MsiModel Require Import Base Sexp Value Expr Category CategoryProofs Column ColumnProofs CodePage Pool Table Container StreamName Propset Summary Query Package PoolProofs TableProofs CatalogProofs PropsetCodecProofs SelectTotal QueryProofs DbInv PackageProofs PkgInv ReopenLemmas ReopenProofs ReaderProofs ReaderExamples.
From MsiGen Require Import GenConsts GenCatalog GenColumn.
Open Scope N_scope.

(* any well-formed UTF-8 pool (holes, duplicates, over-counts, long strings, either width) is read exactly *)
Theorem C02_pool_reader :
  forall p : pool,
         pool_wf p ->
         p_cp p = cp_utf8 ->
         exists pb db : bytes,
           write_pool p = Some pb /\ write_data p = Some db /\ read_pool pb db = Ok (pool_mark_unmodified p).
Proof. exact pool_roundtrip. Qed.

Theorem C02_pool_total :
  forall pb db : bytes, read_pool pb db <> Panic.
Proof. exact read_pool_total. Qed.

(* every cell: offset-binary integers, zero = null, 2/3-byte references *)
Theorem C02_cell_reader :
  forall (prof : profile) (t : coltype) (long : bool) (v : vref) (bs : bytes) (rest : list N),
         cell_ok t long v ->
         write_cell prof t long v = Ok bs -> read_cell t long (bs ++ rest) = Ok (v, rest) /\ nlen bs = ct_width t long.
Proof. exact cell_roundtrip. Qed.

(* whatever the bytes, a cell that is read is well-typed for its column *)
Theorem C02_cells_in_range :
  forall (ty : coltype) (long : bool) (b : bytes) (v : vref) (r : bytes),
         small b -> read_cell ty long b = Ok (v, r) -> small r /\ ref_ok v.
Proof. exact read_cell_ok. Qed.

(* any list of well-typed rows, in any order, column-major *)
Theorem C02_table_reader :
  forall (prof : profile) (t : table) (rows : list (list vref)),
         t_cols t <> [] ->
         Forall (row_ok t) rows ->
         nlen rows <= MAX_ROWS_READ ->
         exists bs : bytes,
           write_rows prof t rows = Ok bs /\ nlen bs = nlen rows * row_size t /\ read_rows t bs = Ok rows.
Proof. exact rows_roundtrip. Qed.

Theorem C02_table_total :
  forall (t : table) (b : bytes), read_rows t b <> Panic.
Proof. exact read_rows_total. Qed.

(* column type words *)
Theorem C02_type_words :
  forall c : column,
         storable_type (c_type c) = true ->
         exists c' : column,
           col_with_bits c (col_bits c) = Ok c' /\
           c_type c' = c_type c /\
           c_loc c' = c_loc c /\
           c_null c' = c_null c /\
           c_pk c' = c_pk c /\
           c_name c' = c_name c /\
           c_range c' = c_range c /\
           c_fk c' = c_fk c /\ c_cat c' = c_cat c /\ c_enum c' = c_enum c /\ (-32768 < col_bits c <= 32767)%Z.
Proof. exact col_bits_roundtrip. Qed.

(* integer field sizes 1 and 2 are 16-bit, 4 is 32-bit (FROM_BITFIELD_INT_SIZES) *)
Theorem C02_int_sizes :
  COL_FIELD_SIZE_MASK = 255 /\
         COL_LOCALIZABLE_BIT = 512 /\
         COL_STRING_BIT = 2048 /\
         COL_NULLABLE_BIT = 4096 /\
         COL_PRIMARY_KEY_BIT = 8192 /\
         COL_VALID_BIT = 256 /\
         COL_NONBINARY_BIT = 1024 /\
         COLTYPE_INT16_BITS = 2 /\ COLTYPE_INT32_BITS = 4 /\ FROM_BITFIELD_INT_SIZES = [(4, 32); (2, 16); (1, 16)].
Proof. exact column_constants_pinned. Qed.

(* _Columns + _Validation rows -> column list *)
Theorem C02_catalog_reader :
  forall (tn : list N) (cols : list column) (long : bool),
         tn <> [] ->
         cols <> [] ->
         Forall col_storable cols ->
         NoDup (map c_name cols) ->
         cmap <- read_columns_rows [tn] (stored (columns_rows tn cols)) [];;
         vals <- read_validation_rows (stored (validation_rows tn cols)) [];; build_tables [tn] cmap vals long [] =
         Ok [(tn, {| t_name := tn; t_cols := cols; t_long := long |})].
Proof. exact catalog_roundtrip. Qed.

(* any well-formed property set *)
Theorem C02_propset_reader :
  forall ps : propset, ps_ok ps -> exists b : bytes, ps_write ps = Some b /\ ps_read b = Ok ps.
Proof. exact ps_roundtrip. Qed.

(* the pool reader inverts ANY readable pool (stale text in unused entries allowed) *)
Theorem C02_pool_reader_any_layout :
  forall p : pool,
         pool_rd p -> exists pb db : bytes, write_pool p = Some pb /\ write_data p = Some db /\ read_pool pb db = Ok p.
Proof. exact pool_reader_any. Qed.

(* Package::open of the serialisation of any abstract state returns exactly that state *)
Theorem C02_open_encoded :
  forall (prof : profile) (k : pkg), RInv prof k -> pkg_open prof (k_cont k) = Ok k.
Proof. exact open_encoded. Qed.

(* ... and every table reads back as the rows that were encoded *)
Theorem C02_open_encoded_rows :
  forall (prof : profile) (k k' : pkg),
         RInv prof k ->
         pkg_open prof (k_cont k) = Ok k' ->
         k' = k /\
         (forall e : str * table, In e (k_tabs k) -> tvals prof (the_db k') (snd e) = tvals prof (the_db k) (snd e)).
Proof. exact open_encoded_rows. Qed.

(* what the library itself saves is such an encoding *)
Theorem C02_saved_is_encoded :
  forall (prof : profile) (k : pkg),
         PInv prof k -> k_fin k = false -> k_sum_mod k = false -> p_mod (k_pool k) = false -> RInv prof k.
Proof. exact saved_is_encoded. Qed.

(* non-vacuity: a non-canonical hand-made file satisfies the reader invariant ... *)
Theorem C02_witness_encoded :
  forall prof : profile, RInv prof kx.
Proof. exact kx_encoded. Qed.

(* ... violates the library's own (writer) invariant ... *)
Theorem C02_witness_not_canonical :
  forall prof : profile, ~ PInv prof kx.
Proof. exact kx_not_canonical. Qed.

(* ... and opens to exactly itself in both profiles (by computation, independently of the theorem) *)
Theorem C02_witness_opens :
  pkg_open Debug contx = Ok kx /\ pkg_open Release contx = Ok kx.
Proof. exact kx_open_computed. Qed.

Print Assumptions C02_pool_reader.
Print Assumptions C02_pool_total.
Print Assumptions C02_cell_reader.
Print Assumptions C02_cells_in_range.
Print Assumptions C02_table_reader.
Print Assumptions C02_table_total.
Print Assumptions C02_type_words.
Print Assumptions C02_int_sizes.
Print Assumptions C02_catalog_reader.
Print Assumptions C02_propset_reader.
Print Assumptions C02_pool_reader_any_layout.
Print Assumptions C02_open_encoded.
Print Assumptions C02_open_encoded_rows.
Print Assumptions C02_saved_is_encoded.
Print Assumptions C02_witness_encoded.
Print Assumptions C02_witness_not_canonical.
Print Assumptions C02_witness_opens.
