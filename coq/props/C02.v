(* C02 placeholder *)
From MsiModel Require Import Base.
