(* C03 (continued) -- DELETE and UPDATE whose condition is a chain of with() restrictions act on exactly the rows for which
   EVERY restriction, judged on its own, holds; every other table, stream and the summary are untouched.  No side
   condition: a row on which a restriction cannot be evaluated fails that restriction and the chain alike.
   Statements only; every proof is `exact <lemma>` from theories/ChainOps.v. *)
From Coq Require Import Permutation.
From MsiModel Require Import Base Value Expr Category Column CodePage Pool Table Container StreamName Propset Summary Query Package QueryProofs DbInv
  PkgInv PkgInv2 UpdateRefine DmlPkgProofs WithChain ChainOps.
From MsiGen Require Import GenConsts GenCatalog GenStreamName.

Theorem C03_holds_chain : forall t es r,
  holds_v t (q_withs None es) r = forallb (fun e => holds_v t (Some e) r) es.
Proof. exact holds_v_chain. Qed.

Theorem C03_delete_chain : forall prof k tn t es k',
  PInv2 prof k -> user_table_name tn -> find_table (k_tabs k) tn = Some t ->
  pkg_delete prof k tn (q_withs None es) = (k', Ok tt) ->
  PInv2 prof k' /\ others_untouched prof k k' tn /\
  exists old, tvals prof (the_db k) t = Ok old /\
    tvals prof (the_db k') t = Ok (filter (fun r => negb (forallb (fun e => holds_v t (Some e) r) es)) old).
Proof. exact delete_chain. Qed.

Theorem C03_update_chain : forall prof k tn t ups es k',
  PInv2 prof k -> user_table_name tn -> find_table (k_tabs k) tn = Some t -> ups_wf ups ->
  pkg_update prof k tn ups (q_withs None es) = (k', Ok tt) ->
  PInv2 prof k' /\ others_untouched prof k k' tn /\
  exists old new, tvals prof (the_db k) t = Ok old /\ tvals prof (the_db k') t = Ok new /\
    (if touches_key t ups then Permutation new (map (upd_row_chain t ups es) old)
     else new = map (upd_row_chain t ups es) old) /\
    sorted_by_key t new /\ rows_valid t new.
Proof. exact update_chain. Qed.

Print Assumptions C03_holds_chain.
Print Assumptions C03_delete_chain.
Print Assumptions C03_update_chain.
