(* C19 -- Printed queries mean what the query objects mean.  Statements only;
   proofs in theories/LadderProofs.v.  The ladder parser (Ladder.v) is the spec. *)
From MsiModel Require Import Base Value Expr Ladder LadderProofs.
From MsiGen Require Import GenExpr.

(* the printer's precedence integers map onto the grammar's levels *)
Theorem C19_levels : forall b, lev b = G (bop_prec b).
Proof. exact lev_G. Qed.
Theorem C19_printer_shape : PRINTER_SHAPE = [6; 3; 3]%N.
Proof. exact printer_shape_pinned. Qed.

(* every expression: the printed tokens, read with the ladder, give back the
   very tree that was printed (fuel is existential: the out-of-fuel answer is
   excluded by the statement) *)
Theorem C19_print_parse : forall e, exists f, parse f 0 (print 0 e) = Some (e, []).
Proof. exact c19_print_parse. Qed.
Theorem C19_same_meaning : forall e, exists f e',
  parse f 0 (print 0 e) = Some (e', []) /\ forall r, eval r e' = eval r e.
Proof. exact c19_same_meaning. Qed.

Check C19_print_parse : forall e, exists f, parse f 0 (print 0 e) = Some (e, []).
Print Assumptions C19_print_parse.
Print Assumptions C19_same_meaning.
