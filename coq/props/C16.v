(* C16 -- Opening and reading a package never modifies it.
   pkg_open yields a package with no finisher and clean flags whose container IS the one opened; the read operations
   of the model (pkg_select, pkg_streams, pkg_has_stream, pkg_read_stream, summary getters, table inspection) are
   functions that return no package, so they cannot change it (by construction of the model, tied to the code by the
   counting medium of the correspondence run); closing (flush = into_inner = drop on an infallible medium) then
   writes nothing: the saved container is identical.  Sector-level behaviour of cfb is observed, not proved.
   Statements only; every proof is `exact <lemma>` from theories/. *)
From MsiModel Require Import Base Sexp Value Expr Category Column CodePage Pool Table Container StreamName Propset Summary Query Package PackageProofs.
From MsiGen Require Import GenConsts GenCatalog GenStreamName.
Open Scope N_scope.

(* after open: container unchanged, no finisher, nothing marked modified *)
Theorem C16_open_clean :
  forall (prof : profile) (c : container) (k : pkg),
         pkg_open prof c = Ok k -> k_cont k = c /\ k_fin k = false /\ k_sum_mod k = false /\ p_mod (k_pool k) = false.
Proof. exact open_clean. Qed.

(* closing a session that only read leaves the container identical *)
Theorem C16_readonly_close :
  forall (prof : profile) (c : container) (k : pkg),
         pkg_open prof c = Ok k -> pkg_flush k = Some k /\ saved k = Some c.
Proof. exact readonly_close. Qed.

Theorem C16_flags_after_open :
  forall (prof : profile) (c : container) (k : pkg), pkg_open prof c = Ok k -> flags_ok k.
Proof. exact open_flags. Qed.

(* and a second close writes nothing either *)
Theorem C16_flush_idempotent :
  forall k k' : pkg, pkg_flush k = Some k' -> pkg_flush k' = Some k'.
Proof. exact flush_idempotent. Qed.

Print Assumptions C16_open_clean.
Print Assumptions C16_readonly_close.
Print Assumptions C16_flags_after_open.
Print Assumptions C16_flush_idempotent.
