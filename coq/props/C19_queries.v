(* C19 (queries) -- the text form of SELECT / JOIN / INSERT / UPDATE / DELETE.
   QueryText.query_text transcribes the five fmt::Display implementations character by character (it is compared with the
   real to_string() by the correspondence); it is the rendering of a token list (query_text_render) which the query
   grammar of examples/msiquery.pest -- written as a parser from the grammar, using the expression ladder for every WHERE /
   ON expression -- reads back as THE SAME query: same tables, columns, rows of literal values, assignments, join structure
   and conditions.  The hypotheses are exactly what the grammar can express (query_roundtrip_iff): names are identifiers
   (column lists may use table.column), every INSERT row and every UPDATE assignment list is non-empty.  The last two are
   the known finding degenerate_query_text, witnessed by C19_*_unread.
   Statements only; every proof is `exact <lemma>` from theories/. *)
From MsiModel Require Import Base Sexp Value Expr ExprText Ladder LadderProofs Query QueryText QueryParse QueryTextProofs.
From MsiGen Require Import GenExpr.

(* the characters written = the rendering of the printed tokens *)
Theorem C19_query_text_is_rendering :
  forall q : query, qrender (print_query q) = query_text q.
Proof. exact query_text_render. Qed.

(* the grammar reads the printed query back as the same query *)
Theorem C19_query_roundtrip :
  forall q : query, names_ok q -> shape_ok q -> parse_query (print_query q) = Some q.
Proof. exact query_roundtrip. Qed.

(* ... exactly for the queries the grammar can express *)
Theorem C19_query_roundtrip_exact :
  forall q : query, parse_query (print_query q) = Some q <-> names_ok q /\ shape_ok q.
Proof. exact query_roundtrip_iff. Qed.

(* same tables, columns, literal rows, assignments, join structure, conditions *)
Theorem C19_query_same_structure :
  forall q : query,
         names_ok q ->
         shape_ok q ->
         exists q' : query,
           parse_query (print_query q) = Some q' /\
           query_tables q' = query_tables q /\
           query_columns q' = query_columns q /\
           query_rows q' = query_rows q /\
           query_assignments q' = query_assignments q /\ query_from q' = query_from q /\ query_cond q' = query_cond q.
Proof. exact query_same_structure. Qed.

Theorem C19_query_text_reads_back :
  forall q : query,
         names_ok q -> shape_ok q -> exists ts : list qtok, qrender ts = query_text q /\ parse_query ts = Some q.
Proof. exact query_text_reads_back. Qed.

(* an expression inside a query (before WHERE, ")" or the end) is read back exactly *)
Theorem C19_expression_in_context :
  forall (e : ast) (rest : list qtok), noop rest -> parse_expr_q (map QE (print 0 e) ++ rest) = Some (e, rest).
Proof. exact parse_expr_q_print. Qed.

(* the ladder parser's fuel bound used by the query parser is sufficient *)
Theorem C19_fuel_sufficient :
  forall (f m : nat) (ts : list tok) (x : ast * list tok),
         parse f m ts = Some x -> parse (2 * length ts + 2) m ts = Some x.
Proof. exact parse_enough. Qed.

(* known finding: "UPDATE T SET  WHERE K" is not in the grammar *)
Theorem C19_update_no_assignment_unread :
  parse_query (print_query (QUpdate (n_ "T") [] (Some (Col (n_ "K"))))) = None.
Proof. exact update_no_assignment_unread. Qed.

(* known finding: "INSERT INTO T VALUES ()" is not in the grammar *)
Theorem C19_insert_empty_row_unread :
  parse_query (print_query (QInsert (n_ "T") [[]])) = None.
Proof. exact insert_empty_row_unread. Qed.

Print Assumptions C19_query_text_is_rendering.
Print Assumptions C19_query_roundtrip.
Print Assumptions C19_query_roundtrip_exact.
Print Assumptions C19_query_same_structure.
Print Assumptions C19_query_text_reads_back.
Print Assumptions C19_expression_in_context.
Print Assumptions C19_fuel_sufficient.
Print Assumptions C19_update_no_assignment_unread.
Print Assumptions C19_insert_empty_row_unread.
