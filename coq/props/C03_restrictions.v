(* C03 (continued) -- DELETE / UPDATE / SELECT act on exactly the rows that satisfy the WHOLE condition, also when the
   condition is given as a chain of with() calls: every restriction counts (keeping only the first one is a different
   query: C03_with_first_only_differs).  Regenerated from the source on every run: GenIo.QUERY_WITH_CONJOINS.
   Statements only; every proof is `exact <lemma>` from theories/WithChain.v. *)
From MsiModel Require Import Base Value Expr WithChain.
From MsiGen Require Import GenIo.
Open Scope Z_scope.

Theorem C03_with_every_restriction_counts : forall r es c bc bs,
  sat r c = Ok bc -> Forall2 (fun e b => sat r (Some e) = Ok b) es bs ->
  sat r (q_withs c es) = Ok (bc && forallb (fun b => b) bs).
Proof. exact with_chain. Qed.
Theorem C03_with_first_only_differs : exists r a b, sat r (Some a) <> sat r (q_with (Some a) b).
Proof. exact with_first_only_differs. Qed.
Theorem C03_with_conjoins_in_source : QUERY_WITH_CONJOINS = true.
Proof. exact with_conjoins_now. Qed.

Print Assumptions C03_with_every_restriction_counts.
Print Assumptions C03_with_first_only_differs.
Print Assumptions C03_with_conjoins_in_source.
