(* C13 (continued) -- the documented truthiness where queries use it: a query restricted by with(e1) ... with(en) keeps a
   row iff EVERY restriction is true of it by the documented rule (null, zero and the empty string false, everything else
   true -- a restriction worth 2 is as true as one worth 1).  That the three with() methods accumulate by `and` is
   regenerated from the source on every run (GenIo.QUERY_WITH_CONJOINS).
   Statements only; every proof is `exact <lemma>` from theories/WithChain.v. *)
From MsiModel Require Import Base Value Expr WithChain.
From MsiGen Require Import GenIo.
Open Scope Z_scope.

Theorem C13_with_chain : forall r es c bc bs,
  sat r c = Ok bc -> Forall2 (fun e b => sat r (Some e) = Ok b) es bs ->
  sat r (q_withs c es) = Ok (bc && forallb (fun b => b) bs).
Proof. exact with_chain. Qed.
Theorem C13_with_two : forall r a b ba bb,
  sat r (Some a) = Ok ba -> sat r (Some b) = Ok bb -> sat r (q_withs None [a; b]) = Ok (ba && bb).
Proof. exact with_two. Qed.
Theorem C13_with_bitand_differs : exists r a b, sat r (Some (BinOp OBitAnd a b)) <> sat r (q_with (Some a) b).
Proof. exact with_bitand_differs. Qed.
Theorem C13_with_conjoins_in_source : QUERY_WITH_CONJOINS = true.
Proof. exact with_conjoins_now. Qed.

Print Assumptions C13_with_chain.
Print Assumptions C13_with_two.
Print Assumptions C13_with_bitand_differs.
Print Assumptions C13_with_conjoins_in_source.
