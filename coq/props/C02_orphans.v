(* C02 (orphan _Validation rows) -- statements only; proofs in theories/ReaderOrphans.v.
   Real-world packages describe every standard table in _Validation, whether the table is in the file or not.  RInvO is
   the reader invariant with such orphan rows allowed (any rows whose (table, column) names no column of the file, pairwise
   distinct): the file still opens to exactly the state it encodes. *)
From Coq Require Import Sorting.Sorted Permutation.
From MsiModel Require Import Base Sexp Value Expr Category Column CodePage Pool Table Container StreamName
  Propset Summary Query Package PoolProofs TableProofs QueryProofs DbInv CatalogProofs PropsetCodecProofs PackageProofs PkgInv
  ReopenLemmas ReopenProofs ReaderProofs ReaderOrphansSpec ReaderOrphans.
From MsiGen Require Import GenConsts GenCatalog GenStreamName.
Open Scope N_scope.

(* the file opens to exactly the state it encodes; the orphan rows change nothing *)
Theorem C02_open_encoded_orphans :
  forall prof k orph, RInvO prof k orph -> pkg_open prof (k_cont k) = Ok k.
Proof. exact open_encoded_orphans. Qed.
Print Assumptions C02_open_encoded_orphans.

(* RInv is the special case without orphans *)
Theorem C02_rinv_is_rinvo :
  forall prof k, RInv prof k -> RInvO prof k [].
Proof. exact rinv_is_rinvo. Qed.
Print Assumptions C02_rinv_is_rinvo.

(* non-vacuity: a created package with one orphan row satisfies RInvO, is outside RInv, and opens to itself *)
Theorem C02_orphan_witness : RInvO Debug ko [orow] /\ ~ RInv Debug ko.
Proof. exact (conj ko_encoded ko_not_rinv). Qed.
Print Assumptions C02_orphan_witness.
