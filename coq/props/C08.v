(* C08 -- Saved files are well-formed MSI databases with exact string accounting.
   C08_reachable_accounting: in every reachable state the pool is well-formed (16-bit counts; a count is zero exactly
   when the text is empty: unused entries are empty, no live entry is the empty string), the reference count of every
   entry equals the number of cells of ALL tables (catalog tables included) that refer to it, and the catalog tables hold
   exactly the rows describing the existing tables (columns numbered 1..n by columns_rows).  What a save writes is
   write_pool / write_data of that pool and write_rows of those rows (disk_ok in the invariant; C08_saved): a table
   stream is rows x row-width bytes, column-major, integers offset-binary with zero = null, string references naming live
   entries (row_ok).  After drop_table the table's stream is gone and accounting is exact again, so no text of its rows
   remains (their entries reached count zero and were cleared).  The independent decoder tools/msidec.py checks the same
   facts on every saved file of the correspondence run.
   Statements only; every proof is `exact <lemma>` from theories/. *)
From Coq Require Import Sorting.Sorted Permutation.
From MsiModel Require Import Base Sexp Value Expr Category Column CodePage Pool Table Container StreamName Propset Summary Query Package PoolProofs TableProofs QueryProofs DbInv CatalogProofs PropsetCodecProofs PackageProofs PkgInv UpdateRefine PkgInv2 InsertRefine DeleteRefine DmlPkgProofs DropTableProofs MiscOpsProofs ReopenProofs CreateTableLemmas CreateTableProofs StreamProofs Reach KnownFindings.
From MsiGen Require Import GenConsts GenCatalog GenStreamName.
Open Scope N_scope.

(* the property, for every reachable package *)
Theorem C08_reachable_accounting :
  forall (prof : profile) (k : pkg),
         reachable prof k ->
         pool_wf (k_pool k) /\
         (forall r : N, 0 < r -> refcount (k_pool k) r = occ r (all_rows (k_cont k) (k_tabs k))) /\ catalog_ok prof k.
Proof. exact reachable_accounting. Qed.

(* the saved state: same content, pool streams = write_pool / write_data of the accounted pool *)
Theorem C08_saved :
  forall (prof : profile) (k k1 : pkg),
         PInv prof k ->
         pkg_flush k = Some k1 ->
         PInv prof k1 /\
         same_obs prof k k1 /\
         k_pool k1 = pool_mark_unmodified (k_pool k) /\
         k_fin k1 = false /\ k_sum_mod k1 = false /\ p_mod (k_pool k1) = false.
Proof. exact flush_spec. Qed.

(* a table stream is a whole number of column-major rows and decodes to the rows written *)
Theorem C08_stream_shape :
  forall (prof : profile) (t : table) (rows : list (list vref)),
         t_cols t <> [] ->
         Forall (row_ok t) rows ->
         nlen rows <= MAX_ROWS_READ ->
         exists bs : bytes,
           write_rows prof t rows = Ok bs /\ nlen bs = nlen rows * row_size t /\ read_rows t bs = Ok rows.
Proof. exact rows_roundtrip. Qed.

(* offset-binary integers, zero = null, references of the pool's width *)
Theorem C08_cells :
  forall (prof : profile) (t : coltype) (long : bool) (v : vref) (bs : bytes) (rest : list N),
         cell_ok t long v ->
         write_cell prof t long v = Ok bs -> read_cell t long (bs ++ rest) = Ok (v, rest) /\ nlen bs = ct_width t long.
Proof. exact cell_roundtrip. Qed.

(* interning: exactly one count more at exactly one entry, pool stays well-formed *)
Theorem C08_incref :
  forall (prof : profile) (p : pool) (s : list N) (p' : pool) (r : N),
         pool_wf p ->
         s <> [] ->
         forallb is_scalar s = true ->
         utf8_len s < 4294967296 ->
         pool_incref prof p s = Ok (p', r) ->
         pool_wf p' /\
         live p' r s /\
         total_refs p' = total_refs p + 1 /\
         refcount p' r = refcount p r + 1 /\
         (forall r' : N, r' <> r -> r' <> 0 \/ r <> 1 -> refcount p' r' = refcount p r') /\
         (forall (r' : N) (s' : str), live p r' s' -> live p' r' s') /\
         p_cp p' = p_cp p /\ p_long p' = p_long p /\ p_mod p' = true.
Proof. exact incref_spec. Qed.

(* releasing: exactly one count less; at zero the text is cleared *)
Theorem C08_decref :
  forall (prof : profile) (p : pool) (r : N) (s : str),
         pool_wf p ->
         live p r s ->
         r <= MAX_STRING_REF ->
         exists p' : pool,
           pool_decref prof p r = Ok p' /\
           pool_wf p' /\
           total_refs p' + 1 = total_refs p /\
           refcount p' r + 1 = refcount p r /\
           (forall r' : N, r' <> r -> r' <> 0 \/ r <> 1 -> refcount p' r' = refcount p r') /\
           (forall (r' : N) (s' : str), r' <> r -> live p r' s' -> live p' r' s') /\
           (1 < refcount p r -> live p' r s) /\ p_cp p' = p_cp p /\ p_long p' = p_long p.
Proof. exact decref_spec. Qed.

(* INSERT keeps the invariant (exact accounting) *)
Theorem C08_insert_accounting :
  forall (prof : profile) (d : db) (tn : str) (t : table) (rows : list (list value)) 
           (c' : container) (p' : pool),
         Inv' d ->
         Forall (Forall value_storable) rows ->
         In (tn, t) (d_tabs d) ->
         find_table (d_tabs d) tn = Some t ->
         exec_insert prof (d_cont d) (d_pool d) (d_tabs d) tn rows = Ok (c', p') ->
         let d' := {| d_cont := c'; d_pool := p'; d_tabs := d_tabs d |} in
         Inv' d' /\
         (exists old new : list (list value),
            tvals prof d t = Ok old /\
            tvals prof d' t = Ok new /\
            Permutation new (old ++ map (map normalize_value) rows) /\
            sorted_by_key t new /\ (rows_valid t old -> rows_valid t new)) /\
         (forall (n' : str) (t' : table), In (n', t') (d_tabs d) -> n' <> tn -> tvals prof d' t' = tvals prof d t') /\
         (forall s : str,
          name_eqb s (stream_name_of t) = false -> ct_find (ct_entries c') s = ct_find (ct_entries (d_cont d)) s) /\
         ct_clsid c' = ct_clsid (d_cont d).
Proof. exact insert_refines. Qed.

Theorem C08_update_accounting :
  forall (prof : profile) (d : db) (tn : str) (t : table) (ups : list (str * value)) 
           (cond : option ast) (c' : container) (p' : pool),
         UpdateRefine.Inv' d ->
         ups_wf ups ->
         In (tn, t) (d_tabs d) ->
         find_table (d_tabs d) tn = Some t ->
         exec_update prof (d_cont d) (d_pool d) (d_tabs d) tn ups cond = Ok (c', p') ->
         let d' := {| d_cont := c'; d_pool := p'; d_tabs := d_tabs d |} in
         UpdateRefine.Inv' d' /\
         (exists old new : list (list value),
            tvals prof d t = Ok old /\
            tvals prof d' t = Ok new /\
            (if touches_key t ups
             then Permutation new (map (upd_row t ups cond) old) /\ sorted_by_key t new
             else new = map (upd_row t ups cond) old) /\ (rows_valid t old -> rows_valid t new)) /\
         (forall (n' : str) (t' : table), In (n', t') (d_tabs d) -> n' <> tn -> tvals prof d' t' = tvals prof d t') /\
         (forall s : str,
          name_eqb s (stream_name_of t) = false -> ct_find (ct_entries c') s = ct_find (ct_entries (d_cont d)) s) /\
         ct_clsid c' = ct_clsid (d_cont d).
Proof. exact update_refines. Qed.

Theorem C08_delete_accounting :
  forall (prof : profile) (d : db) (tn : str) (t : table) (cond : option ast) (c' : container) (p' : pool),
         Inv d ->
         In (tn, t) (d_tabs d) ->
         find_table (d_tabs d) tn = Some t ->
         exec_delete prof (d_cont d) (d_pool d) (d_tabs d) tn cond = Ok (c', p') ->
         let d' := {| d_cont := c'; d_pool := p'; d_tabs := d_tabs d |} in
         Inv d' /\
         (exists old : list (list value),
            tvals prof d t = Ok old /\
            tvals prof d' t = Ok (filter (fun r : list value => negb (holds_v t cond r)) old)) /\
         (forall (n' : str) (t' : table), In (n', t') (d_tabs d) -> n' <> tn -> tvals prof d' t' = tvals prof d t') /\
         (forall s : str,
          name_eqb s (stream_name_of t) = false -> ct_find (ct_entries c') s = ct_find (ct_entries (d_cont d)) s) /\
         ct_clsid c' = ct_clsid (d_cont d).
Proof. exact delete_refines. Qed.

(* drop_table: stream removed, catalog rows removed, accounting exact (nothing leaks) *)
Theorem C08_drop_releases :
  forall (prof : profile) (k : pkg) (tn : str) (k' : pkg),
         PInv2 prof k ->
         pkg_drop_table prof k tn = (k', Ok tt) ->
         PInv2 prof k' /\
         find_table (k_tabs k') tn = None /\
         (forall n : str, n <> tn -> find_table (k_tabs k') n = find_table (k_tabs k) n) /\
         (forall e : str * table,
          In e (k_tabs k) ->
          is_core (fst e) = false ->
          fst e <> VALIDATION_TABLE_NAME ->
          fst e <> tn -> tvals prof (the_db k') (snd e) = tvals prof (the_db k) (snd e)) /\
         ct_find (ct_entries (k_cont k')) (sn_encode tn true) = None /\
         k_type k' = k_type k /\
         k_sum k' = k_sum k /\
         pkg_streams k' = pkg_streams k /\
         (forall n : str,
          sn_is_valid n false = true ->
          ct_find (ct_entries (k_cont k')) (sn_encode n false) = ct_find (ct_entries (k_cont k)) (sn_encode n false)).
Proof. exact drop_table_ok. Qed.

(* no table stream without a table *)
Theorem C08_no_orphans :
  forall (prof : profile) (k : pkg), reachable prof k -> no_orphans k.
Proof. exact reachable_no_orphans. Qed.

Print Assumptions C08_reachable_accounting.
Print Assumptions C08_saved.
Print Assumptions C08_stream_shape.
Print Assumptions C08_cells.
Print Assumptions C08_incref.
Print Assumptions C08_decref.
Print Assumptions C08_insert_accounting.
Print Assumptions C08_update_accounting.
Print Assumptions C08_delete_accounting.
Print Assumptions C08_drop_releases.
Print Assumptions C08_no_orphans.
