(* C08 -- placeholder *)
From MsiModel Require Import Base Package.
