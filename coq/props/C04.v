(* C04 -- placeholder *)
From MsiModel Require Import Base Package.
