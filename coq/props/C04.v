(* C04 -- Rejected operations change nothing.
   On every state satisfying the package invariant: a rejected INSERT / UPDATE / DELETE returns a package whose
   container and pool are IDENTICAL (only the finisher is armed), same observation, invariant kept, and a save writes
   what it would have written before; create_table that answers Err leaves container and pool identical -- there is
   no half-created table (the proof shows that once the argument checks and the three catalog pre-validations pass, none
   of the three catalog inserts can fail); drop_table that answers Err returns the package itself; rejected stream calls
   return the package itself; every argument check of create_table / drop_table precedes the first change.
   Statements only; every proof is `exact <lemma>` from theories/. *)
From Coq Require Import Sorting.Sorted Permutation.
From MsiModel Require Import Base Sexp Value Expr Category Column CodePage Pool Table Container StreamName Propset Summary Query Package PoolProofs TableProofs QueryProofs DbInv CatalogProofs PropsetCodecProofs PackageProofs PkgInv UpdateRefine PkgInv2 InsertRefine DeleteRefine DmlPkgProofs DropTableProofs MiscOpsProofs ReopenProofs CreateTableLemmas CreateTableProofs StreamProofs Reach KnownFindings CreateTableDrySpec CreateTableDry.
From MsiGen Require Import GenConsts GenCatalog GenStreamName.
Open Scope N_scope.

Theorem C04_dml :
  forall (prof : profile) (k : pkg),
         PInv2 prof k ->
         (forall (tn : str) (rows : list (list value)) (k' : pkg),
          pkg_insert prof k tn rows = (k', Err) ->
          PInv2 prof k' /\ same_obs prof k k' /\ k_cont k' = k_cont k /\ k_pool k' = k_pool k) /\
         (forall (tn : str) (cond : option ast) (k' : pkg),
          pkg_delete prof k tn cond = (k', Err) ->
          PInv2 prof k' /\ same_obs prof k k' /\ k_cont k' = k_cont k /\ k_pool k' = k_pool k) /\
         (forall (tn : str) (ups : list (str * value)) (cond : option ast) (k' : pkg),
          pkg_update prof k tn ups cond = (k', Err) ->
          PInv2 prof k' /\ same_obs prof k k' /\ k_cont k' = k_cont k /\ k_pool k' = k_pool k).
Proof. exact pkg_dml_err. Qed.

(* what a save writes is unchanged by a rejected call *)
Theorem C04_dml_saved :
  forall (prof : profile) (k : pkg),
         flags_ok k ->
         (forall (t : str) (rows : list (list value)) (k' : pkg),
          pkg_insert prof k t rows = (k', Err) -> same_state k k' /\ saved k' = saved k) /\
         (forall (t : str) (cond : option ast) (k' : pkg),
          pkg_delete prof k t cond = (k', Err) -> same_state k k' /\ saved k' = saved k) /\
         (forall (t : str) (ups : list (str * value)) (cond : option ast) (k' : pkg),
          pkg_update prof k t ups cond = (k', Err) -> same_state k k' /\ saved k' = saved k).
Proof. exact dml_err_noop. Qed.

(* no half-created table *)
Theorem C04_create_table :
  forall (prof : profile) (k : pkg) (tn : str) (cols : list column) (k' : pkg),
         PInv3 prof k ->
         pkg_create_table prof k tn cols = (k', Err) ->
         PInv3 prof k' /\ same_obs prof k k' /\ k_pool k' = k_pool k /\ k_cont k' = k_cont k.
Proof. exact create_table_err3. Qed.

Theorem C04_create_table_args :
  forall (prof : profile) (k : pkg) (tn : str) (cols : list column),
         is_valid_tname tn = false \/
         existsb (str_eqb tn) CREATE_TABLE_EXTRA_RESERVED = true \/
         cols = [] \/
         MAX_NUM_TABLE_COLUMNS < nlen cols \/
         existsb c_pk cols = false \/ first_dup_or_bad cols [] = false \/ find_table (k_tabs k) tn <> None ->
         pkg_create_table prof k tn cols = (k, Err).
Proof. exact create_table_arg_errors. Qed.

(* Err => the package itself *)
Theorem C04_drop_table :
  forall (prof : profile) (k : pkg) (tn : str),
         PInv2 prof k ->
         pkg_drop_table prof k tn = (k, Err) /\
         (is_reserved tn = true \/ is_valid_tname tn = false \/ find_table (k_tabs k) tn = None) \/
         (exists k' : pkg, pkg_drop_table prof k tn = (k', Ok tt)).
Proof. exact drop_table_cases. Qed.

Theorem C04_drop_table_args :
  forall (prof : profile) (k : pkg) (tn : str),
         is_reserved tn = true \/ is_valid_tname tn = false \/ find_table (k_tabs k) tn = None ->
         pkg_drop_table prof k tn = (k, Err).
Proof. exact drop_table_arg_errors. Qed.

Theorem C04_streams :
  forall (k : pkg) (n : str) (b : bytes) (k1 k2 : pkg),
         (pkg_write_stream k n b = (k1, Err) -> k1 = k) /\ (pkg_remove_stream k n = (k2, Err) -> k2 = k).
Proof. exact stream_err_noop. Qed.

Theorem C04_insert_unknown_table :
  forall (prof : profile) (c : container) (p : pool) (ts : tables) (tn : str) (rows : list (list value)),
         find_table ts tn = None -> exec_insert prof c p ts tn rows = Err.
Proof. exact exec_insert_err_unknown. Qed.

Theorem C04_insert_arity :
  forall (prof : profile) (c : container) (p : pool) (ts : tables) (tn : str) (t : table)
           (rows : list (list value)) (r : list value),
         find_table ts tn = Some t ->
         In r rows ->
         length r <> length (t_cols t) ->
         exec_insert prof c p ts tn rows <> Panic /\ is_ok (exec_insert prof c p ts tn rows) = false.
Proof. exact exec_insert_err_arity. Qed.

(* a rejected select: selects return no package at all, they cannot change it *)
Theorem C04_select_unknown_column :
  forall (prof : profile) (c : container) (p : pool) (ts : tables) (tn : str) (names : list str)
           (cond : option ast) (t : table),
         find_table ts tn = Some t ->
         (exists n : str, In n names /\ has_col t n = false) ->
         exec_select prof c p ts (Sel (JTable tn) names cond) <> Panic /\
         is_ok (exec_select prof c p ts (Sel (JTable tn) names cond)) = false.
Proof. exact select_unknown_column. Qed.

(* the source dry-runs the three catalog inserts (Insert::check) before it changes anything (fix 25601e5) *)
Theorem C04_create_table_dry_runs :
  G_dry_runs_now.
Proof. exact dry_runs_now. Qed.

(* what the dry run refuses, the insert would have refused *)
Theorem C04_dry_run_is_prefix :
  G_check_is_prefix.
Proof. exact check_is_prefix. Qed.

(* an insert that succeeds passed the dry run *)
Theorem C04_dry_run_ok_prefix :
  G_check_ok_prefix.
Proof. exact check_ok_prefix. Qed.

(* a refusal that only the dry runs produce returns the package itself *)
Theorem C04_dry_run_refusal_noop :
  forall (prof : profile) (k : pkg) (tn : str) (cols : list column) (k' : pkg),
         pkg_create_table_with true prof k tn cols = (k', Err) ->
         pkg_create_table_with false prof k tn cols = (k', Err) \/ k' = k.
Proof. exact dry_run_refusal_noop. Qed.

(* _Validation rows describing a table that does not exist: create_table is refused and NOTHING changed *)
Theorem C04_orphan_validation_refused :
  G_orphan_refused.
Proof. exact orphan_refused. Qed.

(* the repaired defect: without the dry runs the refused call left the table half-created *)
Theorem C04_orphan_validation_before_fix :
  G_orphan_before_fix.
Proof. exact orphan_before_fix. Qed.

Print Assumptions C04_dml.
Print Assumptions C04_dml_saved.
Print Assumptions C04_create_table.
Print Assumptions C04_create_table_args.
Print Assumptions C04_drop_table.
Print Assumptions C04_drop_table_args.
Print Assumptions C04_streams.
Print Assumptions C04_insert_unknown_table.
Print Assumptions C04_insert_arity.
Print Assumptions C04_select_unknown_column.
Print Assumptions C04_create_table_dry_runs.
Print Assumptions C04_dry_run_is_prefix.
Print Assumptions C04_dry_run_ok_prefix.
Print Assumptions C04_dry_run_refusal_noop.
Print Assumptions C04_orphan_validation_refused.
Print Assumptions C04_orphan_validation_before_fix.
