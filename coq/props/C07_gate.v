(* C07 (gate) -- Rows are accepted exactly when every value is valid for its column.
   The acceptance gate of INSERT / UPDATE in the query engine: a successful call implies every value was valid for its
   column and the arity was right; an invalid value, a wrong arity or an unknown column is refused with an error
   (validation precedes every other step and never panics); and the complete characterisation: on a package satisfying
   the invariant, for a user table, below the row and pool limits, INSERT is accepted IF AND ONLY IF every row is
   acceptable and the keys of old and new rows are pairwise distinct -- i.e. it fails only for the documented structural
   reasons.  "Valid" is is_valid_value, characterised declaratively by C07_valid_iff.
   Statements only; every proof is `exact <lemma>` from theories/. *)
From Coq Require Import Sorting.Sorted Permutation.
From MsiModel Require Import Base Sexp Value Expr Category CategoryProofs Column CodePage Pool Table Container StreamName Propset Summary Query Package PoolProofs TableProofs QueryProofs DbInv CatalogProofs PropsetCodecProofs PackageProofs PkgInv UpdateRefine PkgInv2 InsertRefine DeleteRefine DmlPkgProofs OpenTotal GateProofs.
From MsiGen Require Import GenConsts GenCatalog GenStreamName.
Open Scope N_scope.

(* the row check is the pointwise conjunction of Column::is_valid_value *)
Theorem C07_all_valid :
  forall (cols : list column) (r : list value),
         length r = length cols ->
         all_valid cols r = Ok true <-> Forall2 (fun (c : column) (v : value) => is_valid_value c v = Ok true) cols r.
Proof. exact all_valid_spec. Qed.

Theorem C07_insert_ok_implies_valid :
  forall (prof : profile) (c : container) (p : pool) (ts : tables) (tn : str) (rows : list (list value))
           (c' : container) (p' : pool),
         exec_insert prof c p ts tn rows = Ok (c', p') ->
         exists t : table, find_table ts tn = Some t /\ Forall (row_acceptable t) rows.
Proof. exact insert_ok_implies. Qed.

Theorem C07_insert_invalid_refused :
  forall (prof : profile) (c : container) (p : pool) (ts : tables) (tn : str) (t : table)
           (rows : list (list value)) (r : list value),
         find_table ts tn = Some t -> In r rows -> ~ row_acceptable t r -> exec_insert prof c p ts tn rows = Err.
Proof. exact insert_invalid_refused. Qed.

(* accepted iff valid, right arity and new keys (within the capacity limits) *)
Theorem C07_insert_gate :
  forall (prof : profile) (k : pkg) (tn : str) (t : table) (rows old : list (list value)),
         PInv2 prof k ->
         user_table_name tn ->
         find_table (k_tabs k) tn = Some t ->
         Forall (Forall value_storable) rows ->
         tvals prof (the_db k) t = Ok old ->
         nlen old + nlen rows <= 65536 ->
         nlen (p_strings (k_pool k)) + nlen (List.concat rows) < 65535 ->
         (exists k' : pkg, pkg_insert prof k tn rows = (k', Ok tt)) <->
         Forall (row_acceptable t) rows /\ NoDup (map (key_of t) (old ++ map (map normalize_value) rows)).
Proof. exact insert_gate. Qed.

Theorem C07_update_ok_implies_valid :
  forall (prof : profile) (c : container) (p : pool) (ts : tables) (tn : str) (ups : list (str * value))
           (cond : option ast) (c' : container) (p' : pool),
         exec_update prof c p ts tn ups cond = Ok (c', p') ->
         exists t : table,
           find_table ts tn = Some t /\
           Forall
             (fun u : str * value =>
              exists (i : nat) (col : column),
                col_index t (fst u) = Some i /\ nth_opt (t_cols t) i = Some col /\ is_valid_value col (snd u) = Ok true)
             ups /\ cond_ok t cond = true.
Proof. exact update_ok_implies. Qed.

Theorem C07_update_invalid_refused :
  forall (prof : profile) (c : container) (p : pool) (ts : tables) (tn : str) (t : table)
           (ups : list (str * value)) (cond : option ast) (u : str * value),
         find_table ts tn = Some t ->
         In u ups ->
         col_index t (fst u) = None \/
         (exists (i : nat) (col : column),
            col_index t (fst u) = Some i /\ nth_opt (t_cols t) i = Some col /\ is_valid_value col (snd u) = Ok false) ->
         exec_update prof c p ts tn ups cond = Err.
Proof. exact update_invalid_refused. Qed.

Print Assumptions C07_all_valid.
Print Assumptions C07_insert_ok_implies_valid.
Print Assumptions C07_insert_invalid_refused.
Print Assumptions C07_insert_gate.
Print Assumptions C07_update_ok_implies_valid.
Print Assumptions C07_update_invalid_refused.
