(* Extraction of the executable model: ExtrOcamlBasic only, no Extract Constant /
   Extract Inductive of our own; N, Z, positive, string stay inductive. *)
From Coq Require Extraction.
From Coq Require Import ExtrOcamlBasic.
From MsiModel Require Import Base Sexp PackageCmd Dispatch.
Extraction "../build/ocaml/msimodel.ml" dispatch init_state run_script.
