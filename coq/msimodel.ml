
type comparison =
| Eq
| Lt
| Gt

(** val compOpp : comparison -> comparison **)

let compOpp = function
| Eq -> Eq
| Lt -> Gt
| Gt -> Lt

type positive =
| XI of positive
| XO of positive
| XH

type n =
| N0
| Npos of positive

type z =
| Z0
| Zpos of positive
| Zneg of positive

module Pos =
 struct
  (** val succ : positive -> positive **)

  let rec succ = function
  | XI p -> XO (succ p)
  | XO p -> XI p
  | XH -> XO XH

  (** val add : positive -> positive -> positive **)

  let rec add x y =
    match x with
    | XI p ->
      (match y with
       | XI q -> XO (add_carry p q)
       | XO q -> XI (add p q)
       | XH -> XO (succ p))
    | XO p ->
      (match y with
       | XI q -> XI (add p q)
       | XO q -> XO (add p q)
       | XH -> XI p)
    | XH -> (match y with
             | XI q -> XO (succ q)
             | XO q -> XI q
             | XH -> XO XH)

  (** val add_carry : positive -> positive -> positive **)

  and add_carry x y =
    match x with
    | XI p ->
      (match y with
       | XI q -> XI (add_carry p q)
       | XO q -> XO (add_carry p q)
       | XH -> XI (succ p))
    | XO p ->
      (match y with
       | XI q -> XO (add_carry p q)
       | XO q -> XI (add p q)
       | XH -> XO (succ p))
    | XH ->
      (match y with
       | XI q -> XI (succ q)
       | XO q -> XO (succ q)
       | XH -> XI XH)

  (** val pred_double : positive -> positive **)

  let rec pred_double = function
  | XI p -> XI (XO p)
  | XO p -> XI (pred_double p)
  | XH -> XH

  (** val mul : positive -> positive -> positive **)

  let rec mul x y =
    match x with
    | XI p -> add y (XO (mul p y))
    | XO p -> XO (mul p y)
    | XH -> y

  (** val compare_cont : comparison -> positive -> positive -> comparison **)

  let rec compare_cont r x y =
    match x with
    | XI p ->
      (match y with
       | XI q -> compare_cont r p q
       | XO q -> compare_cont Gt p q
       | XH -> Gt)
    | XO p ->
      (match y with
       | XI q -> compare_cont Lt p q
       | XO q -> compare_cont r p q
       | XH -> Gt)
    | XH -> (match y with
             | XH -> r
             | _ -> Lt)

  (** val compare : positive -> positive -> comparison **)

  let compare =
    compare_cont Eq
 end

type ascii =
| Ascii of bool * bool * bool * bool * bool * bool * bool * bool

module Z =
 struct
  (** val double : z -> z **)

  let double = function
  | Z0 -> Z0
  | Zpos p -> Zpos (XO p)
  | Zneg p -> Zneg (XO p)

  (** val succ_double : z -> z **)

  let succ_double = function
  | Z0 -> Zpos XH
  | Zpos p -> Zpos (XI p)
  | Zneg p -> Zneg (Pos.pred_double p)

  (** val pred_double : z -> z **)

  let pred_double = function
  | Z0 -> Zneg XH
  | Zpos p -> Zpos (Pos.pred_double p)
  | Zneg p -> Zneg (XI p)

  (** val pos_sub : positive -> positive -> z **)

  let rec pos_sub x y =
    match x with
    | XI p ->
      (match y with
       | XI q -> double (pos_sub p q)
       | XO q -> succ_double (pos_sub p q)
       | XH -> Zpos (XO p))
    | XO p ->
      (match y with
       | XI q -> pred_double (pos_sub p q)
       | XO q -> double (pos_sub p q)
       | XH -> Zpos (Pos.pred_double p))
    | XH ->
      (match y with
       | XI q -> Zneg (XO q)
       | XO q -> Zneg (Pos.pred_double q)
       | XH -> Z0)

  (** val add : z -> z -> z **)

  let add x y =
    match x with
    | Z0 -> y
    | Zpos x' ->
      (match y with
       | Z0 -> x
       | Zpos y' -> Zpos (Pos.add x' y')
       | Zneg y' -> pos_sub x' y')
    | Zneg x' ->
      (match y with
       | Z0 -> x
       | Zpos y' -> pos_sub y' x'
       | Zneg y' -> Zneg (Pos.add x' y'))

  (** val opp : z -> z **)

  let opp = function
  | Z0 -> Z0
  | Zpos x0 -> Zneg x0
  | Zneg x0 -> Zpos x0

  (** val sub : z -> z -> z **)

  let sub m n0 =
    add m (opp n0)

  (** val mul : z -> z -> z **)

  let mul x y =
    match x with
    | Z0 -> Z0
    | Zpos x' ->
      (match y with
       | Z0 -> Z0
       | Zpos y' -> Zpos (Pos.mul x' y')
       | Zneg y' -> Zneg (Pos.mul x' y'))
    | Zneg x' ->
      (match y with
       | Z0 -> Z0
       | Zpos y' -> Zneg (Pos.mul x' y')
       | Zneg y' -> Zpos (Pos.mul x' y'))

  (** val compare : z -> z -> comparison **)

  let compare x y =
    match x with
    | Z0 -> (match y with
             | Z0 -> Eq
             | Zpos _ -> Lt
             | Zneg _ -> Gt)
    | Zpos x' -> (match y with
                  | Zpos y' -> Pos.compare x' y'
                  | _ -> Gt)
    | Zneg x' ->
      (match y with
       | Zneg y' -> compOpp (Pos.compare x' y')
       | _ -> Lt)

  (** val leb : z -> z -> bool **)

  let leb x y =
    match compare x y with
    | Gt -> false
    | _ -> true

  (** val ltb : z -> z -> bool **)

  let ltb x y =
    match compare x y with
    | Lt -> true
    | _ -> false

  (** val max : z -> z -> z **)

  let max n0 m =
    match compare n0 m with
    | Lt -> m
    | _ -> n0

  (** val min : z -> z -> z **)

  let min n0 m =
    match compare n0 m with
    | Gt -> m
    | _ -> n0

  (** val of_N : n -> z **)

  let of_N = function
  | N0 -> Z0
  | Npos p -> Zpos p

  (** val pos_div_eucl : positive -> z -> z * z **)

  let rec pos_div_eucl a b =
    match a with
    | XI a' ->
      let (q, r) = pos_div_eucl a' b in
      let r' = add (mul (Zpos (XO XH)) r) (Zpos XH) in
      if ltb r' b
      then ((mul (Zpos (XO XH)) q), r')
      else ((add (mul (Zpos (XO XH)) q) (Zpos XH)), (sub r' b))
    | XO a' ->
      let (q, r) = pos_div_eucl a' b in
      let r' = mul (Zpos (XO XH)) r in
      if ltb r' b
      then ((mul (Zpos (XO XH)) q), r')
      else ((add (mul (Zpos (XO XH)) q) (Zpos XH)), (sub r' b))
    | XH -> if leb (Zpos (XO XH)) b then (Z0, (Zpos XH)) else ((Zpos XH), Z0)

  (** val div_eucl : z -> z -> z * z **)

  let div_eucl a b =
    match a with
    | Z0 -> (Z0, Z0)
    | Zpos a' ->
      (match b with
       | Z0 -> (Z0, a)
       | Zpos _ -> pos_div_eucl a' b
       | Zneg b' ->
         let (q, r) = pos_div_eucl a' (Zpos b') in
         (match r with
          | Z0 -> ((opp q), Z0)
          | _ -> ((opp (add q (Zpos XH))), (add b r))))
    | Zneg a' ->
      (match b with
       | Z0 -> (Z0, a)
       | Zpos _ ->
         let (q, r) = pos_div_eucl a' b in
         (match r with
          | Z0 -> ((opp q), Z0)
          | _ -> ((opp (add q (Zpos XH))), (sub b r)))
       | Zneg b' -> let (q, r) = pos_div_eucl a' (Zpos b') in (q, (opp r)))

  (** val div : z -> z -> z **)

  let div a b =
    let (q, _) = div_eucl a b in q

  (** val modulo : z -> z -> z **)

  let modulo a b =
    let (_, r) = div_eucl a b in r
 end

type string =
| EmptyString
| String of ascii * string

type sx =
| SI of z
| SY of string
| SL of sx list

(** val bad_cmd : sx **)

let bad_cmd =
  SY (String ((Ascii (false, true, false, false, false, true, true, false)),
    (String ((Ascii (true, false, false, false, false, true, true, false)),
    (String ((Ascii (false, false, true, false, false, true, true, false)),
    (String ((Ascii (true, true, false, false, false, true, true, false)),
    (String ((Ascii (true, false, true, true, false, true, true, false)),
    (String ((Ascii (false, false, true, false, false, true, true, false)),
    EmptyString))))))))))))

(** val uNIX_EPOCH_TIMESTAMP : n **)

let uNIX_EPOCH_TIMESTAMP =
  Npos (XO (XO (XO (XO (XO (XO (XO (XO (XO (XO (XO (XO (XO (XO (XO (XI (XO
    (XI (XI (XI (XI (XI (XO (XO (XI (XO (XI (XO (XI (XO (XI (XI (XO (XI (XI
    (XI (XI (XO (XI (XI (XI (XO (XO (XO (XI (XI (XO (XI (XI (XO (XI (XI (XI
    (XO (XO (XI XH))))))))))))))))))))))))))))))))))))))))))))))))))))))))

(** val u64MAX : z **)

let u64MAX =
  Zpos (XI (XI (XI (XI (XI (XI (XI (XI (XI (XI (XI (XI (XI (XI (XI (XI (XI
    (XI (XI (XI (XI (XI (XI (XI (XI (XI (XI (XI (XI (XI (XI (XI (XI (XI (XI
    (XI (XI (XI (XI (XI (XI (XI (XI (XI (XI (XI (XI (XI (XI (XI (XI (XI (XI
    (XI (XI (XI (XI (XI (XI (XI (XI (XI (XI
    XH)))))))))))))))))))))))))))))))))))))))))))))))))))))))))))))))

(** val i64MAX : z **)

let i64MAX =
  Zpos (XI (XI (XI (XI (XI (XI (XI (XI (XI (XI (XI (XI (XI (XI (XI (XI (XI
    (XI (XI (XI (XI (XI (XI (XI (XI (XI (XI (XI (XI (XI (XI (XI (XI (XI (XI
    (XI (XI (XI (XI (XI (XI (XI (XI (XI (XI (XI (XI (XI (XI (XI (XI (XI (XI
    (XI (XI (XI (XI (XI (XI (XI (XI (XI
    XH))))))))))))))))))))))))))))))))))))))))))))))))))))))))))))))

(** val ePOCH : z **)

let ePOCH =
  Z.of_N uNIX_EPOCH_TIMESTAMP

(** val sat_add : z -> z -> z **)

let sat_add a b =
  Z.min (Z.add a b) u64MAX

(** val sat_sub : z -> z -> z **)

let sat_sub a b =
  Z.max (Z.sub a b) Z0

(** val sat_mul : z -> z -> z **)

let sat_mul a b =
  Z.min (Z.mul a b) u64MAX

(** val duration_to_delta : z -> z -> z **)

let duration_to_delta secs nanos =
  sat_add
    (sat_mul secs (Zpos (XO (XO (XO (XO (XO (XO (XO (XI (XO (XI (XI (XO (XI
      (XO (XO (XI (XO (XO (XO (XI (XI (XO (XO XH)))))))))))))))))))))))))
    (Z.div nanos (Zpos (XO (XO (XI (XO (XO (XI XH))))))))

(** val from_time : z -> z **)

let from_time t =
  if Z.leb Z0 t
  then sat_add ePOCH
         (duration_to_delta
           (Z.div t (Zpos (XO (XO (XO (XO (XO (XO (XO (XO (XO (XI (XO (XI (XO
             (XO (XI (XI (XO (XI (XO (XI (XI (XO (XO (XI (XI (XI (XO (XI (XI
             XH)))))))))))))))))))))))))))))))
           (Z.modulo t (Zpos (XO (XO (XO (XO (XO (XO (XO (XO (XO (XI (XO (XI
             (XO (XO (XI (XI (XO (XI (XO (XI (XI (XO (XO (XI (XI (XI (XO (XI
             (XI XH))))))))))))))))))))))))))))))))
  else sat_sub ePOCH
         (duration_to_delta
           (Z.div (Z.opp t) (Zpos (XO (XO (XO (XO (XO (XO (XO (XO (XO (XI (XO
             (XI (XO (XO (XI (XI (XO (XI (XO (XI (XI (XO (XO (XI (XI (XI (XO
             (XI (XI XH)))))))))))))))))))))))))))))))
           (Z.modulo (Z.opp t) (Zpos (XO (XO (XO (XO (XO (XO (XO (XO (XO (XI
             (XO (XI (XO (XO (XI (XI (XO (XI (XO (XI (XI (XO (XO (XI (XI (XI
             (XO (XI (XI XH))))))))))))))))))))))))))))))))

(** val to_time : z -> z **)

let to_time k =
  if Z.leb ePOCH k
  then let d = Z.sub k ePOCH in
       let secs =
         Z.div d (Zpos (XO (XO (XO (XO (XO (XO (XO (XI (XO (XI (XI (XO (XI
           (XO (XO (XI (XO (XO (XO (XI (XI (XO (XO XH))))))))))))))))))))))))
       in
       let nanos =
         Z.mul
           (Z.modulo d (Zpos (XO (XO (XO (XO (XO (XO (XO (XI (XO (XI (XI (XO
             (XI (XO (XO (XI (XO (XO (XO (XI (XI (XO (XO
             XH))))))))))))))))))))))))) (Zpos (XO (XO (XI (XO (XO (XI
           XH)))))))
       in
       if Z.leb secs i64MAX
       then Z.add
              (Z.mul secs (Zpos (XO (XO (XO (XO (XO (XO (XO (XO (XO (XI (XO
                (XI (XO (XO (XI (XI (XO (XI (XO (XI (XI (XO (XO (XI (XI (XI
                (XO (XI (XI XH))))))))))))))))))))))))))))))) nanos
       else Z0
  else let d = Z.sub ePOCH k in
       let secs =
         Z.div d (Zpos (XO (XO (XO (XO (XO (XO (XO (XI (XO (XI (XI (XO (XI
           (XO (XO (XI (XO (XO (XO (XI (XI (XO (XO XH))))))))))))))))))))))))
       in
       let nanos =
         Z.mul
           (Z.modulo d (Zpos (XO (XO (XO (XO (XO (XO (XO (XI (XO (XI (XI (XO
             (XI (XO (XO (XI (XO (XO (XO (XI (XI (XO (XO
             XH))))))))))))))))))))))))) (Zpos (XO (XO (XI (XO (XO (XI
           XH)))))))
       in
       if Z.leb secs (Z.add i64MAX (Zpos XH))
       then Z.opp
              (Z.add
                (Z.mul secs (Zpos (XO (XO (XO (XO (XO (XO (XO (XO (XO (XI (XO
                  (XI (XO (XO (XI (XI (XO (XI (XO (XI (XI (XO (XO (XI (XI (XI
                  (XO (XI (XI XH))))))))))))))))))))))))))))))) nanos)
       else Z0

type state = unit
  (* singleton inductive, whose constructor was Build_state *)

(** val init_state : state **)

let init_state =
  ()

(** val pure_cmd : string -> sx list -> sx option **)

let pure_cmd name args =
  match name with
  | EmptyString -> None
  | String (a, s) ->
    let Ascii (b, b0, b1, b2, b3, b4, b5, b6) = a in
    if b
    then None
    else if b0
         then None
         else if b1
              then if b2
                   then None
                   else if b3
                        then if b4
                             then if b5
                                  then if b6
                                       then None
                                       else (match s with
                                             | EmptyString -> None
                                             | String (a0, s0) ->
                                               let Ascii (b7, b8, b9, b10,
                                                          b11, b12, b13, b14) =
                                                 a0
                                               in
                                               if b7
                                               then if b8
                                                    then None
                                                    else if b9
                                                         then None
                                                         else if b10
                                                              then if b11
                                                                   then None
                                                                   else 
                                                                    if b12
                                                                    then 
                                                                    if b13
                                                                    then 
                                                                    if b14
                                                                    then None
                                                                    else 
                                                                    (match s0 with
                                                                    | EmptyString ->
                                                                    None
                                                                    | String (
                                                                    a1, s1) ->
                                                                    let Ascii (
                                                                    b15, b16,
                                                                    b17, b18,
                                                                    b19, b20,
                                                                    b21, b22) =
                                                                    a1
                                                                    in
                                                                    if b15
                                                                    then 
                                                                    if b16
                                                                    then None
                                                                    else 
                                                                    if b17
                                                                    then 
                                                                    if b18
                                                                    then 
                                                                    if b19
                                                                    then None
                                                                    else 
                                                                    if b20
                                                                    then 
                                                                    if b21
                                                                    then 
                                                                    if b22
                                                                    then None
                                                                    else 
                                                                    (match s1 with
                                                                    | EmptyString ->
                                                                    None
                                                                    | String (
                                                                    a2, s2) ->
                                                                    let Ascii (
                                                                    b23, b24,
                                                                    b25, b26,
                                                                    b27, b28,
                                                                    b29, b30) =
                                                                    a2
                                                                    in
                                                                    if b23
                                                                    then 
                                                                    if b24
                                                                    then None
                                                                    else 
                                                                    if b25
                                                                    then 
                                                                    if b26
                                                                    then None
                                                                    else 
                                                                    if b27
                                                                    then None
                                                                    else 
                                                                    if b28
                                                                    then 
                                                                    if b29
                                                                    then 
                                                                    if b30
                                                                    then None
                                                                    else 
                                                                    (match s2 with
                                                                    | EmptyString ->
                                                                    None
                                                                    | String (
                                                                    a3, s3) ->
                                                                    let Ascii (
                                                                    b31, b32,
                                                                    b33, b34,
                                                                    b35, b36,
                                                                    b37, b38) =
                                                                    a3
                                                                    in
                                                                    if b31
                                                                    then 
                                                                    if b32
                                                                    then 
                                                                    if b33
                                                                    then 
                                                                    if b34
                                                                    then 
                                                                    if b35
                                                                    then 
                                                                    if b36
                                                                    then None
                                                                    else 
                                                                    if b37
                                                                    then 
                                                                    if b38
                                                                    then None
                                                                    else 
                                                                    (match s3 with
                                                                    | EmptyString ->
                                                                    None
                                                                    | String (
                                                                    a4, s4) ->
                                                                    let Ascii (
                                                                    b39, b40,
                                                                    b41, b42,
                                                                    b43, b44,
                                                                    b45, b46) =
                                                                    a4
                                                                    in
                                                                    if b39
                                                                    then None
                                                                    else 
                                                                    if b40
                                                                    then 
                                                                    if b41
                                                                    then 
                                                                    if b42
                                                                    then None
                                                                    else 
                                                                    if b43
                                                                    then None
                                                                    else 
                                                                    if b44
                                                                    then 
                                                                    if b45
                                                                    then 
                                                                    if b46
                                                                    then None
                                                                    else 
                                                                    (match s4 with
                                                                    | EmptyString ->
                                                                    None
                                                                    | String (
                                                                    a5, s5) ->
                                                                    let Ascii (
                                                                    b47, b48,
                                                                    b49, b50,
                                                                    b51, b52,
                                                                    b53, b54) =
                                                                    a5
                                                                    in
                                                                    if b47
                                                                    then None
                                                                    else 
                                                                    if b48
                                                                    then 
                                                                    if b49
                                                                    then None
                                                                    else 
                                                                    if b50
                                                                    then None
                                                                    else 
                                                                    if b51
                                                                    then 
                                                                    if b52
                                                                    then 
                                                                    if b53
                                                                    then 
                                                                    if b54
                                                                    then None
                                                                    else 
                                                                    (match s5 with
                                                                    | EmptyString ->
                                                                    None
                                                                    | String (
                                                                    a6, s6) ->
                                                                    let Ascii (
                                                                    b55, b56,
                                                                    b57, b58,
                                                                    b59, b60,
                                                                    b61, b62) =
                                                                    a6
                                                                    in
                                                                    if b55
                                                                    then 
                                                                    if b56
                                                                    then 
                                                                    if b57
                                                                    then 
                                                                    if b58
                                                                    then 
                                                                    if b59
                                                                    then None
                                                                    else 
                                                                    if b60
                                                                    then 
                                                                    if b61
                                                                    then 
                                                                    if b62
                                                                    then None
                                                                    else 
                                                                    (match s6 with
                                                                    | EmptyString ->
                                                                    None
                                                                    | String (
                                                                    a7, s7) ->
                                                                    let Ascii (
                                                                    b63, b64,
                                                                    b65, b66,
                                                                    b67, b68,
                                                                    b69, b70) =
                                                                    a7
                                                                    in
                                                                    if b63
                                                                    then 
                                                                    if b64
                                                                    then None
                                                                    else 
                                                                    if b65
                                                                    then 
                                                                    if b66
                                                                    then 
                                                                    if b67
                                                                    then None
                                                                    else 
                                                                    if b68
                                                                    then 
                                                                    if b69
                                                                    then 
                                                                    if b70
                                                                    then None
                                                                    else 
                                                                    (match s7 with
                                                                    | EmptyString ->
                                                                    (match args with
                                                                    | [] ->
                                                                    None
                                                                    | s8 :: l ->
                                                                    (match s8 with
                                                                    | SI t ->
                                                                    (match l with
                                                                    | [] ->
                                                                    Some (SI
                                                                    (from_time
                                                                    t))
                                                                    | _ :: _ ->
                                                                    None)
                                                                    | _ ->
                                                                    None))
                                                                    | String (
                                                                    _, _) ->
                                                                    None)
                                                                    else None
                                                                    else None
                                                                    else None
                                                                    else None
                                                                    else None)
                                                                    else None
                                                                    else None
                                                                    else None
                                                                    else None
                                                                    else None
                                                                    else None)
                                                                    else None
                                                                    else None
                                                                    else None
                                                                    else None)
                                                                    else None
                                                                    else None
                                                                    else 
                                                                    if b42
                                                                    then None
                                                                    else 
                                                                    if b43
                                                                    then 
                                                                    if b44
                                                                    then 
                                                                    if b45
                                                                    then 
                                                                    if b46
                                                                    then None
                                                                    else 
                                                                    (match s4 with
                                                                    | EmptyString ->
                                                                    None
                                                                    | String (
                                                                    a5, s5) ->
                                                                    let Ascii (
                                                                    b47, b48,
                                                                    b49, b50,
                                                                    b51, b52,
                                                                    b53, b54) =
                                                                    a5
                                                                    in
                                                                    if b47
                                                                    then None
                                                                    else 
                                                                    if b48
                                                                    then None
                                                                    else 
                                                                    if b49
                                                                    then 
                                                                    if b50
                                                                    then None
                                                                    else 
                                                                    if b51
                                                                    then 
                                                                    if b52
                                                                    then 
                                                                    if b53
                                                                    then 
                                                                    if b54
                                                                    then None
                                                                    else 
                                                                    (match s5 with
                                                                    | EmptyString ->
                                                                    (match args with
                                                                    | [] ->
                                                                    None
                                                                    | s6 :: l ->
                                                                    (match s6 with
                                                                    | SI t ->
                                                                    (match l with
                                                                    | [] ->
                                                                    Some (SI
                                                                    (to_time
                                                                    (from_time
                                                                    t)))
                                                                    | _ :: _ ->
                                                                    None)
                                                                    | _ ->
                                                                    None))
                                                                    | String (
                                                                    _, _) ->
                                                                    None)
                                                                    else None
                                                                    else None
                                                                    else None
                                                                    else None)
                                                                    else None
                                                                    else None
                                                                    else None
                                                                    else 
                                                                    if b41
                                                                    then 
                                                                    if b42
                                                                    then None
                                                                    else 
                                                                    if b43
                                                                    then 
                                                                    if b44
                                                                    then 
                                                                    if b45
                                                                    then 
                                                                    if b46
                                                                    then None
                                                                    else 
                                                                    (match s4 with
                                                                    | EmptyString ->
                                                                    None
                                                                    | String (
                                                                    a5, s5) ->
                                                                    let Ascii (
                                                                    b47, b48,
                                                                    b49, b50,
                                                                    b51, b52,
                                                                    b53, b54) =
                                                                    a5
                                                                    in
                                                                    if b47
                                                                    then 
                                                                    if b48
                                                                    then 
                                                                    if b49
                                                                    then 
                                                                    if b50
                                                                    then 
                                                                    if b51
                                                                    then None
                                                                    else 
                                                                    if b52
                                                                    then 
                                                                    if b53
                                                                    then 
                                                                    if b54
                                                                    then None
                                                                    else 
                                                                    (match s5 with
                                                                    | EmptyString ->
                                                                    (match args with
                                                                    | [] ->
                                                                    None
                                                                    | s6 :: l ->
                                                                    (match s6 with
                                                                    | SI k ->
                                                                    (match l with
                                                                    | [] ->
                                                                    Some (SI
                                                                    (to_time
                                                                    k))
                                                                    | _ :: _ ->
                                                                    None)
                                                                    | _ ->
                                                                    None))
                                                                    | String (
                                                                    _, _) ->
                                                                    None)
                                                                    else None
                                                                    else None
                                                                    else None
                                                                    else None
                                                                    else None
                                                                    else None)
                                                                    else None
                                                                    else None
                                                                    else None
                                                                    else None)
                                                                    else None
                                                                    else None
                                                                    else None
                                                                    else None
                                                                    else None
                                                                    else None)
                                                                    else None
                                                                    else None
                                                                    else None
                                                                    else None)
                                                                    else None
                                                                    else None
                                                                    else None
                                                                    else None
                                                                    else None)
                                                                    else None
                                                                    else None
                                                              else None
                                               else None)
                                  else None
                             else None
                        else None
              else None

(** val dispatch : state -> sx -> state * sx **)

let dispatch st = function
| SL l ->
  (match l with
   | [] -> (st, bad_cmd)
   | s :: args ->
     (match s with
      | SY name ->
        (match pure_cmd name args with
         | Some o -> (st, o)
         | None -> (st, bad_cmd))
      | _ -> (st, bad_cmd)))
| _ -> (st, bad_cmd)

(** val run_script : state -> sx list -> sx list **)

let rec run_script st = function
| [] -> []
| c :: cs' -> let (st', o) = dispatch st c in o :: (run_script st' cs')
