(* JoinSem.v -- C12: a denotational, value-level semantics of SELECT / JOIN trees, and the theorems that
   execution (Query.exec_select / exec_join) computes it, and succeeds whenever it is defined. *)
From Coq Require Import Sorting.Sorted Permutation.
From MsiModel Require Import Base Sexp Value Expr Category Column CodePage Pool Table Container StreamName
  Query QueryProofs SelectTotal JoinNames.
From MsiGen Require Import GenConsts.
Open Scope N_scope.

(* A relation is a list of column names (with the name of the relation, empty for anonymous ones) and a list of rows. *)
Record rel := mkrel { r_name : str; r_cols : list str; r_rows : list (list value) }.

Definition qualify (tname : str) (c : str) : str := match tname with [] => c | _ => tname ++ 46 :: c end.
Definition row_holds (names : list str) (e : ast) (r : list value) : bool :=
  match eval (combine names r) e with Ok v => to_bool v | _ => false end.
Definition names_known (names : list str) (used : list str) : bool :=
  forallb (fun n => existsb (str_eqb n) names) used.
Fixpoint index_of (names : list str) (n : str) (i : nat) : option nat :=
  match names with [] => None | m :: r => if str_eqb m n then Some i else index_of r n (S i) end.
Definition pick (idx : list nat) (r : list value) : list value :=
  flat_map (fun i => match nth_opt r i with Some v => [v] | None => [] end) idx.

(* base tables are given by an environment: table name -> (column names, rows as values) *)
Definition env := str -> option (list str * list (list value)).

Fixpoint sem_sel (E : env) (s : sel) : option rel :=
  match s with
  | Sel from names cond =>
      match sem_join E from with
      | None => None
      | Some r =>
          match omapM (fun n => index_of (r_cols r) n 0) names with
          | None => None                                         (* unknown column in the projection: error *)
          | Some idx =>
              if negb (match cond with Some e => names_known (r_cols r) (cols_of e) | None => true end) then None
              else
                let rows := match cond with Some e => filter (row_holds (r_cols r) e) (r_rows r) | None => r_rows r end in
                match names with
                | [] => Some (mkrel (r_name r) (r_cols r) rows)
                | _ => Some (mkrel [] names (map (pick idx) rows))
                end
          end
      end
  end
with sem_join (E : env) (j : join) : option rel :=
  match j with
  | JTable n => match E n with Some (cols, rows) => Some (mkrel n cols rows) | None => None end
  | JInner a b on =>
      match sem_sel E a, sem_sel E b with
      | Some ra, Some rb =>
          let names := map (qualify (r_name ra)) (r_cols ra) ++ map (qualify (r_name rb)) (r_cols rb) in
          if negb (names_known names (cols_of on)) then None
          else Some (mkrel [] names
                 (flat_map (fun x => filter (row_holds names on) (map (fun y => x ++ y) (r_rows rb))) (r_rows ra)))
      | _, _ => None
      end
  | JLeft a b on =>
      match sem_sel E a, sem_sel E b with
      | Some ra, Some rb =>
          let names := map (qualify (r_name ra)) (r_cols ra) ++ map (qualify (r_name rb)) (r_cols rb) in
          if negb (names_known names (cols_of on)) then None
          else Some (mkrel [] names
                 (flat_map (fun x => match filter (row_holds names on) (map (fun y => x ++ y) (r_rows rb)) with
                                     | [] => [x ++ repeat VNull (length (r_cols rb))]
                                     | l => l
                                     end) (r_rows ra)))
      | _, _ => None
      end
  end.

(* the environment a store denotes: every table of the table map, decoded under the pool *)
Definition env_of (prof : profile) (c : container) (p : pool) (ts : tables) : env :=
  fun n => match find_table ts n with
           | Some t => match rows <- load_rows c t ;; rmapM (row_to_values prof p) rows with
                       | Ok vals => Some (map c_name (t_cols t), vals)
                       | _ => None
                       end
           | None => None
           end.

(* ---- decoding rows --------------------------------------------------------------------------------- *)
Lemma decode_app prof p : forall r1 r2 v1 v2,
  row_to_values prof p r1 = Ok v1 -> row_to_values prof p r2 = Ok v2 ->
  row_to_values prof p (r1 ++ r2) = Ok (v1 ++ v2).
Proof.
  induction r1 as [|x r1 IH]; intros r2 v1 v2 H1 H2; cbn [row_to_values app] in *.
  - injection H1 as <-. exact H2.
  - destruct (to_value prof p x) as [v| |]; cbn [rbind] in *; try discriminate.
    destruct (row_to_values prof p r1) as [vs| |]; cbn [rbind] in *; try discriminate.
    injection H1 as <-. rewrite (IH r2 vs v2 eq_refl H2). reflexivity.
Qed.

Lemma decode_repeat_null prof p n : row_to_values prof p (repeat RNull n) = Ok (repeat VNull n).
Proof.
  induction n as [|n IH]; cbn [repeat row_to_values to_value rbind]; [reflexivity|].
  rewrite IH. reflexivity.
Qed.

Lemma decode_map_app prof p r1 v1 : row_to_values prof p r1 = Ok v1 ->
  forall rows2 vals2, rmapM (row_to_values prof p) rows2 = Ok vals2 ->
  rmapM (row_to_values prof p) (map (fun r2 => r1 ++ r2) rows2) = Ok (map (fun y => v1 ++ y) vals2).
Proof.
  intros H1. induction rows2 as [|r2 rows2 IH]; intros vals2 H2; cbn [rmapM map] in *.
  - injection H2 as <-. reflexivity.
  - destruct (row_to_values prof p r2) as [v2| |] eqn:E2; cbn [rbind] in *; try discriminate.
    destruct (rmapM (row_to_values prof p) rows2) as [vs| |]; cbn [rbind] in *; try discriminate.
    injection H2 as <-. rewrite (decode_app _ _ _ _ _ _ H1 E2), (IH vs eq_refl). reflexivity.
Qed.

Lemma rmapM_app {A B} (f : A -> res B) : forall l1 l2 v1 v2,
  rmapM f l1 = Ok v1 -> rmapM f l2 = Ok v2 -> rmapM f (l1 ++ l2) = Ok (v1 ++ v2).
Proof.
  induction l1 as [|a l1 IH]; intros l2 v1 v2 H1 H2; cbn [rmapM app] in *.
  - injection H1 as <-. exact H2.
  - destruct (f a) as [b| |]; cbn [rbind] in *; try discriminate.
    destruct (rmapM f l1) as [bs| |]; cbn [rbind] in *; try discriminate.
    injection H1 as <-. rewrite (IH l2 bs v2 eq_refl H2). reflexivity.
Qed.

Lemma decode_shaped prof p t rows : rows_shaped t rows ->
  exists vals, rmapM (row_to_values prof p) rows = Ok vals.
Proof.
  intros Hs. induction Hs as [|r rows [_ Hr] _ IH]; cbn [rmapM]; [eauto|].
  destruct (row_to_values_total prof p r Hr) as [v [-> _]]. destruct IH as [vs ->].
  cbn [rbind]. eauto.
Qed.

(* ---- names ------------------------------------------------------------------------------------------ *)
Lemma str_eqb_sym a b : str_eqb a b = str_eqb b a.
Proof.
  destruct (str_eqb a b) eqn:E1, (str_eqb b a) eqn:E2; try reflexivity.
  - apply str_eqb_spec in E1. subst. assert (H : str_eqb b b = true) by (apply str_eqb_spec; reflexivity). congruence.
  - apply str_eqb_spec in E2. subst. assert (H : str_eqb a a = true) by (apply str_eqb_spec; reflexivity). congruence.
Qed.

Lemma index_of_cols : forall cols n i, index_of (map c_name cols) n i = index_of_col cols n i.
Proof.
  induction cols as [|c cols IH]; intros n i; cbn [map index_of index_of_col]; [reflexivity|].
  rewrite IH. reflexivity.
Qed.

Lemma omapM_index_of t : forall names,
  omapM (fun n => index_of (map c_name (t_cols t)) n 0) names = indices_of t names.
Proof.
  induction names as [|n names IH]; cbn [omapM indices_of]; [reflexivity|].
  rewrite IH, index_of_cols. reflexivity.
Qed.

Lemma existsb_has_col : forall cols n i,
  existsb (str_eqb n) (map c_name cols) = match index_of_col cols n i with Some _ => true | None => false end.
Proof.
  induction cols as [|c cols IH]; intros n i; cbn [map existsb index_of_col]; [reflexivity|].
  rewrite (str_eqb_sym n (c_name c)). destruct (str_eqb (c_name c) n); cbn [orb]; [reflexivity | apply IH].
Qed.

Lemma names_known_cols_ok t : forall used, names_known (map c_name (t_cols t)) used = cols_ok t used.
Proof.
  unfold names_known. induction used as [|n used IH]; cbn [forallb cols_ok]; [reflexivity|].
  rewrite IH. unfold has_col, col_index. rewrite (existsb_has_col (t_cols t) n 0). reflexivity.
Qed.

Lemma cond_known_ok t cond :
  match cond with Some e => names_known (map c_name (t_cols t)) (cols_of e) | None => true end = cond_ok t cond.
Proof. destruct cond as [e|]; cbn [cond_ok]; [apply names_known_cols_ok | reflexivity]. Qed.

Lemma qualify_prefixed n c : qualify n (c_name c) = prefixed n c.
Proof. reflexivity. Qed.

Lemma join_names (f : str -> column -> column) n1 n2 cols1 cols2 :
  (forall s col, c_name (f s col) = c_name (with_prefix s col)) ->
  map c_name (map (with_prefix n1) cols1 ++ map (f n2) cols2) =
  map (qualify n1) (map c_name cols1) ++ map (qualify n2) (map c_name cols2).
Proof.
  intros Hf. rewrite map_app, !map_map. f_equal; apply map_ext; intros col.
  - rewrite with_prefix_name. reflexivity.
  - rewrite Hf, with_prefix_name. reflexivity.
Qed.

Lemma filter_true {A} (l : list A) : filter (fun _ => true) l = l.
Proof. induction l as [|a l IH]; cbn [filter]; [reflexivity | rewrite IH; reflexivity]. Qed.

Lemma holds_filter t cond vals :
  filter (holds_v t cond) vals =
  match cond with Some e => filter (row_holds (map c_name (t_cols t)) e) vals | None => vals end.
Proof. destruct cond as [e|]; [reflexivity | apply filter_true]. Qed.

(* ---- the rows of a join, as values ---------------------------------------------------------------- *)
Lemma join_core prof p jt on left n2 rows2 vals2 :
  rmapM (row_to_values prof p) rows2 = Ok vals2 ->
  forall rows1 vals1 out,
  rmapM (row_to_values prof p) rows1 = Ok vals1 ->
  join_rows prof p jt on left n2 rows1 rows2 = Ok out ->
  rmapM (row_to_values prof p) out =
    Ok (flat_map (fun x =>
          if left
          then match filter (row_holds (map c_name (t_cols jt)) on) (map (fun y => x ++ y) vals2) with
               | [] => [x ++ repeat VNull n2]
               | l => l
               end
          else filter (row_holds (map c_name (t_cols jt)) on) (map (fun y => x ++ y) vals2)) vals1).
Proof.
  intros H2. induction rows1 as [|r1 rows1 IH]; intros vals1 out H1 Hj; cbn [rmapM join_rows] in *.
  - injection H1 as <-. injection Hj as <-. reflexivity.
  - destruct (row_to_values prof p r1) as [v1| |] eqn:E1; cbn [rbind] in H1; try discriminate.
    destruct (rmapM (row_to_values prof p) rows1) as [vs1| |]; cbn [rbind] in H1; try discriminate.
    injection H1 as <-.
    destruct (filter_rows prof p jt (Some on) (map (fun r2 => r1 ++ r2) rows2)) as [matched| |] eqn:Ef;
      cbn [rbind] in Hj; try discriminate.
    destruct (join_rows prof p jt on left n2 rows1 rows2) as [rest| |]; cbn [rbind] in Hj; try discriminate.
    injection Hj as <-.
    pose proof (filter_rows_spec _ _ _ _ _ _ _ (decode_map_app _ _ _ _ E1 _ _ H2) Ef) as Hm.
    change (holds_v jt (Some on)) with (row_holds (map c_name (t_cols jt)) on) in Hm.
    cbn [flat_map]. apply rmapM_app; [|apply IH; reflexivity].
    destruct matched as [|m ms].
    + cbn [rmapM] in Hm. injection Hm as <-.
      destruct left; [|reflexivity].
      cbn [rmapM]. rewrite (decode_app _ _ _ _ _ _ E1 (decode_repeat_null prof p n2)). reflexivity.
    + destruct (filter _ _) as [|w ws] eqn:Efl.
      * cbn [rmapM] in Hm.
        destruct (row_to_values prof p m); cbn [rbind] in Hm; try discriminate.
        destruct (rmapM (row_to_values prof p) ms); cbn [rbind] in Hm; discriminate.
      * destruct left; exact Hm.
Qed.

(* ---- execution computes the semantics -------------------------------------------------------------- *)
Section ExecSem.
Variables (prof : profile) (c : container) (p : pool) (ts : tables).
Hypothesis Hc : bytes_ok c.
Hypothesis Hts : forall n t', find_table ts n = Some t' -> t_name t' = n.

Definition sel_sem (s : sel) : Prop := forall t rows,
  exec_select prof c p ts s = Ok (t, rows) ->
  exists vals, rmapM (row_to_values prof p) rows = Ok vals /\
    sem_sel (env_of prof c p ts) s = Some (mkrel (t_name t) (map c_name (t_cols t)) vals).
Definition join_sem (j : join) : Prop := forall t rows,
  exec_join prof c p ts j = Ok (t, rows) ->
  exists vals, rmapM (row_to_values prof p) rows = Ok vals /\
    sem_join (env_of prof c p ts) j = Some (mkrel (t_name t) (map c_name (t_cols t)) vals).

Lemma sem_table name : join_sem (JTable name).
Proof.
  intros t rows H. cbn [exec_join] in H.
  destruct (find_table ts name) as [t0|] eqn:Ef; cbn [of_opt rbind] in H; try discriminate.
  destruct (load_rows c t0) as [rows0| |] eqn:El; cbn [rbind] in H; try discriminate.
  injection H as <- <-.
  destruct (decode_shaped prof p t0 rows0 (load_rows_shape _ _ _ Hc El)) as [vals Hv].
  exists vals. split; [exact Hv|].
  cbn [sem_join]. unfold env_of. rewrite Ef, El. cbn [rbind]. rewrite Hv.
  rewrite (Hts _ _ Ef). reflexivity.
Qed.

Lemma sem_sel_case from names cond : join_sem from -> sel_sem (Sel from names cond).
Proof.
  intros IH t rows H. cbn [exec_select] in H.
  destruct (exec_join prof c p ts from) as [[t0 rows0]| |] eqn:Ej; cbn [rbind] in H; try discriminate.
  destruct (IH _ _ Ej) as [vals0 [Hv0 Hs0]].
  cbn [sem_sel]. rewrite Hs0. cbn [r_name r_cols r_rows].
  rewrite omapM_index_of, cond_known_ok, <- holds_filter.
  destruct (indices_of t0 names) as [idx|] eqn:Ei; try discriminate.
  destruct (cond_ok t0 cond) eqn:Ec; cbn [negb] in H |- *; try discriminate.
  destruct (filter_rows prof p t0 cond rows0) as [rows1| |] eqn:Efl; cbn [rbind] in H; try discriminate.
  pose proof (filter_rows_spec _ _ _ _ _ _ _ Hv0 Efl) as Hv1.
  destruct idx as [|i idx].
  - injection H as <- <-. apply indices_of_nil in Ei. subst names. eauto.
  - destruct (select_nth (t_cols t0) (i :: idx)) as [cols| |] eqn:Ecs; cbn [rbind] in H; try discriminate.
    destruct (rmapM (fun r => select_nth r (i :: idx)) rows1) as [rows2| |] eqn:Er; cbn [rbind] in H; try discriminate.
    injection H as <- <-. cbn [t_name t_cols].
    rewrite (indices_of_names _ _ _ _ Ei Ecs).
    exists (map (pick (i :: idx)) (filter (holds_v t0 cond) vals0)). split.
    + exact (select_rows_values _ _ _ _ _ _ Er Hv1).
    + destruct names; [discriminate | reflexivity].
Qed.

Lemma sem_join_gen a b on left (f : str -> column -> column) :
  (forall s col, c_name (f s col) = c_name (with_prefix s col)) ->
  sel_sem a -> sel_sem b ->
  forall (r : res (table * list (list vref))) (o : option rel),
  r = ('(t1, rows1) <- exec_select prof c p ts a ;;
       '(t2, rows2) <- exec_select prof c p ts b ;;
       let jt := mktable [] (map (with_prefix (t_name t1)) (t_cols t1) ++ map (f (t_name t2)) (t_cols t2)) (p_long p) in
       if negb (cols_ok jt (cols_of on)) then Err else
       rows <- join_rows prof p jt on left (length (t_cols t2)) rows1 rows2 ;;
       Ok (jt, rows)) ->
  o = match sem_sel (env_of prof c p ts) a, sem_sel (env_of prof c p ts) b with
      | Some ra, Some rb =>
          let names := map (qualify (r_name ra)) (r_cols ra) ++ map (qualify (r_name rb)) (r_cols rb) in
          if negb (names_known names (cols_of on)) then None
          else Some (mkrel [] names
                 (flat_map (fun x =>
                    if left
                    then match filter (row_holds names on) (map (fun y => x ++ y) (r_rows rb)) with
                         | [] => [x ++ repeat VNull (length (r_cols rb))]
                         | l => l
                         end
                    else filter (row_holds names on) (map (fun y => x ++ y) (r_rows rb))) (r_rows ra)))
      | _, _ => None
      end ->
  forall t rows, r = Ok (t, rows) ->
  exists vals, rmapM (row_to_values prof p) rows = Ok vals /\
    o = Some (mkrel (t_name t) (map c_name (t_cols t)) vals).
Proof.
  intros Hf IHa IHb r o -> -> t rows H.
  destruct (exec_select prof c p ts a) as [[t1 rows1]| |] eqn:Ea; cbn [rbind] in H; try discriminate.
  destruct (exec_select prof c p ts b) as [[t2 rows2]| |] eqn:Eb; cbn [rbind] in H; try discriminate.
  destruct (IHa _ _ Ea) as [vals1 [Hv1 ->]]. destruct (IHb _ _ Eb) as [vals2 [Hv2 ->]].
  cbv zeta in H |- *. cbn [r_name r_cols r_rows].
  set (jt := mktable [] (map (with_prefix (t_name t1)) (t_cols t1) ++ map (f (t_name t2)) (t_cols t2)) (p_long p)) in *.
  assert (Hn : map c_name (t_cols jt) =
               map (qualify (t_name t1)) (map c_name (t_cols t1)) ++ map (qualify (t_name t2)) (map c_name (t_cols t2))).
  { unfold jt. cbn [t_cols]. apply join_names. exact Hf. }
  rewrite <- Hn, names_known_cols_ok, map_length.
  destruct (cols_ok jt (cols_of on)); cbn [negb] in H |- *; try discriminate.
  destruct (join_rows prof p jt on left (length (t_cols t2)) rows1 rows2) as [out| |] eqn:Ejr;
    cbn [rbind] in H; try discriminate.
  injection H as <- <-.
  eexists. split; [exact (join_core _ _ _ _ _ _ _ _ Hv2 _ _ _ Hv1 Ejr) | reflexivity].
Qed.

Lemma sem_inner a b on : sel_sem a -> sel_sem b -> join_sem (JInner a b on).
Proof.
  intros Ha Hb t rows H.
  exact (sem_join_gen a b on false with_prefix (fun _ _ => eq_refl) Ha Hb _ _ eq_refl eq_refl t rows H).
Qed.

Lemma sem_left a b on : sel_sem a -> sel_sem b -> join_sem (JLeft a b on).
Proof.
  intros Ha Hb t rows H.
  exact (sem_join_gen a b on true (fun s col => but_nullable (with_prefix s col)) (fun _ _ => eq_refl)
           Ha Hb _ _ eq_refl eq_refl t rows H).
Qed.

Lemma sel_sem_all : forall s, sel_sem s.
Proof.
  apply (sel_mut sel_sem join_sem).
  - intros; apply sem_sel_case; assumption.
  - intros; apply sem_table.
  - intros; apply sem_inner; assumption.
  - intros; apply sem_left; assumption.
Qed.

Lemma join_sem_all : forall j, join_sem j.
Proof.
  intros [name|a b on|a b on].
  - apply sem_table.
  - apply sem_inner; apply sel_sem_all.
  - apply sem_left; apply sel_sem_all.
Qed.
End ExecSem.

Theorem exec_select_sem : forall prof c p ts s t rows,
  bytes_ok c -> (forall n t', find_table ts n = Some t' -> t_name t' = n) ->
  exec_select prof c p ts s = Ok (t, rows) ->
  exists vals, rmapM (row_to_values prof p) rows = Ok vals /\
    sem_sel (env_of prof c p ts) s = Some (mkrel (t_name t) (map c_name (t_cols t)) vals).
Proof. intros prof c p ts s t rows Hc Hts. apply (sel_sem_all prof c p ts Hc Hts s). Qed.

Theorem exec_join_sem : forall prof c p ts j t rows,
  bytes_ok c -> (forall n t', find_table ts n = Some t' -> t_name t' = n) ->
  exec_join prof c p ts j = Ok (t, rows) ->
  exists vals, rmapM (row_to_values prof p) rows = Ok vals /\
    sem_join (env_of prof c p ts) j = Some (mkrel (t_name t) (map c_name (t_cols t)) vals).
Proof. intros prof c p ts j t rows Hc Hts. apply (join_sem_all prof c p ts Hc Hts j). Qed.

(* ---- whenever the semantics is defined, execution succeeds ------------------------------------------ *)
Section SemDefined.
Variables (prof : profile) (c : container) (p : pool) (ts : tables).
Hypothesis Hc : bytes_ok c.
Hypothesis Hts : forall n t', find_table ts n = Some t' -> t_name t' = n.

Definition sel_def (s : sel) : Prop := forall r,
  sem_sel (env_of prof c p ts) s = Some r -> exists t rows, exec_select prof c p ts s = Ok (t, rows).
Definition join_def (j : join) : Prop := forall r,
  sem_join (env_of prof c p ts) j = Some r -> exists t rows, exec_join prof c p ts j = Ok (t, rows).

Lemma def_table name : join_def (JTable name).
Proof.
  intros r H. cbn [sem_join] in H. unfold env_of in H. cbn [exec_join].
  destruct (find_table ts name) as [t0|]; try discriminate. cbn [of_opt rbind].
  destruct (load_rows c t0) as [rows0| |]; cbn [rbind] in H |- *; try discriminate.
  eauto.
Qed.

Lemma def_sel_case from names cond : join_def from -> sel_def (Sel from names cond).
Proof.
  intros IH r H. cbn [sem_sel] in H.
  destruct (sem_join (env_of prof c p ts) from) as [r0|] eqn:Es; try discriminate.
  destruct (IH _ Es) as [t0 [rows0 Ej]].
  destruct (exec_join_sem _ _ _ _ _ _ _ Hc Hts Ej) as [vals0 [Hv0 Hs0]].
  rewrite Es in Hs0. injection Hs0 as ->. cbn [r_name r_cols r_rows] in H.
  rewrite omapM_index_of, cond_known_ok in H.
  destruct (indices_of t0 names) as [idx|] eqn:Ei; try discriminate.
  destruct (cond_ok t0 cond) eqn:Ec; cbn [negb] in H; try discriminate.
  cbn [exec_select]. rewrite Ej. cbn [rbind]. rewrite Ei, Ec. cbn [negb].
  pose proof (join_shape _ _ _ _ _ _ _ Hc Ej) as Sj.
  destruct (filter_rows_total prof p t0 cond rows0 Sj Ec) as [rows1 [-> H1]]. cbn [rbind].
  destruct (indices_of_range _ _ _ Ei) as [Hidx _].
  destruct (select_nth_total (t_cols t0) idx Hidx) as [cols [Ecols _]].
  destruct (project_rows_total t0 idx rows1 Hidx H1) as [rows2 [Erows2 _]].
  destruct idx as [|i idx']; [eauto|].
  rewrite Ecols, Erows2. cbn [rbind]. eauto.
Qed.

Lemma def_join_gen a b on left (f : str -> column -> column) :
  (forall s col, c_name (f s col) = c_name (with_prefix s col)) ->
  sel_def a -> sel_def b ->
  forall (r : res (table * list (list vref))) (o : option rel),
  r = ('(t1, rows1) <- exec_select prof c p ts a ;;
       '(t2, rows2) <- exec_select prof c p ts b ;;
       let jt := mktable [] (map (with_prefix (t_name t1)) (t_cols t1) ++ map (f (t_name t2)) (t_cols t2)) (p_long p) in
       if negb (cols_ok jt (cols_of on)) then Err else
       rows <- join_rows prof p jt on left (length (t_cols t2)) rows1 rows2 ;;
       Ok (jt, rows)) ->
  o = match sem_sel (env_of prof c p ts) a, sem_sel (env_of prof c p ts) b with
      | Some ra, Some rb =>
          let names := map (qualify (r_name ra)) (r_cols ra) ++ map (qualify (r_name rb)) (r_cols rb) in
          if negb (names_known names (cols_of on)) then None
          else Some (mkrel [] names
                 (flat_map (fun x =>
                    if left
                    then match filter (row_holds names on) (map (fun y => x ++ y) (r_rows rb)) with
                         | [] => [x ++ repeat VNull (length (r_cols rb))]
                         | l => l
                         end
                    else filter (row_holds names on) (map (fun y => x ++ y) (r_rows rb))) (r_rows ra)))
      | _, _ => None
      end ->
  forall x, o = Some x -> exists t rows, r = Ok (t, rows).
Proof.
  intros Hf IHa IHb r o -> -> x H.
  destruct (sem_sel (env_of prof c p ts) a) as [ra|] eqn:Sa; try discriminate.
  destruct (sem_sel (env_of prof c p ts) b) as [rb|] eqn:Sb; try discriminate.
  destruct (IHa _ Sa) as [t1 [rows1 Ea]]. destruct (IHb _ Sb) as [t2 [rows2 Eb]].
  destruct (exec_select_sem _ _ _ _ _ _ _ Hc Hts Ea) as [vals1 [Hv1 Hs1]].
  destruct (exec_select_sem _ _ _ _ _ _ _ Hc Hts Eb) as [vals2 [Hv2 Hs2]].
  rewrite Sa in Hs1. rewrite Sb in Hs2. injection Hs1 as ->. injection Hs2 as ->.
  rewrite Ea, Eb. cbn [rbind]. cbv zeta in H |- *. cbn [r_name r_cols r_rows] in H.
  set (jt := mktable [] (map (with_prefix (t_name t1)) (t_cols t1) ++ map (f (t_name t2)) (t_cols t2)) (p_long p)) in *.
  assert (Hn : map c_name (t_cols jt) =
               map (qualify (t_name t1)) (map c_name (t_cols t1)) ++ map (qualify (t_name t2)) (map c_name (t_cols t2))).
  { unfold jt. cbn [t_cols]. apply join_names. exact Hf. }
  rewrite <- Hn, names_known_cols_ok in H.
  destruct (cols_ok jt (cols_of on)) eqn:Hon; cbn [negb] in H |- *; try discriminate.
  destruct (join_rows_total prof p jt on left (length (t_cols t2)) t1 t2 rows2) with (rows1 := rows1)
    as [rows [-> _]]; auto.
  - unfold jt. cbn [t_cols]. rewrite app_length, !map_length. reflexivity.
  - exact (select_shape _ _ _ _ _ _ _ Hc Eb).
  - exact (select_shape _ _ _ _ _ _ _ Hc Ea).
  - cbn [rbind]. eauto.
Qed.

Lemma def_inner a b on : sel_def a -> sel_def b -> join_def (JInner a b on).
Proof.
  intros Ha Hb x H.
  exact (def_join_gen a b on false with_prefix (fun _ _ => eq_refl) Ha Hb _ _ eq_refl eq_refl x H).
Qed.

Lemma def_left a b on : sel_def a -> sel_def b -> join_def (JLeft a b on).
Proof.
  intros Ha Hb x H.
  exact (def_join_gen a b on true (fun s col => but_nullable (with_prefix s col)) (fun _ _ => eq_refl)
           Ha Hb _ _ eq_refl eq_refl x H).
Qed.

Lemma sel_def_all : forall s, sel_def s.
Proof.
  apply (sel_mut sel_def join_def).
  - intros; apply def_sel_case; assumption.
  - intros; apply def_table.
  - intros; apply def_inner; assumption.
  - intros; apply def_left; assumption.
Qed.
End SemDefined.

Theorem sem_defined_exec_ok : forall prof c p ts s r,
  bytes_ok c -> (forall n t', find_table ts n = Some t' -> t_name t' = n) ->
  sem_sel (env_of prof c p ts) s = Some r -> exists t rows, exec_select prof c p ts s = Ok (t, rows).
Proof. intros prof c p ts s r Hc Hts. apply (sel_def_all prof c p ts Hc Hts s). Qed.

Print Assumptions exec_select_sem.
Print Assumptions exec_join_sem.
Print Assumptions sem_defined_exec_ok.
