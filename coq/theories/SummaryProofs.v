(* SummaryProofs.v -- set / get / clear laws of the property-set model and the
   independence of the two halves of the summary "template" property. *)
From Coq Require Import ZifyBool ZifyNat ZifyN Lia.
From MsiModel Require Import Base CodePage Timestamp Language Category Propset Summary.
From MsiGen Require Import GenConsts.
From MsiModel Require Import Finite CategoryProofs.
Open Scope N_scope.

Fixpoint ids_ascending (l : list (N * propval)) : Prop :=
  match l with
  | [] => True
  | (k, _) :: r => k < 4294967296 /\ match r with [] => True | (k', _) :: _ => k < k' end /\ ids_ascending r
  end.
(* the cached code page agrees with property 1 (absent = UTF-8) *)
Definition cp_consistent (ps : propset) : Prop :=
  match ps_lookup PROPERTY_CODEPAGE (ps_props ps) with
  | Some (PI2 id) => cp_from_id (id mod 65536)%Z = Some (ps_cp ps)
  | Some _ => False
  | None => ps_cp ps = cp_utf8
  end.

(* ---- lookup / insert / delete ------------------------------------------------------- *)
Theorem lookup_insert_same : forall k v l, ps_lookup k (ps_insert k v l) = Some v.
Proof.
  intros k v l. induction l as [|[k' v'] r IH]; cbn [ps_insert ps_lookup].
  - rewrite N.eqb_refl. reflexivity.
  - destruct (k <? k') eqn:E1; [cbn [ps_lookup]; rewrite N.eqb_refl; reflexivity|].
    destruct (k =? k') eqn:E2; cbn [ps_lookup].
    + rewrite N.eqb_refl. reflexivity.
    + rewrite E2. exact IH.
Qed.

Theorem lookup_insert_other : forall k k' v l, k' <> k -> ps_lookup k' (ps_insert k v l) = ps_lookup k' l.
Proof.
  intros k k' v l Hne. apply N.eqb_neq in Hne.
  induction l as [|[k0 v0] r IH]; cbn [ps_insert ps_lookup].
  - rewrite Hne. reflexivity.
  - destruct (k <? k0) eqn:E1; [cbn [ps_lookup]; rewrite Hne; reflexivity|].
    destruct (k =? k0) eqn:E2; cbn [ps_lookup].
    + apply N.eqb_eq in E2. subst k0. rewrite Hne. reflexivity.
    + rewrite IH. reflexivity.
Qed.

Theorem lookup_delete_same : forall k l, ps_lookup k (ps_delete k l) = None.
Proof.
  intros k l. unfold ps_delete. induction l as [|[k0 v0] r IH]; [reflexivity|].
  cbn [filter fst]. destruct (k0 =? k) eqn:E; cbn [negb]; [exact IH|].
  cbn [ps_lookup]. rewrite N.eqb_sym, E. exact IH.
Qed.

Theorem lookup_delete_other : forall k k' l, k' <> k -> ps_lookup k' (ps_delete k l) = ps_lookup k' l.
Proof.
  intros k k' l Hne. unfold ps_delete. induction l as [|[k0 v0] r IH]; [reflexivity|].
  cbn [filter fst]. destruct (k0 =? k) eqn:E; cbn [negb ps_lookup].
  - apply N.eqb_eq in E. subst k0. apply N.eqb_neq in Hne. rewrite Hne. exact IH.
  - rewrite IH. reflexivity.
Qed.

(* ---- ascending ids ------------------------------------------------------------------- *)
Lemma asc_cons k v r :
  ids_ascending ((k, v) :: r) <->
  k < 4294967296 /\ match r with [] => True | (k', _) :: _ => k < k' end /\ ids_ascending r.
Proof. reflexivity. Qed.

Theorem insert_ascending : forall k v l, k < 4294967296 -> ids_ascending l -> ids_ascending (ps_insert k v l).
Proof.
  intros k v l Hk. induction l as [|[k' v'] r IH]; intros Ha; cbn [ps_insert].
  - apply asc_cons. auto.
  - destruct (proj1 (asc_cons _ _ _) Ha) as (H1 & H2 & H3).
    destruct (k <? k') eqn:E1.
    + apply N.ltb_lt in E1. apply asc_cons. auto.
    + destruct (k =? k') eqn:E2.
      * apply N.eqb_eq in E2. subst k'. apply asc_cons. auto.
      * apply N.ltb_ge in E1. apply N.eqb_neq in E2.
        apply asc_cons. split; [exact H1|]. split; [|exact (IH H3)].
        destruct r as [|[k2 v2] r2]; cbn [ps_insert]; [lia|].
        destruct (k <? k2); [lia|]. destruct (k =? k2); [lia|]. exact H2.
Qed.

Lemma asc_all_gt r : forall k v, ids_ascending ((k, v) :: r) -> Forall (fun p => k < fst p) r.
Proof.
  induction r as [|[k2 v2] r2 IH]; intros k v Ha; [constructor|].
  destruct (proj1 (asc_cons _ _ _) Ha) as (H1 & H2 & H3). constructor; [exact H2|].
  specialize (IH k2 v2 H3). eapply Forall_impl; [|exact IH]. cbn beta. intros p Hp. lia.
Qed.

Lemma asc_cons_intro k v r :
  k < 4294967296 -> Forall (fun p => k < fst p) r -> ids_ascending r -> ids_ascending ((k, v) :: r).
Proof.
  intros H1 H2 H3. apply asc_cons. split; [exact H1|]. split; [|exact H3].
  destruct r as [|[k2 v2] r2]; [exact I|]. inversion H2; subst. assumption.
Qed.

Lemma asc_filter f : forall l, ids_ascending l -> ids_ascending (filter f l).
Proof.
  induction l as [|[k0 v0] r IH]; intros Ha; [exact I|].
  pose proof (asc_all_gt _ _ _ Ha) as Hgt. destruct (proj1 (asc_cons _ _ _) Ha) as (H1 & H2 & H3).
  cbn [filter]. destruct (f (k0, v0)); [|exact (IH H3)].
  apply asc_cons_intro; [exact H1 | | exact (IH H3)].
  rewrite Forall_forall in *. intros p Hp. apply filter_In in Hp as [Hp _]. exact (Hgt p Hp).
Qed.

Theorem delete_ascending : forall k l, ids_ascending l -> ids_ascending (ps_delete k l).
Proof. intros k l. apply asc_filter. Qed.

(* ---- the code page ------------------------------------------------------------------- *)
Definition cp_back (ci : codepage * N) : bool :=
  match cp_from_id (wrap16 (Z.of_N (cp_id (fst ci))) mod 65536)%Z with
  | Some c' => str_eqb c' (fst ci)
  | None => false
  end.
Lemma cp_back_all : forallb cp_back GenCodePage.CP_ID = true.
Proof. vm_compute. reflexivity. Qed.

Lemma ps_set_cp prof ps z c : cp_from_id (z mod 65536)%Z = Some c ->
  ps_set prof ps PROPERTY_CODEPAGE (PI2 z) =
  mkps (ps_os ps) (ps_os_version ps) (ps_clsid ps) (ps_fmtid ps) c
       (ps_insert PROPERTY_CODEPAGE (PI2 z) (ps_props ps)).
Proof.
  intros H. unfold ps_set. rewrite N.eqb_refl.
  change PROPSET_SET_CODEPAGE_AS_U16 with true. cbv iota. rewrite H. reflexivity.
Qed.

Theorem set_codepage_last : forall prof ps c i, In (c, i) GenCodePage.CP_ID ->
  exists ps', ps_set_codepage prof ps c = Ok ps' /\ ps_cp ps' = c /\ cp_consistent ps'.
Proof.
  intros prof ps c i Hin.
  pose proof cp_back_all as Hall. rewrite forallb_forall in Hall. specialize (Hall _ Hin).
  unfold cp_back in Hall. cbn [fst] in Hall.
  destruct (cp_from_id (wrap16 (Z.of_N (cp_id c)) mod 65536)%Z) as [c'|] eqn:Hc; [|discriminate].
  apply str_eqb_spec in Hall. subst c'.
  unfold ps_set_codepage. rewrite (ps_set_cp prof ps _ c Hc).
  eexists. split.
  - destruct prof; [|reflexivity]. cbn [ps_cp].
    replace (str_eqb c c) with true by (symmetry; apply str_eqb_spec; reflexivity). reflexivity.
  - split; [reflexivity|]. unfold cp_consistent. cbn [ps_props ps_cp].
    rewrite lookup_insert_same. exact Hc.
Qed.

Theorem set_other_keeps_cp : forall prof ps k v, k <> PROPERTY_CODEPAGE -> ps_cp (ps_set prof ps k v) = ps_cp ps.
Proof.
  intros prof ps k v Hne. apply N.eqb_neq in Hne. unfold ps_set. rewrite Hne. reflexivity.
Qed.

(* ---- the template property ----------------------------------------------------------- *)
Lemma get_str_set prof ps k v :
  get_str (ps_set prof ps k v) k = match v with PStr s => Some s | _ => None end.
Proof. unfold get_str, ps_set. cbn [ps_props]. rewrite lookup_insert_same. reflexivity. Qed.

Lemma split_once_app c a r : ~ In c a -> split_once c (a ++ c :: r) = Some (a, r).
Proof.
  induction a as [|x a IH]; intros H; cbn [app split_once].
  - rewrite N.eqb_refl. reflexivity.
  - destruct (x =? c) eqn:E; [apply N.eqb_eq in E; exfalso; apply H; left; exact E|].
    rewrite IH by (intros Hin; apply H; right; exact Hin). reflexivity.
Qed.

Lemma split_once_some c s : forall a b, split_once c s = Some (a, b) -> ~ In c a /\ s = a ++ c :: b.
Proof.
  induction s as [|x r IH]; intros a b H; cbn [split_once] in H; [discriminate|].
  destruct (x =? c) eqn:E.
  - apply N.eqb_eq in E. inversion H; subst. split; [intros []|reflexivity].
  - destruct (split_once c r) as [[a' b']|]; [|discriminate]. inversion H; subst.
    destruct (IH a' b eq_refl) as [Hn ->]. split; [|reflexivity].
    intros [Hx|Hin]; [apply N.eqb_neq in E; congruence | exact (Hn Hin)].
Qed.

Lemma split_once_none c s : split_once c s = None -> ~ In c s.
Proof.
  induction s as [|x r IH]; intros H; [intros []|]. cbn [split_once] in H.
  destruct (x =? c) eqn:E; [discriminate|].
  destruct (split_once c r) as [[a' b']|]; [discriminate|].
  intros [Hx|Hin]; [apply N.eqb_neq in E; congruence | exact (IH eq_refl Hin)].
Qed.

(* the architecture half kept by sum_set_languages never contains ';' *)
Lemma kept_arch_no_semi ps :
  ~ In 59 (match get_str ps PROPERTY_TEMPLATE with
           | Some t => match split_once 59 t with Some (a, _) => a | None => t end
           | None => []
           end).
Proof.
  destruct (get_str ps PROPERTY_TEMPLATE) as [t|]; [|intros []].
  destruct (split_once 59 t) as [[a b]|] eqn:E.
  - apply (split_once_some _ _ _ _ E).
  - apply split_once_none, E.
Qed.

Theorem arch_after_set_arch : forall prof ps a, a <> [] -> ~ In 59 a -> sum_arch (sum_set_arch prof ps a) = Some a.
Proof.
  intros prof ps a Hne Hno. unfold sum_arch, sum_set_arch. rewrite get_str_set.
  rewrite split_once_app by exact Hno. destruct a; [congruence|reflexivity].
Qed.

Theorem langs_after_set_arch : forall prof ps a, ~ In 59 a -> sum_languages (sum_set_arch prof ps a) = sum_languages ps.
Proof.
  intros prof ps a Hno. unfold sum_languages at 1. unfold sum_set_arch. rewrite get_str_set.
  rewrite split_once_app by exact Hno. unfold sum_languages.
  destruct (get_str ps PROPERTY_TEMPLATE) as [t|]; [|reflexivity].
  destruct (split_once 59 t) as [[a' l]|]; reflexivity.
Qed.

Definition dec_back (c : N) : bool :=
  match parse_u16_value (decimal c) with Some c' => c' =? c | None => false end
  && negb (existsb (N.eqb 44) (decimal c)).
Lemma dec_back_all : forallb dec_back (nrange 65536) = true.
Proof. vm_compute. reflexivity. Qed.

Lemma decimal_back c : c < 65536 -> parse_u16_value (decimal c) = Some c /\ ~ In 44 (decimal c).
Proof.
  intros Hc. pose proof (forall_below _ _ dec_back_all c Hc) as H. unfold dec_back in H.
  apply andb_true_iff in H as [H1 H2]. split.
  - destruct (parse_u16_value (decimal c)) as [c'|]; [|discriminate].
    apply N.eqb_eq in H1. congruence.
  - intros Hin. apply negb_true_iff in H2.
    assert (existsb (N.eqb 44) (decimal c) = true); [|congruence].
    apply existsb_exists. exists 44. split; [exact Hin | apply N.eqb_refl].
Qed.

Lemma parse_decimals codes : Forall (fun c => c < 65536) codes ->
  flat_map (fun p => match parse_u16_value p with Some c => [c] | None => [] end) (map decimal codes) = codes.
Proof.
  induction 1 as [|c r Hc _ IH]; [reflexivity|]. cbn [map flat_map].
  rewrite (proj1 (decimal_back c Hc)), IH. reflexivity.
Qed.

Theorem langs_after_set_langs : forall prof ps codes, Forall (fun c => c < 65536) codes -> codes <> [] ->
  sum_languages (sum_set_languages prof ps codes) = codes.
Proof.
  intros prof ps codes Hc Hne. unfold sum_languages, sum_set_languages. rewrite get_str_set.
  rewrite split_once_app by apply kept_arch_no_semi.
  rewrite split_join.
  - apply parse_decimals, Hc.
  - destruct codes; [congruence|discriminate].
  - apply Forall_map. eapply Forall_impl; [|exact Hc]. intros c Hlt. apply decimal_back, Hlt.
Qed.

Theorem arch_after_set_langs : forall prof ps codes, sum_arch (sum_set_languages prof ps codes) = sum_arch ps.
Proof.
  intros prof ps codes. unfold sum_arch at 1. unfold sum_set_languages. rewrite get_str_set.
  rewrite split_once_app by apply kept_arch_no_semi. unfold sum_arch.
  destruct (get_str ps PROPERTY_TEMPLATE) as [t|]; reflexivity.
Qed.
