(* SingleByteProofs.v -- C14 for the single-byte code pages: proofs of the goals stated in SingleByteSpec.v. *)
From MsiModel Require Import Base CodePage CodePageProofs SingleByteSpec.
From MsiGen Require Import GenCodePage GenSingleByte.
From Coq Require Import Lia ZArith NArith List Bool.
From Coq Require Import ZifyBool ZifyNat ZifyN.
Import ListNotations.
Open Scope N_scope.

(* ---- finite facts ---------------------------------------------------------------------- *)
Theorem sb_tables_ok : G_sb_tables_ok.
Proof. unfold G_sb_tables_ok. vm_compute. reflexivity. Qed.

Theorem sb_wiring : G_sb_wiring.
Proof. unfold G_sb_wiring. vm_compute. reflexivity. Qed.

(* ---- sb_index --------------------------------------------------------------------------- *)
Lemma sb_index_some c t : forall i j, sb_index c t i = Some j ->
  exists k, j = i + N.of_nat k /\ nth_error t k = Some c /\ (k < length t)%nat.
Proof.
  induction t as [|h r IH]; intros i j H; cbn [sb_index] in H; [discriminate|].
  destruct (h =? c) eqn:E.
  - apply N.eqb_eq in E. injection H as <-. subst h. exists 0%nat.
    split; [lia|]. split; [reflexivity|]. cbn [length]. lia.
  - apply IH in H as (k & Hj & Hk & Hl). exists (S k).
    split; [lia|]. split; [exact Hk|]. cbn [length]. lia.
Qed.

Lemma sb_index_none c t : forall i, sb_index c t i = None <-> ~ In c t.
Proof.
  induction t as [|h r IH]; intros i; cbn [sb_index In].
  - split; [intros _ []|reflexivity].
  - destruct (h =? c) eqn:E.
    + apply N.eqb_eq in E. split; [discriminate|]. intros H. exfalso. apply H. left. exact E.
    + apply N.eqb_neq in E. rewrite IH. split.
      * intros H [A|A]; [exact (E A) | exact (H A)].
      * intros H A. apply H. right. exact A.
Qed.

Lemma sb_index_in c t i : In c t -> exists j, sb_index c t i = Some j.
Proof.
  intros H. destruct (sb_index c t i) as [j|] eqn:E; [exists j; reflexivity|].
  apply sb_index_none in E. contradiction.
Qed.

(* ---- the well-formedness predicate, unfolded ------------------------------------------- *)
Lemma sb_ok_parts t : sb_table_ok t = true ->
  length t = 128%nat /\ (forall c, In c t -> c = 0 \/ (128 <= c /\ is_scalar c = true)).
Proof.
  unfold sb_table_ok. intros H.
  apply andb_true_iff in H as [H _]. apply andb_true_iff in H as [H1 H2].
  split; [apply Nat.eqb_eq; exact H1|].
  intros c Hc. rewrite forallb_forall in H2. specialize (H2 c Hc).
  apply orb_true_iff in H2 as [H2|H2].
  - left. apply N.eqb_eq. exact H2.
  - apply andb_true_iff in H2 as [A B]. right. split; [apply N.leb_le; exact A | exact B].
Qed.

(* ---- per-character facts -------------------------------------------------------------------- *)
Lemma sb_enc1_lo t c : c < 128 -> sb_enc1 t c = c.
Proof. intros H. unfold sb_enc1. destruct (c <? 128) eqn:E; [reflexivity | lia]. Qed.

Lemma sb_enc1_hi t c : 128 <= c ->
  sb_enc1 t c = match sb_index c t 0 with Some i => 128 + i | None => CP_REPLACEMENT end.
Proof. intros H. unfold sb_enc1. destruct (c <? 128) eqn:E; [lia | reflexivity]. Qed.

Lemma sb_dec1_lo t x : x < 128 -> sb_dec1 t x = x.
Proof. intros H. unfold sb_dec1. destruct (x <? 128) eqn:E; [reflexivity | lia]. Qed.

(* decoding the byte found by the table search gives the character back (no hypothesis on the table) *)
Lemma sb_dec_index t c i : 128 <= c -> sb_index c t 0 = Some i -> sb_dec1 t (128 + i) = c.
Proof.
  intros Hc Hi. apply sb_index_some in Hi as (k & -> & Hk & _).
  unfold sb_dec1. destruct (128 + (0 + N.of_nat k) <? 128) eqn:E; [lia|].
  replace (N.to_nat (128 + (0 + N.of_nat k) - 128)) with k by lia.
  rewrite Hk. destruct (c =? 0) eqn:E0; [lia | reflexivity].
Qed.

Theorem sb_char_law : G_sb_char_law.
Proof.
  intros t c _. destruct (N.lt_ge_cases c 128) as [H|H].
  - left. rewrite sb_enc1_lo by exact H. apply sb_dec1_lo, H.
  - rewrite sb_enc1_hi by exact H. destruct (sb_index c t 0) as [i|] eqn:E.
    + left. apply sb_dec_index; assumption.
    + right. reflexivity.
Qed.

Theorem sb_repr_exact : G_sb_repr_exact.
Proof.
  intros t c _ Hr. destruct (N.lt_ge_cases c 128) as [H|H].
  - rewrite sb_enc1_lo by exact H. apply sb_dec1_lo, H.
  - destruct Hr as [Hr|[_ Hin]]; [lia|].
    rewrite sb_enc1_hi by exact H.
    destruct (sb_index_in c t 0 Hin) as [j Hj]. rewrite Hj. apply sb_dec_index; assumption.
Qed.

Theorem sb_unrepr : G_sb_unrepr.
Proof.
  intros t c _ Hn. unfold sb_repr in Hn.
  destruct (N.lt_ge_cases c 128) as [H|H]; [exfalso; apply Hn; left; exact H|].
  rewrite sb_enc1_hi by exact H.
  destruct (sb_index c t 0) as [i|] eqn:E; [|reflexivity].
  exfalso. apply Hn. right. split; [lia|].
  apply sb_index_some in E as (k & _ & Hk & _). eapply nth_error_In. exact Hk.
Qed.

Theorem sb_byte : G_sb_byte.
Proof.
  intros t c Hok. apply sb_ok_parts in Hok as [Hlen _].
  destruct (N.lt_ge_cases c 128) as [H|H].
  - rewrite sb_enc1_lo by exact H. lia.
  - rewrite sb_enc1_hi by exact H. destruct (sb_index c t 0) as [i|] eqn:E.
    + apply sb_index_some in E as (k & -> & _ & Hk). lia.
    + unfold CP_REPLACEMENT. lia.
Qed.

(* ---- strings --------------------------------------------------------------------------------- *)
Theorem sb_roundtrip : G_sb_roundtrip.
Proof.
  intros t s Hok Hs. unfold sb_decode, sb_encode.
  induction Hs as [|c r Hc _ IH]; [reflexivity|].
  cbn [map]. rewrite IH. f_equal. apply sb_repr_exact; assumption.
Qed.

Theorem sb_concat : G_sb_concat.
Proof. intros t a b. unfold sb_encode. apply map_app. Qed.

Theorem sb_flat : G_sb_flat.
Proof.
  intros t s. unfold sb_encode. induction s as [|c r IH]; [reflexivity|].
  cbn [map flat_map app]. f_equal; try exact IH.
Qed.

Theorem sb_decode_len : G_sb_decode_len.
Proof. intros t b. unfold sb_decode. apply map_length. Qed.

Lemma sb_dec1_scalar t x : sb_table_ok t = true -> is_scalar (sb_dec1 t x) = true.
Proof.
  intros Hok. apply sb_ok_parts in Hok as [_ Hall].
  unfold sb_dec1. destruct (x <? 128) eqn:E.
  - unfold is_scalar. lia.
  - destruct (nth_error t (N.to_nat (x - 128))) as [c|] eqn:En; [|reflexivity].
    destruct (c =? 0) eqn:E0; [reflexivity|].
    apply nth_error_In in En. destruct (Hall c En) as [A|[_ A]]; [lia | exact A].
Qed.

Theorem sb_decode_scalar : G_sb_decode_scalar.
Proof.
  intros t b Hok. unfold sb_decode. apply forallb_forall. intros c Hc.
  apply in_map_iff in Hc as (x & <- & _). apply sb_dec1_scalar, Hok.
Qed.

(* ---- the encode loop ------------------------------------------------------------------------ *)
Lemma sb_enc_char t c : enc_char (sb_enc1opt t) c = [sb_enc1 t c].
Proof.
  unfold enc_char, sb_enc1opt, sb_enc1. destruct (c <? 128); [reflexivity|].
  destruct (sb_index c t 0); reflexivity.
Qed.

Lemma sb_flat_enc_char t s : flat_map (enc_char (sb_enc1opt t)) s = sb_encode t s.
Proof.
  unfold sb_encode. induction s as [|c r IH]; [reflexivity|].
  cbn [flat_map map]. rewrite IH, sb_enc_char. reflexivity.
Qed.

Lemma sb_enc1opt_small t room : 1 <= room -> forall c bs, sb_enc1opt t c = Some bs -> nlen bs <= room.
Proof.
  intros Hr c bs. unfold sb_enc1opt. destruct (c <? 128).
  - intros [= <-]. unfold nlen. cbn [length]. lia.
  - destruct (sb_index c t 0); [|discriminate]. intros [= <-]. unfold nlen. cbn [length]. lia.
Qed.

Theorem sb_loop : G_sb_loop.
Proof.
  intros t room fuel s H0 H1 H2 Hf.
  rewrite (enc_loop_law (sb_enc1opt t) room H0 H1 (sb_enc1opt_small t room H2) fuel s Hf).
  rewrite sb_flat_enc_char. reflexivity.
Qed.

(* ---- code page level ------------------------------------------------------------------------- *)
Theorem cp_sb : G_cp_sb.
Proof.
  intros c t Ht Ha Hu. split.
  - intros s. unfold cp_encode. rewrite Ha, Hu, Ht. reflexivity.
  - intros b. unfold cp_decode. rewrite Ha, Hu, Ht. reflexivity.
Qed.

Theorem cp_sb_roundtrip : G_cp_sb_roundtrip.
Proof.
  intros c t s Ht Hok Ha Hu Hs. destruct (cp_sb c t Ht Ha Hu) as [He Hd].
  exists (sb_encode t s). split; [apply He|]. rewrite Hd. f_equal. apply sb_roundtrip; assumption.
Qed.

Theorem sb_example : G_sb_example.
Proof.
  unfold G_sb_example.
  exists (match sb_table cp_1252 with Some t => t | None => [] end).
  vm_compute. repeat split.
Qed.

Print Assumptions sb_tables_ok.
Print Assumptions sb_wiring.
Print Assumptions sb_char_law.
Print Assumptions sb_repr_exact.
Print Assumptions sb_unrepr.
Print Assumptions sb_byte.
Print Assumptions sb_roundtrip.
Print Assumptions sb_concat.
Print Assumptions sb_flat.
Print Assumptions sb_decode_len.
Print Assumptions sb_decode_scalar.
Print Assumptions sb_loop.
Print Assumptions cp_sb.
Print Assumptions cp_sb_roundtrip.
Print Assumptions sb_example.
