(* ExprProofs.v -- C13: expression evaluation is total and follows the
   documented operators; constant folding is invisible. *)
From MsiModel Require Import Base Value Expr.
From Coq Require Import ZifyBool.
Open Scope Z_scope.

Definition has_columns (r : row) (e : ast) : Prop :=
  forall n, In n (cols_of e) -> lookup r n <> None.

Lemma has_columns_un r op a : has_columns r (UnOp op a) -> has_columns r a.
Proof. intros H n Hn. apply H. exact Hn. Qed.
Lemma has_columns_l r a b :
  (forall n, In n (cols_of a ++ cols_of b) -> lookup r n <> None) -> has_columns r a.
Proof. intros H n Hn. apply H, in_or_app. left; exact Hn. Qed.
Lemma has_columns_r r a b :
  (forall n, In n (cols_of a ++ cols_of b) -> lookup r n <> None) -> has_columns r b.
Proof. intros H n Hn. apply H, in_or_app. right; exact Hn. Qed.

(* never a panic (nor an error) on a row that has the referenced columns *)
Theorem eval_total r e : has_columns r e -> exists v, eval r e = Ok v.
Proof.
  induction e as [v|n|op a IHa|op a IHa b IHb|a IHa b IHb|a IHa b IHb]; intros H; simpl.
  - eauto.
  - destruct (lookup r n) eqn:E; [eexists; reflexivity|]. exfalso. apply (H n); [left; reflexivity | exact E].
  - destruct (IHa (has_columns_un _ _ _ H)) as [v ->]. simpl. eauto.
  - destruct (IHa (has_columns_l _ _ _ H)) as [v1 ->]. destruct (IHb (has_columns_r _ _ _ H)) as [v2 ->]. simpl. eauto.
  - destruct (IHa (has_columns_l _ _ _ H)) as [v1 ->]. destruct (IHb (has_columns_r _ _ _ H)) as [v2 ->]. simpl.
    destruct (to_bool v1); eauto.
  - destruct (IHa (has_columns_l _ _ _ H)) as [v1 ->]. destruct (IHb (has_columns_r _ _ _ H)) as [v2 ->]. simpl.
    destruct (to_bool v1); eauto.
Qed.

(* folding at construction time does not change the value, on any row *)
Lemma eval_mk_unop r op a : eval r (mk_unop op a) = eval r (UnOp op a).
Proof. destruct a; reflexivity. Qed.
Lemma eval_mk_binop r op a b : eval r (mk_binop op a b) = eval r (BinOp op a b).
Proof. destruct a, b; reflexivity. Qed.

Theorem build_eval r e : eval r (build e) = eval r e.
Proof.
  induction e as [v|n|op a IHa|op a IHa b IHb|a IHa b IHb|a IHa b IHb]; simpl; try reflexivity.
  - rewrite eval_mk_unop. simpl. rewrite IHa. reflexivity.
  - rewrite eval_mk_binop. simpl. rewrite IHa, IHb. reflexivity.
  - rewrite IHa, IHb. reflexivity.
  - rewrite IHa, IHb. reflexivity.
Qed.

(* an expression over literals = the same expression over columns holding them *)
Lemma subst_eval r e : has_columns r e -> eval r (subst r e) = eval r e.
Proof.
  induction e as [v|n|op a IHa|op a IHa b IHb|a IHa b IHb|a IHa b IHb]; intros H; simpl.
  - reflexivity.
  - destruct (lookup r n) eqn:E; simpl; [reflexivity|]. rewrite E. reflexivity.
  - rewrite (IHa (has_columns_un _ _ _ H)). reflexivity.
  - rewrite (IHa (has_columns_l _ _ _ H)), (IHb (has_columns_r _ _ _ H)). reflexivity.
  - rewrite (IHa (has_columns_l _ _ _ H)), (IHb (has_columns_r _ _ _ H)). reflexivity.
  - rewrite (IHa (has_columns_l _ _ _ H)), (IHb (has_columns_r _ _ _ H)). reflexivity.
Qed.

Theorem literal_vs_lazy r e : has_columns r e ->
  eval r (build (subst r e)) = eval r (build e).
Proof. intros H. rewrite !build_eval. apply subst_eval, H. Qed.

(* the literal tree has no columns left, so it evaluates on the empty row too *)
Lemma subst_closed r e : has_columns r e -> cols_of (subst r e) = [].
Proof.
  induction e as [v|n|op a IHa|op a IHa b IHb|a IHa b IHb|a IHa b IHb]; intros H; simpl; try reflexivity.
  - destruct (lookup r n) eqn:E; [reflexivity|]. exfalso. apply (H n); [left; reflexivity | exact E].
  - apply IHa, (has_columns_un _ _ _ H).
  - rewrite (IHa (has_columns_l _ _ _ H)), (IHb (has_columns_r _ _ _ H)). reflexivity.
  - rewrite (IHa (has_columns_l _ _ _ H)), (IHb (has_columns_r _ _ _ H)). reflexivity.
  - rewrite (IHa (has_columns_l _ _ _ H)), (IHb (has_columns_r _ _ _ H)). reflexivity.
Qed.

(* ---- results stay inside i32: "the two's-complement result" --------------- *)
Lemma wrap32_range z : in_i32 (wrap32 z) = true.
Proof.
  unfold in_i32, wrap32, i32_min, i32_max.
  pose proof (Z.mod_pos_bound (z + 2147483648) 4294967296 ltac:(lia)). lia.
Qed.
Lemma wrap32_id z : in_i32 z = true -> wrap32 z = z.
Proof.
  unfold in_i32, wrap32, i32_min, i32_max. intros H.
  rewrite Z.mod_small by lia. lia.
Qed.

Lemma quot_range a b : in_i32 a = true -> in_i32 b = true -> b <> 0 ->
  ~ (a = i32_min /\ b = -1) -> in_i32 (Z.quot a b) = true.
Proof.
  unfold in_i32, i32_min, i32_max. intros Ha Hb Hb0 Hmin.
  destruct (Z.eq_dec b (-1)) as [->|Hb1].
  - change (-1) with (- (1)). rewrite Z.quot_opp_r by lia. rewrite Z.quot_1_r. lia.
  - destruct (Z.eq_dec b 1) as [->|Hb2]; [rewrite Z.quot_1_r; lia|].
    assert (Z.abs (Z.quot a b) = Z.abs a / Z.abs b) as Habs.
    { rewrite <- Z.quot_abs by lia. apply Z.quot_div_nonneg; lia. }
    assert (Z.abs a / Z.abs b <= Z.abs a / 2) as Hhalf.
    { apply Z.div_le_compat_l; lia. }
    assert (Z.abs a / 2 <= 1073741824) by (apply Z.div_le_upper_bound; lia).
    lia.
Qed.

Lemma shiftr_range a b : in_i32 a = true -> 0 <= b -> in_i32 (Z.shiftr a b) = true.
Proof.
  unfold in_i32, i32_min, i32_max. intros Ha Hb.
  rewrite Z.shiftr_div_pow2 by lia.
  assert (0 < 2 ^ b) by (apply Z.pow_pos_nonneg; lia).
  assert (1 <= 2 ^ b) by lia.
  pose proof (Z.div_mod a (2 ^ b) ltac:(lia)) as D.
  pose proof (Z.mod_pos_bound a (2 ^ b) ltac:(lia)) as B.
  destruct (Z_lt_le_dec a 0).
  - assert (a / 2 ^ b < 0) by (apply Z.div_lt_upper_bound; lia).
    assert (a <= a / 2 ^ b) by nia. lia.
  - assert (0 <= a / 2 ^ b) by (apply Z.div_pos; lia).
    assert (a / 2 ^ b <= a) by nia. lia.
Qed.

Lemma unop_ok op v : value_ok v = true -> value_ok (unop_eval op v) = true.
Proof.
  destruct op, v; simpl; intros H; try reflexivity; try apply wrap32_range.
  - destruct (negb (z =? 0)); reflexivity.
  - destruct s; reflexivity.
Qed.

Lemma from_bool_ok b : value_ok (from_bool b) = true.
Proof. destruct b; reflexivity. Qed.

Lemma binop_ok op v1 v2 : value_ok v1 = true -> value_ok v2 = true ->
  value_ok (binop_eval op v1 v2) = true.
Proof.
  intros H1 H2.
  destruct op; simpl; try apply from_bool_ok;
    destruct v1 as [|a|s1], v2 as [|b|s2]; simpl in *; try reflexivity; try apply wrap32_range.
  - rewrite forallb_app, H1, H2. reflexivity.
  - destruct b; reflexivity.
  - destruct (Z.eq_dec b 0) as [->|Hb0]; [reflexivity|].
    assert (match b with 0 => VNull | _ => if (a =? i32_min) && (b =? -1) then VNull else VInt (Z.quot a b) end
            = if (a =? i32_min) && (b =? -1) then VNull else VInt (Z.quot a b)) as -> by (destruct b; congruence).
    destruct ((a =? i32_min) && (b =? -1)) eqn:E; [reflexivity|].
    simpl. apply quot_range; auto. intros [-> ->]. discriminate.
  - destruct b; reflexivity.
  - destruct ((0 <=? b) && (b <? 32)); [apply wrap32_range | reflexivity].
  - destruct ((0 <=? b) && (b <? 32)) eqn:E; [|reflexivity]. simpl. apply shiftr_range; [exact H1 | lia].
Qed.

Fixpoint ast_ok (e : ast) : bool :=
  match e with
  | Lit v => value_ok v
  | Col _ => true
  | UnOp _ a => ast_ok a
  | BinOp _ a b | And a b | Or a b => ast_ok a && ast_ok b
  end.
Definition row_ok (r : row) : bool := forallb (fun p => value_ok (snd p)) r.

Lemma lookup_ok r n v : row_ok r = true -> lookup r n = Some v -> value_ok v = true.
Proof.
  induction r as [|[n0 v0] r IH]; simpl; [discriminate|]. intros H.
  apply andb_true_iff in H as [H0 Hr]. destruct (str_eqb n0 n).
  - intros [= <-]. exact H0.
  - apply IH, Hr.
Qed.

Theorem eval_ok r e v : row_ok r = true -> ast_ok e = true -> eval r e = Ok v -> value_ok v = true.
Proof.
  intros Hr. revert v.
  induction e as [v0|n|op a IHa|op a IHa b IHb|a IHa b IHb|a IHa b IHb]; intros v He H; simpl in *.
  - inversion H; subst. exact He.
  - destruct (lookup r n) eqn:E; [|discriminate]. inversion H; subst. eapply lookup_ok; eauto.
  - destruct (eval r a) as [va| |]; try discriminate. inversion H; subst. apply unop_ok, IHa; auto.
  - apply andb_true_iff in He as [Ha Hb].
    destruct (eval r a) as [va| |]; try discriminate. destruct (eval r b) as [vb| |]; try discriminate.
    inversion H; subst. apply binop_ok; auto.
  - destruct (eval r a) as [va| |]; try discriminate. simpl in H.
    destruct (to_bool va).
    + destruct (eval r b) as [vb| |]; try discriminate. inversion H. apply from_bool_ok.
    + inversion H. reflexivity.
  - destruct (eval r a) as [va| |]; try discriminate. simpl in H.
    destruct (to_bool va).
    + inversion H. reflexivity.
    + destruct (eval r b) as [vb| |]; try discriminate. inversion H. apply from_bool_ok.
Qed.

(* ---- the documented operator table, as equations --------------------------- *)
Theorem op_add a b : binop_eval OAdd (VInt a) (VInt b) = VInt (wrap32 (a + b)).  Proof. reflexivity. Qed.
Theorem op_sub a b : binop_eval OSub (VInt a) (VInt b) = VInt (wrap32 (a - b)).  Proof. reflexivity. Qed.
Theorem op_mul a b : binop_eval OMul (VInt a) (VInt b) = VInt (wrap32 (a * b)).  Proof. reflexivity. Qed.
Theorem op_concat a b : binop_eval OAdd (VStr a) (VStr b) = VStr (a ++ b).  Proof. reflexivity. Qed.
Theorem op_div_zero v : binop_eval ODiv v (VInt 0) = VNull.
Proof. destruct v; reflexivity. Qed.
Theorem op_div a b : b <> 0 -> ~ (a = i32_min /\ b = -1) ->
  binop_eval ODiv (VInt a) (VInt b) = VInt (Z.quot a b).
Proof.
  intros Hb Hm. simpl.
  assert ((a =? i32_min) && (b =? -1) = false) as E
    by (destruct (a =? i32_min) eqn:E1, (b =? -1) eqn:E2; auto; exfalso; apply Hm; lia).
  destruct b; try congruence; rewrite E; reflexivity.
Qed.
Theorem op_div_overflow : binop_eval ODiv (VInt i32_min) (VInt (-1)) = VNull.  Proof. reflexivity. Qed.
Theorem op_neg a : unop_eval Neg (VInt a) = VInt (wrap32 (- a)).  Proof. reflexivity. Qed.
Theorem op_bitnot a : unop_eval BitNot (VInt a) = VInt (wrap32 (- a - 1)).
Proof. simpl. unfold Z.lnot. replace (Z.pred (- a)) with (- a - 1) by lia. reflexivity. Qed.
Theorem op_shl a b : 0 <= b < 32 -> binop_eval OShl (VInt a) (VInt b) = VInt (wrap32 (a * 2 ^ b)).
Proof.
  intros H. simpl. destruct ((0 <=? b) && (b <? 32)) eqn:E; [|lia].
  rewrite Z.shiftl_mul_pow2 by lia. reflexivity.
Qed.
Theorem op_shr a b : 0 <= b < 32 -> binop_eval OShr (VInt a) (VInt b) = VInt (a / 2 ^ b).
Proof.
  intros H. simpl. destruct ((0 <=? b) && (b <? 32)) eqn:E; [|lia].
  rewrite Z.shiftr_div_pow2 by lia. reflexivity.
Qed.
Theorem op_shift_range a b : ~ (0 <= b < 32) ->
  (binop_eval OShl (VInt a) (VInt b) = VNull) /\ (binop_eval OShr (VInt a) (VInt b) = VNull).
Proof. intros H. simpl. destruct ((0 <=? b) && (b <? 32)) eqn:E; [lia|]. split; reflexivity. Qed.
Theorem op_bits a b :
  binop_eval OBitAnd (VInt a) (VInt b) = VInt (wrap32 (Z.land a b)) /\
  binop_eval OBitOr (VInt a) (VInt b) = VInt (wrap32 (Z.lor a b)) /\
  binop_eval OBitXor (VInt a) (VInt b) = VInt (wrap32 (Z.lxor a b)).
Proof. repeat split. Qed.

(* arithmetic / bitwise operators give null unless both operands are integers
   (string + string being concatenation) *)
Definition arith (op : binop) : bool :=
  match op with OSub | OMul | ODiv | OBitAnd | OBitOr | OBitXor | OShl | OShr => true | _ => false end.
Definition is_int (v : value) : bool := match v with VInt _ => true | _ => false end.
Theorem op_wrong_type op v1 v2 : arith op = true -> is_int v1 && is_int v2 = false ->
  binop_eval op v1 v2 = VNull.
Proof.
  destruct op; try discriminate; intros _; destruct v1, v2; simpl; try discriminate; try reflexivity;
    match goal with |- context [match ?z with 0 => _ | Z.pos _ => _ | Z.neg _ => _ end] => destruct z; reflexivity end.
Qed.
Theorem op_add_wrong_type v1 v2 :
  (forall a b, (v1, v2) <> (VInt a, VInt b)) -> (forall a b, (v1, v2) <> (VStr a, VStr b)) ->
  binop_eval OAdd v1 v2 = VNull.
Proof. intros H1 H2. destruct v1, v2; simpl; try reflexivity; exfalso; [eapply H1 | eapply H2]; reflexivity. Qed.
Theorem op_neg_wrong_type v : is_int v = false ->
  (unop_eval Neg v = VNull) /\ (unop_eval BitNot v = VNull).
Proof. destruct v; try discriminate; split; reflexivity. Qed.

(* comparisons are 0/1 by the Value order; logic is 0/1 by truthiness, short-circuit *)
Theorem op_cmp v1 v2 :
  binop_eval OEq v1 v2 = from_bool (value_eqb v1 v2) /\
  binop_eval ONe v1 v2 = from_bool (negb (value_eqb v1 v2)) /\
  binop_eval OLt v1 v2 = from_bool (value_ltb v1 v2) /\
  binop_eval OLe v1 v2 = from_bool (value_leb v1 v2) /\
  binop_eval OGt v1 v2 = from_bool (value_ltb v2 v1) /\
  binop_eval OGe v1 v2 = from_bool (value_leb v2 v1).
Proof. repeat split. Qed.
Theorem truthiness : to_bool VNull = false /\ to_bool (VInt 0) = false /\ to_bool (VStr []) = false /\
  (forall z, z <> 0 -> to_bool (VInt z) = true) /\ (forall c s, to_bool (VStr (c :: s)) = true).
Proof. repeat split; try reflexivity. intros z Hz. simpl. destruct (z =? 0) eqn:E; [lia | reflexivity]. Qed.
Theorem op_and r a b va : eval r a = Ok va ->
  eval r (And a b) = if to_bool va then rmap (fun vb => from_bool (to_bool vb)) (eval r b) else Ok (VInt 0).
Proof. intros H. simpl. rewrite H. simpl. destruct (to_bool va); [|reflexivity]. destruct (eval r b); reflexivity. Qed.
Theorem op_or r a b va : eval r a = Ok va ->
  eval r (Or a b) = if to_bool va then Ok (VInt 1) else rmap (fun vb => from_bool (to_bool vb)) (eval r b).
Proof. intros H. simpl. rewrite H. simpl. destruct (to_bool va); [reflexivity|]. destruct (eval r b); reflexivity. Qed.
Theorem op_not v : unop_eval BoolNot v = from_bool (negb (to_bool v)).
Proof. reflexivity. Qed.

(* non-vacuity: a row and an expression meeting the hypotheses, evaluated *)
Example c13_example :
  let r := [([97], VInt 2147483647); ([98], VStr [120])]%N in
  let e := BinOp OAdd (Col [97]%N) (Lit (VInt 1)) in
  has_columns r e /\ eval r e = Ok (VInt (-2147483648)) /\
  eval r (build (subst r e)) = Ok (VInt (-2147483648)).
Proof.
  repeat split. intros n [<-|[]]. discriminate.
Qed.
