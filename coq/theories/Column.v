(* Column.v -- model of src/internal/column.rs: column descriptors, the type
   bitfield stored in _Columns, and value validity. *)
From MsiModel Require Import Base Value Category.
From MsiGen Require Import GenColumn.
Open Scope Z_scope.

Inductive coltype := Int16 | Int32 | Str (w : N).

Record column := mkcol {
  c_name : str;
  c_type : coltype;
  c_loc : bool;
  c_null : bool;
  c_pk : bool;
  c_range : option (Z * Z);
  c_fk : option (str * Z);
  c_cat : option category;
  c_enum : list str;
}.

Definition zc (n : N) : Z := Z.of_N n.

(* ColumnType::bitfield: `max_len as i32` truncates a usize to 32 bits *)
Definition ct_bits (t : coltype) : Z :=
  match t with
  | Int16 => zc COLTYPE_INT16_BITS
  | Int32 => zc COLTYPE_INT32_BITS
  | Str w => Z.lor (zc COL_STRING_BIT) (wrap32 (Z.of_N w))
  end.

Definition cat_eqb (a b : category) : bool := str_eqb (cat_ident a) (cat_ident b).

(* Column::bitfield *)
Definition col_bits (c : column) : Z :=
  let b0 := Z.lor (ct_bits (c_type c)) (zc COL_VALID_BIT) in
  let b1 := if c_loc c then Z.lor b0 (zc COL_LOCALIZABLE_BIT) else b0 in
  let b2 := if c_null c then Z.lor b1 (zc COL_NULLABLE_BIT) else b1 in
  let nonbinary :=
    match c_type c with
    | Int16 => true
    | Int32 => false
    | Str 0 => negb (match c_cat c with Some k => cat_eqb k CBinary | None => false end)
    | Str _ => true
    end in
  let b3 := if nonbinary then Z.lor b2 (zc COL_NONBINARY_BIT) else b2 in
  if c_pk c then Z.lor b3 (zc COL_PRIMARY_KEY_BIT) else b3.

Definition has_bit (bits : Z) (m : N) : bool := negb (Z.land bits (zc m) =? 0).

Fixpoint int_size_lookup (sz : N) (l : list (N * N)) : option coltype :=
  match l with
  | [] => None
  | (s, w) :: r => if (s =? sz)%N then Some (if (w =? 32)%N then Int32 else Int16) else int_size_lookup sz r
  end.

(* ColumnType::from_bitfield *)
Definition ct_of_bits (bits : Z) : res coltype :=
  let size := Z.to_N (Z.land bits (zc COL_FIELD_SIZE_MASK)) in
  if has_bit bits COL_STRING_BIT then Ok (Str size)
  else of_opt (int_size_lookup size FROM_BITFIELD_INT_SIZES).

(* ColumnBuilder::with_bitfield applied to a builder carrying the _Validation data *)
Definition col_with_bits (c : column) (bits : Z) : res column :=
  t <- ct_of_bits bits ;;
  Ok {| c_name := c_name c; c_type := t;
        c_loc := has_bit bits COL_LOCALIZABLE_BIT;
        c_null := has_bit bits COL_NULLABLE_BIT || c_null c;
        c_pk := has_bit bits COL_PRIMARY_KEY_BIT;
        c_range := c_range c; c_fk := c_fk c; c_cat := c_cat c; c_enum := c_enum c |}.

Definition with_prefix (prefix : str) (c : column) : column :=
  match prefix with
  | [] => c
  | _ => {| c_name := prefix ++ 46%N :: c_name c; c_type := c_type c; c_loc := c_loc c; c_null := c_null c;
            c_pk := c_pk c; c_range := c_range c; c_fk := c_fk c; c_cat := c_cat c; c_enum := c_enum c |}
  end.
Definition but_nullable (c : column) : column :=
  {| c_name := c_name c; c_type := c_type c; c_loc := c_loc c; c_null := true;
     c_pk := c_pk c; c_range := c_range c; c_fk := c_fk c; c_cat := c_cat c; c_enum := c_enum c |}.

(* Column::is_valid_value *)
Definition is_valid_value (c : column) (v : value) : res bool :=
  match v with
  | VNull => Ok (c_null c)
  | VInt n =>
      if match c_range c with Some (lo, hi) => (n <? lo) || (hi <? n) | None => false end
      then Ok false
      else match c_type c with
           | Int16 => Ok ((-32768 <? n) && (n <=? 32767))
           | Int32 => Ok (-2147483648 <? n)
           | Str _ => Ok false
           end
  | VStr s =>
      match c_type c with
      | Int16 | Int32 => Ok false
      | Str w =>
          ok_cat <- match c_cat c with Some k => validate k s | None => Ok true end ;;
          if negb ok_cat then Ok false
          else if negb (match c_enum c with [] => true | _ => false end) && negb (existsb (str_eqb s) (c_enum c))
          then Ok false
          else Ok ((w =? 0)%N || (nlen s <=? w)%N)
      end
  end.

Definition is_valid_cname (s : str) : bool := identifier_ok s.
