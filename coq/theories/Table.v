(* Table.v -- model of src/internal/table.rs and the cell codec of column.rs. *)
From MsiModel Require Import Base Value Category Column CodePage Pool StreamName.
From MsiGen Require Import GenConsts.
Open Scope N_scope.

Inductive vref := RNull | RInt (z : Z) | RStr (r : N).

Record table := mktable { t_name : str; t_cols : list column; t_long : bool }.

Definition ct_width (t : coltype) (long : bool) : N :=
  match t with Int16 => 2 | Int32 => 4 | Str _ => if long then 3 else 2 end.
Definition row_size (t : table) : N :=
  fold_right (fun c n => ct_width (c_type c) (t_long t) + n) 0 (t_cols t).

(* ColumnType::read_value: integers offset-binary, zero = null *)
Definition read_cell (t : coltype) (long : bool) (b : bytes) : res (vref * bytes) :=
  match t with
  | Int16 =>
      match get16 b with
      | None => Err
      | Some (w, r) => Ok (if w =? 0 then RNull else RInt (Z.of_N w - 32768), r)
      end
  | Int32 =>
      match get32 b with
      | None => Err
      | Some (w, r) => Ok (if w =? 0 then RNull else RInt (Z.of_N w - 2147483648), r)
      end
  | Str _ =>
      '(o, r) <- read_ref long b ;;
      Ok (match o with Some n => RStr n | None => RNull end, r)
  end.

(* ColumnType::write_value: `(number as i16) ^ -0x8000` truncates to 16 bits *)
Definition write_cell (prof : profile) (t : coltype) (long : bool) (v : vref) : res bytes :=
  match t, v with
  | Int16, RNull => Ok (put16 0)
  | Int16, RInt z => Ok (put16 (Z.to_N ((z + 32768) mod 65536)))
  | Int16, RStr _ => Err
  | Int32, RNull => Ok (put32 0)
  | Int32, RInt z => Ok (put32 (Z.to_N ((z + 2147483648) mod 4294967296)))
  | Int32, RStr _ => Err
  | Str _, RNull => write_ref prof long None
  | Str _, RInt _ => Err
  | Str _, RStr r => write_ref prof long (Some r)
  end.

(* read_rows: column-major; num_rows = len / row_size; trailing bytes ignored *)
Fixpoint read_column (t : coltype) (long : bool) (n : nat) (b : bytes) : res (list vref * bytes) :=
  match n with
  | O => Ok ([], b)
  | S n' => '(v, r) <- read_cell t long b ;; '(vs, r') <- read_column t long n' r ;; Ok (v :: vs, r')
  end.
Fixpoint read_columns (cols : list column) (long : bool) (n : nat) (b : bytes) : res (list (list vref)) :=
  match cols with
  | [] => Ok []
  | c :: cs => '(col, r) <- read_column (c_type c) long n b ;; rest <- read_columns cs long n r ;; Ok (col :: rest)
  end.
(* transpose a list of equally long columns into rows *)
Fixpoint transpose (n : nat) (cols : list (list vref)) : list (list vref) :=
  match n with
  | O => []
  | S n' => map (fun c => match c with v :: _ => v | [] => RNull end) cols
            :: transpose n' (map (fun c => match c with _ :: r => r | [] => [] end) cols)
  end.

Definition read_rows (t : table) (b : bytes) : res (list (list vref)) :=
  let rs := row_size t in
  let n := if 0 <? rs then nlen b / rs else 0 in
  if MAX_ROWS_READ <? n then Err
  else cols <- read_columns (t_cols t) (t_long t) (N.to_nat n) b ;; Ok (transpose (N.to_nat n) cols).

(* write_rows: `row[index]` panics on a short row *)
Fixpoint write_column (prof : profile) (t : coltype) (long : bool) (idx : nat) (rows : list (list vref)) : res bytes :=
  match rows with
  | [] => Ok []
  | r :: rs =>
      v <- unwrap (nth_opt r idx) ;;
      b <- write_cell prof t long v ;;
      bs <- write_column prof t long idx rs ;;
      Ok (b ++ bs)
  end.
Fixpoint write_columns (prof : profile) (cols : list column) (long : bool) (idx : nat) (rows : list (list vref)) : res bytes :=
  match cols with
  | [] => Ok []
  | c :: cs =>
      b <- write_column prof (c_type c) long idx rows ;;
      bs <- write_columns prof cs long (S idx) rows ;;
      Ok (b ++ bs)
  end.
Definition write_rows (prof : profile) (t : table) (rows : list (list vref)) : res bytes :=
  write_columns prof (t_cols t) (t_long t) 0 rows.

Definition stream_name_of (t : table) : str := sn_encode (t_name t) true.
Definition is_valid_tname (s : str) : bool := identifier_ok s && sn_is_valid s true.

Fixpoint index_of_col (cols : list column) (name : str) (i : nat) : option nat :=
  match cols with
  | [] => None
  | c :: r => if str_eqb (c_name c) name then Some i else index_of_col r name (S i)
  end.
Definition col_index (t : table) (name : str) : option nat := index_of_col (t_cols t) name 0.
Definition has_col (t : table) (name : str) : bool :=
  match col_index t name with Some _ => true | None => false end.
Fixpoint pk_indices_from (cols : list column) (i : nat) : list nat :=
  match cols with
  | [] => []
  | c :: r => if c_pk c then i :: pk_indices_from r (S i) else pk_indices_from r (S i)
  end.
Definition pk_indices (t : table) : list nat := pk_indices_from (t_cols t) 0.

(* ValueRef::to_value / create / remove *)
Definition to_value (prof : profile) (p : pool) (v : vref) : res value :=
  match v with
  | RNull => Ok VNull
  | RInt z => Ok (VInt z)
  | RStr r => s <- pool_get prof p r ;; Ok (VStr s)
  end.
(* the format has one representation for null and the empty string: the null reference *)
Definition vref_create (prof : profile) (p : pool) (v : value) : res (pool * vref) :=
  match v with
  | VNull => Ok (p, RNull)
  | VInt z => Ok (p, RInt z)
  | VStr [] => Ok (p, RNull)
  | VStr s => '(p', r) <- pool_incref prof p s ;; Ok (p', RStr r)
  end.
Definition vref_remove (prof : profile) (p : pool) (v : vref) : res pool :=
  match v with
  | RStr r => pool_decref prof p r
  | _ => Ok p
  end.
Fixpoint row_to_values (prof : profile) (p : pool) (r : list vref) : res (list value) :=
  match r with
  | [] => Ok []
  | v :: t => x <- to_value prof p v ;; xs <- row_to_values prof p t ;; Ok (x :: xs)
  end.
