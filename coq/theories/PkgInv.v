(* PkgInv.v -- the invariant of the package state machine and the observation it preserves across save / reopen
   (C01, C03, C04, C05, C06, C08 at package level).  Definitions only. *)
From Coq Require Import Sorting.Sorted Permutation.
From MsiModel Require Import Base Sexp Value Expr Category Column CodePage Pool Table Container StreamName
  Propset Summary Query Package PoolProofs TableProofs QueryProofs DbInv CatalogProofs PropsetCodecProofs PackageProofs.
From MsiGen Require Import GenConsts GenCatalog GenStreamName.
Open Scope N_scope.

Definition the_db (k : pkg) : db := mkdb (k_cont k) (k_pool k) (k_tabs k).

(* the tables that the catalog describes: everything except _Tables and _Columns themselves *)
Definition is_core (n : str) : bool := str_eqb n TABLES_TABLE_NAME || str_eqb n COLUMNS_TABLE_NAME.
Definition user_tabs (k : pkg) : tables := filter (fun e => negb (is_core (fst e))) (k_tabs k).

Definition pool_stream : str := sn_encode STRING_POOL_TABLE_NAME true.
Definition data_stream : str := sn_encode STRING_DATA_TABLE_NAME true.

(* the table map: BTreeMap order, the three catalog tables with their fixed schemas, user tables that create_table
   would accept (so that their schema survives the catalog, C06) *)
Definition tabs_wf (k : pkg) : Prop :=
  let long := p_long (k_pool k) in
  StronglySorted (fun a b => str_cmp (fst a) (fst b) = Lt) (k_tabs k) /\
  find_table (k_tabs k) TABLES_TABLE_NAME = Some (tables_table long) /\
  find_table (k_tabs k) COLUMNS_TABLE_NAME = Some (columns_table long) /\
  find_table (k_tabs k) VALIDATION_TABLE_NAME = Some (validation_table long) /\
  Forall (fun e => is_valid_tname (fst e) = true /\
                   ~ In (fst e) CREATE_TABLE_EXTRA_RESERVED /\
                   snd e = mktable (fst e) (t_cols (snd e)) long) (k_tabs k) /\
  Forall (fun e => t_cols (snd e) <> [] /\ nlen (t_cols (snd e)) <= MAX_NUM_TABLE_COLUMNS /\
                   first_dup_or_bad (t_cols (snd e)) [] = true /\
                   rows_fit (Some (validation_table long)) (validation_rows (fst e) (t_cols (snd e))) = Ok true /\
                   rows_fit (Some (columns_table long)) (columns_rows (fst e) (t_cols (snd e))) = Ok true)
         (user_tabs k).

(* the catalog tables hold exactly the rows that describe the user tables *)
Definition catalog_ok (prof : profile) (k : pkg) : Prop :=
  let d := the_db k in
  let long := p_long (k_pool k) in
  exists (trows crows vrows : list (list value)),
    tvals prof d (tables_table long) = Ok trows /\
    Permutation trows (map (fun e => [VStr (fst e)]) (user_tabs k)) /\
    tvals prof d (columns_table long) = Ok crows /\
    Permutation crows (List.concat (map (fun e => stored (columns_rows (fst e) (t_cols (snd e)))) (user_tabs k))) /\
    tvals prof d (validation_table long) = Ok vrows /\
    Permutation vrows (List.concat (map (fun e => stored (validation_rows (fst e) (t_cols (snd e)))) (user_tabs k))).

(* every table holds unique, ascending keys and valid cells (C05) *)
Definition tables_sorted_valid (prof : profile) (k : pkg) : Prop :=
  Forall (fun e => exists vals, tvals prof (the_db k) (snd e) = Ok vals /\
                     sorted_by_key (snd e) vals /\ rows_valid (snd e) vals) (k_tabs k).

(* what is on the medium agrees with what is in memory unless the corresponding flag says otherwise *)
Definition disk_ok (k : pkg) : Prop :=
  ct_clsid (k_cont k) = ptype_clsid (k_type k) /\
  (p_mod (k_pool k) = false ->
     ct_find (ct_entries (k_cont k)) pool_stream = write_pool (k_pool k) /\
     ct_find (ct_entries (k_cont k)) data_stream = write_data (k_pool k) /\
     write_pool (k_pool k) <> None) /\
  (k_sum_mod k = false ->
     ct_find (ct_entries (k_cont k)) SUMMARY_INFO_STREAM_NAME = ps_write (k_sum k) /\ ps_write (k_sum k) <> None).

Definition PInv (prof : profile) (k : pkg) : Prop :=
  Inv (the_db k) /\
  p_cp (k_pool k) = cp_utf8 /\
  ps_ok (k_sum k) /\ ps_fmtid (k_sum k) = FMTID /\
  tabs_wf k /\ catalog_ok prof k /\ tables_sorted_valid prof k /\ disk_ok k /\ flags_ok k.

(* ---- observation: everything the public read API shows ------------------------------------------------------- *)
Definition same_obs (prof : profile) (k k' : pkg) : Prop :=
  k_type k' = k_type k /\
  p_cp (k_pool k') = p_cp (k_pool k) /\
  k_sum k' = k_sum k /\
  k_tabs k' = k_tabs k /\
  (forall e, In e (k_tabs k) -> tvals prof (the_db k') (snd e) = tvals prof (the_db k) (snd e)) /\
  (forall n, sn_is_valid n false = true ->
     ct_find (ct_entries (k_cont k')) (sn_encode n false) = ct_find (ct_entries (k_cont k)) (sn_encode n false)) /\
  pkg_streams k' = pkg_streams k.
