(* PropsetCodecProofs.v -- the OLE property-set codec of Propset.v:
   value round trip, layout of the written bytes, whole-set round trip. *)
From Coq Require Import ZifyBool ZifyNat ZifyN Lia.
From MsiModel Require Import Base CodePage Timestamp Language Category Propset Summary.
From MsiModel Require Import CodePageProofs CategoryProofs.
From MsiGen Require Import GenConsts.
Open Scope N_scope.
Ltac Zify.zify_post_hook ::= Z.div_mod_to_equations.

(* ---- goal vocabulary (verbatim from the goal file) -------------------------------------- *)
Definition val_ok (v : propval) : Prop :=
  match v with
  | PEmpty | PNull => True
  | PI1 z => (-128 <= z < 128)%Z
  | PI2 z => (-32768 <= z < 32768)%Z
  | PI4 z => (-2147483648 <= z < 2147483648)%Z
  | PStr s => forallb is_scalar s = true /\ utf8_len s + 1 < 4294967296
  | PTime t => t < 18446744073709551616
  end.
Fixpoint ids_ascending (l : list (N * propval)) : Prop :=
  match l with
  | [] => True
  | (k, _) :: r => k < 4294967296 /\ match r with [] => True | (k', _) :: _ => k < k' end /\ ids_ascending r
  end.
Definition sizes_ok (ps : propset) : Prop :=
  forall enc, omap (fun p => write_value (ps_cp ps) (snd p)) (ps_props ps) = Some enc ->
    8 + 8 * nlen (ps_props ps) + nlen (concat enc) < 4294967296.
(* the cached code page agrees with property 1 (absent = UTF-8) *)
Definition cp_consistent (ps : propset) : Prop :=
  match ps_lookup PROPERTY_CODEPAGE (ps_props ps) with
  | Some (PI2 id) => cp_from_id (id mod 65536)%Z = Some (ps_cp ps)
  | Some _ => False
  | None => ps_cp ps = cp_utf8
  end.
Definition ps_ok (ps : propset) : Prop :=
  ps_cp ps = cp_utf8 /\ cp_consistent ps /\ ids_ascending (ps_props ps) /\ Forall (fun p => val_ok (snd p)) (ps_props ps) /\
  sizes_ok ps /\ ps_os ps <= 2 /\ ps_os_version ps < 65536 /\
  length (ps_clsid ps) = 16%nat /\ length (ps_fmtid ps) = 16%nat.

(* ---- little-endian codecs ------------------------------------------------------------------ *)
Arguments N.add : simpl never.
Arguments N.mul : simpl never.
Arguments N.div : simpl never.
Arguments N.modulo : simpl never.
Arguments N.sub : simpl never.

Lemma get16_put16 n r : n < 65536 -> get16 (put16 n ++ r) = Some (n, r).
Proof. intros H. unfold put16, get16. cbn [app]. f_equal. f_equal. lia. Qed.

Lemma get32_put32 n r : n < 4294967296 -> get32 (put32 n ++ r) = Some (n, r).
Proof.
  intros H. unfold put32, get32. cbn [app]. f_equal. f_equal.
  change 65536 with (256 * 256). change 16777216 with (256 * 256 * 256).
  rewrite <- !N.div_div by lia. lia.
Qed.

Lemma get64_put64 n r : n < 18446744073709551616 -> get64 (put64 n ++ r) = Some (n, r).
Proof.
  intros H. unfold put64, get64. rewrite <- app_assoc.
  rewrite get32_put32 by lia. rewrite get32_put32 by lia. f_equal. f_equal. lia.
Qed.

Lemma nlen_put16 n : nlen (put16 n) = 2.  Proof. reflexivity. Qed.
Lemma nlen_put32 n : nlen (put32 n) = 4.  Proof. reflexivity. Qed.
Lemma nlen_put64 n : nlen (put64 n) = 8.  Proof. reflexivity. Qed.
Lemma nlen_cons {A} (a : A) l : nlen (a :: l) = 1 + nlen l.
Proof. unfold nlen. cbn [length]. lia. Qed.
Lemma nlen_nil {A} : nlen (@nil A) = 0.  Proof. reflexivity. Qed.
Lemma to_nat_nlen {A} (l : list A) : N.to_nat (nlen l) = length l.
Proof. unfold nlen. apply Nat2N.id. Qed.

Lemma take_bytes_app b r : take_bytes (length b) (b ++ r) = Some (b, r).
Proof. induction b as [|x b IH]; cbn [length take_bytes app]; [reflexivity|]. rewrite IH. reflexivity. Qed.

Lemma skipn_app_exact {A} (a b : list A) : skipn (length a) (a ++ b) = b.
Proof. induction a as [|x a IH]; cbn [length skipn app]; auto. Qed.

Lemma seek_exact a r off : nlen a = off -> seek (a ++ r) off = r.
Proof. intros <-. unfold seek. rewrite skipn_N_eq, to_nat_nlen. apply skipn_app_exact. Qed.

Lemma nlen_zeros n : nlen (zeros n) = n.
Proof. unfold zeros, nlen. rewrite repeat_length. apply N2Nat.id. Qed.

Arguments put16 : simpl never.
Arguments put32 : simpl never.
Arguments put64 : simpl never.
Arguments get16 : simpl never.
Arguments get32 : simpl never.
Arguments get64 : simpl never.
Arguments take_bytes : simpl never.

Lemma some_inj {A} (a b : A) : Some a = Some b -> a = b.
Proof. congruence. Qed.

(* ---- one value ---------------------------------------------------------------------------- *)
Lemma cp_encode_utf8 s : cp_encode cp_utf8 s = Some (utf8_enc s).
Proof. reflexivity. Qed.
Lemma cp_decode_utf8 b : cp_decode cp_utf8 b = Some (utf8_decode b).
Proof. unfold cp_decode. rewrite cp_no_bom_sniffing. reflexivity. Qed.

(* every encoded value is a whole number of 32-bit words, whatever the code page *)
Lemma write_value_aligned cp v b : write_value cp v = Some b -> nlen b mod 4 = 0.
Proof.
  intros Hw. destruct v; cbn [write_value] in Hw.
  1-5, 7: apply some_inj in Hw; subst b; reflexivity.
  destruct (cp_encode cp s) as [e|]; [|discriminate]. apply some_inj in Hw; subst b.
  rewrite !nlen_app, !nlen_put32, nlen_zeros, nlen_cons, nlen_nil. unfold pad4. lia.
Qed.

Theorem value_roundtrip : forall v b rest,
  val_ok v -> write_value cp_utf8 v = Some b -> read_value cp_utf8 (b ++ rest) = Ok v /\ nlen b mod 4 = 0.
Proof.
  intros v b rest Hv Hw. split; [|eapply write_value_aligned; eassumption].
  destruct v; cbn [write_value val_ok] in *.
  - apply some_inj in Hw; subst b. unfold read_value. rewrite get32_put32 by lia. reflexivity.
  - apply some_inj in Hw; subst b. unfold read_value. rewrite get32_put32 by lia. reflexivity.
  - apply some_inj in Hw; subst b. unfold read_value. rewrite <- app_assoc, get32_put32 by lia.
    cbn [N.eqb Pos.eqb app get8]. f_equal. f_equal.
    destruct (Z.to_N (z mod 256) <? 128) eqn:E; lia.
  - apply some_inj in Hw; subst b. unfold read_value. rewrite <- !app_assoc, get32_put32 by lia.
    cbn [N.eqb Pos.eqb]. rewrite get16_put16 by lia. f_equal. f_equal.
    unfold of_u16, wrap16. lia.
  - apply some_inj in Hw; subst b. unfold read_value. rewrite <- !app_assoc, get32_put32 by lia.
    cbn [N.eqb Pos.eqb]. rewrite get32_put32 by lia. f_equal. f_equal.
    unfold of_u32, wrap32. lia.
  - rewrite cp_encode_utf8 in Hw. apply some_inj in Hw; subst b. destruct Hv as [Hs Hl].
    unfold read_value. rewrite <- !app_assoc, get32_put32 by lia.
    cbn [N.eqb Pos.eqb]. rewrite utf8_len_enc.
    rewrite N.mod_small by lia. rewrite get32_put32 by lia.
    replace (utf8_len s + 1 =? 0) with false by lia.
    replace (utf8_len s + 1 - 1) with (nlen (utf8_enc s)) by (rewrite utf8_len_enc; lia).
    rewrite take_bytes_N_eq, to_nat_nlen, take_bytes_app. cbn [app get8].
    rewrite cp_decode_utf8, utf8_roundtrip by exact Hs. reflexivity.
  - apply some_inj in Hw; subst b. unfold read_value. rewrite <- !app_assoc, get32_put32 by lia.
    cbn [N.eqb Pos.eqb]. rewrite get64_put64 by lia. reflexivity.
Qed.

(* ---- layout of the written section ---------------------------------------------------------- *)
Lemma omap_cons_inv {A B} (f : A -> option B) a r enc :
  omap f (a :: r) = Some enc -> exists e es, enc = e :: es /\ f a = Some e /\ omap f r = Some es.
Proof.
  cbn [omap]. destruct (f a) as [e|]; [|discriminate]. destruct (omap f r) as [es|]; [|discriminate].
  intros H. apply some_inj in H. subst enc. eauto.
Qed.
Lemma omap_length {A B} (f : A -> option B) l enc : omap f l = Some enc -> length enc = length l.
Proof.
  revert enc. induction l as [|a r IH]; intros enc H.
  - apply some_inj in H. subst enc. reflexivity.
  - apply omap_cons_inv in H as (e & es & -> & _ & Hr). cbn [length]. f_equal. auto.
Qed.

Lemma omap_aligned cp (props : list (N * propval)) enc :
  omap (fun p => write_value cp (snd p)) props = Some enc -> Forall (fun e => nlen e mod 4 = 0) enc.
Proof.
  revert enc. induction props as [|a r IH]; intros enc H.
  - apply some_inj in H. subst enc. constructor.
  - apply omap_cons_inv in H as (e & es & -> & He & Hr). constructor; [|auto].
    eapply write_value_aligned; eassumption.
Qed.

Lemma offsets_aligned (enc : list bytes) : forall start, start mod 4 = 0 -> Forall (fun e => nlen e mod 4 = 0) enc ->
  Forall (fun o => o mod 4 = 0) (offsets_from start (map nlen enc)).
Proof.
  induction enc as [|e es IH]; intros start Hs Ha; cbn [map offsets_from]; constructor; [exact Hs|].
  inversion Ha; subst. apply IH; [lia|assumption].
Qed.

Lemma fold_sizes (enc : list bytes) : forall start, fold_left N.add (map nlen enc) start = start + nlen (concat enc).
Proof.
  induction enc as [|e es IH]; intros start; cbn [map fold_left concat].
  - rewrite nlen_nil. lia.
  - rewrite IH, nlen_app. lia.
Qed.

Lemma firstn_app_exact {A} (a b : list A) : firstn (length a) (a ++ b) = a.
Proof. induction a as [|x a IH]; cbn [length firstn app]; [reflexivity|]. rewrite IH. reflexivity. Qed.
Lemma skipn_app_add {A} (a b : list A) n : skipn (length a + n) (a ++ b) = skipn n b.
Proof. induction a as [|x a IH]; cbn [length skipn app Nat.add]; auto. Qed.

Lemma offsets_nth (enc : list bytes) : forall start i o e,
  nth_error (offsets_from start (map nlen enc)) i = Some o -> nth_error enc i = Some e ->
  start <= o /\ firstn (length e) (skipn (N.to_nat (o - start)) (concat enc)) = e.
Proof.
  induction enc as [|e0 es IH]; intros start i o e Ho He.
  - destruct i; discriminate.
  - destruct i as [|i]; cbn [map offsets_from nth_error concat] in *.
    + apply some_inj in Ho. apply some_inj in He. subst. split; [lia|].
      replace (N.to_nat (o - o)) with 0%nat by lia. cbn [skipn]. apply firstn_app_exact.
    + destruct (IH _ _ _ _ Ho He) as [Hle Hf]. split; [lia|].
      replace (N.to_nat (o - start)) with (length e0 + N.to_nat (o - (start + nlen e0)))%nat
        by (unfold nlen in *; lia).
      rewrite skipn_app_add. exact Hf.
Qed.

Theorem ps_layout : forall ps enc,
  PROPSET_OFFSETS_FROM_ENCODED = true ->
  omap (fun p => write_value (ps_cp ps) (snd p)) (ps_props ps) = Some enc ->
  let start := 8 + 8 * nlen (ps_props ps) in
  let offs := offsets_from start (map nlen enc) in
  Forall (fun o => o mod 4 = 0) offs /\
  fold_left N.add (map nlen enc) start = start + nlen (concat enc) /\
  forall i o e, nth_error offs i = Some o -> nth_error enc i = Some e ->
    firstn (length e) (skipn (N.to_nat (o - start)) (concat enc)) = e.
Proof.
  intros ps enc _ Henc start offs. split; [|split].
  - apply offsets_aligned; [subst start; lia|]. eapply omap_aligned; eassumption.
  - apply fold_sizes.
  - intros i o e Ho He. eapply offsets_nth; eassumption.
Qed.

(* ---- whole property set --------------------------------------------------------------------- *)
Notation po_t := ((N * propval) * N)%type.   (* a property paired with its offset *)
Definition tbl (l : list po_t) : bytes :=
  flat_map (fun po : po_t => put32 (fst (fst po)) ++ put32 (snd po mod 4294967296)) l.
Definition pairs (l : list po_t) : list (N * N) := map (fun po : po_t => (fst (fst po), snd po)) l.

Lemma nlen_tbl l : nlen (tbl l) = 8 * nlen l.
Proof.
  induction l as [|po l IH]; [reflexivity|]. unfold tbl in *. cbn [flat_map].
  rewrite !nlen_app, !nlen_put32, IH, nlen_cons. lia.
Qed.

Lemma asc_tail k v r : ids_ascending ((k, v) :: r) -> ids_ascending r.
Proof. intros (_ & _ & H). exact H. Qed.
Lemma asc_lb r : forall k v, ids_ascending ((k, v) :: r) -> Forall (fun p => k < fst p) r.
Proof.
  induction r as [|[k' v'] r IH]; intros k v H; constructor.
  - destruct H as (_ & H & _). exact H.
  - destruct H as (_ & Hlt & H). specialize (IH _ _ H).
    eapply Forall_impl; [|exact IH]. cbn beta. intros p Hp. cbn [fst] in *. lia.
Qed.

Lemma existsb_lt name (acc : list (N * N)) :
  Forall (fun p => fst p < name) acc -> existsb (fun p => fst p =? name) acc = false.
Proof.
  induction 1 as [|p acc Hp _ IH]; [reflexivity|]. cbn [existsb]. rewrite IH.
  replace (fst p =? name) with false by lia. reflexivity.
Qed.

Lemma read_offsets_ok : forall (l : list po_t) acc rest,
  ids_ascending (map fst l) ->
  Forall (fun po : po_t => snd po < 4294967296) l ->
  (forall p q, In p acc -> In q l -> fst p < fst (fst q)) ->
  read_offsets (length l) (tbl l ++ rest) acc = Ok (acc ++ pairs l).
Proof.
  induction l as [|[[k v] o] l IH]; intros acc rest Ha Ho Hacc.
  - cbn [length read_offsets pairs map]. rewrite app_nil_r. reflexivity.
  - cbn [map fst] in Ha. inversion Ho as [|? ? Ho1 Ho2]; subst. cbn [snd] in Ho1.
    cbn [length read_offsets]. unfold tbl. cbn [flat_map fst snd]. fold (tbl l).
    rewrite <- !app_assoc. rewrite get32_put32 by (destruct Ha; lia).
    rewrite N.mod_small by lia. rewrite get32_put32 by lia.
    rewrite existsb_lt.
    2:{ apply Forall_forall. intros p Hp. apply (Hacc p ((k, v), o)); [exact Hp|left; reflexivity]. }
    rewrite IH.
    + cbn [pairs map fst snd]. rewrite <- app_assoc. reflexivity.
    + eapply asc_tail; exact Ha.
    + exact Ho2.
    + intros p q Hp Hq. apply in_app_or in Hp as [Hp|Hp].
      * apply Hacc; [exact Hp|right; exact Hq].
      * destruct Hp as [<-|[]]. cbn [fst].
        pose proof (asc_lb _ _ _ Ha) as Hlb. rewrite Forall_forall in Hlb.
        apply (Hlb (fst q)). apply in_map. exact Hq.
Qed.

(* sort_offsets is insertion sort; an ascending table is a fixed point *)
Fixpoint ins_off (x : N * N) (s : list (N * N)) : list (N * N) :=
  match s with
  | [] => [x]
  | y :: t => if fst x <? fst y then x :: s else y :: ins_off x t
  end.
Lemma sort_offsets_cons x r : sort_offsets (x :: r) = ins_off x (sort_offsets r).
Proof. destruct x. reflexivity. Qed.
Lemma sort_pairs : forall l : list po_t, ids_ascending (map fst l) -> sort_offsets (pairs l) = pairs l.
Proof.
  induction l as [|[[k v] o] l IH]; intros Ha; [reflexivity|].
  cbn [pairs map fst snd]. fold (pairs l). rewrite sort_offsets_cons.
  cbn [map fst] in Ha. rewrite IH by (eapply asc_tail; exact Ha).
  destruct l as [|[[k' v'] o'] l]; [reflexivity|].
  cbn [pairs map fst snd ins_off]. destruct Ha as (_ & Hlt & _). cbn [map fst] in Hlt.
  replace (k <? k') with true by lia. reflexivity.
Qed.

(* every offset points at the value written for its property *)
Lemma vals_at : forall (props : list (N * propval)) enc pre start,
  omap (fun p => write_value cp_utf8 (snd p)) props = Some enc ->
  Forall (fun p => val_ok (snd p)) props ->
  nlen pre = 48 + start ->
  Forall (fun po : po_t => read_value cp_utf8 (seek (pre ++ concat enc) (48 + snd po)) = Ok (snd (fst po)))
         (combine props (offsets_from start (map nlen enc))).
Proof.
  induction props as [|[k v] r IH]; intros enc pre start He Hv Hpre.
  - constructor.
  - apply omap_cons_inv in He as (e & es & -> & He & Hr). cbn [snd] in He.
    inversion Hv as [|? ? Hv1 Hv2]; subst. cbn [snd] in Hv1.
    cbn [map offsets_from combine concat]. constructor.
    + cbn [fst snd]. rewrite seek_exact by exact Hpre.
      apply (value_roundtrip v e (concat es) Hv1 He).
    + specialize (IH es (pre ++ e) (start + nlen e) Hr Hv2).
      rewrite <- app_assoc in IH. apply IH. rewrite nlen_app. lia.
Qed.

Lemma offsets_bound (enc : list bytes) : forall start bound, start + nlen (concat enc) < bound ->
  Forall (fun o => o < bound) (offsets_from start (map nlen enc)).
Proof.
  induction enc as [|e es IH]; intros start bound H; cbn [map offsets_from concat] in *; constructor.
  - lia.
  - apply IH. rewrite nlen_app in H. lia.
Qed.

Lemma offsets_length sizes : forall start, length (offsets_from start sizes) = length sizes.
Proof. induction sizes as [|s r IH]; intros start; cbn [offsets_from length]; auto. Qed.

Lemma map_fst_combine {A B} (a : list A) : forall b : list B, length b = length a -> map fst (combine a b) = a.
Proof.
  induction a as [|x a IH]; intros [|y b] H; try discriminate; [reflexivity|].
  cbn [combine map fst]. f_equal. apply IH. injection H as H. exact H.
Qed.
Lemma Forall_snd_combine {A B} (P : B -> Prop) (a : list A) : forall b : list B,
  Forall P b -> Forall (fun ab : A * B => P (snd ab)) (combine a b).
Proof.
  induction a as [|x a IH]; intros [|y b] H; cbn [combine]; try constructor.
  - inversion H; subst. assumption.
  - inversion H; subst. apply IH. assumption.
Qed.

Section Read.
  Variable b : bytes.
  Let P (po : po_t) : Prop := read_value cp_utf8 (seek b (48 + snd po)) = Ok (snd (fst po)).

  Lemma lookup_pairs k : forall l : list po_t, Forall P l ->
    match lookup_off k (pairs l) with
    | Some off => exists v, ps_lookup k (map fst l) = Some v /\ read_value cp_utf8 (seek b (48 + off)) = Ok v
    | None => ps_lookup k (map fst l) = None
    end.
  Proof.
    induction l as [|[[k' v] o] l IH]; intros H; [reflexivity|].
    inversion H as [|? ? H1 H2]; subst. cbn [pairs map fst snd lookup_off ps_lookup]. fold (pairs l).
    destruct (k =? k').
    - exists v. split; [reflexivity|]. exact H1.
    - apply IH. exact H2.
  Qed.

  Lemma read_values_ok version : forall l : list po_t, Forall P l ->
    Forall (fun po : po_t => min_version (snd (fst po)) <= version) l ->
    read_values cp_utf8 version b 48 (pairs l) = Ok (map fst l).
  Proof.
    induction l as [|[[k v] o] l IH]; intros H Hm; [reflexivity|].
    inversion H as [|? ? H1 H2]; subst. inversion Hm as [|? ? Hm1 Hm2]; subst.
    cbn [pairs map fst snd read_values]. fold (pairs l). unfold P in H1. cbn [fst snd] in H1, Hm1.
    rewrite H1. cbn [rbind]. replace (version <? min_version v) with false by lia.
    rewrite IH by assumption. reflexivity.
  Qed.
End Read.

Definition max_version (props : list (N * propval)) : N :=
  fold_right (fun p m => N.max (min_version (snd p)) m) 0 props.
Lemma max_version_le1 props : max_version props <= 1.
Proof.
  induction props as [|[k v] r IH]; cbn [max_version fold_right]; [lia|].
  fold (max_version r). cbn [snd]. destruct v; cbn [min_version]; lia.
Qed.
Lemma max_version_ge props : Forall (fun p => min_version (snd p) <= max_version props) props.
Proof.
  induction props as [|[k v] r IH]; constructor; cbn [max_version fold_right snd]; fold (max_version r).
  - lia.
  - eapply Forall_impl; [|exact IH]. cbn beta. intros p Hp. lia.
Qed.

Lemma omap_write_utf8 (props : list (N * propval)) :
  exists enc, omap (fun p => write_value cp_utf8 (snd p)) props = Some enc.
Proof.
  induction props as [|[k v] r [es IH]]; [eexists; reflexivity|].
  cbn [omap snd]. rewrite IH.
  destruct v; cbn [write_value]; try rewrite cp_encode_utf8; eexists; reflexivity.
Qed.

Lemma take_bytes_len n a r : length a = n -> take_bytes n (a ++ r) = Some (a, r).
Proof. intros <-. apply take_bytes_app. Qed.

(* ps_read on a well-formed 48-byte header followed by a section *)
Lemma ps_read_shape b version osv os clsid fmtid secsize n body :
  b = put16 BYTE_ORDER_MARK ++ put16 version ++ put16 osv ++ put16 os ++ clsid ++ put32 1 ++
      fmtid ++ put32 48 ++ put32 secsize ++ put32 n ++ body ->
  version <= 1 -> osv < 65536 -> os <= 2 -> length clsid = 16%nat -> length fmtid = 16%nat ->
  secsize < 4294967296 -> n < 4294967296 ->
  ps_read b =
    (offs <- (if nlen body / 8 <? n then Err else read_offsets (N.to_nat n) body []) ;;
     cp <- match lookup_off PROPERTY_CODEPAGE offs with
           | Some off =>
               v <- read_value cp_utf8 (seek b (48 + off)) ;;
               match v with
               | PI2 id => match cp_from_id (id mod 65536)%Z with Some c => Ok c | None => Err end
               | _ => Err
               end
           | None => Ok cp_utf8
           end ;;
     vals <- read_values cp version b 48 (sort_offsets offs) ;;
     Ok (mkps os osv clsid fmtid cp vals)).
Proof.
  intros Hb Hv Hosv Hos Hc Hf Hsz Hn.
  assert (Hs : seek b 48 = put32 secsize ++ put32 n ++ body).
  { subst b.
    replace (put16 BYTE_ORDER_MARK ++ put16 version ++ put16 osv ++ put16 os ++ clsid ++ put32 1 ++
             fmtid ++ put32 48 ++ put32 secsize ++ put32 n ++ body)
      with ((put16 BYTE_ORDER_MARK ++ put16 version ++ put16 osv ++ put16 os ++ clsid ++ put32 1 ++
             fmtid ++ put32 48) ++ put32 secsize ++ put32 n ++ body)
      by (rewrite <- !app_assoc; reflexivity).
    apply seek_exact. rewrite !nlen_app, !nlen_put16, !nlen_put32. unfold nlen. rewrite Hc, Hf. reflexivity. }
  assert (H1 : get16 b = Some (BYTE_ORDER_MARK, put16 version ++ put16 osv ++ put16 os ++ clsid ++ put32 1 ++
      fmtid ++ put32 48 ++ put32 secsize ++ put32 n ++ body))
    by (subst b; apply get16_put16; reflexivity).
  unfold ps_read. rewrite H1. cbv beta iota. rewrite N.eqb_refl. cbn [negb].
  rewrite get16_put16 by lia. replace (1 <? version) with false by lia.
  rewrite get16_put16 by lia. rewrite get16_put16 by lia. replace (2 <? os) with false by lia.
  rewrite (take_bytes_len 16 clsid) by exact Hc. rewrite get32_put32 by lia.
  replace (1 <? 1) with false by reflexivity.
  rewrite (take_bytes_len 16 fmtid) by exact Hf. rewrite get32_put32 by lia.
  cbv beta iota zeta. rewrite Hs. rewrite get32_put32 by lia. rewrite get32_put32 by lia.
  reflexivity.
Qed.

Theorem ps_roundtrip : forall ps, ps_ok ps -> exists b, ps_write ps = Some b /\ ps_read b = Ok ps.
Proof.
  intros [os osv clsid fmtid cp props].
  unfold ps_ok, cp_consistent, sizes_ok. cbn [ps_cp ps_props ps_os ps_os_version ps_clsid ps_fmtid].
  intros (-> & Hcons & Hasc & Hvals & Hsz & Hos & Hosv & Hc & Hf).
  destruct (omap_write_utf8 props) as [enc Henc]. specialize (Hsz enc Henc).
  unfold ps_write. cbn [ps_cp ps_props ps_os ps_os_version ps_clsid ps_fmtid]. rewrite Henc.
  change PROPSET_OFFSETS_FROM_ENCODED with true. cbv beta iota zeta.
  fold (max_version props).
  set (start := 8 + 8 * nlen props).
  set (offs := offsets_from start (map nlen enc)).
  set (l := combine props offs).
  change (flat_map (fun po : N * propval * N => put32 (fst (fst po)) ++ put32 (snd po mod 4294967296)) l) with (tbl l).
  eexists. split; [reflexivity|].
  pose proof (omap_length _ _ _ Henc) as Hlen.
  assert (Hlo : length offs = length props)
    by (subst offs; rewrite offsets_length, map_length; exact Hlen).
  assert (Hfst : map fst l = props) by (apply map_fst_combine; exact Hlo).
  assert (Hll : length l = length props) by (rewrite <- (map_length fst l), Hfst; reflexivity).
  assert (Hnl : nlen l = nlen props) by (unfold nlen; rewrite Hll; reflexivity).
  erewrite ps_read_shape; [|reflexivity|apply max_version_le1|exact Hosv|exact Hos|exact Hc|exact Hf| |].
  2:{ apply N.mod_lt. lia. }
  2:{ lia. }
  (* the offsets table *)
  assert (Hdiv : nlen (tbl l ++ concat enc) / 8 <? nlen props = false).
  { rewrite nlen_app, nlen_tbl, Hnl. lia. }
  rewrite Hdiv.
  rewrite to_nat_nlen, <- Hll.
  rewrite read_offsets_ok.
  2:{ rewrite Hfst. exact Hasc. }
  2:{ subst l. apply (Forall_snd_combine (fun o => o < 4294967296)). subst offs. apply offsets_bound. subst start. lia. }
  2:{ intros p q []. }
  cbn [app rbind].
  (* every offset points at its value *)
  match goal with |- context [read_values _ _ ?bb _ _] => set (b := bb) end.
  assert (HP : Forall (fun po : po_t => read_value cp_utf8 (seek b (48 + snd po)) = Ok (snd (fst po))) l).
  { subst b l offs.
    replace (put16 BYTE_ORDER_MARK ++ put16 (max_version props) ++ put16 osv ++ put16 os ++ clsid ++ put32 1 ++
             fmtid ++ put32 48 ++ put32 (fold_left N.add (map nlen enc) start mod 4294967296) ++ put32 (nlen props) ++
             tbl (combine props (offsets_from start (map nlen enc))) ++ concat enc)
      with ((put16 BYTE_ORDER_MARK ++ put16 (max_version props) ++ put16 osv ++ put16 os ++ clsid ++ put32 1 ++
             fmtid ++ put32 48 ++ put32 (fold_left N.add (map nlen enc) start mod 4294967296) ++ put32 (nlen props) ++
             tbl (combine props (offsets_from start (map nlen enc)))) ++ concat enc)
      by (rewrite <- !app_assoc; reflexivity).
    apply vals_at; [exact Henc|exact Hvals|].
    rewrite !nlen_app, !nlen_put16, !nlen_put32, nlen_tbl.
    rewrite Hnl. unfold nlen at 1 2. rewrite Hc, Hf. subst start. lia. }
  assert (Hm : Forall (fun po : po_t => min_version (snd (fst po)) <= max_version props) l).
  { apply (Forall_map fst (fun p : N * propval => min_version (snd p) <= max_version props) l).
    rewrite Hfst. apply max_version_ge. }
  (* the code page property *)
  pose proof (lookup_pairs b PROPERTY_CODEPAGE l HP) as Hlk. rewrite Hfst in Hlk.
  destruct (lookup_off PROPERTY_CODEPAGE (pairs l)) as [off|].
  - destruct Hlk as (v & Hlk & Hrd). rewrite Hlk in Hcons. rewrite Hrd. cbn [rbind].
    destruct v; try contradiction. rewrite Hcons. cbn [rbind].
    rewrite sort_pairs by (rewrite Hfst; exact Hasc).
    rewrite (read_values_ok b) ; [|exact HP|].
    + cbn [rbind]. rewrite Hfst. reflexivity.
    + exact Hm.
  - cbn [rbind].
    rewrite sort_pairs by (rewrite Hfst; exact Hasc).
    rewrite (read_values_ok b) ; [|exact HP|].
    + cbn [rbind]. rewrite Hfst. reflexivity.
    + exact Hm.
Qed.
