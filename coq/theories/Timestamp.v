(* Timestamp.v -- model of src/internal/timestamp.rs.
   A SystemTime is modelled as a signed number of nanoseconds relative to the
   Unix epoch (what std stores on the supported platforms: i64 seconds plus a
   sub-second nanosecond count); a Windows timestamp as a u64 tick count. *)
From MsiModel Require Import Base.
From MsiGen Require Import GenConsts.
Open Scope Z_scope.

Definition U64MAX : Z := 18446744073709551615.
Definition I64MAX : Z := 9223372036854775807.
Definition EPOCH : Z := Z.of_N UNIX_EPOCH_TIMESTAMP.       (* generated from the source *)

Definition sat_add (a b : Z) : Z := Z.min (a + b) U64MAX.
Definition sat_sub (a b : Z) : Z := Z.max (a - b) 0.
Definition sat_mul (a b : Z) : Z := Z.min (a * b) U64MAX.

(* duration_to_timestamp_delta(Duration { secs, nanos }) *)
Definition duration_to_delta (secs nanos : Z) : Z :=
  sat_add (sat_mul secs 10000000) (nanos / 100).

(* timestamp_from_system_time: duration_since(UNIX_EPOCH) is Ok(d) when the
   time is not before the epoch, Err(e) with e.duration() = epoch - time
   otherwise. *)
Definition from_time (t : Z) : Z :=
  if 0 <=? t
  then sat_add EPOCH (duration_to_delta (t / 1000000000) (t mod 1000000000))
  else sat_sub EPOCH (duration_to_delta ((- t) / 1000000000) ((- t) mod 1000000000)).

(* timestamp_delta_to_duration, then UNIX_EPOCH.checked_add / checked_sub on a
   platform whose SystemTime holds i64 seconds; unwrap_or(UNIX_EPOCH). *)
Definition to_time (k : Z) : Z :=
  if EPOCH <=? k then
    let d := k - EPOCH in
    let secs := d / 10000000 in
    let nanos := (d mod 10000000) * 100 in
    if secs <=? I64MAX then secs * 1000000000 + nanos else 0
  else
    let d := EPOCH - k in
    let secs := d / 10000000 in
    let nanos := (d mod 10000000) * 100 in
    if secs <=? I64MAX + 1 then - (secs * 1000000000 + nanos) else 0.
