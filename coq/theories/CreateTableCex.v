(* CreateTableCex.v -- why create_table_ok (CreateTableProofs.v) differs from the goal statement G_create_table_ok:
   1. PInv2 does not exclude a table stream without a table ("orphan"); a table created later under that name
      starts with the rows of the orphan stream (create_table never touches the stream of the new table);
   2. the enumeration values of the column descriptions are not looked at by any check, so in the model (where a
      text is a list of numbers) a surrogate code point reaches the string pool and breaks pool_wf. *)
From Coq Require Import ZifyBool ZifyNat ZifyN Lia Sorting.Sorted Permutation.
From MsiModel Require Import Base Sexp Value Expr Category Column ColumnProofs CategoryProofs CodePage Pool Table Container
  StreamName StreamNameProofs Propset Summary Query Package PoolProofs TableProofs QueryProofs DbInv CatalogProofs
  PropsetCodecProofs PackageProofs StreamProofs DeleteRefine PkgInv ReopenLemmas ReopenProofs InsertRefine
  UpdateRefine PkgInv2 CreateTableLemmas CreateTableProofs.
From MsiGen Require Import GenConsts GenCatalog GenStreamName.
Open Scope N_scope.

(* the goal statement, verbatim *)
Definition G_create_table_ok : Prop := forall prof k tn cols k',
  PInv2 prof k -> pkg_create_table prof k tn cols = (k', Ok tt) ->
  PInv2 prof k' /\
  find_table (k_tabs k) tn = None /\
  find_table (k_tabs k') tn = Some (mktable tn cols (p_long (k_pool k))) /\
  tvals prof (the_db k') (mktable tn cols (p_long (k_pool k))) = Ok [] /\
  (forall n, n <> tn -> find_table (k_tabs k') n = find_table (k_tabs k) n) /\
  (forall e, In e (k_tabs k) -> is_core (fst e) = false -> fst e <> VALIDATION_TABLE_NAME ->
     tvals prof (the_db k') (snd e) = tvals prof (the_db k) (snd e)) /\
  k_type k' = k_type k /\ k_sum k' = k_sum k /\ pkg_streams k' = pkg_streams k /\
  (forall n, sn_is_valid n false = true ->
     ct_find (ct_entries (k_cont k')) (sn_encode n false) = ct_find (ct_entries (k_cont k)) (sn_encode n false)) /\
  cols <> [] /\ nlen cols <= MAX_NUM_TABLE_COLUMNS.

(* ---- the invariant looks at the container only through the streams of its tables and the three saved streams ---- *)
Lemma frame_inv_tabs prof k k' :
  PInv prof k -> k_type k' = k_type k -> k_sum k' = k_sum k -> k_tabs k' = k_tabs k ->
  pool_same (k_pool k) (k_pool k') ->
  (forall e, In e (k_tabs k) ->
     ct_find (ct_entries (k_cont k')) (stream_name_of (snd e)) = ct_find (ct_entries (k_cont k)) (stream_name_of (snd e))) ->
  disk_ok k' -> flags_ok k' -> PInv prof k'.
Proof.
  intros HP Ety Es Ets (Pcp & Pst & Plg) Ffind Hdisk' Hflags'.
  destruct HP as (HInv & Hcp & Hps & Hfmt & Htw & Hcat & Hsv & Hdisk & Hflags).
  assert (Htv : forall e, In e (k_tabs k) -> tvals prof (the_db k') (snd e) = tvals prof (the_db k) (snd e)).
  { intros e He. unfold the_db. apply tvals_frame; [exact Pst | apply Ffind, He]. }
  assert (Hlr : forall e, In e (k_tabs k) -> load_rows (k_cont k') (snd e) = load_rows (k_cont k) (snd e)).
  { intros e He. unfold load_rows. rewrite (Ffind _ He). reflexivity. }
  pose proof Htw as (_ & HfT & HfC & HfV & _).
  refine (conj _ (conj _ (conj _ (conj _ (conj _ (conj _ (conj _ (conj Hdisk' Hflags')))))))).
  - destruct HInv as (Hwf & Hnd & Htok & Hrc). unfold Inv, the_db in *. cbn [d_pool d_tabs d_cont] in *.
    rewrite Ets. refine (conj _ (conj Hnd (conj _ _))).
    + unfold pool_wf. rewrite Pst. exact Hwf.
    + rewrite Forall_forall in *. intros e He. destruct (Htok e He) as (A & B & C & rows & D & E).
      unfold table_ok. refine (conj A (conj B (conj _ _))); [rewrite Plg; exact C|].
      exists rows. rewrite (Hlr e He). split; assumption.
    + intros r Hr. unfold refcount. rewrite Pst. fold (refcount (k_pool k) r). rewrite (Hrc r Hr). f_equal.
      symmetry. apply all_rows_ext. intros e He. unfold rows_of. rewrite (Hlr e He). reflexivity.
  - rewrite Pcp. exact Hcp.
  - rewrite Es. exact Hps.
  - rewrite Es. exact Hfmt.
  - unfold tabs_wf, user_tabs in *. rewrite Ets, Plg. exact Htw.
  - destruct Hcat as (tr & cr & vr & H1 & P1 & H2 & P2 & H3 & P3). exists tr, cr, vr.
    unfold user_tabs in *. rewrite Ets, Plg.
    pose proof (Htv _ (find_table_in _ _ _ HfT)) as E1. pose proof (Htv _ (find_table_in _ _ _ HfC)) as E2.
    pose proof (Htv _ (find_table_in _ _ _ HfV)) as E3. cbn [snd] in E1, E2, E3. rewrite E1, E2, E3.
    repeat split; assumption.
  - unfold tables_sorted_valid in *. rewrite Ets. rewrite Forall_forall in *. intros e He.
    destruct (Hsv e He) as (vals & A & B & C). exists vals. rewrite (Htv e He). repeat split; assumption.
Qed.

(* ====================================================================== *)
(* 1. an orphan table stream                                               *)
(* ====================================================================== *)
Definition obytes_eqb (a b : option bytes) : bool :=
  match a, b with Some x, Some y => list_eqb N.eqb x y | None, None => true | _, _ => false end.
Lemma obytes_eqb_eq a b : obytes_eqb a b = true -> a = b.
Proof.
  destruct a, b; cbn; intros H; try discriminate; [|reflexivity].
  f_equal. apply (list_eqb_spec N.eqb); [intros; apply N.eqb_eq | exact H].
Qed.

Definition add_entry (k : pkg) (x : str * bytes) : pkg :=
  with_cont k (mkct (ct_clsid (k_cont k)) (ct_entries (k_cont k) ++ [x])).
Definition watched (k : pkg) : list str :=
  [SUMMARY_INFO_STREAM_NAME; pool_stream; data_stream] ++ map (fun e => stream_name_of (snd e)) (k_tabs k).

(* one more entry at the end of the directory, invisible under every name the invariant looks at *)
Lemma add_entry_inv prof k x : PInv2 prof k ->
  forallb (fun s => obytes_eqb (ct_find (ct_entries (k_cont (add_entry k x))) s) (ct_find (ct_entries (k_cont k)) s))
          (watched k) = true ->
  PInv2 prof (add_entry k x).
Proof.
  intros [HP Hlen] H.
  assert (Hsame : forall s, In s (watched k) ->
            ct_find (ct_entries (k_cont (add_entry k x))) s = ct_find (ct_entries (k_cont k)) s).
  { rewrite forallb_forall in H. intros s Hs. apply obytes_eqb_eq, H, Hs. }
  split; [|exact Hlen].
  apply (frame_inv_tabs prof k (add_entry k x) HP); try reflexivity.
  - repeat split.
  - intros e He. apply Hsame. apply in_or_app. right. apply in_map_iff. exists e. split; [reflexivity | exact He].
  - destruct HP as (_ & _ & _ & _ & _ & _ & _ & (D1 & D2 & D3) & _).
    unfold disk_ok. change (k_type (add_entry k x)) with (k_type k). change (k_pool (add_entry k x)) with (k_pool k).
    change (k_sum_mod (add_entry k x)) with (k_sum_mod k). change (k_sum (add_entry k x)) with (k_sum k).
    split; [exact D1|]. split.
    + intros Hm. rewrite (Hsame pool_stream), (Hsame data_stream);
        [exact (D2 Hm) | right; right; left; reflexivity | right; left; reflexivity].
    + intros Hs. rewrite (Hsame SUMMARY_INFO_STREAM_NAME); [exact (D3 Hs) | left; reflexivity].
  - destruct HP as (_ & _ & _ & _ & _ & _ & _ & _ & F). exact F.
Qed.

Definition kdummy : pkg := fresh0 Installer (mkps 0 0 [] [] [] []).
(* a freshly created installer package *)
Definition kc : pkg := match pkg_create Release Installer with Ok k => k | _ => kdummy end.
Lemma kc_ok : pkg_create Release Installer = Ok kc.
Proof. unfold kc. destruct (create_total Release Installer) as [k ->]. reflexivity. Qed.
(* kc is evaluated by vm_compute only; it stays folded everywhere else *)
Opaque kc.

(* ... whose container also holds a stream with the name of table "A": one Int16 cell holding 1 *)
Definition orphan : str * bytes := (sn_encode [65] true, [1; 128]).
Definition k_bad : pkg := add_entry kc orphan.
Definition colA : column := mkcol [66] Int16 false false true None None None [].

Lemma k_bad_inv : PInv2 Release k_bad.
Proof.
  unfold k_bad. apply add_entry_inv; [exact (create_inv Release Installer kc kc_ok)|]. vm_compute. reflexivity.
Qed.
Opaque k_bad.

Definition kA : pkg := fst (pkg_create_table Release k_bad [65] [colA]).
Lemma kA_run : pkg_create_table Release k_bad [65] [colA] = (kA, Ok tt).
Proof.
  unfold kA. assert (H : snd (pkg_create_table Release k_bad [65] [colA]) = Ok tt) by (vm_compute; reflexivity).
  destruct (pkg_create_table Release k_bad [65] [colA]) as [a b]. cbn [fst snd] in *. rewrite H. reflexivity.
Qed.
(* the table just created is not empty *)
Lemma kA_rows : tvals Release (the_db kA) (mktable [65] [colA] (p_long (k_pool k_bad))) = Ok [[VInt 1]].
Proof. vm_compute. reflexivity. Qed.
Opaque kA.

Theorem G_create_table_ok_false : ~ G_create_table_ok.
Proof.
  intros G. destruct (G Release k_bad [65] [colA] kA k_bad_inv kA_run) as (_ & _ & _ & H & _).
  rewrite kA_rows in H. discriminate H.
Qed.

(* the state is what open returns for the file of a fresh package with that one extra stream *)
Lemma k_bad_opens : pkg_open Release (k_cont k_bad) = Ok k_bad.
Proof. vm_compute. reflexivity. Qed.

(* the state of the counterexample violates exactly the added clause *)
Lemma k_bad_orphan : ~ no_orphans k_bad.
Proof.
  intros H. assert (E : ct_find (ct_entries (k_cont k_bad)) (sn_encode [65] true) = None).
  { apply H; [vm_compute; reflexivity | intros [X|[X|[]]]; discriminate X | vm_compute; reflexivity]. }
  vm_compute in E. discriminate E.
Qed.

(* ====================================================================== *)
(* 2. an enumeration value that is not a text of scalar values              *)
(* ====================================================================== *)
Definition colB : column := mkcol [66] (Str 0) false false true None None None [[55296]].
Definition kB : pkg := fst (pkg_create_table Release kc [65] [colB]).
Lemma kB_run : pkg_create_table Release kc [65] [colB] = (kB, Ok tt).
Proof.
  unfold kB. assert (H : snd (pkg_create_table Release kc [65] [colB]) = Ok tt) by (vm_compute; reflexivity).
  destruct (pkg_create_table Release kc [65] [colB]) as [a b]. cbn [fst snd] in *. rewrite H. reflexivity.
Qed.
Lemma kB_pool : In ([55296], 1) (p_strings (k_pool kB)).
Proof.
  assert (H : existsb (fun e => str_eqb (fst e) [55296] && (snd e =? 1)) (p_strings (k_pool kB)) = true)
    by (vm_compute; reflexivity).
  apply existsb_exists in H as ([s n] & Hin & E). cbn [fst snd] in E. apply andb_true_iff in E as [E1 E2].
  apply str_eqb_spec in E1. apply N.eqb_eq in E2. subst. exact Hin.
Qed.
Opaque kB.

(* even with the added clause the invariant is lost without the hypothesis enums_scalar *)
Theorem create_table_ok_needs_enums_scalar :
  ~ (forall prof k tn cols k', PInv3 prof k -> pkg_create_table prof k tn cols = (k', Ok tt) -> PInv3 prof k').
Proof.
  intros G. destruct (G Release kc [65] [colB] kB (create_inv3 _ _ _ kc_ok) kB_run) as [[HP _] _].
  destruct HP as ((Hwf & _) & _).
  unfold pool_wf in Hwf. cbn [the_db d_pool] in Hwf. rewrite Forall_forall in Hwf.
  destruct (Hwf _ kB_pool) as (_ & _ & Hs & _). vm_compute in Hs. discriminate Hs.
Qed.

Print Assumptions G_create_table_ok_false.
Print Assumptions k_bad_opens.
Print Assumptions create_table_ok_needs_enums_scalar.
