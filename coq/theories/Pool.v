(* Pool.v -- model of src/internal/stringpool.rs: string references and the string pool. *)
From MsiModel Require Import Base CodePage.
From MsiGen Require Import GenConsts.
Open Scope N_scope.

(* ---- StringRef::read / write -------------------------------------------------- *)
(* read: Ok None = null reference; Err = the reader ran out of bytes *)
Definition read_ref (long : bool) (b : bytes) : res (option N * bytes) :=
  match get16 b with
  | None => Err
  | Some (lo, r) =>
      if long then
        match get8 r with
        | None => Err
        | Some (hi, r') => let n := lo + 65536 * hi in Ok (if n =? 0 then None else Some n, r')
        end
      else Ok (if lo =? 0 then None else Some lo, r)
  end.

(* write: debug_assert!(0 < number <= MAX_STRING_REF) under Debug; short form refuses > 0xffff *)
Definition write_ref (prof : profile) (long : bool) (r : option N) : res bytes :=
  let number := match r with Some n => n | None => 0 end in
  _ <- match r, prof with
       | Some n, Debug => if (0 <? n) && (n <=? MAX_STRING_REF) then Ok tt else Panic
       | _, _ => Ok tt
       end ;;
  if long then Ok (put16 (number mod 65536) ++ [(number / 65536) mod 256])
  else if number <=? 65535 then Ok (put16 number)
  else Err.

(* ---- the pool -------------------------------------------------------------------- *)
Record pool := mkpool {
  p_cp : codepage;
  p_strings : list (str * N);       (* text, 16-bit refcount; 1-based references *)
  p_long : bool;
  p_mod : bool;
}.

Definition pool_new (cp : codepage) : pool := mkpool cp [] false true.
Definition pool_set_cp (p : pool) (cp : codepage) : pool := mkpool cp (p_strings p) (p_long p) true.
Definition pool_mark_unmodified (p : pool) : pool := mkpool (p_cp p) (p_strings p) (p_long p) false.

(* get: "" for an out-of-range reference; StringRef::index debug-asserts the range *)
Definition pool_get (prof : profile) (p : pool) (r : N) : res str :=
  _ <- match prof with
       | Debug => if (0 <? r) && (r <=? MAX_STRING_REF) then Ok tt else Panic
       | Release => Ok tt
       end ;;
  match nth_opt_N (p_strings p) (r - 1) with
  | Some (s, _) => Ok s
  | None => Ok []
  end.

(* incref: first free slot (refcount 0) or first equal entry below the 16-bit cap,
   scanning in order; otherwise append.  Two capacity panics. *)
Fixpoint incref_scan (prof : profile) (l : list (str * N)) (s : str) (idx : N)
  : res (option (list (str * N) * N)) :=
  match l with
  | [] => Ok None
  | (t, rc) :: r =>
      if rc =? 0 then
        match prof, t with
        | Debug, _ :: _ =>                             (* debug_assert_eq!(st, ""), if the source still has it *)
            if POOL_INCREF_ASSERTS_EMPTY then Panic else Ok (Some ((s, 1) :: r, idx))
        | _, _ => Ok (Some ((s, 1) :: r, idx))
        end
      else if str_eqb t s && (rc <? 65535) then Ok (Some ((t, rc + 1) :: r, idx))
      else
        o <- incref_scan prof r s (idx + 1) ;;
        Ok (match o with Some (r', i) => Some ((t, rc) :: r', i) | None => None end)
  end.

Definition pool_incref (prof : profile) (p : pool) (s : str) : res (pool * N) :=
  o <- incref_scan prof (p_strings p) s 1 ;;
  match o with
  | Some (l, i) => Ok (mkpool (p_cp p) l (p_long p) true, i)
  | None =>
      let n := nlen (p_strings p) in
      if (65535 <=? n) && negb (p_long p) then Panic
      else if MAX_STRING_REF <=? n then Panic
      else Ok (mkpool (p_cp p) (p_strings p ++ [(s, 1)]) (p_long p) true, n + 1)
  end.

Fixpoint decref_at (l : list (str * N)) (i : nat) : option (list (str * N)) :=
  match l, i with
  | [], _ => None
  | (t, rc) :: r, O => if rc =? 0 then None else Some ((if rc =? 1 then [] else t, rc - 1) :: r)
  | e :: r, S i' => option_map (cons e) (decref_at r i')
  end.
Definition decref_at_N (l : list (str * N)) (n : N) : option (list (str * N)) :=
  if nlen l <=? n then None else decref_at l (N.to_nat n).
Lemma decref_at_beyond : forall l i, (length l <= i)%nat -> decref_at l i = None.
Proof.
  induction l as [|[t rc] l IH]; intros i H; [reflexivity|]. destruct i; cbn [length] in H; [lia|].
  cbn [decref_at]. rewrite IH by lia. reflexivity.
Qed.
Lemma decref_at_N_eq l n : decref_at_N l n = decref_at l (N.to_nat n).
Proof.
  unfold decref_at_N, nlen. destruct (N.of_nat (length l) <=? n) eqn:E; [|reflexivity].
  apply N.leb_le in E. symmetry. apply decref_at_beyond. lia.
Qed.
(* decref: on an invalid reference or a zero refcount it panics or (since the repair) returns without a change *)
Definition pool_decref (prof : profile) (p : pool) (r : N) : res pool :=
  _ <- match prof with
       | Debug => if (0 <? r) && (r <=? MAX_STRING_REF) then Ok tt else Panic
       | Release => Ok tt
       end ;;
  if r =? 0 then Panic
  else match decref_at_N (p_strings p) (r - 1) with
       | Some l => Ok (mkpool (p_cp p) l (p_long p) true)
       | None => if POOL_DECREF_PANICS then Panic else Ok p
       end.

(* ---- serialisation ------------------------------------------------------------------ *)
(* write_pool / write_data need the code page's encoder; only pages whose codec is in the
   model can be written (None otherwise) *)
Fixpoint encode_all (cp : codepage) (l : list (str * N)) : option (list (bytes * N)) :=
  match l with
  | [] => Some []
  | (s, rc) :: r =>
      match cp_encode cp s, encode_all cp r with
      | Some b, Some t => Some ((b, rc) :: t)
      | _, _ => None
      end
  end.

Definition pool_entry_bytes (b : bytes) (rc : N) : bytes :=
  let len := nlen b in
  (if 65535 <? len then put16 0 ++ put16 ((len / 65536) mod 65536) else []) ++
  put16 (len mod 65536) ++ put16 rc.

Definition write_pool (p : pool) : option bytes :=
  match encode_all (p_cp p) (p_strings p) with
  | Some es =>
      let id := cp_id (p_cp p) + (if p_long p then LONG_STRING_REFS_BIT else 0) in
      Some (put32 id ++ flat_map (fun e => pool_entry_bytes (fst e) (snd e)) es)
  | None => None
  end.
Definition write_data (p : pool) : option bytes :=
  match encode_all (p_cp p) (p_strings p) with
  | Some es => Some (flat_map fst es)
  | None => None
  end.

(* read_from_pool: header, then (length, refcount) pairs until the 16-bit read fails;
   a zero length with a non-zero refcount escapes to a 32-bit length *)
Fixpoint read_entries (fuel : nat) (b : bytes) : res (list (N * N)) :=
  match fuel with
  | O => Ok []
  | S f =>
      match get16 b with
      | None => Ok []                                     (* while let Ok(length) = ... *)
      | Some (len, r1) =>
          match get16 r1 with
          | None => Err
          | Some (rc, r2) =>
              if (len =? 0) && (0 <? rc) then
                match get16 r2 with
                | None => Err
                | Some (lo, r3) =>
                    match get16 r3 with
                    | None => Err
                    | Some (rc', r4) =>
                        t <- read_entries f r4 ;; Ok ((rc * 65536 + lo, rc') :: t)
                    end
                end
              else t <- read_entries f r2 ;; Ok ((len, rc) :: t)
          end
      end
  end.

Record pool_builder := { pb_cp : codepage; pb_long : bool; pb_entries : list (N * N) }.
Definition read_pool_header (b : bytes) : res pool_builder :=
  match get32 b with
  | None => Err
  | Some (w, r) =>
      let long := LONG_STRING_REFS_BIT <=? w in
      let id := w mod LONG_STRING_REFS_BIT in
      match cp_from_id (Z.of_N id) with
      | None => Err
      | Some cp => es <- read_entries (length r) r ;; Ok {| pb_cp := cp; pb_long := long; pb_entries := es |}
      end
  end.

(* build_from_data: read_exact(length) for each entry, decode *)
Fixpoint build_strings (cp : codepage) (es : list (N * N)) (data : bytes) : res (list (str * N)) :=
  match es with
  | [] => Ok []
  | (len, rc) :: r =>
      match take_bytes_N len data with
      | None => Err
      | Some (h, t) =>
          match cp_decode cp h with
          | None => Err            (* code page outside the model: reported as unsupported by the driver *)
          | Some s => l <- build_strings cp r t ;; Ok ((s, rc) :: l)
          end
      end
  end.
Definition read_pool (pool_bytes data : bytes) : res pool :=
  pb <- read_pool_header pool_bytes ;;
  l <- build_strings (pb_cp pb) (pb_entries pb) data ;;
  Ok (mkpool (pb_cp pb) l (pb_long pb) false).
