(* TableProofs.v -- cell codec and column-major table codec: totality and roundtrip. *)
From Coq Require Import ZifyBool ZifyNat ZifyN Lia.
From MsiModel Require Import Base Value Category Column CodePage Pool Table StreamName.
From MsiGen Require Import GenConsts.
Open Scope N_scope.

Ltac Zify.zify_post_hook ::= Z.div_mod_to_equations.
Arguments N.add : simpl never.
Arguments N.mul : simpl never.
Arguments N.div : simpl never.
Arguments N.modulo : simpl never.
Arguments N.sub : simpl never.

(* P1: cell and row codec *)
Definition cell_ok (t : coltype) (long : bool) (v : vref) : Prop :=
  match t, v with
  | _, RNull => True
  | Int16, RInt z => (-32768 < z <= 32767)%Z
  | Int32, RInt z => (-2147483648 < z <= 2147483647)%Z
  | Str _, RStr r => 0 < r /\ r <= (if long then MAX_STRING_REF else 65535)
  | _, _ => False
  end.
Definition row_ok (t : table) (r : list vref) : Prop :=
  Forall2 (fun c v => cell_ok (c_type c) (t_long t) v) (t_cols t) r.

(* ---- little-endian helpers --------------------------------------------- *)
Lemma get16_put16 w rest : w < 65536 -> get16 (put16 w ++ rest) = Some (w, rest).
Proof.
  intro H. unfold put16, get16. cbn [app]. f_equal. f_equal. lia.
Qed.
Lemma get32_put32 w rest : w < 4294967296 -> get32 (put32 w ++ rest) = Some (w, rest).
Proof.
  intro H. unfold put32, get32. cbn [app]. f_equal. f_equal. lia.
Qed.
Lemma nlen_put16 w : nlen (put16 w) = 2.
Proof. reflexivity. Qed.
Lemma nlen_put32 w : nlen (put32 w) = 4.
Proof. reflexivity. Qed.

Lemma nlen_app {A} (a b : list A) : nlen (a ++ b) = nlen a + nlen b.
Proof. unfold nlen. rewrite app_length. lia. Qed.
Lemma nlen_cons {A} (x : A) l : nlen (x :: l) = 1 + nlen l.
Proof. unfold nlen. cbn [length]. lia. Qed.

(* ---- string references --------------------------------------------------- *)
Lemma write_ref_none prof (long : bool) :
  write_ref prof long None =
  Ok (if long then put16 0 ++ [0] else put16 0).
Proof.
  unfold write_ref. destruct prof, long; reflexivity.
Qed.

Lemma write_ref_some prof (long : bool) (r : N) :
  0 < r -> r <= (if long then MAX_STRING_REF else 65535) ->
  write_ref prof long (Some r) =
  Ok (if long then put16 (r mod 65536) ++ [(r / 65536) mod 256] else put16 r).
Proof.
  intros H0 H1. unfold write_ref.
  assert (HM : r <= MAX_STRING_REF).
  { destruct long; [assumption|]. unfold MAX_STRING_REF. lia. }
  assert (E : (0 <? r) && (r <=? MAX_STRING_REF) = true).
  { apply andb_true_iff. split; [apply N.ltb_lt | apply N.leb_le]; assumption. }
  destruct prof; [rewrite E|]; cbn [rbind]; destruct long; try reflexivity;
    (destruct (r <=? 65535) eqn:E2; [reflexivity | apply N.leb_gt in E2; lia]).
Qed.

(* ---- cells ----------------------------------------------------------------- *)
Theorem cell_total : forall prof t long v,
  cell_ok t long v -> exists bs, write_cell prof t long v = Ok bs.
Proof.
  intros prof t long v H.
  destruct t, v; cbn [cell_ok] in H; try contradiction; cbn [write_cell];
    try (eexists; reflexivity).
  - rewrite write_ref_none. eexists; reflexivity.
  - destruct H as [H0 H1]. rewrite write_ref_some by assumption. eexists; reflexivity.
Qed.

Theorem cell_roundtrip : forall prof t long v bs rest,
  cell_ok t long v -> write_cell prof t long v = Ok bs ->
  read_cell t long (bs ++ rest) = Ok (v, rest) /\ nlen bs = ct_width t long.
Proof.
  intros prof t long v bs rest H W.
  destruct t, v; cbn [cell_ok] in H; try contradiction; cbn [write_cell] in W.
  - (* Int16 null *)
    inversion W; subst bs; clear W. split; [|reflexivity].
    unfold read_cell. rewrite get16_put16 by lia. reflexivity.
  - (* Int16 int *)
    inversion W; subst bs; clear W. split; [|reflexivity].
    unfold read_cell.
    set (w := Z.to_N ((z + 32768) mod 65536)).
    assert (Hw : Z.of_N w = (z + 32768)%Z).
    { unfold w. rewrite Z2N.id by (apply Z.mod_pos_bound; lia).
      apply Z.mod_small. lia. }
    rewrite get16_put16 by lia.
    destruct (w =? 0) eqn:E.
    + apply N.eqb_eq in E. lia.
    + do 2 f_equal. f_equal. lia.
  - (* Int32 null *)
    inversion W; subst bs; clear W. split; [|reflexivity].
    unfold read_cell. rewrite get32_put32 by lia. reflexivity.
  - (* Int32 int *)
    inversion W; subst bs; clear W. split; [|reflexivity].
    unfold read_cell.
    set (w := Z.to_N ((z + 2147483648) mod 4294967296)).
    assert (Hw : Z.of_N w = (z + 2147483648)%Z).
    { unfold w. rewrite Z2N.id by (apply Z.mod_pos_bound; lia).
      apply Z.mod_small. lia. }
    rewrite get32_put32 by lia.
    destruct (w =? 0) eqn:E.
    + apply N.eqb_eq in E. lia.
    + do 2 f_equal. f_equal. lia.
  - (* Str null *)
    rewrite write_ref_none in W. unfold read_cell.
    destruct long; injection W as <-; split; reflexivity.
  - (* Str ref *)
    destruct H as [H0 H1]. rewrite write_ref_some in W by assumption.
    unfold read_cell, read_ref. destruct long; injection W as <-.
    + split; [|reflexivity]. unfold put16. cbn [app get16 get8 rbind].
      unfold MAX_STRING_REF in H1.
      assert (E : (r mod 65536) mod 256 + 256 * ((r mod 65536 / 256) mod 256)
                  + 65536 * ((r / 65536) mod 256) = r) by lia.
      rewrite E.
      destruct (r =? 0) eqn:E0; [apply N.eqb_eq in E0; lia|]. reflexivity.
    + split; [|reflexivity]. unfold put16. cbn [app get16 get8 rbind].
      assert (E : r mod 256 + 256 * ((r / 256) mod 256) = r) by lia.
      rewrite E.
      destruct (r =? 0) eqn:E0; [apply N.eqb_eq in E0; lia|]. reflexivity.
Qed.

Theorem read_cell_ok : forall t long b v rest, Forall (fun x => x < 256) b ->
  read_cell t long b = Ok (v, rest) -> cell_ok t long v.
Proof.
  intros t long b v rest F R.
  destruct t; unfold read_cell in R.
  - destruct b as [|b0 [|b1 r]]; cbn [get16] in R; try discriminate.
    inversion F as [|? ? F0 F']; subst. inversion F' as [|? ? F1 F'']; subst.
    inversion R; subst; clear R.
    destruct (b0 + 256 * b1 =? 0) eqn:E; cbn [cell_ok]; [exact I|].
    apply N.eqb_neq in E. lia.
  - destruct b as [|b0 [|b1 [|b2 [|b3 r]]]]; cbn [get32] in R; try discriminate.
    inversion F as [|? ? F0 F']; subst. inversion F' as [|? ? F1 F'']; subst.
    inversion F'' as [|? ? F2 F3']; subst. inversion F3' as [|? ? F3 F4']; subst.
    inversion R; subst; clear R.
    destruct (b0 + 256 * b1 + 65536 * b2 + 16777216 * b3 =? 0) eqn:E; cbn [cell_ok]; [exact I|].
    apply N.eqb_neq in E. lia.
  - unfold read_ref in R.
    destruct b as [|b0 [|b1 r]]; cbn [get16] in R; try discriminate.
    inversion F as [|? ? F0 F']; subst. inversion F' as [|? ? F1 F'']; subst.
    destruct long.
    + destruct r as [|b2 r]; cbn [get8 rbind] in R; try discriminate.
      inversion F'' as [|? ? F2 F3']; subst.
      cbv zeta in R. cbn [rbind] in R.
      inversion R; subst; clear R.
      destruct (b0 + 256 * b1 + 65536 * b2 =? 0) eqn:E; cbn [cell_ok]; [exact I|].
      apply N.eqb_neq in E. unfold MAX_STRING_REF. lia.
    + cbn [rbind] in R. inversion R; subst; clear R.
      destruct (b0 + 256 * b1 =? 0) eqn:E; cbn [cell_ok]; [exact I|].
      apply N.eqb_neq in E. lia.
Qed.

(* ---- the reader never panics ---------------------------------------------- *)
Lemma read_ref_nopanic long b : read_ref long b <> Panic.
Proof.
  unfold read_ref. destruct (get16 b) as [[lo r]|]; [|discriminate].
  destruct long; [|discriminate].
  destruct (get8 r) as [[hi r']|]; discriminate.
Qed.

Lemma read_cell_nopanic t long b : read_cell t long b <> Panic.
Proof.
  destruct t; unfold read_cell.
  - destruct (get16 b) as [[w r]|]; discriminate.
  - destruct (get32 b) as [[w r]|]; discriminate.
  - pose proof (read_ref_nopanic long b) as H.
    destruct (read_ref long b) as [[o r]| |]; cbn [rbind]; congruence.
Qed.

Lemma read_column_nopanic t long n : forall b, read_column t long n b <> Panic.
Proof.
  induction n as [|n IH]; intro b; cbn [read_column]; [discriminate|].
  pose proof (read_cell_nopanic t long b) as H.
  destruct (read_cell t long b) as [[v r]| |]; cbn [rbind]; try congruence.
  specialize (IH r).
  destruct (read_column t long n r) as [[vs r']| |]; cbn [rbind]; congruence.
Qed.

Lemma read_columns_nopanic long n cols : forall b, read_columns cols long n b <> Panic.
Proof.
  induction cols as [|c cs IH]; intro b; cbn [read_columns]; [discriminate|].
  pose proof (read_column_nopanic (c_type c) long n b) as H.
  destruct (read_column (c_type c) long n b) as [[col r]| |]; cbn [rbind]; try congruence.
  specialize (IH r).
  destruct (read_columns cs long n r) as [X| |]; cbn [rbind]; congruence.
Qed.

(* reader totality: never Panic, whatever the bytes *)
Theorem read_rows_total : forall t b, read_rows t b <> Panic.
Proof.
  intros t b. unfold read_rows. cbv zeta.
  destruct (MAX_ROWS_READ <? _); [discriminate|].
  match goal with |- context [read_columns ?c ?l ?n ?x] =>
    pose proof (read_columns_nopanic l n c x) as H;
    destruct (read_columns c l n x) as [X| |] end; cbn [rbind]; congruence.
Qed.

(* ---- shape of what the reader returns ---------------------------------------- *)
Lemma read_columns_length long n cols : forall b X,
  read_columns cols long n b = Ok X -> length X = length cols.
Proof.
  induction cols as [|c cs IH]; intros b X R; cbn [read_columns] in R.
  - injection R as <-. reflexivity.
  - destruct (read_column (c_type c) long n b) as [[col r]| |]; cbn [rbind] in R; try discriminate.
    destruct (read_columns cs long n r) as [Y| |] eqn:E; cbn [rbind] in R; try discriminate.
    injection R as <-. cbn [length]. f_equal. eapply IH; eassumption.
Qed.

Lemma transpose_shape n : forall X, Forall (fun r => length r = length X) (transpose n X).
Proof.
  induction n as [|n IH]; intro X; cbn [transpose]; constructor.
  - apply map_length.
  - specialize (IH (map (fun c => match c with _ :: r => r | [] => [] end) X)).
    rewrite map_length in IH. exact IH.
Qed.

Theorem read_rows_shape : forall t b rows, read_rows t b = Ok rows ->
  Forall (fun r => length r = length (t_cols t)) rows.
Proof.
  intros t b rows R. unfold read_rows in R. cbv zeta in R.
  destruct (MAX_ROWS_READ <? _); [discriminate|].
  match type of R with context [read_columns ?c ?l ?n ?x] =>
    destruct (read_columns c l n x) as [X| |] eqn:E end; cbn [rbind] in R; try discriminate.
  injection R as <-. apply read_columns_length in E. rewrite <- E. apply transpose_shape.
Qed.

(* ---- column-major roundtrip ------------------------------------------------------ *)
Definition cols_size (cols : list column) (long : bool) : N :=
  fold_right (fun c n => ct_width (c_type c) long + n) 0 cols.

Lemma nth_opt_S {A} (r : list A) idx : nth_opt r (S idx) = nth_opt (tl r) idx.
Proof. destruct r; reflexivity. Qed.

Lemma write_column_S prof t long idx rows :
  write_column prof t long (S idx) rows = write_column prof t long idx (map (@tl vref) rows).
Proof.
  induction rows as [|r rs IH]; [reflexivity|].
  cbn [write_column map]. rewrite nth_opt_S, IH. reflexivity.
Qed.

Lemma write_columns_S prof long cols : forall idx rows,
  write_columns prof cols long (S idx) rows = write_columns prof cols long idx (map (@tl vref) rows).
Proof.
  induction cols as [|c cs IH]; intros idx rows; [reflexivity|].
  cbn [write_columns]. rewrite write_column_S, IH. reflexivity.
Qed.

Lemma column_roundtrip prof t long : forall rows,
  Forall (fun r => match r with v :: _ => cell_ok t long v | [] => False end) rows ->
  exists b, write_column prof t long 0 rows = Ok b /\
            nlen b = nlen rows * ct_width t long /\
            forall rest, read_column t long (length rows) (b ++ rest) = Ok (map (hd RNull) rows, rest).
Proof.
  induction rows as [|r rs IH]; intro F.
  - exists []. split; [reflexivity|]. split; [reflexivity|]. intro rest. reflexivity.
  - inversion F as [|? ? H1 H2]; subst.
    destruct r as [|v r]; [contradiction|].
    destruct (cell_total prof t long v H1) as [b Hb].
    destruct (IH H2) as [bs [W [L R]]].
    exists (b ++ bs). cbn [write_column nth_opt unwrap rbind]. rewrite Hb. cbn [rbind].
    rewrite W. cbn [rbind]. split; [reflexivity|]. split.
    + destruct (cell_roundtrip prof t long v b [] H1 Hb) as [_ L1].
      rewrite nlen_app, nlen_cons, L, L1. lia.
    + intro rest. cbn [length read_column map hd]. rewrite <- app_assoc.
      destruct (cell_roundtrip prof t long v b (bs ++ rest) H1 Hb) as [R1 _].
      rewrite R1. cbn [rbind]. rewrite R. reflexivity.
Qed.

Lemma transpose_cons : forall rows X,
  Forall (fun r : list vref => r <> []) rows ->
  transpose (length rows) X = map (@tl vref) rows ->
  transpose (length rows) (map (hd RNull) rows :: X) = rows.
Proof.
  induction rows as [|r rs IH]; intros X NE H; [reflexivity|].
  cbn [length transpose map] in *.
  inversion NE as [|? ? N1 N2]; subst.
  injection H as H1 H2.
  destruct r as [|v r']; [congruence|]. cbn [hd tl] in *.
  f_equal.
  - f_equal. exact H1.
  - apply IH; assumption.
Qed.

Lemma columns_roundtrip prof long : forall cols rows,
  Forall (fun r => Forall2 (fun c v => cell_ok (c_type c) long v) cols r) rows ->
  exists bs, write_columns prof cols long 0 rows = Ok bs /\
             nlen bs = nlen rows * cols_size cols long /\
             forall rest, exists X,
               read_columns cols long (length rows) (bs ++ rest) = Ok X /\
               transpose (length rows) X = rows.
Proof.
  induction cols as [|c cs IH]; intros rows F.
  - exists []. split; [reflexivity|]. split; [cbn [cols_size fold_right]; unfold nlen; cbn [length]; lia|].
    intro rest. exists []. split; [reflexivity|].
    induction rows as [|r rs IHr]; [reflexivity|].
    inversion F as [|? ? H1 H2]; subst. inversion H1; subst.
    cbn [length transpose map]. f_equal. apply IHr. exact H2.
  - assert (F1 : Forall (fun r => match r with v :: _ => cell_ok (c_type c) long v | [] => False end) rows).
    { eapply Forall_impl; [|exact F]. intros r H. inversion H; subst. assumption. }
    assert (F2 : Forall (fun r => Forall2 (fun c v => cell_ok (c_type c) long v) cs r) (map (@tl vref) rows)).
    { clear - F. induction F as [|r rs H _ IHF]; cbn [map]; constructor; [|exact IHF].
      inversion H; subst. assumption. }
    assert (F3 : Forall (fun r : list vref => r <> []) rows).
    { eapply Forall_impl; [|exact F]. intros r H. inversion H; subst. discriminate. }
    destruct (column_roundtrip prof (c_type c) long rows F1) as [b [Wb [Lb Rb]]].
    destruct (IH (map (@tl vref) rows) F2) as [bs [Wbs [Lbs Rbs]]].
    exists (b ++ bs). cbn [write_columns]. rewrite Wb. cbn [rbind].
    rewrite write_columns_S, Wbs. cbn [rbind]. split; [reflexivity|]. split.
    + rewrite nlen_app, Lb, Lbs. unfold nlen. rewrite map_length.
      cbn [cols_size fold_right]. fold (cols_size cs long). lia.
    + intro rest. destruct (Rbs rest) as [X [RX TX]]. rewrite map_length in RX, TX.
      exists (map (hd RNull) rows :: X). cbn [read_columns].
      rewrite <- app_assoc, Rb. cbn [rbind]. rewrite RX. cbn [rbind].
      split; [reflexivity|]. apply transpose_cons; assumption.
Qed.

Lemma row_size_ge2 t : t_cols t <> [] -> 2 <= row_size t.
Proof.
  intro NE. unfold row_size. destruct (t_cols t) as [|c cs]; [congruence|].
  cbn [fold_right]. destruct (c_type c), (t_long t); cbn [ct_width]; lia.
Qed.

Theorem rows_roundtrip : forall prof t rows,
  t_cols t <> [] -> Forall (row_ok t) rows -> nlen rows <= MAX_ROWS_READ ->
  exists bs, write_rows prof t rows = Ok bs /\ nlen bs = nlen rows * row_size t /\ read_rows t bs = Ok rows.
Proof.
  intros prof t rows NE F L.
  destruct (columns_roundtrip prof (t_long t) (t_cols t) rows F) as [bs [W [Lb R]]].
  exists bs. split; [exact W|]. split; [exact Lb|].
  change (cols_size (t_cols t) (t_long t)) with (row_size t) in Lb.
  pose proof (row_size_ge2 t NE) as H2.
  unfold read_rows. cbv zeta.
  assert (E0 : (0 <? row_size t) = true) by (apply N.ltb_lt; lia).
  rewrite E0.
  assert (E1 : nlen bs / row_size t = nlen rows).
  { rewrite Lb. apply N.div_mul. lia. }
  rewrite E1.
  assert (E2 : (MAX_ROWS_READ <? nlen rows) = false) by (apply N.ltb_ge; exact L).
  rewrite E2.
  assert (E3 : N.to_nat (nlen rows) = length rows) by (unfold nlen; apply Nat2N.id).
  rewrite E3.
  destruct (R []) as [X [RX TX]]. rewrite app_nil_r in RX.
  rewrite RX. cbn [rbind]. rewrite TX. reflexivity.
Qed.
