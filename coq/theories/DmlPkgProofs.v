(* DmlPkgProofs.v -- INSERT / DELETE / UPDATE on a user table at package level: the table-store refinement theorems
   (InsertRefine, DeleteRefine, UpdateRefine) lifted to the package state machine and its invariant PInv2. *)
From Coq Require Import ZifyBool ZifyNat ZifyN Lia Sorting.Sorted Permutation.
From MsiModel Require Import Base Sexp Value Expr Category Column CodePage Pool Table Container StreamName StreamNameProofs
  Propset Summary Query Package PoolProofs TableProofs QueryProofs DbInv CatalogProofs PropsetCodecProofs PackageProofs
  StreamProofs PkgInv UpdateRefine PkgInv2 InsertRefine DeleteRefine ReopenLemmas ReopenProofs.
From MsiGen Require Import GenConsts GenCatalog GenStreamName.
Open Scope N_scope.
Arguments N.add : simpl never.
Arguments N.mul : simpl never.
Arguments N.sub : simpl never.

Definition others_untouched (prof : profile) (k k' : pkg) (tn : str) : Prop :=
  k_tabs k' = k_tabs k /\ k_type k' = k_type k /\ k_sum k' = k_sum k /\ pkg_streams k' = pkg_streams k /\
  (forall e, In e (k_tabs k) -> fst e <> tn -> tvals prof (the_db k') (snd e) = tvals prof (the_db k) (snd e)) /\
  (forall n, sn_is_valid n false = true ->
     ct_find (ct_entries (k_cont k')) (sn_encode n false) = ct_find (ct_entries (k_cont k)) (sn_encode n false)).

(* ====================================================================== *)
(* what a DML step does to the pool: code page and width stay, and the     *)
(* modified flag is raised whenever anything changes                       *)
(* ====================================================================== *)
Definition pstep (p p' : pool) : Prop :=
  p_cp p' = p_cp p /\ p_long p' = p_long p /\ (p' = p \/ p_mod p' = true).

Lemma pstep_refl p : pstep p p.
Proof. repeat split. left. reflexivity. Qed.
Lemma pstep_trans p q r : pstep p q -> pstep q r -> pstep p r.
Proof.
  intros (A1 & A2 & A3) (B1 & B2 & B3). split; [congruence|]. split; [congruence|].
  destruct B3 as [->|B3]; [exact A3 | right; exact B3].
Qed.

Lemma res_bind_ok {A B} (e : res A) (f : A -> res B) b :
  rbind e f = Ok b -> exists a, e = Ok a /\ f a = Ok b.
Proof. destruct e; cbn [rbind]; intros H; try discriminate; eauto. Qed.

Lemma incref_pstep prof p s p' r : pool_incref prof p s = Ok (p', r) -> pstep p p'.
Proof.
  unfold pool_incref. intros H. apply res_bind_ok in H as (o & _ & H).
  destruct o as [[l i]|].
  - inversion H. subst. repeat split. right. reflexivity.
  - destruct ((65535 <=? nlen (p_strings p)) && negb (p_long p)); [discriminate|].
    destruct (MAX_STRING_REF <=? nlen (p_strings p)); [discriminate|].
    inversion H. subst. repeat split. right. reflexivity.
Qed.

Lemma decref_pstep prof p r p' : pool_decref prof p r = Ok p' -> pstep p p'.
Proof.
  unfold pool_decref. rewrite decref_at_N_eq. intros H. apply res_bind_ok in H as (u & _ & H).
  destruct (r =? 0); [discriminate|].
  destruct (decref_at (p_strings p) (N.to_nat (r - 1)));
    [|destruct POOL_DECREF_PANICS; [discriminate|inversion H; subst; repeat split; left; reflexivity]].
  inversion H. subst. repeat split. right. reflexivity.
Qed.

Lemma vref_create_pstep prof p v p' x : vref_create prof p v = Ok (p', x) -> pstep p p'.
Proof.
  destruct v as [|z|s]; cbn [vref_create]; intros H.
  - inversion H. apply pstep_refl.
  - inversion H. apply pstep_refl.
  - destruct s as [|c s]; [inversion H; apply pstep_refl|].
    apply res_bind_ok in H as ([p1 r] & H1 & H). inversion H. subst. eapply incref_pstep. exact H1.
Qed.

Lemma vref_remove_pstep prof p v p' : vref_remove prof p v = Ok p' -> pstep p p'.
Proof.
  destruct v; cbn [vref_remove]; intros H; try (inversion H; apply pstep_refl).
  eapply decref_pstep. exact H.
Qed.

Lemma vref_remove_len prof p v p' : vref_remove prof p v = Ok p' -> len_ok p -> len_ok p'.
Proof.
  destruct v; cbn [vref_remove]; intros H; try (inversion H; subst; auto; fail).
  eapply decref_len_ok. exact H.
Qed.

Lemma create_refs_pstep prof : forall vals p p' refs, create_refs prof p vals = Ok (p', refs) -> pstep p p'.
Proof.
  induction vals as [|v vs IH]; intros p p' refs H; cbn [create_refs] in H.
  - inversion H. apply pstep_refl.
  - apply res_bind_ok in H as ([p1 r] & H1 & H). apply res_bind_ok in H as ([p2 rs] & H2 & H).
    inversion H. subst. eapply pstep_trans; [eapply vref_create_pstep; exact H1 | eapply IH; exact H2].
Qed.

Lemma insert_new_pstep prof kidx : forall rows p m p' m',
  insert_new prof p kidx m rows = Ok (p', m') -> pstep p p'.
Proof.
  induction rows as [|r rs IH]; intros p m p' m' H; cbn [insert_new] in H.
  - inversion H. apply pstep_refl.
  - apply res_bind_ok in H as (k & _ & H). apply res_bind_ok in H as ([p1 refs] & H1 & H).
    eapply pstep_trans; [eapply create_refs_pstep; exact H1 | eapply IH; exact H].
Qed.

Lemma remove_refs_pstep prof : forall r p p', remove_refs prof p r = Ok p' -> pstep p p' /\ (len_ok p -> len_ok p').
Proof.
  induction r as [|v vs IH]; intros p p' H; cbn [remove_refs] in H.
  - inversion H. split; [apply pstep_refl | auto].
  - apply res_bind_ok in H as (p1 & H1 & H). destruct (IH _ _ H) as [A B]. split.
    + eapply pstep_trans; [eapply vref_remove_pstep; exact H1 | exact A].
    + intros L. apply B. eapply vref_remove_len; eassumption.
Qed.

Lemma delete_loop_pstep prof t cond : forall rows p p' kept,
  delete_loop prof p t cond rows = Ok (p', kept) -> pstep p p' /\ (len_ok p -> len_ok p').
Proof.
  induction rows as [|r rs IH]; intros p p' kept H; cbn [delete_loop] in H.
  - inversion H. split; [apply pstep_refl | auto].
  - apply res_bind_ok in H as (d & _ & H). destruct d.
    + apply res_bind_ok in H as (p1 & H1 & H). destruct (remove_refs_pstep _ _ _ _ H1) as [A B].
      destruct (IH _ _ _ H) as [A' B']. split; [eapply pstep_trans; eassumption | auto].
    + apply res_bind_ok in H as ([p2 kept'] & H1 & H). inversion H. subst. eapply IH. exact H1.
Qed.

Lemma apply_updates_pstep prof t : forall ups p r p' r',
  apply_updates prof p t ups r = Ok (p', r') -> pstep p p'.
Proof.
  induction ups as [|[n v] rest IH]; intros p r p' r' H; cbn [apply_updates] in H.
  - inversion H. apply pstep_refl.
  - apply res_bind_ok in H as (i & _ & H). apply res_bind_ok in H as (old & _ & H).
    apply res_bind_ok in H as (p1 & H1 & H). apply res_bind_ok in H as ([p2 nv] & H2 & H).
    eapply pstep_trans; [eapply vref_remove_pstep; exact H1|].
    eapply pstep_trans; [eapply vref_create_pstep; exact H2|]. eapply IH. exact H.
Qed.

Lemma update_loop_pstep prof t ups : forall rows ms p p' rows',
  update_loop prof p t ups rows ms = Ok (p', rows') -> pstep p p'.
Proof.
  induction rows as [|r rs IH]; intros ms p p' rows' H; cbn [update_loop] in H.
  - inversion H. apply pstep_refl.
  - destruct ms as [|m ms']; [inversion H; apply pstep_refl|].
    apply res_bind_ok in H as ([p1 r1] & H1 & H). apply res_bind_ok in H as ([p2 rest] & H2 & H).
    inversion H. subst. eapply pstep_trans; [|eapply IH; exact H2].
    destruct m; [eapply apply_updates_pstep; exact H1 | inversion H1; apply pstep_refl].
Qed.

(* ---- the shape of a successful statement: one table stream rewritten, the pool stepped -------------------- *)
Definition dml_shape (c : container) (p : pool) (ts : tables) (tn : str) (c' : container) (p' : pool) : Prop :=
  exists t bs, find_table ts tn = Some t /\ c' = ct_write c (stream_name_of t) bs /\ pstep p p'.

Lemma store_rows_shape prof c t rows c' : store_rows prof c t rows = Ok c' ->
  exists bs, c' = ct_write c (stream_name_of t) bs.
Proof. unfold store_rows. intros H. apply res_bind_ok in H as (b & _ & H). inversion H. eauto. Qed.

Lemma exec_insert_shape prof c p ts tn rows c' p' :
  exec_insert prof c p ts tn rows = Ok (c', p') -> dml_shape c p ts tn c' p'.
Proof.
  unfold exec_insert. intros H.
  destruct (find_table ts tn) as [t|] eqn:Ef; [|discriminate]. cbn [of_opt rbind] in H.
  apply res_bind_ok in H as (u & _ & H). cbv zeta in H.
  apply res_bind_ok in H as (old & _ & H). apply res_bind_ok in H as (m & _ & H).
  apply res_bind_ok in H as (u1 & _ & H). apply res_bind_ok in H as (u2 & _ & H).
  apply res_bind_ok in H as ([p1 m'] & Hi & H). apply res_bind_ok in H as (c1 & Hs & H).
  inversion H. subst. apply store_rows_shape in Hs as (bs & ->).
  exists t, bs. split; [exact Ef|]. split; [reflexivity|]. eapply insert_new_pstep. exact Hi.
Qed.

Lemma exec_delete_shape prof c p ts tn cond c' p' :
  exec_delete prof c p ts tn cond = Ok (c', p') -> dml_shape c p ts tn c' p' /\ (len_ok p -> len_ok p').
Proof.
  unfold exec_delete. intros H.
  destruct (find_table ts tn) as [t|] eqn:Ef; [|discriminate]. cbn [of_opt rbind] in H.
  destruct (negb (cond_ok t cond)); [discriminate|].
  apply res_bind_ok in H as (rows & _ & H). apply res_bind_ok in H as ([p1 kept] & Hd & H).
  apply res_bind_ok in H as (c1 & Hs & H).
  inversion H. subst. apply store_rows_shape in Hs as (bs & ->).
  destruct (delete_loop_pstep _ _ _ _ _ _ _ Hd) as [A B]. split; [|exact B].
  exists t, bs. split; [exact Ef|]. split; [reflexivity|]. exact A.
Qed.

Lemma exec_update_shape prof c p ts tn ups cond c' p' :
  exec_update prof c p ts tn ups cond = Ok (c', p') -> dml_shape c p ts tn c' p'.
Proof.
  unfold exec_update. intros H.
  destruct (find_table ts tn) as [t|] eqn:Ef; [|discriminate]. cbn [of_opt rbind] in H.
  apply res_bind_ok in H as (u & _ & H).
  destruct (negb (cond_ok t cond)); [discriminate|].
  apply res_bind_ok in H as (rows & _ & H). apply res_bind_ok in H as (ms & _ & H). cbv zeta in H.
  apply res_bind_ok in H as (u1 & _ & H). apply res_bind_ok in H as ([p1 rows'] & Hu & H).
  apply res_bind_ok in H as (rows'' & _ & H). apply res_bind_ok in H as (c1 & Hs & H).
  inversion H. subst. apply store_rows_shape in Hs as (bs & ->).
  exists t, bs. split; [exact Ef|]. split; [reflexivity|]. eapply update_loop_pstep. exact Hu.
Qed.

(* ====================================================================== *)
(* the listing of user streams ignores table streams                       *)
(* ====================================================================== *)
Lemma names_streams_table n : names_streams [sn_encode n true] = [].
Proof.
  unfold names_streams. cbn [flat_map]. rewrite app_nil_r.
  destruct (existsb (str_eqb (sn_encode n true)) special_names); [reflexivity|].
  unfold sn_encode, sn_decode. cbn [app]. rewrite N.eqb_refl. reflexivity.
Qed.

Lemma streams_write_table c n b :
  names_streams (ct_names (ct_write c (sn_encode n true) b)) = names_streams (ct_names c).
Proof.
  unfold ct_names, ct_write. cbn [ct_entries].
  destruct (ct_put_names (ct_entries c) (sn_encode n true) b) as [-> | ->]; [reflexivity|].
  unfold names_streams. rewrite flat_map_app. fold (names_streams [sn_encode n true]).
  rewrite names_streams_table, app_nil_r. reflexivity.
Qed.

(* ====================================================================== *)
(* the frame: a DML step on a user table re-establishes the invariant      *)
(* ====================================================================== *)
Lemma sorted_in_unique l n t t' : StronglySorted tlt l -> In (n, t) l -> In (n, t') l -> t = t'.
Proof.
  intros S H1 H2. apply (sorted_find _ _ _ S) in H1. apply (sorted_find _ _ _ S) in H2. congruence.
Qed.

Lemma dml_frame prof k tn t bs p' :
  PInv2 prof k -> user_table_name tn -> find_table (k_tabs k) tn = Some t ->
  pstep (k_pool k) p' ->
  let c' := ct_write (k_cont k) (stream_name_of t) bs in
  let d' := mkdb c' p' (k_tabs k) in
  Inv d' -> pool_len_ok d' ->
  (forall n' t', In (n', t') (k_tabs k) -> n' <> tn -> tvals prof d' t' = tvals prof (the_db k) t') ->
  (exists new, tvals prof d' t = Ok new /\ sorted_by_key t new /\ rows_valid t new) ->
  let k' := with_cp (set_finisher k) c' p' in
  PInv2 prof k' /\ others_untouched prof k k' tn.
Proof.
  intros [HP Hlen] (HuT & HuC & HuV) Hfind (Pcp & Plg & Pmod) c' d' HInv' Hlen' Hframe Hnew k'.
  subst d'.
  destruct HP as (HInv & Hcp & Hps & Hfmt & Htw & Hcat & Hsv & Hdisk & Hflags).
  pose proof Htw as (HS & HfT & HfC & HfV & F1 & F2).
  destruct k as [c ty s sm p ts f].
  unfold the_db in *. cbn [k_cont k_type k_sum k_sum_mod k_pool k_tabs k_fin] in *.
  assert (Hin : In (tn, t) ts) by (apply find_table_in; exact Hfind).
  rewrite Forall_forall in F1. destruct (F1 _ Hin) as (Vtn & Rtn & Et). cbn [fst snd] in Vtn, Rtn, Et.
  assert (Esn : stream_name_of t = sn_encode tn true).
  { rewrite Et. reflexivity. }
  destruct (table_stream_special3 tn Vtn Rtn) as (Sp1 & Sp2 & Sp3). rewrite <- Esn in Sp1, Sp2, Sp3.
  assert (Hfr : forall s0, name_eqb (stream_name_of t) s0 = false ->
                  ct_find (ct_entries c') s0 = ct_find (ct_entries c) s0).
  { intros s0 Hs0. unfold c'. rewrite find_write, Hs0. reflexivity. }
  assert (HinT := find_table_in _ _ _ HfT). assert (HinC := find_table_in _ _ _ HfC).
  assert (HinV := find_table_in _ _ _ HfV).
  split; [split|].
  - (* PInv *)
    unfold PInv, the_db, k', with_cp, set_finisher. cbn [k_cont k_type k_sum k_sum_mod k_pool k_tabs k_fin].
    refine (conj HInv' (conj _ (conj Hps (conj Hfmt (conj _ (conj _ (conj _ (conj _ _)))))))).
    + rewrite Pcp. exact Hcp.
    + unfold tabs_wf, user_tabs in *. cbn [k_cont k_type k_sum k_sum_mod k_pool k_tabs k_fin] in *.
      rewrite Plg. exact Htw.
    + destruct Hcat as (tr & cr & vr & H1 & P1 & H2 & P2 & H3 & P3). exists tr, cr, vr.
      unfold user_tabs, the_db in *. cbn [k_cont k_type k_sum k_sum_mod k_pool k_tabs k_fin] in *.
      rewrite Plg.
      rewrite (Hframe _ _ HinT (not_eq_sym HuT)), (Hframe _ _ HinC (not_eq_sym HuC)), (Hframe _ _ HinV (not_eq_sym HuV)).
      repeat split; assumption.
    + unfold tables_sorted_valid, the_db in *. cbn [k_cont k_type k_sum k_sum_mod k_pool k_tabs k_fin] in *.
      rewrite Forall_forall in *. intros [n' t'] He. cbn [snd].
      destruct (list_eq_dec N.eq_dec n' tn) as [->|Hne].
      * rewrite <- (sorted_in_unique _ _ _ _ HS Hin He). exact Hnew.
      * destruct (Hsv _ He) as (vals & A & B & C). cbn [snd] in A, B, C. exists vals.
        rewrite (Hframe _ _ He Hne). repeat split; assumption.
    + destruct Hdisk as (Dcl & Dp & Ds). cbn [k_cont k_type k_sum k_sum_mod k_pool k_tabs k_fin] in Dcl, Dp, Ds.
      unfold disk_ok. cbn [k_cont k_type k_sum k_sum_mod k_pool k_tabs k_fin].
      split; [exact Dcl|]. split.
      * intros Hm. destruct Pmod as [E|Pm]; [|congruence]. rewrite E in *.
        destruct (Dp Hm) as (A & B & C). rewrite (Hfr _ Sp2), (Hfr _ Sp3). repeat split; assumption.
      * intros Hm. rewrite (Hfr _ Sp1). apply Ds. exact Hm.
    + apply fin_flags_ok. reflexivity.
  - exact Hlen'.
  - unfold others_untouched, the_db, k', with_cp, set_finisher.
    cbn [k_cont k_type k_sum k_sum_mod k_pool k_tabs k_fin].
    split; [reflexivity|]. split; [reflexivity|]. split; [reflexivity|]. split; [|split].
    + rewrite !pkg_streams_eq. cbn [k_cont]. unfold c'. rewrite Esn. apply streams_write_table.
    + intros [n' t'] He Hne. cbn [fst snd] in *. exact (Hframe n' t' He Hne).
    + intros n V. apply Hfr. rewrite name_eqb_sym, Esn. apply stream_not_table. exact V.
Qed.

(* ====================================================================== *)
(* unfolding the wrappers                                                  *)
(* ====================================================================== *)
Lemma pkg_insert_ok_inv prof k tn rows k' : pkg_insert prof k tn rows = (k', Ok tt) ->
  exists c' p', exec_insert prof (k_cont k) (k_pool k) (k_tabs k) tn rows = Ok (c', p') /\
                k' = with_cp (set_finisher k) c' p'.
Proof.
  destruct k as [c ty s sm p ts f]. unfold pkg_insert, op_res, set_finisher.
  cbn [k_cont k_type k_sum k_sum_mod k_pool k_tabs k_fin].
  destruct (exec_insert prof c p ts tn rows) as [[c' p']| |]; intros H; inversion H. eauto.
Qed.
Lemma pkg_delete_ok_inv prof k tn cond k' : pkg_delete prof k tn cond = (k', Ok tt) ->
  exists c' p', exec_delete prof (k_cont k) (k_pool k) (k_tabs k) tn cond = Ok (c', p') /\
                k' = with_cp (set_finisher k) c' p'.
Proof.
  destruct k as [c ty s sm p ts f]. unfold pkg_delete, op_res, set_finisher.
  cbn [k_cont k_type k_sum k_sum_mod k_pool k_tabs k_fin].
  destruct (exec_delete prof c p ts tn cond) as [[c' p']| |]; intros H; inversion H. eauto.
Qed.
Lemma pkg_update_ok_inv prof k tn ups cond k' : pkg_update prof k tn ups cond = (k', Ok tt) ->
  exists c' p', exec_update prof (k_cont k) (k_pool k) (k_tabs k) tn ups cond = Ok (c', p') /\
                k' = with_cp (set_finisher k) c' p'.
Proof.
  destruct k as [c ty s sm p ts f]. unfold pkg_update, op_res, set_finisher.
  cbn [k_cont k_type k_sum k_sum_mod k_pool k_tabs k_fin].
  destruct (exec_update prof c p ts tn ups cond) as [[c' p']| |]; intros H; inversion H. eauto.
Qed.

Lemma table_state prof k tn t : PInv prof k -> find_table (k_tabs k) tn = Some t ->
  In (tn, t) (k_tabs k) /\
  exists vals, tvals prof (the_db k) t = Ok vals /\ sorted_by_key t vals /\ rows_valid t vals.
Proof.
  intros (_ & _ & _ & _ & _ & _ & Hsv & _) Hf. apply find_table_in in Hf. split; [exact Hf|].
  unfold tables_sorted_valid in Hsv. rewrite Forall_forall in Hsv. exact (Hsv _ Hf).
Qed.

(* ====================================================================== *)
(* INSERT                                                                  *)
(* ====================================================================== *)
Theorem pkg_insert_ok : forall prof k tn t rows k',
  PInv2 prof k -> user_table_name tn -> find_table (k_tabs k) tn = Some t ->
  Forall (Forall value_storable) rows ->
  pkg_insert prof k tn rows = (k', Ok tt) ->
  PInv2 prof k' /\ others_untouched prof k k' tn /\
  exists old new, tvals prof (the_db k) t = Ok old /\ tvals prof (the_db k') t = Ok new /\
    Permutation new (old ++ map (map normalize_value) rows) /\ sorted_by_key t new /\ rows_valid t new.
Proof.
  intros prof k tn t rows k' HP Hu Hfind Hst H.
  apply pkg_insert_ok_inv in H as (c' & p' & E & ->).
  pose proof HP as [HPI Hlen]. pose proof HPI as (HInv & _).
  destruct (table_state prof k tn t HPI Hfind) as (Hin & vals & Hv & Hvs & Hvv).
  destruct (exec_insert_shape _ _ _ _ _ _ _ _ E) as (t0 & bs & Ef & Ec & Pst).
  rewrite Hfind in Ef. inversion Ef. subst t0. clear Ef.
  pose proof (insert_refines prof (the_db k) tn t rows c' p' (conj HInv Hlen) Hst Hin Hfind E) as X.
  cbv zeta in X. destruct X as ((HI' & Hfit') & (old & new & Ho & Hn & Pn & Sn & Vn) & Hfr & _ & _).
  cbn [d_tabs the_db] in *.
  rewrite Hv in Ho. inversion Ho. subst old. clear Ho. specialize (Vn Hvv).
  subst c'.
  destruct (dml_frame prof k tn t bs p' HP Hu Hfind Pst HI' Hfit' Hfr) as [A B].
  { exists new. auto. }
  split; [exact A|]. split; [exact B|]. exists vals, new. auto.
Qed.

(* ====================================================================== *)
(* DELETE                                                                  *)
(* ====================================================================== *)
Lemma sorted_by_key_filter t (g : list value -> bool) vals :
  sorted_by_key t vals -> sorted_by_key t (filter g vals).
Proof.
  unfold sorted_by_key. intros H. apply SS_unmap in H.
  eapply SS_map_in; [|apply SS_filter; exact H]. intros a b _ _ R. exact R.
Qed.
Lemma rows_valid_filter t (g : list value -> bool) vals : rows_valid t vals -> rows_valid t (filter g vals).
Proof.
  unfold rows_valid. rewrite !Forall_forall. intros H r Hr. apply filter_In in Hr as [Hr _]. apply H. exact Hr.
Qed.

Theorem pkg_delete_ok : forall prof k tn t cond k',
  PInv2 prof k -> user_table_name tn -> find_table (k_tabs k) tn = Some t ->
  pkg_delete prof k tn cond = (k', Ok tt) ->
  PInv2 prof k' /\ others_untouched prof k k' tn /\
  exists old, tvals prof (the_db k) t = Ok old /\
    tvals prof (the_db k') t = Ok (filter (fun r => negb (holds_v t cond r)) old).
Proof.
  intros prof k tn t cond k' HP Hu Hfind H.
  apply pkg_delete_ok_inv in H as (c' & p' & E & ->).
  pose proof HP as [HPI Hlen]. pose proof HPI as (HInv & _).
  destruct (table_state prof k tn t HPI Hfind) as (Hin & vals & Hv & Hvs & Hvv).
  destruct (exec_delete_shape _ _ _ _ _ _ _ _ E) as ((t0 & bs & Ef & Ec & Pst) & Hl).
  rewrite Hfind in Ef. inversion Ef. subst t0. clear Ef.
  pose proof (delete_refines prof (the_db k) tn t cond c' p' HInv Hin Hfind E) as X.
  cbv zeta in X. destruct X as (HI' & (old & Ho & Hn) & Hfr & _ & _).
  cbn [d_tabs the_db] in *.
  rewrite Hv in Ho. inversion Ho. subst old. clear Ho.
  subst c'.
  destruct (dml_frame prof k tn t bs p' HP Hu Hfind Pst HI' (Hl Hlen) Hfr) as [A B].
  { eexists. split; [exact Hn|]. split; [apply sorted_by_key_filter | apply rows_valid_filter]; assumption. }
  split; [exact A|]. split; [exact B|]. exists vals. auto.
Qed.

(* ====================================================================== *)
(* a rejected call                                                         *)
(* ====================================================================== *)
Lemma set_finisher_inv prof k : PInv2 prof k ->
  PInv2 prof (set_finisher k) /\ same_obs prof k (set_finisher k) /\
  k_cont (set_finisher k) = k_cont k /\ k_pool (set_finisher k) = k_pool k.
Proof.
  intros [HP Hlen]. destruct HP as (HInv & Hcp & Hps & Hfmt & Htw & Hcat & Hsv & Hdisk & Hflags).
  destruct k as [c ty s sm p ts f]. split; [split|split; [|split; reflexivity]].
  - refine (conj HInv (conj Hcp (conj Hps (conj Hfmt (conj Htw (conj Hcat (conj Hsv (conj Hdisk _)))))))).
    apply fin_flags_ok. reflexivity.
  - exact Hlen.
  - unfold same_obs. repeat split; reflexivity.
Qed.

Theorem pkg_dml_err : forall prof k, PInv2 prof k ->
  (forall tn rows k', pkg_insert prof k tn rows = (k', Err) -> PInv2 prof k' /\ same_obs prof k k' /\ k_cont k' = k_cont k /\ k_pool k' = k_pool k) /\
  (forall tn cond k', pkg_delete prof k tn cond = (k', Err) -> PInv2 prof k' /\ same_obs prof k k' /\ k_cont k' = k_cont k /\ k_pool k' = k_pool k) /\
  (forall tn ups cond k', pkg_update prof k tn ups cond = (k', Err) -> PInv2 prof k' /\ same_obs prof k k' /\ k_cont k' = k_cont k /\ k_pool k' = k_pool k).
Proof.
  intros prof k HP. split; [|split].
  - intros tn rows k' H. apply insert_err in H. subst k'. apply set_finisher_inv. exact HP.
  - intros tn cond k' H. apply delete_err in H. subst k'. apply set_finisher_inv. exact HP.
  - intros tn ups cond k' H. apply update_err in H. subst k'. apply set_finisher_inv. exact HP.
Qed.

(* ====================================================================== *)
(* DELETE never panics                                                     *)
(* ====================================================================== *)
Theorem pkg_delete_no_panic : forall prof k tn cond,
  PInv2 prof k -> snd (pkg_delete prof k tn cond) <> Panic.
Proof.
  intros prof k tn cond [HP _]. pose proof HP as (HInv & _).
  assert (G : exec_delete prof (k_cont k) (k_pool k) (k_tabs k) tn cond <> Panic).
  { destruct (find_table (k_tabs k) tn) as [t|] eqn:Ef.
    - destruct (cond_ok t cond) eqn:Ec.
      + destruct (delete_total prof (the_db k) tn t cond HInv (find_table_in _ _ _ Ef) Ef Ec) as (c' & p' & E).
        cbn [the_db d_cont d_pool d_tabs] in E. rewrite E. discriminate.
      + unfold exec_delete. rewrite Ef. cbn [of_opt rbind]. rewrite Ec. discriminate.
    - unfold exec_delete. rewrite Ef. discriminate. }
  destruct k as [c ty s sm p ts f]. unfold pkg_delete, op_res, set_finisher.
  cbn [k_cont k_type k_sum k_sum_mod k_pool k_tabs k_fin] in *.
  destruct (exec_delete prof c p ts tn cond) as [[c' p']| |]; cbn [snd]; try discriminate.
  exfalso. apply G. reflexivity.
Qed.

(* ====================================================================== *)
(* UPDATE                                                                  *)
(* ====================================================================== *)
Theorem pkg_update_ok : forall prof k tn t ups cond k',
  PInv2 prof k -> user_table_name tn -> find_table (k_tabs k) tn = Some t -> ups_wf ups ->
  pkg_update prof k tn ups cond = (k', Ok tt) ->
  PInv2 prof k' /\ others_untouched prof k k' tn /\
  exists old new, tvals prof (the_db k) t = Ok old /\ tvals prof (the_db k') t = Ok new /\
    (if touches_key t ups then Permutation new (map (upd_row t ups cond) old) else new = map (upd_row t ups cond) old) /\
    sorted_by_key t new /\ rows_valid t new.
Proof.
  intros prof k tn t ups cond k' HP Hu Hfind Hups H.
  apply pkg_update_ok_inv in H as (c' & p' & E & ->).
  pose proof HP as [HPI Hlen]. pose proof HPI as (HInv & _).
  destruct (table_state prof k tn t HPI Hfind) as (Hin & vals & Hv & Hvs & Hvv).
  destruct (exec_update_shape _ _ _ _ _ _ _ _ _ E) as (t0 & bs & Ef & Ec & Pst).
  rewrite Hfind in Ef. inversion Ef. subst t0. clear Ef.
  pose proof (update_refines prof (the_db k) tn t ups cond c' p' (conj HInv Hlen) Hups Hin Hfind E) as X.
  cbv zeta in X. destruct X as ((HI' & Hfit') & (old & new & Ho & Hn & Hrel & Vn) & Hfr & _ & _).
  cbn [d_tabs the_db] in *.
  rewrite Hv in Ho. inversion Ho. subst old. clear Ho. specialize (Vn Hvv).
  assert (Sn : sorted_by_key t new).
  { destruct (touches_key t ups) eqn:Etk; [apply Hrel|]. subst new.
    apply update_keeps_sorted; [exact Etk | | exact Hvs].
    unfold rows_valid in Hvv. rewrite Forall_forall in *. intros r Hr.
    symmetry. eapply Forall2_len. apply Hvv. exact Hr. }
  subst c'.
  destruct (dml_frame prof k tn t bs p' HP Hu Hfind Pst HI' Hfit' Hfr) as [A B].
  { exists new. auto. }
  split; [exact A|]. split; [exact B|]. exists vals, new.
  split; [exact Hv|]. split; [exact Hn|]. split; [|split; assumption].
  destruct (touches_key t ups); [apply Hrel | exact Hrel].
Qed.

Print Assumptions pkg_insert_ok.
Print Assumptions pkg_delete_ok.
Print Assumptions pkg_update_ok.
Print Assumptions pkg_dml_err.
Print Assumptions pkg_delete_no_panic.
