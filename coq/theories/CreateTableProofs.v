(* CreateTableProofs.v -- pkg_create and pkg_create_table keep the package invariant (C04, C06, C20):
     create_table_err   an Err answer of create_table leaves the package as it was (no half-created table)
     create_total       pkg_create always succeeds
     create_inv         a freshly created package satisfies the invariant
     create_table_ok    a successful create_table adds exactly one empty table with the given columns
   See the comment in front of each theorem for the statement changes against the goal file. *)
From Coq Require Import ZifyBool ZifyNat ZifyN Lia Sorting.Sorted Permutation.
From MsiModel Require Import Base Sexp Value Expr Category Column ColumnProofs CategoryProofs CodePage Pool Table Container
  StreamName StreamNameProofs Propset Summary Query Package PoolProofs TableProofs QueryProofs DbInv CatalogProofs
  PropsetCodecProofs PackageProofs StreamProofs DeleteRefine PkgInv ReopenLemmas ReopenProofs InsertRefine
  UpdateRefine PkgInv2 CreateTableLemmas.
From MsiGen Require Import GenConsts GenCatalog GenStreamName.
Open Scope N_scope.
Arguments N.add : simpl never.
Arguments N.mul : simpl never.
Arguments N.sub : simpl never.

(* ====================================================================== *)
(* 1. the catalog rows of an accepted table are storable values            *)
(* ====================================================================== *)
Definition sscalar (s : str) : Prop := forallb is_scalar s = true.
Definition vscalar (v : value) : Prop := match v with VStr s => sscalar s | _ => True end.

Lemma utf8_len_le s : utf8_len s <= 4 * nlen s.
Proof.
  induction s as [|c s IH]; [cbn; lia|]. change (utf8_len (c :: s)) with (utf8_len1 c + utf8_len s).
  rewrite QueryProofs.nlen_cons. unfold utf8_len1. destruct (c <? 128); [lia|]. destruct (c <? 2048); [lia|].
  destruct (c <? 65536); lia.
Qed.

Lemma ident_char_small c : ident_char c -> c < 128.
Proof.
  unfold ident_char, is_alnum, is_alpha, is_upper, is_lower, is_digit. intros [H|[->| ->]]; lia.
Qed.
Lemma identifier_scalar s : identifier_ok s = true -> sscalar s.
Proof.
  intros H. apply identifier_iff in H. inversion H as [c r Hs Hr]; subst.
  unfold sscalar. cbn [forallb]. apply andb_true_iff. split.
  - unfold ident_start, is_alpha, is_upper, is_lower in Hs. unfold is_scalar. destruct Hs as [Hs| ->]; lia.
  - apply forallb_forall. intros x Hx. rewrite Forall_forall in Hr. apply Hr, ident_char_small in Hx.
    unfold is_scalar. lia.
Qed.

Definition col_bounded (c : column) : bool :=
  match c_type c with
  | Int16 => true
  | Int32 => match c_range c with Some (lo, hi) => (i32_min <=? lo)%Z && (hi <=? i32_max)%Z | None => false end
  | Str w => (0 <? w) && (w <? 1000000)
  end.
Definition col_self_scalar (c : column) : bool :=
  match c_cat c with Some CIdentifier => true | _ => false end ||
  (match c_enum c with [] => false | _ => true end && forallb (forallb is_scalar) (c_enum c)).

Lemma valid_cell_storable c v : is_valid_value c v = Ok true -> col_bounded c = true ->
  col_self_scalar c = true \/ vscalar v -> value_storable v.
Proof.
  intros Hv Hb Hs. destruct v as [|z|s]; unfold value_storable; cbn [value_ok].
  - split; [reflexivity | exact I].
  - split; [|exact I]. cbn [is_valid_value] in Hv. unfold col_bounded in Hb. unfold in_i32, i32_min, i32_max in *.
    destruct (c_type c) as [| |w].
    + destruct (c_range c) as [[lo hi]|]; [destruct ((z <? lo)%Z || (hi <? z)%Z); [discriminate|]|]; inversion Hv; lia.
    + destruct (c_range c) as [[lo hi]|]; [|discriminate].
      destruct ((z <? lo)%Z || (hi <? z)%Z) eqn:E; [discriminate|]. lia.
    + destruct (c_range c) as [[lo hi]|]; [destruct ((z <? lo)%Z || (hi <? z)%Z); discriminate | discriminate].
  - cbn [is_valid_value] in Hv. unfold col_bounded in Hb. destruct (c_type c) as [| |w]; try discriminate.
    destruct (match c_cat c with Some k => validate k s | None => Ok true end) as [okc| |] eqn:Ec; cbn [rbind] in Hv;
      try discriminate.
    destruct okc; cbn [negb] in Hv; [|discriminate].
    destruct (negb (match c_enum c with [] => true | _ => false end) && negb (existsb (str_eqb s) (c_enum c))) eqn:Ee;
      [discriminate|].
    assert (Hw : (w =? 0) || (nlen s <=? w) = true) by congruence. clear Hv. split.
    + destruct Hs as [Hs|Hs]; [|exact Hs]. unfold col_self_scalar in Hs. apply orb_true_iff in Hs as [Hs|Hs].
      * destruct (c_cat c) as [[]|]; try discriminate. cbn [validate] in Ec.
        apply identifier_scalar. congruence.
      * apply andb_true_iff in Hs as [Hne Hall]. destruct (c_enum c) as [|e0 en] eqn:Een; [discriminate|].
        cbn [negb andb] in Ee. apply negb_false_iff in Ee. apply existsb_str_In in Ee.
        rewrite forallb_forall in Hall. apply Hall. exact Ee.
    + pose proof (utf8_len_le s). lia.
Qed.

(* a row accepted by all_valid, column by column *)
Lemma valid_row_storable : forall cols r, length r = length cols -> all_valid cols r = Ok true ->
  Forall2 (fun c v => col_bounded c = true /\ (col_self_scalar c = true \/ vscalar v)) cols r ->
  Forall value_storable r.
Proof.
  intros cols r Hl Hv HF. pose proof (all_valid_F2 cols r Hl Hv) as HV. clear Hl Hv.
  induction HF as [|c v cols r [Hb Hs] _ IH]; [constructor|].
  inversion HV; subst. constructor; [eapply valid_cell_storable; eassumption | apply IH; assumption].
Qed.

Lemma rows_fit_validate t rows : rows_fit (Some t) rows = Ok true -> validate_new_rows t rows = Ok tt.
Proof. unfold rows_fit. destruct (validate_new_rows t rows) as [[]| |]; try discriminate. reflexivity. Qed.

Lemma join_scalar : forall l, Forall sscalar l -> sscalar (join_sep 59 l).
Proof.
  induction l as [|p r IH]; intros H; [reflexivity|]. inversion H as [|? ? Hp Hr]; subst.
  destruct r as [|q r']; [exact Hp|]. change (join_sep 59 (p :: q :: r')) with (p ++ 59 :: join_sep 59 (q :: r')).
  unfold sscalar in *. rewrite forallb_app. rewrite Hp. cbn [forallb andb]. rewrite (IH Hr). reflexivity.
Qed.

(* the only text of a column description whose characters no check of create_table looks at *)
Definition enums_scalar (cols : list column) : Prop := Forall (fun c => Forall sscalar (c_enum c)) cols.

Lemma cat_strs_scalar k : sscalar (cat_as_str k).
Proof. destruct k; vm_compute; reflexivity. Qed.

Lemma valid_tname_ident tn : is_valid_tname tn = true -> identifier_ok tn = true.
Proof. unfold is_valid_tname. intros H. apply andb_true_iff in H. tauto. Qed.

Lemma first_dup_names_ident : forall cols seen, first_dup_or_bad cols seen = true ->
  Forall (fun c => identifier_ok (c_name c) = true) cols.
Proof.
  induction cols as [|a r IH]; intros seen H; [constructor|]. cbn [first_dup_or_bad] in H.
  apply andb_true_iff in H as [H HR]. apply andb_true_iff in H as [H _].
  apply andb_true_iff in H as [H _]. apply andb_true_iff in H as [HA _].
  constructor; [exact HA | eapply IH; exact HR].
Qed.

Lemma trow_storable long tn : is_valid_tname tn = true ->
  rows_fit (Some (tables_table long)) [[VStr tn]] = Ok true -> Forall (Forall value_storable) [[VStr tn]].
Proof.
  intros V H. apply rows_fit_validate, validate_new_rows_inv in H. inversion H as [|? ? [Hl Hv] _]; subst.
  constructor; [|constructor]. eapply valid_row_storable; [exact Hl | exact Hv|].
  change (t_cols (tables_table long)) with (map column_of_schema TABLES_SCHEMA).
  remember (map column_of_schema TABLES_SCHEMA) as tc eqn:E. vm_compute in E. subst tc.
  constructor; [|constructor]. split; [reflexivity|]. right. apply identifier_scalar, valid_tname_ident, V.
Qed.

Lemma crow_storable long tn cols : is_valid_tname tn = true -> first_dup_or_bad cols [] = true ->
  rows_fit (Some (columns_table long)) (columns_rows tn cols) = Ok true ->
  Forall (Forall value_storable) (columns_rows tn cols).
Proof.
  intros V Hd H. apply rows_fit_validate, validate_new_rows_inv in H.
  pose proof (first_dup_names_ident cols [] Hd) as Hn.
  rewrite columns_rows_eq in *. rewrite Forall_forall in *. intros r Hr.
  destruct (H r Hr) as [Hl Hv]. apply in_map_iff in Hr as (ic & <- & Hic).
  eapply valid_row_storable; [exact Hl | exact Hv|].
  change (t_cols (columns_table long)) with (map column_of_schema COLUMNS_SCHEMA).
  remember (map column_of_schema COLUMNS_SCHEMA) as tc eqn:E. vm_compute in E. subst tc.
  assert (Hc : In (snd ic) cols).
  { clear - Hic. revert Hic. generalize 1%Z. induction cols as [|c r IH]; intros i H; [destruct H|].
    cbn [enumerate] in H. destruct H as [<-|H]; [left; reflexivity | right; eapply IH; exact H]. }
  unfold crow. repeat (constructor; [split; [reflexivity | right]|]); [| | | |constructor].
  - apply identifier_scalar, valid_tname_ident, V.
  - exact I.
  - apply identifier_scalar. apply (Hn _ Hc).
  - exact I.
Qed.

Lemma vrow_storable long tn cols : is_valid_tname tn = true -> first_dup_or_bad cols [] = true -> enums_scalar cols ->
  rows_fit (Some (validation_table long)) (validation_rows tn cols) = Ok true ->
  Forall (Forall value_storable) (validation_rows tn cols).
Proof.
  intros V Hd He H. apply rows_fit_validate, validate_new_rows_inv in H.
  pose proof (first_dup_names_ident cols [] Hd) as Hn.
  rewrite validation_rows_eq in *. unfold enums_scalar in He. rewrite Forall_forall in *. intros r Hr.
  destruct (H r Hr) as [Hl Hv]. apply in_map_iff in Hr as (c & <- & Hc).
  eapply valid_row_storable; [exact Hl | exact Hv|].
  change (t_cols (validation_table long)) with validation_columns.
  remember validation_columns as tc eqn:E. vm_compute in E. subst tc.
  unfold vrow. repeat (constructor; [split; [reflexivity | try (left; reflexivity)]|]); [| | | | |constructor].
  - right. destruct (c_range c); exact I.
  - right. destruct (c_range c); exact I.
  - right. destruct (c_fk c); exact I.
  - right. destruct (c_enum c) as [|e0 en] eqn:Een; [exact I|]. cbn [vscalar]. rewrite <- Een.
    apply join_scalar. exact (He c Hc).
  - right. exact I.
Qed.

(* ====================================================================== *)
(* 2. one INSERT into a catalog table                                      *)
(* ====================================================================== *)
(* the container changed only in the streams of the tables S *)
Definition cont_only (S : list str) (c c' : container) : Prop :=
  ct_clsid c' = ct_clsid c /\ names_streams (ct_names c') = names_streams (ct_names c) /\
  forall s, (forall n, In n S -> name_eqb s (sn_encode n true) = false) ->
            ct_find (ct_entries c') s = ct_find (ct_entries c) s.

Lemma cont_only_refl S c : cont_only S c c.
Proof. repeat split. Qed.
Lemma cont_only_trans S a b c : cont_only S a b -> cont_only S b c -> cont_only S a c.
Proof.
  intros (A1 & A2 & A3) (B1 & B2 & B3). split; [congruence|]. split; [congruence|].
  intros s Hs. rewrite (B3 s Hs). apply A3. exact Hs.
Qed.
Lemma cont_only_mono S S' c c' : incl S S' -> cont_only S c c' -> cont_only S' c c'.
Proof.
  intros Hi (A1 & A2 & A3). split; [exact A1|]. split; [exact A2|]. intros s Hs. apply A3. intros n Hn. apply Hs, Hi, Hn.
Qed.

Lemma insert_step prof c p ts tn t rows c' p' :
  Inv (mkdb c p ts) -> pool_fits p -> Forall (Forall value_storable) rows ->
  find_table ts tn = Some t -> is_valid_tname tn = true -> t_name t = tn ->
  exec_insert prof c p ts tn rows = Ok (c', p') ->
  Inv (mkdb c' p' ts) /\ pool_fits p' /\ pool_keep p p' /\ cont_only [tn] c c' /\
  (exists old new, tvals prof (mkdb c p ts) t = Ok old /\ tvals prof (mkdb c' p' ts) t = Ok new /\
     Permutation new (old ++ stored rows) /\ sorted_by_key t new /\ (rows_valid t old -> rows_valid t new)) /\
  (forall n' t', In (n', t') ts -> n' <> tn -> tvals prof (mkdb c' p' ts) t' = tvals prof (mkdb c p ts) t').
Proof.
  intros HInv Hfit Hst Hfind V Hname H.
  pose proof (find_table_in _ _ _ Hfind) as Hin.
  destruct (insert_refines prof (mkdb c p ts) tn t rows c' p' (conj HInv Hfit) Hst Hin Hfind H)
    as ([HInv' Hfit'] & Hrows & Hframe & Hff & Hcl).
  cbn [d_cont d_pool d_tabs] in *.
  destruct (exec_insert_shape _ _ _ _ _ _ _ _ H) as (Hkeep & t0 & b & Hf0 & Ec).
  rewrite Hfind in Hf0. inversion Hf0; subst t0. clear Hf0.
  assert (Esn : stream_name_of t = sn_encode tn true) by (unfold stream_name_of; rewrite Hname; reflexivity).
  split; [exact HInv'|]. split; [exact Hfit'|]. split; [exact Hkeep|]. split; [|split; [exact Hrows | exact Hframe]].
  split; [exact Hcl|]. split.
  - rewrite Ec, Esn. apply names_streams_write_table. exact V.
  - intros s Hs. apply Hff. rewrite Esn. apply Hs. left. reflexivity.
Qed.

(* ====================================================================== *)
(* 3. the part of the invariant create_table starts from                   *)
(* ====================================================================== *)
Definition tabs_pre (k : pkg) : Prop :=
  let long := p_long (k_pool k) in
  StronglySorted tlt (k_tabs k) /\
  find_table (k_tabs k) TABLES_TABLE_NAME = Some (tables_table long) /\
  find_table (k_tabs k) COLUMNS_TABLE_NAME = Some (columns_table long) /\
  Forall (fun e => is_valid_tname (fst e) = true /\
                   ~ In (fst e) CREATE_TABLE_EXTRA_RESERVED /\
                   snd e = mktable (fst e) (t_cols (snd e)) long) (k_tabs k) /\
  Forall (fun e => t_cols (snd e) <> [] /\ nlen (t_cols (snd e)) <= MAX_NUM_TABLE_COLUMNS /\
                   first_dup_or_bad (t_cols (snd e)) [] = true /\
                   rows_fit (Some (validation_table long)) (validation_rows (fst e) (t_cols (snd e))) = Ok true /\
                   rows_fit (Some (columns_table long)) (columns_rows (fst e) (t_cols (snd e))) = Ok true)
         (user_tabs k).

Lemma tabs_wf_pre k : tabs_wf k -> tabs_pre k.
Proof. intros (A & B & C & _ & D & E). repeat split; assumption. Qed.
Lemma tabs_pre_wf k : tabs_pre k ->
  find_table (k_tabs k) VALIDATION_TABLE_NAME = Some (validation_table (p_long (k_pool k))) -> tabs_wf k.
Proof. intros (A & B & C & D & E) F. repeat split; assumption. Qed.

Lemma user_facts_pre k : tabs_pre k ->
  StronglySorted tlt (user_tabs k) /\
  (forall e, In e (user_tabs k) -> In e (k_tabs k) /\ is_core (fst e) = false /\ user_ok (p_long (k_pool k)) e).
Proof.
  intros (S & _ & _ & F1 & F2). split.
  - unfold user_tabs. apply SS_filter. exact S.
  - intros e He. rewrite Forall_forall in F1, F2. destruct (F2 e He) as (A & _ & B & C & _).
    unfold user_tabs in He. apply filter_In in He as [He Hc]. apply negb_true_iff in Hc.
    destruct (F1 e He) as (V & _ & Esnd). destruct (valid_tname_safe _ V) as [Hne _].
    destruct (accepted_cols_storable _ _ _ B C) as [Hst Hnd].
    split; [exact He|]. split; [exact Hc|]. repeat split; assumption.
Qed.

Definition CBase (prof : profile) (k : pkg) : Prop :=
  Inv (the_db k) /\ pool_fits (k_pool k) /\ p_cp (k_pool k) = cp_utf8 /\ tabs_pre k /\
  catalog_ok prof k /\ tables_sorted_valid prof k /\ disk_ok k.

Lemma pinv2_base prof k : PInv2 prof k -> CBase prof k.
Proof.
  intros [(A & B & _ & _ & C & D & E & F & _) G]. unfold CBase.
  refine (conj A (conj G (conj B (conj (tabs_wf_pre k C) (conj D (conj E F)))))).
Qed.

Lemma catalog_names_valid :
  is_valid_tname TABLES_TABLE_NAME = true /\ is_valid_tname COLUMNS_TABLE_NAME = true /\
  is_valid_tname VALIDATION_TABLE_NAME = true.
Proof. vm_compute. repeat split. Qed.

(* ====================================================================== *)
(* 4. keys and row counts of the catalog tables                            *)
(* ====================================================================== *)
Lemma norm_str_inj a b : normalize_value (VStr a) = normalize_value (VStr b) -> a = b.
Proof. destruct a, b; cbn [normalize_value]; intros H; try discriminate; congruence. Qed.

Lemma tables_keys_nodup long (U : tables) tn trows :
  Permutation trows (map (fun e => [VStr (fst e)]) U) -> NoDup (map fst U) -> ~ In tn (map fst U) -> tn <> [] ->
  NoDup (map (key_of (tables_table long)) (trows ++ stored [[VStr tn]])).
Proof.
  intros P ND Hn Hne.
  assert (E : stored [[VStr tn]] = [[VStr tn]]).
  { unfold stored. cbn [map]. rewrite norm_str by exact Hne. reflexivity. }
  rewrite E. eapply Permutation_NoDup.
  { apply Permutation_map. apply Permutation_app_tail. apply Permutation_sym. exact P. }
  rewrite map_app, map_map. cbn [map]. rewrite key_tables.
  replace (map (fun x : str * table => key_of (tables_table long) [VStr (fst x)]) U)
    with (map (fun n => [VStr n]) (map fst U)).
  2:{ rewrite map_map. apply map_ext. intros e. rewrite key_tables. reflexivity. }
  change [[VStr tn]] with (map (fun n => [VStr n]) [tn]). rewrite <- map_app.
  apply FinFun.Injective_map_NoDup.
  - intros a b H. inversion H. reflexivity.
  - apply NoDup_app_intro; [exact ND | constructor; [intros [] | constructor] |].
    intros x Hx [<-|[]]. exact (Hn Hx).
Qed.

Definition gV (e : str * table) : list (list value) := stored (validation_rows (fst e) (t_cols (snd e))).
Definition gC (e : str * table) : list (list value) := stored (columns_rows (fst e) (t_cols (snd e))).

Definition kf (key : list value) : str * str :=
  match key with [VStr a; VStr b] => (a, b) | _ => ([], []) end.
Lemma vkey_kf long r : vkey r = kf (key_of (validation_table long) r).
Proof.
  unfold key_of. change (pk_indices (validation_table long)) with [0%nat; 1%nat]. unfold project, vkey. cbn [flat_map].
  destruct r as [|x [|y r]]; cbn [nth_opt app kf].
  - reflexivity.
  - destruct x; reflexivity.
  - destruct x as [| |a]; try reflexivity; destruct y; reflexivity.
Qed.

Lemma validation_keys_nodup long (U : tables) tn cols vrows :
  Permutation vrows (List.concat (map gV U)) ->
  NoDup (map fst U) -> ~ In tn (map fst U) ->
  (forall e, In e U -> fst e <> [] /\ Forall (fun c => c_name c <> []) (t_cols (snd e)) /\
                       NoDup (map c_name (t_cols (snd e)))) ->
  tn <> [] -> Forall (fun c => c_name c <> []) cols -> NoDup (map c_name cols) ->
  NoDup (map (key_of (validation_table long)) (vrows ++ stored (validation_rows tn cols))).
Proof.
  intros P ND Hn HU Hne Hcn Hcd.
  set (U' := U ++ [(tn, mktable tn cols long)]).
  assert (P' : Permutation (vrows ++ stored (validation_rows tn cols)) (List.concat (map gV U'))).
  { unfold U'. rewrite map_app, concat_app. cbn [map List.concat]. rewrite app_nil_r.
    apply Permutation_app_tail. exact P. }
  assert (HU' : forall e, In e U' -> fst e <> [] /\ Forall (fun c => c_name c <> []) (t_cols (snd e)) /\
                                     NoDup (map c_name (t_cols (snd e)))).
  { intros e He. unfold U' in He. apply in_app_or in He as [He|[<-|[]]]; [apply HU; exact He|].
    cbn [fst snd t_cols]. auto. }
  assert (ND' : NoDup (map fst U')).
  { unfold U'. rewrite map_app. cbn [map fst]. apply NoDup_app_intro; [exact ND | constructor; [intros [] | constructor] |].
    intros x Hx [<-|[]]. exact (Hn Hx). }
  eapply Permutation_NoDup; [apply Permutation_map; apply Permutation_sym; exact P'|].
  apply (NoDup_map_inv kf). rewrite map_map.
  replace (map (fun x => kf (key_of (validation_table long) x)) (List.concat (map gV U')))
    with (map vkey (List.concat (map gV U'))) by (apply map_ext; intros r; apply vkey_kf).
  unfold gV. rewrite map_vkey_validation.
  - apply vkeys_nodup; [exact ND'|]. intros e He. apply (HU' e He).
  - intros e He. destruct (HU' e He) as (A & B & _). auto.
Qed.

Lemma nlen_gV e : nlen (gV e) = nlen (t_cols (snd e)).
Proof. unfold gV, stored. rewrite validation_rows_eq. unfold nlen. rewrite !map_length. reflexivity. Qed.
Lemma nlen_gC e : nlen (gC e) = nlen (t_cols (snd e)).
Proof. unfold gC, stored. rewrite columns_rows_eq. unfold nlen. rewrite !map_length, enumerate_length. reflexivity. Qed.

Lemma catalog_counts (U : tables) : (forall e, In e U -> t_cols (snd e) <> []) ->
  nlen (List.concat (map gV U)) = nlen (List.concat (map gC U)) /\ nlen U <= nlen (List.concat (map gC U)).
Proof.
  induction U as [|e U IH]; intros H; [split; [reflexivity | cbn; lia]|].
  destruct IH as [IH1 IH2]; [intros x Hx; apply H; right; exact Hx|].
  cbn [map List.concat]. rewrite !TableProofs.nlen_app, nlen_gV, nlen_gC, QueryProofs.nlen_cons.
  assert (0 < nlen (t_cols (snd e))).
  { specialize (H e (or_introl eq_refl)). destruct (t_cols (snd e)); [congruence|]. rewrite QueryProofs.nlen_cons. lia. }
  split; lia.
Qed.

Lemma rmapM_length {A B} (f : A -> res B) : forall l vs, rmapM f l = Ok vs -> length vs = length l.
Proof.
  induction l as [|a l IH]; intros vs H; cbn [rmapM] in H; [inversion H; reflexivity|].
  destruct (f a) as [b| |]; cbn [rbind] in H; try discriminate.
  destruct (rmapM f l) as [bs| |]; cbn [rbind] in H; try discriminate.
  inversion H. cbn [length]. rewrite (IH bs eq_refl). reflexivity.
Qed.

(* a successful INSERT stayed within the row limit *)
Lemma insert_ok_limit prof c p ts tn t rows c' p' old :
  exec_insert prof c p ts tn rows = Ok (c', p') -> find_table ts tn = Some t ->
  tvals prof (mkdb c p ts) t = Ok old -> nlen old + nlen rows <= 65536.
Proof.
  intros H Hf Htv. destruct (exec_insert_sorted _ _ _ _ _ _ _ _ H) as (t0 & old_r & m' & Hf0 & Hl & _ & Hn & Hlim & _).
  rewrite Hf in Hf0. inversion Hf0; subst t0.
  unfold tvals in Htv. cbn [d_cont d_pool] in Htv. rewrite Hl in Htv. cbn [rbind] in Htv.
  apply rmapM_length in Htv. unfold nlen in *. rewrite Htv. lia.
Qed.

(* ====================================================================== *)
(* 5. create_table, unfolded                                               *)
(* ====================================================================== *)
Definition create_tail (prof : profile) (k : pkg) (tname : str) (cols : list column) : pkg * res unit :=
  let '(k1, r1) := pkg_insert prof k COLUMNS_TABLE_NAME (columns_rows tname cols) in
  match r1 with Ok _ =>
    let '(k2, r2) := pkg_insert prof k1 TABLES_TABLE_NAME [[VStr tname]] in
    match r2 with Ok _ =>
      let k3 := with_tabs k2 (tables_insert (k_tabs k2) tname (mktable tname cols (p_long (k_pool k2)))) in
      match find_table (k_tabs k3) VALIDATION_TABLE_NAME with
      | Some _ => pkg_insert prof k3 VALIDATION_TABLE_NAME (validation_rows tname cols)
      | None => (k3, Ok tt)
      end
    | e => (k2, e) end
  | e => (k1, e) end.

Definition checks_pass (k : pkg) (tn : str) (cols : list column) : Prop :=
  is_valid_tname tn = true /\ ~ In tn CREATE_TABLE_EXTRA_RESERVED /\ cols <> [] /\
  nlen cols <= MAX_NUM_TABLE_COLUMNS /\ first_dup_or_bad cols [] = true /\ find_table (k_tabs k) tn = None /\
  rows_fit (find_table (k_tabs k) COLUMNS_TABLE_NAME) (columns_rows tn cols) = Ok true /\
  rows_fit (find_table (k_tabs k) TABLES_TABLE_NAME) [[VStr tn]] = Ok true /\
  vrows_fit tn (find_table (k_tabs k) VALIDATION_TABLE_NAME) (validation_rows tn cols) = Ok true.

Lemma create_table_cases prof k tn cols k' r :
  pkg_create_table prof k tn cols = (k', r) ->
  (k' = k /\ r <> Ok tt) \/ (checks_pass k tn cols /\ create_tail prof k tn cols = (k', r)).
Proof.
  unfold pkg_create_table, pkg_create_table_with, checks_pass.
  destruct (is_valid_tname tn) eqn:E1; cbn [negb]; [|early].
  destruct (existsb (str_eqb tn) CREATE_TABLE_EXTRA_RESERVED) eqn:E2; [early|].
  destruct cols as [|c0 cols0]; [early|].
  assert (Ene : c0 :: cols0 <> []) by discriminate.
  remember (c0 :: cols0) as cols eqn:Ecols. clear Ecols.
  destruct (MAX_NUM_TABLE_COLUMNS <? nlen cols) eqn:E3; [early|].
  destruct (existsb c_pk cols); cbn [negb]; [|early].
  destruct (first_dup_or_bad cols []) eqn:E5; cbn [negb]; [|early].
  destruct (find_table (k_tabs k) tn) eqn:E6; [early|].
  cbv zeta.
  destruct (rows_fit (find_table (k_tabs k) COLUMNS_TABLE_NAME) _) as [[|]| |] eqn:F1;
  try (destruct (rows_fit (find_table (k_tabs k) TABLES_TABLE_NAME) _) as [[|]| |] eqn:F2);
  try (destruct (vrows_fit tn (find_table (k_tabs k) VALIDATION_TABLE_NAME) _) as [[|]| |] eqn:F3);
  try early.
  destruct (if CREATE_TABLE_DRY_RUNS then _ else _) as [ud| |]; [|early|early].
  intros H. right. split.
  - split; [reflexivity|]. split; [|split; [exact Ene|]].
    + intros Hin. apply existsb_str_In in Hin. congruence.
    + apply N.ltb_ge in E3. repeat split; assumption.
  - exact H.
Qed.

Lemma pkg_insert_eq prof k t rows :
  pkg_insert prof k t rows = op_res (set_finisher k) (exec_insert prof (k_cont k) (k_pool k) (k_tabs k) t rows).
Proof. reflexivity. Qed.

(* ====================================================================== *)
(* 6. the first two inserts                                                *)
(* ====================================================================== *)
Section Steps.
  Variables (prof : profile) (k : pkg) (tn : str) (cols : list column).
  Let long := p_long (k_pool k).
  Let ts := k_tabs k.
  Let U := user_tabs k.
  Hypothesis HB : CBase prof k.
  Hypothesis HV : is_valid_tname tn = true.
  Hypothesis Hne : cols <> [].
  Hypothesis Hdup : first_dup_or_bad cols [] = true.
  Hypothesis Hnew : find_table ts tn = None.
  Hypothesis HfitC : rows_fit (Some (columns_table long)) (columns_rows tn cols) = Ok true.
  Hypothesis HfitT : rows_fit (Some (tables_table long)) [[VStr tn]] = Ok true.
  Variables (trows crows vrows : list (list value)).
  Hypothesis HtT : tvals prof (the_db k) (tables_table long) = Ok trows.
  Hypothesis HpT : Permutation trows (map (fun e => [VStr (fst e)]) U).
  Hypothesis HtC : tvals prof (the_db k) (columns_table long) = Ok crows.
  Hypothesis HpC : Permutation crows (List.concat (map gC U)).
  Hypothesis HtV : tvals prof (the_db k) (validation_table long) = Ok vrows.
  Hypothesis HpV : Permutation vrows (List.concat (map gV U)).

  Lemma base_find : find_table ts TABLES_TABLE_NAME = Some (tables_table long) /\
                    find_table ts COLUMNS_TABLE_NAME = Some (columns_table long).
  Proof. destruct HB as (_ & _ & _ & (_ & A & B & _) & _). split; assumption. Qed.

  Lemma sorted_valid_of n t vals : find_table ts n = Some t -> tvals prof (the_db k) t = Ok vals ->
    sorted_by_key t vals /\ rows_valid t vals.
  Proof.
    intros Hf Htv. destruct HB as (_ & _ & _ & _ & _ & Hsv & _). unfold tables_sorted_valid in Hsv.
    rewrite Forall_forall in Hsv. destruct (Hsv _ (find_table_in _ _ _ Hf)) as (v & A & B & C). cbn [snd] in *.
    rewrite Htv in A. inversion A; subst v. split; assumption.
  Qed.

  Lemma tn_not_user : ~ In tn (map fst U).
  Proof.
    intros Hin. apply in_map_iff in Hin as (e & E & He). unfold U, user_tabs in He. apply filter_In in He as [He _].
    exact (find_table_none_notin _ _ Hnew e He E).
  Qed.
  Lemma tn_nonempty : tn <> [].
  Proof. apply (valid_tname_safe tn HV). Qed.

  Lemma user_count : nlen trows <= nlen crows /\ nlen vrows = nlen crows.
  Proof.
    destruct HB as (_ & _ & _ & Hpre & _). destruct (user_facts_pre k Hpre) as [_ HU].
    destruct (catalog_counts U) as [A B].
    { intros e He. destruct (HU e He) as (_ & _ & (_ & C & _)). exact C. }
    rewrite (nlen_perm _ _ HpT), (nlen_perm _ _ HpC), (nlen_perm _ _ HpV), nlen_map. split; [exact B | exact A].
  Qed.

  Variables (c1 : container) (p1 : pool).
  Hypothesis E1 : exec_insert prof (k_cont k) (k_pool k) ts COLUMNS_TABLE_NAME (columns_rows tn cols) = Ok (c1, p1).

  Lemma step1 :
    Inv (mkdb c1 p1 ts) /\ pool_fits p1 /\ pool_keep (k_pool k) p1 /\ cont_only [COLUMNS_TABLE_NAME] (k_cont k) c1 /\
    (exists new1, tvals prof (mkdb c1 p1 ts) (columns_table long) = Ok new1 /\
       Permutation new1 (crows ++ gC (tn, mktable tn cols long)) /\
       sorted_by_key (columns_table long) new1 /\ rows_valid (columns_table long) new1) /\
    (forall n' t', In (n', t') ts -> n' <> COLUMNS_TABLE_NAME ->
       tvals prof (mkdb c1 p1 ts) t' = tvals prof (the_db k) t') /\
    nlen crows + nlen cols <= 65536.
  Proof.
    destruct base_find as [HfT HfC]. pose proof HB as (HInv & Hfit & _).
    destruct catalog_names_valid as (VT & VC & VV).
    destruct (insert_step prof (k_cont k) (k_pool k) ts COLUMNS_TABLE_NAME (columns_table long) (columns_rows tn cols) c1 p1
                HInv Hfit (crow_storable long tn cols HV Hdup HfitC) HfC VC eq_refl E1)
      as (A & B & C & D & (old & new & Ho & Hn & Hp & Hs & Hv) & F).
    change (mkdb (k_cont k) (k_pool k) ts) with (the_db k) in *.
    rewrite HtC in Ho. inversion Ho; subst old.
    refine (conj A (conj B (conj C (conj D (conj _ (conj F _)))))).
    - exists new. split; [exact Hn|]. split; [exact Hp|]. split; [exact Hs|]. apply Hv.
      apply (sorted_valid_of _ _ _ HfC HtC).
    - pose proof (insert_ok_limit _ _ _ _ _ _ _ _ _ _ E1 HfC HtC) as L.
      rewrite columns_rows_eq in L. unfold nlen in L. rewrite map_length, enumerate_length in L. exact L.
  Qed.

  (* the second insert cannot fail with Err *)
  Lemma step2_noerr : exec_insert prof c1 p1 ts TABLES_TABLE_NAME [[VStr tn]] <> Err.
  Proof.
    destruct base_find as [HfT HfC]. destruct step1 as (A & B & _ & _ & _ & F & L).
    pose proof HB as (_ & _ & _ & Hpre & _). destruct (user_facts_pre k Hpre) as [HS HU].
    apply (exec_insert_noerr prof (mkdb c1 p1 ts) TABLES_TABLE_NAME (tables_table long) [[VStr tn]] trows A B
             (find_table_in _ _ _ HfT) HfT).
    - rewrite (F _ _ (find_table_in _ _ _ HfT)) by discriminate. exact HtT.
    - apply rows_fit_validate. exact HfitT.
    - apply (tables_keys_nodup long U tn trows HpT (sorted_names_nodup _ HS) tn_not_user tn_nonempty).
    - destruct user_count as [C _]. change (nlen [[VStr tn]]) with 1.
      assert (0 < nlen cols) by (destruct cols; [congruence | rewrite QueryProofs.nlen_cons; lia]). lia.
  Qed.

  Variables (c2 : container) (p2 : pool).
  Hypothesis E2 : exec_insert prof c1 p1 ts TABLES_TABLE_NAME [[VStr tn]] = Ok (c2, p2).

  Lemma step2 :
    Inv (mkdb c2 p2 ts) /\ pool_fits p2 /\ pool_keep (k_pool k) p2 /\
    cont_only [COLUMNS_TABLE_NAME; TABLES_TABLE_NAME] (k_cont k) c2 /\
    (exists new1, tvals prof (mkdb c2 p2 ts) (columns_table long) = Ok new1 /\
       Permutation new1 (crows ++ gC (tn, mktable tn cols long)) /\
       sorted_by_key (columns_table long) new1 /\ rows_valid (columns_table long) new1) /\
    (exists new2, tvals prof (mkdb c2 p2 ts) (tables_table long) = Ok new2 /\
       Permutation new2 (trows ++ [[VStr tn]]) /\
       sorted_by_key (tables_table long) new2 /\ rows_valid (tables_table long) new2) /\
    (forall n' t', In (n', t') ts -> n' <> COLUMNS_TABLE_NAME -> n' <> TABLES_TABLE_NAME ->
       tvals prof (mkdb c2 p2 ts) t' = tvals prof (the_db k) t').
  Proof.
    destruct base_find as [HfT HfC]. destruct step1 as (A & B & C & D & (new1 & N1 & P1 & S1 & V1) & F & L).
    destruct catalog_names_valid as (VT & VC & VV).
    destruct (insert_step prof c1 p1 ts TABLES_TABLE_NAME (tables_table long) [[VStr tn]] c2 p2
                A B (trow_storable long tn HV HfitT) HfT VT eq_refl E2)
      as (A2 & B2 & C2 & D2 & (old & new & Ho & Hn & Hp & Hs & Hv) & F2).
    rewrite (F _ _ (find_table_in _ _ _ HfT)) in Ho by discriminate. rewrite HtT in Ho. inversion Ho; subst old.
    refine (conj A2 (conj B2 (conj (pool_keep_trans _ _ _ C C2) (conj _ (conj _ (conj _ _)))))).
    - eapply cont_only_trans; (eapply cont_only_mono; [|eassumption]); intros x [<-|[]]; [left | right; left]; reflexivity.
    - exists new1. rewrite (F2 _ _ (find_table_in _ _ _ HfC)) by discriminate. auto.
    - exists new. split; [exact Hn|]. split; [|split; [exact Hs|]].
      + unfold stored in Hp. cbn [map] in Hp. rewrite norm_str in Hp by exact tn_nonempty. exact Hp.
      + apply Hv. apply (sorted_valid_of _ _ _ HfT HtT).
    - intros n' t' Hin H1 H2. rewrite (F2 _ _ Hin H2). apply (F _ _ Hin H1).
  Qed.

  (* the third insert cannot fail with Err (into the table map as it was: the new table is not the target) *)
  Lemma step3_noerr :
    find_table ts VALIDATION_TABLE_NAME = Some (validation_table long) ->
    rows_fit (Some (validation_table long)) (validation_rows tn cols) = Ok true ->
    exec_insert prof c2 p2 ts VALIDATION_TABLE_NAME (validation_rows tn cols) <> Err.
  Proof.
    intros HfV HfitV. destruct step1 as (_ & _ & _ & _ & _ & _ & L).
    destruct step2 as (A & B & _ & _ & _ & _ & F).
    pose proof HB as (_ & _ & _ & Hpre & _). destruct (user_facts_pre k Hpre) as [HS HU].
    destruct (accepted_cols_storable tn long cols Hdup HfitV) as [Hst Hnd].
    apply (exec_insert_noerr prof (mkdb c2 p2 ts) VALIDATION_TABLE_NAME (validation_table long) (validation_rows tn cols)
             vrows A B (find_table_in _ _ _ HfV) HfV).
    - rewrite (F _ _ (find_table_in _ _ _ HfV)) by discriminate. exact HtV.
    - apply rows_fit_validate. exact HfitV.
    - apply (validation_keys_nodup long U tn cols vrows HpV (sorted_names_nodup _ HS) tn_not_user).
      + intros e He. destruct (HU e He) as (_ & _ & (X1 & _ & X3 & X4 & _)).
        split; [exact X1|]. split; [apply storable_names; exact X3 | exact X4].
      + exact tn_nonempty.
      + apply storable_names. exact Hst.
      + exact Hnd.
    - destruct user_count as [_ C]. rewrite validation_rows_eq. unfold nlen at 2. rewrite map_length.
      fold (nlen cols). lia.
  Qed.
End Steps.

(* ====================================================================== *)
(* 7. create_table_err                                                     *)
(* ====================================================================== *)
Lemma same_obs_refl prof k : same_obs prof k k.
Proof. repeat split. Qed.

Lemma create_tail_err prof k tn cols k' :
  PInv2 prof k -> checks_pass k tn cols -> create_tail prof k tn cols = (k', Err) -> k' = set_finisher k.
Proof.
  intros HP (HV & Hres & Hne & Hmax & Hdup & Hnew & F1 & F2 & F3) H.
  pose proof (pinv2_base prof k HP) as HB.
  pose proof HP as [(_ & _ & _ & _ & (_ & HfT & HfC & HfV & _) & (trows & crows & vrows & T1 & P1 & T2 & P2 & T3 & P3) & _) _].
  rewrite HfC in F1. rewrite HfT in F2. rewrite HfV in F3.
  assert (Hvn : VALIDATION_TABLE_NAME <> tn).
  { intros <-. rewrite HfV in Hnew. discriminate. }
  unfold create_tail in H. rewrite pkg_insert_eq in H.
  destruct (exec_insert prof (k_cont k) (k_pool k) (k_tabs k) COLUMNS_TABLE_NAME (columns_rows tn cols))
    as [[c1 p1]| |] eqn:E1; cbn [op_res] in H; [|inversion H; reflexivity | discriminate H].
  rewrite pkg_insert_eq in H. cbn [with_cp set_finisher k_cont k_pool k_tabs k_type k_sum k_sum_mod k_fin] in H.
  assert (N2 : exec_insert prof c1 p1 (k_tabs k) TABLES_TABLE_NAME [[VStr tn]] <> Err)
    by (eapply step2_noerr; eassumption).
  destruct (exec_insert prof c1 p1 (k_tabs k) TABLES_TABLE_NAME [[VStr tn]]) as [[c2 p2]| |] eqn:E2; cbn [op_res] in H;
    [|contradiction | discriminate H].
  cbv zeta in H. cbn [with_tabs with_cp set_finisher k_cont k_pool k_tabs k_type k_sum k_sum_mod k_fin] in H.
  rewrite (find_table_insert_other _ _ _ _ Hvn), HfV in H.
  rewrite pkg_insert_eq in H. cbn [k_cont k_pool k_tabs] in H.
  rewrite (exec_insert_tabs prof c2 p2 (k_tabs k)) in H by (apply find_table_insert_other; exact Hvn).
  assert (N3 : exec_insert prof c2 p2 (k_tabs k) VALIDATION_TABLE_NAME (validation_rows tn cols) <> Err)
    by (eapply step3_noerr; eassumption).
  destruct (exec_insert prof c2 p2 (k_tabs k) VALIDATION_TABLE_NAME (validation_rows tn cols)) as [[c3 p3]| |];
    cbn [op_res] in H; [discriminate H | contradiction | discriminate H].
Qed.

(* C04 for create_table, as stated in the goal file: an Err answer leaves the package as it was
   (the only thing that may differ is the armed finisher) -- in particular no half-created table *)
Theorem create_table_err : forall prof k tn cols k',
  PInv2 prof k -> pkg_create_table prof k tn cols = (k', Err) ->
  PInv2 prof k' /\ same_obs prof k k' /\ k_pool k' = k_pool k /\ k_cont k' = k_cont k.
Proof.
  intros prof k tn cols k' HP H.
  assert (Hk : k' = k \/ k' = set_finisher k).
  { apply create_table_cases in H as [[-> _]|[Hc Ht]]; [left; reflexivity|]. right. eapply create_tail_err; eassumption. }
  destruct Hk as [-> | ->].
  - split; [exact HP|]. split; [apply same_obs_refl|]. split; reflexivity.
  - destruct HP as [HP Hlen].
    destruct (frame_inv prof k (set_finisher k) HP eq_refl eq_refl eq_refl) as [A B].
    + repeat split.
    + apply cont_frame_refl.
    + destruct HP as (_ & _ & _ & _ & _ & _ & _ & D & _). exact D.
    + apply fin_flags_ok. reflexivity.
    + split; [split; [exact A | exact Hlen]|]. split; [exact B|]. split; reflexivity.
Qed.

(* ====================================================================== *)
(* 8. create_total                                                         *)
(* ====================================================================== *)
Theorem create_total : forall prof t, exists k, pkg_create prof t = Ok k.
Proof.
  intros prof t. assert (H : is_ok (pkg_create prof t) = true) by (destruct prof, t; vm_compute; reflexivity).
  destruct (pkg_create prof t) as [k| |]; [eauto | discriminate H | discriminate H].
Qed.

(* ====================================================================== *)
(* 9. what the container keeps                                             *)
(* ====================================================================== *)
Lemma catalog_names_free : forall m, In m [COLUMNS_TABLE_NAME; TABLES_TABLE_NAME; VALIDATION_TABLE_NAME] ->
  is_valid_tname m = true /\ ~ In m CREATE_TABLE_EXTRA_RESERVED.
Proof.
  destruct catalog_names_valid as (VT & VC & VV).
  intros m [<-|[<-|[<-|[]]]]; (split; [assumption|]); intros [H|[H|[]]]; discriminate H.
Qed.

Lemma cont_only_table S c c' n : cont_only S c c' -> is_valid_tname n = true ->
  (forall m, In m S -> is_valid_tname m = true /\ m <> n) ->
  ct_find (ct_entries c') (sn_encode n true) = ct_find (ct_entries c) (sn_encode n true).
Proof.
  intros (_ & _ & H) V HS. apply H. intros m Hm. destruct (HS m Hm) as [Vm Hne].
  apply table_streams_distinct; [exact V | exact Vm | congruence].
Qed.
Lemma cont_only_user S c c' n : cont_only S c c' -> sn_is_valid n false = true ->
  ct_find (ct_entries c') (sn_encode n false) = ct_find (ct_entries c) (sn_encode n false).
Proof. intros (_ & _ & H) V. apply H. intros m _. apply stream_not_table. exact V. Qed.
Lemma cont_only_saved S c c' s : cont_only S c c' ->
  (forall m, In m S -> is_valid_tname m = true /\ ~ In m CREATE_TABLE_EXTRA_RESERVED) ->
  In s saved_names -> ct_find (ct_entries c') s = ct_find (ct_entries c) s.
Proof.
  intros (_ & _ & H) HS Hs. apply H. intros m Hm. destruct (HS m Hm) as [Vm Rm].
  destruct (table_stream_special3 m Vm Rm) as (A & B & C). rewrite StreamProofs.name_eqb_sym.
  destruct Hs as [<-|[<-|[<-|[]]]]; assumption.
Qed.

(* ====================================================================== *)
(* 10. the extra clause of the invariant                                    *)
(* ====================================================================== *)
(* PInv2 does not say that the container holds no table stream without a table.  Such a stream (it can only come
   from a file not written by this library: drop_table removes the stream, and no stream operation can create
   one -- but pkg_open accepts such a file) would become the content of a table created later under that name:
   CreateTableCex.G_create_table_ok_false. *)
Definition no_orphans (k : pkg) : Prop :=
  forall n, is_valid_tname n = true -> ~ In n CREATE_TABLE_EXTRA_RESERVED -> find_table (k_tabs k) n = None ->
    ct_find (ct_entries (k_cont k)) (sn_encode n true) = None.
Definition PInv3 (prof : profile) (k : pkg) : Prop := PInv2 prof k /\ no_orphans k.

(* ====================================================================== *)
(* 11. a successful create_table                                           *)
(* ====================================================================== *)
Lemma create_tail_ok prof k tn cols k' :
  CBase prof k -> ct_find (ct_entries (k_cont k)) (sn_encode tn true) = None ->
  is_valid_tname tn = true -> ~ In tn CREATE_TABLE_EXTRA_RESERVED -> cols <> [] ->
  nlen cols <= MAX_NUM_TABLE_COLUMNS -> first_dup_or_bad cols [] = true -> find_table (k_tabs k) tn = None ->
  rows_fit (Some (columns_table (p_long (k_pool k)))) (columns_rows tn cols) = Ok true ->
  rows_fit (Some (tables_table (p_long (k_pool k)))) [[VStr tn]] = Ok true ->
  rows_fit (Some (validation_table (p_long (k_pool k)))) (validation_rows tn cols) = Ok true ->
  find_table (tables_insert (k_tabs k) tn (mktable tn cols (p_long (k_pool k)))) VALIDATION_TABLE_NAME =
    Some (validation_table (p_long (k_pool k))) ->
  enums_scalar cols ->
  create_tail prof k tn cols = (k', Ok tt) ->
  CBase prof k' /\ (no_orphans k -> no_orphans k') /\ tabs_wf k' /\ k_fin k' = true /\
  k_tabs k' = tables_insert (k_tabs k) tn (mktable tn cols (p_long (k_pool k))) /\
  p_long (k_pool k') = p_long (k_pool k) /\
  (tn <> VALIDATION_TABLE_NAME -> tvals prof (the_db k') (mktable tn cols (p_long (k_pool k))) = Ok []) /\
  (forall e, In e (k_tabs k) -> is_core (fst e) = false -> fst e <> VALIDATION_TABLE_NAME ->
     tvals prof (the_db k') (snd e) = tvals prof (the_db k) (snd e)) /\
  k_type k' = k_type k /\ k_sum k' = k_sum k /\ k_sum_mod k' = k_sum_mod k /\ pkg_streams k' = pkg_streams k /\
  (forall n, sn_is_valid n false = true ->
     ct_find (ct_entries (k_cont k')) (sn_encode n false) = ct_find (ct_entries (k_cont k)) (sn_encode n false)).
Proof.
  intros HB Habs0 HV Hres Hne Hmax Hdup Hnew F1 F2 F3 Hv Hen H.
  set (long := p_long (k_pool k)) in *. set (ts := k_tabs k) in *.
  set (newt := mktable tn cols long) in *. set (ts' := tables_insert ts tn newt) in *.
  set (ct := columns_table long) in *. set (tt' := tables_table long) in *. set (vt := validation_table long) in *.
  pose proof HB as (HInv & Hfit & Hcp & Hpre & (trows & crows & vrows & T1 & P1 & T2 & P2 & T3 & P3) & Hsv & Hdisk).
  fold long in T1, T2, T3. fold ct in T2. fold tt' in T1. fold vt in T3.
  pose proof Hpre as (HS & HfT & HfC & HFv & HFu). fold long in HfT, HfC, HFv, HFu. fold ts in HS, HfT, HfC, HFv.
  fold ct in HfC. fold tt' in HfT.
  destruct (user_facts_pre k Hpre) as [HUS HU].
  destruct catalog_names_valid as (VT & VC & VV).
  assert (HnT : tn <> TABLES_TABLE_NAME) by (intros ->; unfold ts in *; congruence).
  assert (HnC : tn <> COLUMNS_TABLE_NAME) by (intros ->; unfold ts in *; congruence).
  assert (Hcore : is_core tn = false).
  { unfold is_core. rewrite (str_eqb_neq _ _ HnT), (str_eqb_neq _ _ HnC). reflexivity. }
  (* run the three inserts *)
  unfold create_tail in H. rewrite pkg_insert_eq in H. fold ts in H.
  destruct (exec_insert prof (k_cont k) (k_pool k) ts COLUMNS_TABLE_NAME (columns_rows tn cols))
    as [[c1 p1]| |] eqn:E1; cbn [op_res] in H; [|discriminate H | discriminate H].
  rewrite pkg_insert_eq in H. cbn [with_cp set_finisher k_cont k_pool k_tabs k_type k_sum k_sum_mod k_fin] in H. fold ts in H.
  destruct (exec_insert prof c1 p1 ts TABLES_TABLE_NAME [[VStr tn]]) as [[c2 p2]| |] eqn:E2; cbn [op_res] in H;
    [|discriminate H | discriminate H].
  cbv zeta in H. cbn [with_tabs with_cp set_finisher k_cont k_pool k_tabs k_type k_sum k_sum_mod k_fin] in H. fold ts in H.
  assert (S2 : Inv (mkdb c2 p2 ts) /\ pool_fits p2 /\ pool_keep (k_pool k) p2 /\
    cont_only [COLUMNS_TABLE_NAME; TABLES_TABLE_NAME] (k_cont k) c2 /\
    (exists new1, tvals prof (mkdb c2 p2 ts) ct = Ok new1 /\
       Permutation new1 (crows ++ gC (tn, newt)) /\ sorted_by_key ct new1 /\ rows_valid ct new1) /\
    (exists new2, tvals prof (mkdb c2 p2 ts) tt' = Ok new2 /\
       Permutation new2 (trows ++ [[VStr tn]]) /\ sorted_by_key tt' new2 /\ rows_valid tt' new2) /\
    (forall n' t', In (n', t') ts -> n' <> COLUMNS_TABLE_NAME -> n' <> TABLES_TABLE_NAME ->
       tvals prof (mkdb c2 p2 ts) t' = tvals prof (the_db k) t')).
  { eapply step2; eassumption. }
  destruct S2 as (Inv2 & Fit2 & Keep2 & Cont2 & (new1 & N1 & PN1 & SN1 & VN1) & (new2 & N2 & PN2 & SN2 & VN2) & Fr2).
  assert (Hl2 : p_long p2 = long) by (destruct Keep2 as (_ & A & _); exact A).
  rewrite Hl2 in H. fold newt in H. fold ts' in H. rewrite Hv in H.
  rewrite pkg_insert_eq in H. cbn [with_tabs with_cp set_finisher k_cont k_pool k_tabs k_type k_sum k_sum_mod k_fin] in H.
  destruct (exec_insert prof c2 p2 ts' VALIDATION_TABLE_NAME (validation_rows tn cols)) as [[c3 p3]| |] eqn:E3;
    cbn [op_res] in H; [|discriminate H | discriminate H].
  unfold with_cp, set_finisher, with_tabs in H. cbn [k_cont k_pool k_tabs k_type k_sum k_sum_mod k_fin] in H.
  inversion H as [Hk']. clear H.
  (* the new table has no stream yet *)
  assert (Habs2 : ct_find (ct_entries c2) (stream_name_of newt) = None).
  { unfold stream_name_of, newt. cbn [t_name]. rewrite <- Habs0. apply (cont_only_table _ _ _ _ Cont2 HV).
    intros m [<-|[<-|[]]]; split; congruence. }
  assert (Hnames : forall e, In e ts -> is_valid_tname (fst e) = true /\ ~ In (fst e) CREATE_TABLE_EXTRA_RESERVED /\
                                    stream_name_of (snd e) = sn_encode (fst e) true /\ fst e <> tn).
  { intros e He. rewrite Forall_forall in HFv. destruct (HFv e He) as (A & B & C).
    split; [exact A|]. split; [exact B|]. split; [rewrite C; reflexivity|].
    apply (find_table_none_notin _ _ Hnew e He). }
  assert (Inv2' : Inv (mkdb c2 p2 ts')).
  { apply inv_extend; try assumption; try reflexivity.
    - unfold newt. cbn [t_long]. symmetry. exact Hl2.
    - intros Hin. apply in_map_iff in Hin as (e & Ee & He). destruct (Hnames e He) as (A & _ & C & D).
      rewrite C in Ee. unfold stream_name_of, newt in Ee. cbn [t_name] in Ee.
      pose proof (table_streams_distinct _ _ A HV D) as X. apply InsertRefine.name_eqb_false in X. contradiction. }
  (* the third insert *)
  destruct (insert_step prof c2 p2 ts' VALIDATION_TABLE_NAME vt (validation_rows tn cols) c3 p3
              Inv2' Fit2 (vrow_storable long tn cols HV Hdup Hen F3) Hv VV eq_refl E3)
    as (Inv3 & Fit3 & Keep23 & Cont23 & (old3 & new3 & O3 & N3 & PN3 & SN3 & VN3) & Fr3).
  assert (Keep3 : pool_keep (k_pool k) p3) by (eapply pool_keep_trans; eassumption).
  assert (Hl3 : p_long p3 = long) by (destruct Keep3 as (_ & A & _); exact A).
  assert (Cont3 : cont_only [COLUMNS_TABLE_NAME; TABLES_TABLE_NAME; VALIDATION_TABLE_NAME] (k_cont k) c3).
  { eapply cont_only_trans; (eapply cont_only_mono; [|eassumption]).
    - intros x [<-|[<-|[]]]; [left | right; left]; reflexivity.
    - intros x [<-|[]]. right; right; left; reflexivity. }
  (* the old rows of _Validation *)
  assert (Hold : tvals prof (mkdb c2 p2 ts) vt = Ok vrows /\ rows_valid vt vrows /\
                 (tn = VALIDATION_TABLE_NAME -> newt = vt)).
  { destruct (find_table ts VALIDATION_TABLE_NAME) as [t0|] eqn:EfV.
    - assert (Hvn : VALIDATION_TABLE_NAME <> tn) by (intros <-; congruence).
      unfold ts' in Hv. rewrite (find_table_insert_other _ _ _ _ Hvn), EfV in Hv. inversion Hv; subst t0.
      split; [|split; [|congruence]].
      + rewrite (Fr2 _ _ (find_table_in _ _ _ EfV)) by discriminate. exact T3.
      + eapply sorted_valid_of; eassumption.
    - assert (Etn : tn = VALIDATION_TABLE_NAME).
      { destruct (list_eq_dec N.eq_dec tn VALIDATION_TABLE_NAME) as [E|E]; [exact E|].
        unfold ts' in Hv. rewrite find_table_insert_other in Hv by congruence. congruence. }
      assert (Evt : newt = vt).
      { unfold ts' in Hv. rewrite <- Etn in Hv at 1. rewrite find_table_insert_same in Hv. congruence. }
      assert (Ev0 : vrows = []).
      { rewrite <- Evt in T3. unfold tvals in T3. cbn [the_db d_cont d_pool] in T3.
        rewrite (load_rows_absent (k_cont k) newt) in T3 by exact Habs0. cbn [rbind rmapM] in T3. congruence. }
      split; [|split; [|intros _; exact Evt]].
      + rewrite <- Evt, Ev0. apply tvals_absent. exact Habs2.
      + rewrite Ev0. constructor. }
  destruct Hold as (O3' & Vold & Hnewvt).
  rewrite (tvals_tabs prof c2 p2 ts ts' vt) in O3. rewrite O3' in O3. inversion O3; subst old3. clear O3.
  specialize (VN3 Vold).
  (* tables of the old map in the new state *)
  assert (Hin' : forall e, In e ts -> In e ts').
  { intros e He. apply tables_insert_keep; [exact He | apply (Hnames e He)]. }
  assert (Fr3' : forall n' t', In (n', t') ts -> n' <> VALIDATION_TABLE_NAME ->
                   tvals prof (mkdb c3 p3 ts') t' = tvals prof (mkdb c2 p2 ts) t').
  { intros n' t' He Hn. rewrite (Fr3 n' t' (Hin' _ He) Hn). reflexivity. }
  assert (N1' : tvals prof (mkdb c3 p3 ts') ct = Ok new1).
  { rewrite (Fr3' _ _ (find_table_in _ _ _ HfC)) by discriminate. exact N1. }
  assert (N2' : tvals prof (mkdb c3 p3 ts') tt' = Ok new2).
  { rewrite (Fr3' _ _ (find_table_in _ _ _ HfT)) by discriminate. exact N2. }
  assert (Hother : forall e, In e ts -> is_core (fst e) = false -> fst e <> VALIDATION_TABLE_NAME ->
                     tvals prof (mkdb c3 p3 ts') (snd e) = tvals prof (the_db k) (snd e)).
  { intros [n' t'] He Hc Hn. cbn [fst snd] in *. rewrite (Fr3' _ _ He Hn).
    unfold is_core in Hc. apply orb_false_iff in Hc as [Hc1 Hc2].
    apply (Fr2 _ _ He); intros ->; vm_compute in Hc1, Hc2; discriminate. }
  assert (Hnewrows : tn <> VALIDATION_TABLE_NAME -> tvals prof (mkdb c3 p3 ts') newt = Ok []).
  { intros Hn. apply tvals_absent. cbn [d_cont]. rewrite <- Habs2. unfold stream_name_of, newt. cbn [t_name].
    apply (cont_only_table _ _ _ _ Cont23 HV). intros m [<-|[]]. split; congruence. }
  (* the user tables *)
  assert (PU : Permutation (filter (fun e => negb (is_core (fst e))) ts') ((tn, newt) :: user_tabs k)).
  { unfold ts'. rewrite (filter_tables_insert _ ts tn newt Hnew). cbn [fst]. rewrite Hcore. reflexivity. }
  subst k'. set (K' := mkpkg c3 (k_type k) (k_sum k) (k_sum_mod k) p3 ts' true).
  assert (HfT' : find_table ts' TABLES_TABLE_NAME = Some tt').
  { unfold ts'. rewrite find_table_insert_other by congruence. exact HfT. }
  assert (HfC' : find_table ts' COLUMNS_TABLE_NAME = Some ct).
  { unfold ts'. rewrite find_table_insert_other by congruence. exact HfC. }
  assert (Hwf' : tabs_wf K').
  { unfold tabs_wf. cbn [K' k_pool k_tabs]. rewrite Hl3.
    refine (conj _ (conj HfT' (conj HfC' (conj Hv (conj _ _))))).
    - apply tables_insert_sorted. exact HS.
    - apply Forall_forall. intros e He. apply tables_insert_in in He as [->|He].
      + cbn [fst snd]. split; [exact HV|]. split; [exact Hres | reflexivity].
      + rewrite Forall_forall in HFv. apply (HFv e He).
    - apply Forall_forall. intros e He. unfold user_tabs in He. cbn [k_tabs] in He. apply filter_In in He as [He Hc].
      apply tables_insert_in in He as [->|He].
      + cbn [fst snd newt t_cols]. repeat split; assumption.
      + rewrite Forall_forall in HFu. apply HFu. unfold user_tabs. apply filter_In. split; assumption. }
  assert (Hdb : the_db K' = mkdb c3 p3 ts') by reflexivity.
  refine (conj _ (conj _ (conj Hwf' (conj eq_refl (conj eq_refl (conj Hl3 (conj Hnewrows (conj Hother
          (conj eq_refl (conj eq_refl (conj eq_refl (conj _ _)))))))))))).
  all: cycle 2.
  - (* pkg_streams *) rewrite !pkg_streams_eq. cbn [K' k_cont]. apply Cont3.
  - (* user streams *) intros n Vn. cbn [K' k_cont]. apply (cont_only_user _ _ _ _ Cont3 Vn).
  - (* CBase *)
    unfold CBase. rewrite Hdb.
    refine (conj Inv3 (conj Fit3 (conj _ (conj (tabs_wf_pre _ Hwf') (conj _ (conj _ _)))))).
    + cbn [K' k_pool]. destruct Keep3 as (A & _). congruence.
    + (* catalog_ok *)
      unfold catalog_ok. rewrite Hdb. cbn [K' k_pool]. rewrite Hl3. fold long. exists new2, new1, new3.
      unfold user_tabs. cbn [k_tabs].
      split; [exact N2'|]. split; [|split; [exact N1'|]; split; [|split; [exact N3|]]].
      * etransitivity; [exact PN2|]. etransitivity; [|apply Permutation_map; apply Permutation_sym; exact PU].
        cbn [map fst]. rewrite P1. apply Permutation_sym, Permutation_cons_append.
      * etransitivity; [exact PN1|].
        etransitivity; [|apply (perm_concat_map gC); apply Permutation_sym; exact PU].
        cbn [map List.concat]. rewrite P2. apply Permutation_app_comm.
      * etransitivity; [exact PN3|].
        etransitivity; [|apply (perm_concat_map gV); apply Permutation_sym; exact PU].
        cbn [map List.concat]. rewrite P3. apply Permutation_app_comm.
    + (* tables_sorted_valid *)
      unfold tables_sorted_valid. rewrite Hdb. cbn [K' k_tabs]. apply Forall_forall. intros e He.
      apply tables_insert_in in He as [->|He].
      * cbn [snd]. destruct (list_eq_dec N.eq_dec tn VALIDATION_TABLE_NAME) as [E|E].
        -- rewrite (Hnewvt E). exists new3. auto.
        -- exists []. split; [apply Hnewrows; exact E|]. split; constructor.
      * destruct e as [n t]. cbn [snd]. pose proof (sorted_find _ _ _ HS He) as Hf.
        destruct (list_eq_dec N.eq_dec n COLUMNS_TABLE_NAME) as [->|EC].
        { rewrite HfC in Hf. inversion Hf. exists new1. auto. }
        destruct (list_eq_dec N.eq_dec n TABLES_TABLE_NAME) as [->|ET].
        { rewrite HfT in Hf. inversion Hf. exists new2. auto. }
        destruct (list_eq_dec N.eq_dec n VALIDATION_TABLE_NAME) as [->|EV].
        { assert (Hvn : VALIDATION_TABLE_NAME <> tn) by (intros <-; unfold ts in *; congruence).
          unfold ts' in Hv. rewrite (find_table_insert_other _ _ _ _ Hvn), Hf in Hv. inversion Hv. exists new3. auto. }
        unfold tables_sorted_valid in Hsv. rewrite Forall_forall in Hsv. destruct (Hsv _ He) as (vals & A & B & C).
        exists vals. cbn [snd] in *. split; [|split; assumption].
        rewrite <- A. apply (Hother (n, t) He); [|exact EV].
        unfold is_core. cbn [fst]. rewrite (str_eqb_neq _ _ ET), (str_eqb_neq _ _ EC). reflexivity.
    + (* disk_ok *)
      destruct Hdisk as (D1 & D2 & D3). unfold disk_ok. cbn [K' k_cont k_type k_pool k_sum_mod k_sum].
      split; [|split].
      * destruct Cont3 as (A & _). congruence.
      * intros Hm. destruct Keep3 as (_ & _ & [E|E]); [|congruence]. rewrite E in *. specialize (D2 Hm).
        unfold pool_stream, data_stream in *.
        rewrite !(cont_only_saved _ _ _ _ Cont3 catalog_names_free);
          [exact D2 | right; right; left; reflexivity | right; left; reflexivity].
      * intros Hs. specialize (D3 Hs).
        rewrite (cont_only_saved _ _ _ _ Cont3 catalog_names_free); [exact D3 | left; reflexivity].
  - (* no_orphans *)
    intros Hno n Vn Rn Hf. cbn [K' k_tabs k_cont] in *.
    assert (Hntn : n <> tn) by (intros ->; unfold ts' in Hf; rewrite find_table_insert_same in Hf; discriminate).
    rewrite (cont_only_table _ _ _ _ Cont3 Vn).
    + apply Hno; try assumption. unfold ts' in Hf. rewrite find_table_insert_other in Hf by exact Hntn. exact Hf.
    + intros m [<-|[<-|[<-|[]]]]; (split; [assumption|]); intros <-; congruence.
Qed.

(* the goal statement, with the two changes it needs:
   (1) PInv3 = PInv2 + no_orphans in the hypothesis and in the conclusion (CreateTableCex.G_create_table_ok_false);
   (2) the hypothesis enums_scalar cols: the enumeration values of the column descriptions are texts of Unicode scalar
       values, as every Rust String is (the model's `str` is a list of numbers; no check of create_table looks at
       these characters -- _Validation.Set has category Text -- and a non-scalar value would enter the string pool
       and break pool_wf, exactly as in InsertRefineCex: CreateTableCex.create_table_ok_needs_enums_scalar) *)
Theorem create_table_ok : forall prof k tn cols k',
  PInv3 prof k -> enums_scalar cols -> pkg_create_table prof k tn cols = (k', Ok tt) ->
  PInv3 prof k' /\
  find_table (k_tabs k) tn = None /\
  find_table (k_tabs k') tn = Some (mktable tn cols (p_long (k_pool k))) /\
  tvals prof (the_db k') (mktable tn cols (p_long (k_pool k))) = Ok [] /\
  (forall n, n <> tn -> find_table (k_tabs k') n = find_table (k_tabs k) n) /\
  (forall e, In e (k_tabs k) -> is_core (fst e) = false -> fst e <> VALIDATION_TABLE_NAME ->
     tvals prof (the_db k') (snd e) = tvals prof (the_db k) (snd e)) /\
  k_type k' = k_type k /\ k_sum k' = k_sum k /\ pkg_streams k' = pkg_streams k /\
  (forall n, sn_is_valid n false = true ->
     ct_find (ct_entries (k_cont k')) (sn_encode n false) = ct_find (ct_entries (k_cont k)) (sn_encode n false)) /\
  cols <> [] /\ nlen cols <= MAX_NUM_TABLE_COLUMNS.
Proof.
  intros prof k tn cols k' [HP Hno] Hen H.
  apply create_table_cases in H as [[_ Hr]|[Hc Ht]]; [exfalso; apply Hr; reflexivity|].
  destruct Hc as (HV & Hres & Hne & Hmax & Hdup & Hnew & F1 & F2 & F3).
  pose proof (pinv2_base prof k HP) as HB.
  pose proof HP as [(_ & _ & Hps & Hfmt & (_ & HfT & HfC & HfV & _) & _) _].
  rewrite HfC in F1. rewrite HfT in F2. rewrite HfV in F3.
  assert (Hvn : VALIDATION_TABLE_NAME <> tn) by (intros <-; congruence).
  assert (Hv : find_table (tables_insert (k_tabs k) tn (mktable tn cols (p_long (k_pool k)))) VALIDATION_TABLE_NAME =
               Some (validation_table (p_long (k_pool k)))).
  { rewrite (find_table_insert_other _ _ _ _ Hvn). exact HfV. }
  destruct (create_tail_ok prof k tn cols k' HB (Hno tn HV Hres Hnew) HV Hres Hne Hmax Hdup Hnew F1 F2 F3 Hv Hen Ht)
    as (HB' & Hno' & Hwf' & Hfin & Etabs & Hlong & Hempty & Hframe & Ety & Esum & Esm & Estr & Eus).
  specialize (Hno' Hno).
  destruct HB' as (A1 & A2 & A3 & _ & A5 & A6 & A7).
  split; [|split; [exact Hnew|]; split; [|split; [|split; [|split; [exact Hframe|]]]]].
  - split; [|exact Hno']. split; [|exact A2].
    refine (conj A1 (conj A3 (conj _ (conj _ (conj Hwf' (conj A5 (conj A6 (conj A7 _)))))))).
    + rewrite Esum. exact Hps.
    + rewrite Esum. exact Hfmt.
    + apply fin_flags_ok. exact Hfin.
  - rewrite Etabs. apply find_table_insert_same.
  - apply Hempty. congruence.
  - intros n Hn. rewrite Etabs. apply find_table_insert_other. exact Hn.
  - repeat split; assumption.
Qed.

(* the same with PInv2 alone: the weakest addition is that the stream of the new table does not exist yet *)
Theorem create_table_ok_pinv2 : forall prof k tn cols k',
  PInv2 prof k -> enums_scalar cols -> ct_find (ct_entries (k_cont k)) (sn_encode tn true) = None ->
  pkg_create_table prof k tn cols = (k', Ok tt) ->
  PInv2 prof k' /\
  find_table (k_tabs k) tn = None /\
  find_table (k_tabs k') tn = Some (mktable tn cols (p_long (k_pool k))) /\
  tvals prof (the_db k') (mktable tn cols (p_long (k_pool k))) = Ok [] /\
  (forall n, n <> tn -> find_table (k_tabs k') n = find_table (k_tabs k) n) /\
  (forall e, In e (k_tabs k) -> is_core (fst e) = false -> fst e <> VALIDATION_TABLE_NAME ->
     tvals prof (the_db k') (snd e) = tvals prof (the_db k) (snd e)) /\
  k_type k' = k_type k /\ k_sum k' = k_sum k /\ pkg_streams k' = pkg_streams k /\
  (forall n, sn_is_valid n false = true ->
     ct_find (ct_entries (k_cont k')) (sn_encode n false) = ct_find (ct_entries (k_cont k)) (sn_encode n false)) /\
  cols <> [] /\ nlen cols <= MAX_NUM_TABLE_COLUMNS.
Proof.
  intros prof k tn cols k' HP Hen Habs H.
  apply create_table_cases in H as [[_ Hr]|[Hc Ht]]; [exfalso; apply Hr; reflexivity|].
  destruct Hc as (HV & Hres & Hne & Hmax & Hdup & Hnew & F1 & F2 & F3).
  pose proof (pinv2_base prof k HP) as HB.
  pose proof HP as [(_ & _ & Hps & Hfmt & (_ & HfT & HfC & HfV & _) & _) _].
  rewrite HfC in F1. rewrite HfT in F2. rewrite HfV in F3.
  assert (Hvn : VALIDATION_TABLE_NAME <> tn) by (intros <-; congruence).
  assert (Hv : find_table (tables_insert (k_tabs k) tn (mktable tn cols (p_long (k_pool k)))) VALIDATION_TABLE_NAME =
               Some (validation_table (p_long (k_pool k)))).
  { rewrite (find_table_insert_other _ _ _ _ Hvn). exact HfV. }
  destruct (create_tail_ok prof k tn cols k' HB Habs HV Hres Hne Hmax Hdup Hnew F1 F2 F3 Hv Hen Ht)
    as (HB' & _ & Hwf' & Hfin & Etabs & Hlong & Hempty & Hframe & Ety & Esum & Esm & Estr & Eus).
  destruct HB' as (A1 & A2 & A3 & _ & A5 & A6 & A7).
  split; [|split; [exact Hnew|]; split; [|split; [|split; [|split; [exact Hframe|]]]]].
  - split; [|exact A2].
    refine (conj A1 (conj A3 (conj _ (conj _ (conj Hwf' (conj A5 (conj A6 (conj A7 _)))))))).
    + rewrite Esum. exact Hps.
    + rewrite Esum. exact Hfmt.
    + apply fin_flags_ok. exact Hfin.
  - rewrite Etabs. apply find_table_insert_same.
  - apply Hempty. congruence.
  - intros n Hn. rewrite Etabs. apply find_table_insert_other. exact Hn.
  - repeat split; assumption.
Qed.

(* ====================================================================== *)
(* 12. a freshly created package                                            *)
(* ====================================================================== *)
Lemma fresh_summary prof t s0 : summary_new prof = Ok s0 ->
  let s1 := ps_set prof s0 PROPERTY_TITLE (PStr (default_title t)) in
  ps_ok s1 /\ ps_fmtid s1 = FMTID /\ ps_cp s1 = cp_utf8.
Proof.
  intros H s1. assert (E : Ok s1 = rmap (fun s => ps_set prof s PROPERTY_TITLE (PStr (default_title t))) (summary_new prof)).
  { rewrite H. reflexivity. }
  clearbody s1. clear H.
  destruct prof, t; vm_compute in E; inversion E; subst s1; clear E;
    (split; [|split; reflexivity]);
    (unfold ps_ok; cbn [ps_cp ps_props ps_os ps_os_version ps_clsid ps_fmtid];
     split; [reflexivity|]; split; [vm_compute; reflexivity|]; split; [cbn; lia|];
     split; [constructor; [cbn; lia | constructor; [split; vm_compute; reflexivity | constructor]]|];
     split; [intros enc He; vm_compute in He; inversion He; subst enc; vm_compute; reflexivity|];
     split; [lia|]; split; [lia|]; split; reflexivity).
Qed.

Definition fresh0 (t : ptype) (s : propset) : pkg :=
  mkpkg (mkct (ptype_clsid t) []) t s true (pool_new cp_utf8) (base_tabs false) false.

Lemma fresh0_tvals prof t s tb : tvals prof (the_db (fresh0 t s)) tb = Ok [].
Proof. apply tvals_absent. reflexivity. Qed.

Lemma fresh0_base prof t s : CBase prof (fresh0 t s) /\ no_orphans (fresh0 t s).
Proof.
  assert (Eu : user_tabs (fresh0 t s) = []) by reflexivity.
  assert (Ets : k_tabs (fresh0 t s) = [(COLUMNS_TABLE_NAME, columns_table false); (TABLES_TABLE_NAME, tables_table false)])
    by (cbn [fresh0 k_tabs]; apply base_tabs_eq).
  destruct catalog_names_valid as (VT & VC & VV).
  split; [|intros n _ _ _; reflexivity].
  unfold CBase. refine (conj _ (conj _ (conj eq_refl (conj _ (conj _ (conj _ _)))))).
  - (* Inv *)
    unfold Inv, the_db. cbn [d_pool d_tabs d_cont]. rewrite Ets. cbn [fresh0 k_pool k_cont].
    split; [constructor|]. split; [|split].
    + cbn [map snd]. constructor; [|constructor; [intros []|constructor]].
      intros [H|[]]. vm_compute in H. discriminate H.
    + constructor; [|constructor; [|constructor]]; unfold table_ok; cbn [fst snd];
        (split; [reflexivity|]; split; [discriminate|]; split; [reflexivity|]; exists []; split; [reflexivity | constructor]).
    + intros r _. unfold refcount. cbn [pool_new p_strings]. destruct (N.to_nat (r - 1)); reflexivity.
  - (* pool_fits *) unfold pool_fits. cbn. lia.
  - (* tabs_pre *)
    unfold tabs_pre. rewrite Eu, Ets. cbn [fresh0 k_pool pool_new p_long].
    split; [|split; [reflexivity|]; split; [reflexivity|]; split; [|constructor]].
    + constructor; [constructor; [constructor|constructor]|]. constructor; [|constructor]. reflexivity.
    + constructor; [|constructor; [|constructor]]; cbn [fst snd]; (split; [assumption|]); (split; [|reflexivity]);
        intros [H|[H|[]]]; discriminate H.
  - (* catalog_ok *)
    unfold catalog_ok. rewrite Eu. exists [], [], []. rewrite !fresh0_tvals. repeat split; constructor.
  - (* tables_sorted_valid *)
    unfold tables_sorted_valid. rewrite Ets.
    constructor; [|constructor; [|constructor]]; exists []; rewrite fresh0_tvals; (split; [reflexivity|]); split; constructor.
  - (* disk_ok *)
    unfold disk_ok. cbn [fresh0 k_cont k_type k_pool k_sum_mod pool_new p_mod ct_clsid].
    split; [reflexivity|]. split; intros H; discriminate H.
Qed.

Lemma validation_enums_scalar : enums_scalar validation_columns.
Proof.
  assert (H : forallb (fun c => forallb (forallb is_scalar) (c_enum c)) validation_columns = true) by (vm_compute; reflexivity).
  unfold enums_scalar. apply Forall_forall. intros c Hc. apply Forall_forall. intros s Hs.
  rewrite forallb_forall in H. specialize (H c Hc). rewrite forallb_forall in H. exact (H s Hs).
Qed.

Theorem create_inv3 : forall prof t k, pkg_create prof t = Ok k -> PInv3 prof k.
Proof.
  intros prof t k H. unfold pkg_create in H.
  apply rbind_ok in H as (s0 & Hs0 & H). cbv zeta in H.
  destruct (fresh_summary prof t s0 Hs0) as (Hps & Hfmt & Hcp). rewrite Hcp in H.
  set (s1 := ps_set prof s0 PROPERTY_TITLE (PStr (default_title t))) in *.
  fold (base_tabs false) in H. fold (fresh0 t s1) in H.
  destruct (pkg_create_table prof (fresh0 t s1) VALIDATION_TABLE_NAME validation_columns) as [k1 r] eqn:E.
  apply rbind_ok in H as ([] & -> & H).
  destruct (pkg_flush k1) as [k2|] eqn:Ef; [|discriminate H]. inversion H; subst k2. clear H.
  destruct (fresh0_base prof t s1) as [HB Hno].
  apply create_table_cases in E as [[_ Hr]|[Hc Ht]]; [exfalso; apply Hr; reflexivity|].
  destruct Hc as (HV & Hres & Hne & Hmax & Hdup & Hnew & F1 & F2 & _).
  assert (F3 : rows_fit (Some (validation_table false)) (validation_rows VALIDATION_TABLE_NAME validation_columns) = Ok true)
    by (vm_compute; reflexivity).
  assert (Hv : find_table (tables_insert (k_tabs (fresh0 t s1)) VALIDATION_TABLE_NAME
                             (mktable VALIDATION_TABLE_NAME validation_columns (p_long (k_pool (fresh0 t s1)))))
                 VALIDATION_TABLE_NAME = Some (validation_table (p_long (k_pool (fresh0 t s1)))))
    by apply find_table_insert_same.
  destruct (create_tail_ok prof (fresh0 t s1) VALIDATION_TABLE_NAME validation_columns k1 HB eq_refl HV Hres Hne Hmax Hdup Hnew
              F1 F2 F3 Hv validation_enums_scalar Ht)
    as (HB' & Hno' & Hwf' & Hfin & Etabs & Hlong & _ & _ & Ety & Esum & Esm & Estr & Eus).
  specialize (Hno' Hno).
  destruct HB' as (A1 & A2 & A3 & _ & A5 & A6 & A7).
  assert (HP1 : PInv prof k1).
  { refine (conj A1 (conj A3 (conj _ (conj _ (conj Hwf' (conj A5 (conj A6 (conj A7 _)))))))).
    - rewrite Esum. exact Hps.
    - rewrite Esum. exact Hfmt.
    - apply fin_flags_ok. exact Hfin. }
  destruct (flush_spec prof k1 k HP1 Ef) as (HP & Hobs & Hpool & _).
  destruct Hobs as (_ & _ & _ & Hts & _ & _ & _).
  split; [split; [exact HP|]|].
  - unfold pool_len_ok, the_db. cbn [d_pool]. rewrite Hpool. cbn [pool_mark_unmodified p_strings p_long]. exact A2.
  - (* no_orphans: flush writes the summary and the two pool streams only *)
    intros n Vn Rn Hf. rewrite Hts in Hf. rewrite <- (Hno' n Vn Rn Hf).
    destruct k1 as [c ty s sm p ts f]. cbn [k_fin] in Hfin. subst f.
    apply flush_cases in Ef as [[Hx _]|(_ & c0 & c1 & p1 & -> & Hsum & Hpl)]; [discriminate Hx|].
    cbn [k_cont].
    destruct (table_stream_special3 n Vn Rn) as (S1 & S2 & S3).
    assert (E0 : ct_find (ct_entries c0) (sn_encode n true) = ct_find (ct_entries c) (sn_encode n true)).
    { destruct sm; [|subst c0; reflexivity]. destruct Hsum as (b & _ & ->). rewrite find_write.
      rewrite StreamProofs.name_eqb_sym, S1. reflexivity. }
    rewrite <- E0. destruct (p_mod p); [|destruct Hpl as [-> _]; reflexivity].
    destruct Hpl as (pb & db & _ & _ & -> & _). rewrite !find_write.
    rewrite (StreamProofs.name_eqb_sym data_stream), S3, (StreamProofs.name_eqb_sym pool_stream), S2. reflexivity.
Qed.

(* the goal statement, unchanged *)
Theorem create_inv : forall prof t k, pkg_create prof t = Ok k -> PInv2 prof k.
Proof. intros prof t k H. apply (create_inv3 prof t k H). Qed.

(* the positive side for the strengthened invariant: PInv3 is kept by an Err answer as well *)
Corollary create_table_err3 : forall prof k tn cols k',
  PInv3 prof k -> pkg_create_table prof k tn cols = (k', Err) ->
  PInv3 prof k' /\ same_obs prof k k' /\ k_pool k' = k_pool k /\ k_cont k' = k_cont k.
Proof.
  intros prof k tn cols k' [HP Hno] H.
  destruct (create_table_err prof k tn cols k' HP H) as (A & B & C & D).
  split; [|auto]. split; [exact A|]. intros n Vn Rn Hf. rewrite D. apply Hno; try assumption.
  destruct B as (_ & _ & _ & Ets & _). rewrite <- Ets. exact Hf.
Qed.

(* ====================================================================== *)
(* 13. the goal statements of GC2.v that hold verbatim                      *)
(* ====================================================================== *)
Definition G_create_inv : Prop := forall prof t k, pkg_create prof t = Ok k -> PInv2 prof k.
Definition G_create_total : Prop := forall prof t, exists k, pkg_create prof t = Ok k.
Definition G_create_table_err : Prop := forall prof k tn cols k',
  PInv2 prof k -> pkg_create_table prof k tn cols = (k', Err) ->
  PInv2 prof k' /\ same_obs prof k k' /\ k_pool k' = k_pool k /\ k_cont k' = k_cont k.
Lemma G_create_inv_holds : G_create_inv.  Proof. exact create_inv. Qed.
Lemma G_create_total_holds : G_create_total.  Proof. exact create_total. Qed.
Lemma G_create_table_err_holds : G_create_table_err.  Proof. exact create_table_err. Qed.

Print Assumptions create_table_err.
Print Assumptions create_table_err3.
Print Assumptions create_total.
Print Assumptions create_inv.
Print Assumptions create_inv3.
Print Assumptions create_table_ok.
Print Assumptions create_table_ok_pinv2.
