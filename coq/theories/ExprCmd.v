(* ExprCmd.v -- wire encoding of values, expressions and rows. *)
From MsiModel Require Import Base Sexp Value Expr Ladder ExprText.
Open Scope string_scope.

Definition value_sx (v : value) : sx :=
  match v with
  | VNull => SY "null"
  | VInt z => SL [SY "i"; SI z]
  | VStr s => SL [SY "s"; sx_str s]
  end.
Definition sx_value (s : sx) : option value :=
  match s with
  | SY "null" => Some VNull
  | SL [SY "i"; SI z] => Some (VInt z)
  | SL [SY "s"; t] => option_map VStr (as_str t)
  | _ => None
  end.

Definition unop_name (u : unop) : string :=
  match u with Neg => "neg" | BitNot => "bitnot" | BoolNot => "not" end.
Definition name_unop (s : string) : option unop :=
  match s with "neg" => Some Neg | "bitnot" => Some BitNot | "not" => Some BoolNot | _ => None end.
Definition binop_name (o : binop) : string :=
  match o with
  | OEq => "eq" | ONe => "ne" | OLt => "lt" | OLe => "le" | OGt => "gt" | OGe => "ge"
  | OAdd => "add" | OSub => "sub" | OMul => "mul" | ODiv => "div"
  | OBitAnd => "band" | OBitOr => "bor" | OBitXor => "bxor" | OShl => "shl" | OShr => "shr"
  end.
Definition name_binop (s : string) : option binop :=
  match s with
  | "eq" => Some OEq | "ne" => Some ONe | "lt" => Some OLt | "le" => Some OLe | "gt" => Some OGt | "ge" => Some OGe
  | "add" => Some OAdd | "sub" => Some OSub | "mul" => Some OMul | "div" => Some ODiv
  | "band" => Some OBitAnd | "bor" => Some OBitOr | "bxor" => Some OBitXor | "shl" => Some OShl | "shr" => Some OShr
  | _ => None
  end.

Fixpoint ast_sx (e : ast) : sx :=
  match e with
  | Lit v => SL [SY "lit"; value_sx v]
  | Col n => SL [SY "col"; sx_str n]
  | UnOp u a => SL [SY "un"; SY (unop_name u); ast_sx a]
  | BinOp o a b => SL [SY "bin"; SY (binop_name o); ast_sx a; ast_sx b]
  | And a b => SL [SY "and"; ast_sx a; ast_sx b]
  | Or a b => SL [SY "or"; ast_sx a; ast_sx b]
  end.

Fixpoint sx_ast (s : sx) : option ast :=
  match s with
  | SL [SY "lit"; v] => option_map Lit (sx_value v)
  | SL [SY "col"; n] => option_map Col (as_str n)
  | SL [SY "un"; SY u; a] =>
      match name_unop u, sx_ast a with Some u', Some a' => Some (UnOp u' a') | _, _ => None end
  | SL [SY "bin"; SY o; a; b] =>
      match name_binop o, sx_ast a, sx_ast b with
      | Some o', Some a', Some b' => Some (BinOp o' a' b')
      | _, _, _ => None
      end
  | SL [SY "and"; a; b] =>
      match sx_ast a, sx_ast b with Some a', Some b' => Some (And a' b') | _, _ => None end
  | SL [SY "or"; a; b] =>
      match sx_ast a, sx_ast b with Some a', Some b' => Some (Or a' b') | _, _ => None end
  | _ => None
  end.

Definition sx_row (s : sx) : option row :=
  as_listof (fun p => match p with
                      | SL [n; v] => match as_str n, sx_value v with
                                     | Some n', Some v' => Some (n', v')
                                     | _, _ => None
                                     end
                      | _ => None
                      end) s.

(* sorted, de-duplicated column names (the Rust side returns a HashSet) *)
Fixpoint insert_sorted (x : str) (l : list str) : list str :=
  match l with
  | [] => [x]
  | y :: r => match str_cmp x y with
              | Lt => x :: l
              | Eq => l
              | Gt => y :: insert_sorted x r
              end
  end.
Definition sort_names (l : list str) : list str := fold_right insert_sorted [] l.

Definition expr_cmd (name : string) (args : list sx) : option sx :=
  match name, args with
  | "expr_eval", [e; r] =>
      match sx_ast e, sx_row r with
      | Some e', Some r' => Some (sx_res value_sx (eval r' (build e')))
      | _, _ => None
      end
  | "expr_eval_raw", [e; r] =>
      match sx_ast e, sx_row r with
      | Some e', Some r' => Some (sx_res value_sx (eval r' e'))
      | _, _ => None
      end
  | "expr_text", [e] => option_map (fun e' => SL [SY "ok"; sx_str (expr_text (build e'))]) (sx_ast e)
  | "expr_cols", [e] => option_map (fun e' => sx_list sx_str (sort_names (cols_of (build e')))) (sx_ast e)
  | "expr_ast", [e] => option_map (fun e' => ast_sx (build e')) (sx_ast e)
  | "expr_reparse", [t] =>
      match as_str t with
      | Some t' => Some (match lex_text t' with
                         | Some ts => match parse_expr ts with
                                      | Some e => SL [SY "ok"; ast_sx e]
                                      | None => SY "noparse"
                                      end
                         | None => SY "nolex"
                         end)
      | None => None
      end
  | _, _ => None
  end.
