(* Value.v -- model of the public Value type (src/internal/value.rs). *)
From MsiModel Require Import Base.
Open Scope Z_scope.

Inductive value := VNull | VInt (z : Z) | VStr (s : str).

Definition from_bool (b : bool) : value := if b then VInt 1 else VInt 0.
Definition to_bool (v : value) : bool :=
  match v with
  | VNull => false
  | VInt z => negb (z =? 0)
  | VStr s => match s with [] => false | _ => true end
  end.

(* #[derive(Ord)]: Null < Int(_) < Str(_); Int by number; Str by code points *)
Definition value_cmp (a b : value) : comparison :=
  match a, b with
  | VNull, VNull => Eq
  | VNull, _ => Lt
  | VInt _, VNull => Gt
  | VInt x, VInt y => Z.compare x y
  | VInt _, VStr _ => Lt
  | VStr _, VNull => Gt
  | VStr _, VInt _ => Gt
  | VStr x, VStr y => str_cmp x y
  end.
Definition value_eqb (a b : value) : bool :=
  match value_cmp a b with Eq => true | _ => false end.
Definition value_ltb (a b : value) : bool :=
  match value_cmp a b with Lt => true | _ => false end.
Definition value_leb (a b : value) : bool :=
  match value_cmp a b with Gt => false | _ => true end.

Definition value_ok (v : value) : bool :=
  match v with
  | VNull => true
  | VInt z => in_i32 z
  | VStr s => forallb is_scalar s
  end.

Lemma str_cmp_eq a b : str_cmp a b = Eq <-> a = b.
Proof.
  revert b; induction a as [|x a IH]; intros [|y b]; simpl; split; intro H;
    try reflexivity; try discriminate.
  - destruct (N.compare x y) eqn:E; try discriminate.
    apply N.compare_eq in E. apply IH in H. congruence.
  - inversion H; subst. rewrite N.compare_refl. apply IH. reflexivity.
Qed.
Lemma value_eqb_spec a b : value_eqb a b = true <-> a = b.
Proof.
  unfold value_eqb. destruct a, b; simpl; split; intro H; try reflexivity; try discriminate.
  - destruct (z ?= z0) eqn:E; try discriminate. apply Z.compare_eq in E. congruence.
  - inversion H. rewrite Z.compare_refl. reflexivity.
  - destruct (str_cmp s s0) eqn:E; try discriminate. apply str_cmp_eq in E. congruence.
  - inversion H. subst. rewrite (proj2 (str_cmp_eq s0 s0) eq_refl). reflexivity.
Qed.
