(* GateProofs.v -- C07, the acceptance gate of INSERT and UPDATE: a value is refused exactly when it is not valid for
   its column; otherwise the statement fails only for the documented structural reasons. *)
From Coq Require Import ZifyBool ZifyNat ZifyN Lia Sorting.Sorted Permutation.
From MsiModel Require Import Base Sexp Value Expr Category CategoryProofs Column CodePage Pool Table Container StreamName
  Propset Summary Query Package PoolProofs TableProofs QueryProofs DbInv CatalogProofs PropsetCodecProofs PackageProofs
  PkgInv UpdateRefine PkgInv2 InsertRefine DeleteRefine DmlPkgProofs OpenTotal.
From MsiGen Require Import GenConsts GenCatalog GenStreamName.
Open Scope N_scope.

Definition row_acceptable (t : table) (r : list value) : Prop :=
  length r = length (t_cols t) /\ all_valid (t_cols t) r = Ok true.

(* ====================================================================== *)
(* all_valid                                                               *)
(* ====================================================================== *)
Theorem all_valid_spec : forall cols r, length r = length cols ->
  (all_valid cols r = Ok true <-> Forall2 (fun c v => is_valid_value c v = Ok true) cols r).
Proof.
  intros cols r Hl. split; [apply all_valid_F2; exact Hl|]. clear Hl.
  induction 1 as [|c v cols r Hv _ IH]; cbn [all_valid]; [reflexivity|].
  rewrite Hv. cbn [rbind]. exact IH.
Qed.

(* ====================================================================== *)
(* INSERT: validation                                                      *)
(* ====================================================================== *)
Lemma validate_new_rows_acceptable t : forall rows, validate_new_rows t rows = Ok tt ->
  Forall (row_acceptable t) rows.
Proof.
  induction rows as [|r rows IH]; intro H; [constructor|]. cbn [validate_new_rows] in H.
  destruct (Nat.eqb (length r) (length (t_cols t))) eqn:El; cbn [negb] in H; [|discriminate].
  apply Nat.eqb_eq in El.
  destruct (all_valid (t_cols t) r) as [b| |] eqn:Ea; cbn [rbind] in H; try discriminate.
  destruct b; [|discriminate]. constructor; [split; assumption|auto].
Qed.

Lemma validate_new_rows_refused t : forall rows r, In r rows -> ~ row_acceptable t r ->
  validate_new_rows t rows = Err.
Proof.
  induction rows as [|r0 rows IH]; intros r Hin Hna; [destruct Hin|]. cbn [validate_new_rows].
  destruct (Nat.eqb (length r0) (length (t_cols t))) eqn:El; cbn [negb]; [|reflexivity].
  apply Nat.eqb_eq in El.
  destruct (all_valid_total (t_cols t) r0) as [b Eb]. rewrite Eb. cbn [rbind].
  destruct b; [|reflexivity].
  destruct Hin as [->|Hin]; [|exact (IH r Hin Hna)].
  exfalso. apply Hna. split; assumption.
Qed.

Theorem insert_ok_implies : forall prof c p ts tn rows c' p',
  exec_insert prof c p ts tn rows = Ok (c', p') ->
  exists t, find_table ts tn = Some t /\ Forall (row_acceptable t) rows.
Proof.
  intros prof c p ts tn rows c' p' H. unfold exec_insert in H.
  destruct (find_table ts tn) as [t|]; cbn [of_opt rbind] in H; [|discriminate].
  exists t. split; [reflexivity|].
  destruct (validate_new_rows t rows) as [[]| |] eqn:Ev; cbn [rbind] in H; try discriminate.
  apply validate_new_rows_acceptable. exact Ev.
Qed.

Theorem insert_invalid_refused : forall prof c p ts tn t rows r,
  find_table ts tn = Some t -> In r rows -> ~ row_acceptable t r ->
  exec_insert prof c p ts tn rows = Err.
Proof.
  intros prof c p ts tn t rows r Hf Hin Hna. unfold exec_insert. rewrite Hf. cbn [of_opt rbind].
  rewrite (validate_new_rows_refused t rows r Hin Hna). reflexivity.
Qed.

(* ====================================================================== *)
(* INSERT: the complete characterisation                                   *)
(* ====================================================================== *)
Lemma strictly_sorted_nodup : forall l, StronglySorted key_lt l -> NoDup l.
Proof.
  induction 1 as [|a l _ IH Hf]; constructor; [|exact IH].
  intro Hin. rewrite Forall_forall in Hf. exact (key_lt_irrefl a (Hf a Hin)).
Qed.

Lemma pkg_insert_of_exec prof k tn rows c' p' :
  exec_insert prof (k_cont k) (k_pool k) (k_tabs k) tn rows = Ok (c', p') ->
  exists k', pkg_insert prof k tn rows = (k', Ok tt).
Proof.
  destruct k as [c ty s sm p ts f]. unfold pkg_insert, op_res, set_finisher.
  cbn [k_cont k_type k_sum k_sum_mod k_pool k_tabs k_fin]. intros ->. eexists. reflexivity.
Qed.

Theorem insert_gate : forall prof k tn t rows old,
  PInv2 prof k -> user_table_name tn -> find_table (k_tabs k) tn = Some t ->
  Forall (Forall value_storable) rows ->
  tvals prof (the_db k) t = Ok old ->
  nlen old + nlen rows <= 65536 ->
  nlen (p_strings (k_pool k)) + nlen (List.concat rows) < 65535 ->
  ((exists k', pkg_insert prof k tn rows = (k', Ok tt)) <->
   (Forall (row_acceptable t) rows /\ NoDup (map (key_of t) (old ++ map (map normalize_value) rows)))).
Proof.
  intros prof k tn t rows old HP Hu Hfind Hst Hold Hlim Hpool.
  pose proof HP as [HPI Hlen]. pose proof HPI as (HInv & _).
  destruct (table_state prof k tn t HPI Hfind) as (Hin & vals & Hv & Hvs & Hvv).
  rewrite Hold in Hv. inversion Hv. subst vals. clear Hv.
  split.
  - intros [k' H]. split.
    + apply pkg_insert_ok_inv in H as (c' & p' & E & _).
      apply insert_ok_implies in E as (t0 & Ef & Hacc). rewrite Hfind in Ef. inversion Ef. subst t0. exact Hacc.
    + destruct (pkg_insert_ok prof k tn t rows k' HP Hu Hfind Hst H) as (_ & _ & old0 & new & Ho & _ & Pn & Sn & _).
      rewrite Hold in Ho. inversion Ho. subst old0. clear Ho.
      eapply Permutation_NoDup; [apply Permutation_map; exact Pn|].
      apply strictly_sorted_nodup. exact Sn.
  - intros [Hacc Hnd].
    destruct (insert_accepts prof (the_db k) tn t rows old HInv Hin Hfind Hold Hvs Hacc Hnd Hlim Hpool) as (c' & p' & E).
    cbn [the_db d_cont d_pool d_tabs] in E. eapply pkg_insert_of_exec. exact E.
Qed.

(* ====================================================================== *)
(* UPDATE                                                                  *)
(* ====================================================================== *)
Lemma col_index_nth t n i : col_index t n = Some i -> exists col, nth_opt (t_cols t) i = Some col.
Proof.
  unfold col_index. intro H. apply index_of_col_nth in H as (j & c & H1 & H2 & _).
  cbn [Nat.add] in H1. subst j. exists c. exact H2.
Qed.

Lemma validate_updates_ok t : forall ups, validate_updates t ups = Ok tt ->
  Forall (fun u => exists i col, col_index t (fst u) = Some i /\ nth_opt (t_cols t) i = Some col /\
                                 is_valid_value col (snd u) = Ok true) ups.
Proof.
  induction ups as [|[n v] ups IH]; intro H; [constructor|]. cbn [validate_updates] in H.
  destruct (col_index t n) as [i|] eqn:Ei; [|discriminate].
  destruct (nth_opt (t_cols t) i) as [col|] eqn:Ec; cbn [unwrap rbind] in H; [|discriminate].
  destruct (is_valid_value col v) as [b| |] eqn:Ev; cbn [rbind] in H; try discriminate.
  destruct b; [|discriminate].
  constructor; [|exact (IH H)]. cbn [fst snd]. exists i, col. auto.
Qed.

Lemma validate_updates_refused t : forall ups u, In u ups ->
  (col_index t (fst u) = None \/
   exists i col, col_index t (fst u) = Some i /\ nth_opt (t_cols t) i = Some col /\ is_valid_value col (snd u) = Ok false) ->
  validate_updates t ups = Err.
Proof.
  induction ups as [|[n v] ups IH]; intros u Hin Hbad; [destruct Hin|]. cbn [validate_updates].
  destruct (col_index t n) as [i|] eqn:Ei; [|reflexivity].
  destruct (col_index_nth t n i Ei) as [col Ec]. rewrite Ec. cbn [unwrap rbind].
  destruct (is_valid_value_total col v) as [b Eb]. rewrite Eb. cbn [rbind].
  destruct b; [|reflexivity].
  destruct Hin as [<-|Hin]; [|exact (IH u Hin Hbad)].
  exfalso. cbn [fst snd] in Hbad. destruct Hbad as [Hn|(i' & col' & Hi & Hc & Hv)].
  - rewrite Ei in Hn. discriminate.
  - rewrite Ei in Hi. inversion Hi. subst i'. rewrite Ec in Hc. inversion Hc. subst col'.
    rewrite Eb in Hv. discriminate.
Qed.

Theorem update_ok_implies : forall prof c p ts tn ups cond c' p',
  exec_update prof c p ts tn ups cond = Ok (c', p') ->
  exists t, find_table ts tn = Some t /\
    Forall (fun u => exists i col, col_index t (fst u) = Some i /\ nth_opt (t_cols t) i = Some col /\
                                   is_valid_value col (snd u) = Ok true) ups /\
    cond_ok t cond = true.
Proof.
  intros prof c p ts tn ups cond c' p' H. unfold exec_update in H.
  destruct (find_table ts tn) as [t|]; cbn [of_opt rbind] in H; [|discriminate].
  exists t. split; [reflexivity|].
  destruct (validate_updates t ups) as [[]| |] eqn:Ev; cbn [rbind] in H; try discriminate.
  split; [apply validate_updates_ok; exact Ev|].
  destruct (cond_ok t cond); [reflexivity|]. cbn [negb] in H. discriminate.
Qed.

Theorem update_invalid_refused : forall prof c p ts tn t ups cond u,
  find_table ts tn = Some t -> In u ups ->
  (col_index t (fst u) = None \/
   exists i col, col_index t (fst u) = Some i /\ nth_opt (t_cols t) i = Some col /\ is_valid_value col (snd u) = Ok false) ->
  exec_update prof c p ts tn ups cond = Err.
Proof.
  intros prof c p ts tn t ups cond u Hf Hin Hbad. unfold exec_update. rewrite Hf. cbn [of_opt rbind].
  rewrite (validate_updates_refused t ups u Hin Hbad). reflexivity.
Qed.

Print Assumptions all_valid_spec.
Print Assumptions insert_ok_implies.
Print Assumptions insert_invalid_refused.
Print Assumptions insert_gate.
Print Assumptions update_ok_implies.
Print Assumptions update_invalid_refused.
