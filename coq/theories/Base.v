(* Base.v -- shared vocabulary of the rust-msi model (stdlib only).
   bytes, strings as lists of Unicode scalar values, little-endian codecs,
   i32 arithmetic as Rust performs it, and the three-way result type. *)
From Coq Require Export List NArith ZArith Bool Lia.
From Coq Require Strings.String.
Export ListNotations.
Open Scope N_scope.

(* ---- result type: Ok / Err / Panic ------------------------------------ *)
Inductive res (A : Type) : Type :=
| Ok (a : A)
| Err
| Panic.
Arguments Ok {A} a.
Arguments Err {A}.
Arguments Panic {A}.

Definition rbind {A B} (r : res A) (f : A -> res B) : res B :=
  match r with Ok a => f a | Err => Err | Panic => Panic end.
Definition rmap {A B} (f : A -> B) (r : res A) : res B :=
  match r with Ok a => Ok (f a) | Err => Err | Panic => Panic end.
Notation "x <- e ;; k" := (rbind e (fun x => k))
  (at level 61, e at next level, right associativity).
Notation "' p <- e ;; k" := (rbind e (fun x => match x with p => k end))
  (at level 61, p pattern, e at next level, right associativity).

Definition of_opt {A} (o : option A) : res A :=
  match o with Some a => Ok a | None => Err end.
Definition unwrap {A} (o : option A) : res A :=
  match o with Some a => Ok a | None => Panic end.
Definition is_ok {A} (r : res A) : bool :=
  match r with Ok _ => true | _ => false end.
Definition is_panic {A} (r : res A) : bool :=
  match r with Panic => true | _ => false end.

Fixpoint rmapM {A B} (f : A -> res B) (l : list A) : res (list B) :=
  match l with
  | [] => Ok []
  | a :: l' => b <- f a ;; bs <- rmapM f l' ;; Ok (b :: bs)
  end.

(* build profile of the Rust crate: overflow checks and debug_assert! *)
Inductive profile := Debug | Release.

(* ---- bytes and strings ------------------------------------------------- *)
Definition byte := N.            (* invariant: < 256 *)
Definition bytes := list N.
Definition str := list N.        (* Unicode scalar values *)

Definition is_scalar (c : N) : bool :=
  (c <? 0xD800) || ((0xE000 <=? c) && (c <? 0x110000)).
Definition is_byte (b : N) : bool := b <? 256.

Fixpoint list_eqb {A} (eqb : A -> A -> bool) (a b : list A) : bool :=
  match a, b with
  | [], [] => true
  | x :: a', y :: b' => eqb x y && list_eqb eqb a' b'
  | _, _ => false
  end.
Definition str_eqb : str -> str -> bool := list_eqb N.eqb.

Lemma list_eqb_spec {A} (eqb : A -> A -> bool) :
  (forall x y, eqb x y = true <-> x = y) ->
  forall a b, list_eqb eqb a b = true <-> a = b.
Proof.
  intros H a; induction a as [|x a IH]; intros [|y b]; simpl; split; intro E;
    try reflexivity; try discriminate.
  - apply andb_true_iff in E as [E1 E2]. apply H in E1. apply IH in E2. congruence.
  - inversion E; subst. apply andb_true_iff; split; [apply H | apply IH]; reflexivity.
Qed.
Lemma str_eqb_spec a b : str_eqb a b = true <-> a = b.
Proof. apply list_eqb_spec. intros; apply N.eqb_eq. Qed.

(* Rust's derived lexicographic order on strings = code point order
   (UTF-8 byte order coincides with scalar-value order). *)
Fixpoint str_cmp (a b : str) : comparison :=
  match a, b with
  | [], [] => Eq
  | [], _ :: _ => Lt
  | _ :: _, [] => Gt
  | x :: a', y :: b' =>
      match N.compare x y with Eq => str_cmp a' b' | c => c end
  end.

Definition utf8_len1 (c : N) : N :=
  if c <? 0x80 then 1 else if c <? 0x800 then 2 else if c <? 0x10000 then 3 else 4.
Definition utf8_len (s : str) : N := fold_right (fun c n => utf8_len1 c + n) 0 s.
Definition utf16_len1 (c : N) : N := if c <? 0x10000 then 1 else 2.
Definition utf16_len (s : str) : N := fold_right (fun c n => utf16_len1 c + n) 0 s.
Definition nlen {A} (l : list A) : N := N.of_nat (length l).

Definition utf8_enc1 (c : N) : bytes :=
  if c <? 0x80 then [c]
  else if c <? 0x800 then [0xC0 + c / 64; 0x80 + c mod 64]
  else if c <? 0x10000 then [0xE0 + c / 4096; 0x80 + (c / 64) mod 64; 0x80 + c mod 64]
  else [0xF0 + c / 262144; 0x80 + (c / 4096) mod 64; 0x80 + (c / 64) mod 64; 0x80 + c mod 64].
Definition utf8_enc (s : str) : bytes := flat_map utf8_enc1 s.

(* ---- little endian ----------------------------------------------------- *)
Definition put16 (n : N) : bytes := [n mod 256; (n / 256) mod 256].
Definition put32 (n : N) : bytes :=
  [n mod 256; (n / 256) mod 256; (n / 65536) mod 256; (n / 16777216) mod 256].
Definition put64 (n : N) : bytes := put32 (n mod 4294967296) ++ put32 (n / 4294967296).

Definition get16 (b : bytes) : option (N * bytes) :=
  match b with b0 :: b1 :: r => Some (b0 + 256 * b1, r) | _ => None end.
Definition get32 (b : bytes) : option (N * bytes) :=
  match b with
  | b0 :: b1 :: b2 :: b3 :: r => Some (b0 + 256 * b1 + 65536 * b2 + 16777216 * b3, r)
  | _ => None
  end.
Definition get64 (b : bytes) : option (N * bytes) :=
  match get32 b with
  | Some (lo, r) => match get32 r with Some (hi, r') => Some (lo + 4294967296 * hi, r') | None => None end
  | None => None
  end.
Definition get8 (b : bytes) : option (N * bytes) :=
  match b with b0 :: r => Some (b0, r) | _ => None end.

(* ---- 32-bit signed arithmetic ------------------------------------------ *)
Open Scope Z_scope.
Definition i32_min : Z := -2147483648.
Definition i32_max : Z := 2147483647.
Definition in_i32 (z : Z) : bool := (i32_min <=? z) && (z <=? i32_max).
Definition wrap32 (z : Z) : Z := (z + 2147483648) mod 4294967296 - 2147483648.
Definition wrap16 (z : Z) : Z := (z + 32768) mod 65536 - 32768.
(* two's complement views *)
Definition to_u32 (z : Z) : N := Z.to_N (z mod 4294967296).
Definition of_u32 (n : N) : Z := wrap32 (Z.of_N n).
Definition to_u16 (z : Z) : N := Z.to_N (z mod 65536).
Definition of_u16 (n : N) : Z := wrap16 (Z.of_N n).
Close Scope Z_scope.

Fixpoint take_bytes (n : nat) (b : bytes) : option (bytes * bytes) :=
  match n with
  | O => Some ([], b)
  | S n' => match b with
            | [] => None
            | x :: r => match take_bytes n' r with
                        | Some (h, t) => Some (x :: h, t)
                        | None => None
                        end
            end
  end.

(* lengths and offsets read from a file are N: never convert an untrusted N to nat before checking it against the
   data actually present (the unary nat of a 4 GiB length field cannot be built) *)
Definition take_bytes_N (n : N) (b : bytes) : option (bytes * bytes) :=
  if nlen b <? n then None else take_bytes (N.to_nat n) b.
Definition skipn_N {A} (n : N) (l : list A) : list A :=
  if nlen l <=? n then [] else skipn (N.to_nat n) l.

Lemma take_bytes_short : forall n b, (length b < n)%nat -> take_bytes n b = None.
Proof.
  induction n as [|n IH]; intros b H; [inversion H|].
  destruct b as [|x r]; [reflexivity|]. cbn [take_bytes]. rewrite IH; [reflexivity|]. cbn [length] in H. lia.
Qed.
Lemma take_bytes_N_eq n b : take_bytes_N n b = take_bytes (N.to_nat n) b.
Proof.
  unfold take_bytes_N, nlen. destruct (N.of_nat (length b) <? n) eqn:E; [|reflexivity].
  apply N.ltb_lt in E. symmetry. apply take_bytes_short. lia.
Qed.
Lemma skipn_N_eq {A} n (l : list A) : skipn_N n l = skipn (N.to_nat n) l.
Proof.
  unfold skipn_N, nlen. destruct (N.of_nat (length l) <=? n) eqn:E; [|reflexivity].
  apply N.leb_le in E. symmetry. apply skipn_all2. lia.
Qed.

Fixpoint nth_opt {A} (l : list A) (n : nat) : option A :=
  match l, n with
  | [], _ => None
  | x :: _, O => Some x
  | _ :: l', S n' => nth_opt l' n'
  end.
(* index given as an (untrusted) N: checked against the length before it is converted *)
Definition nth_opt_N {A} (l : list A) (n : N) : option A :=
  if nlen l <=? n then None else nth_opt l (N.to_nat n).
Lemma nth_opt_beyond {A} : forall (l : list A) n, (length l <= n)%nat -> nth_opt l n = None.
Proof. induction l as [|x l IH]; intros n H; [reflexivity|]. destruct n; cbn [length] in H; [lia|]. apply IH. lia. Qed.
Lemma nth_opt_N_eq {A} (l : list A) n : nth_opt_N l n = nth_opt l (N.to_nat n).
Proof.
  unfold nth_opt_N, nlen. destruct (N.of_nat (length l) <=? n) eqn:E; [|reflexivity].
  apply N.leb_le in E. symmetry. apply nth_opt_beyond. lia.
Qed.
