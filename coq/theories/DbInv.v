(* DbInv.v -- the invariant of the table store (container + string pool + table map) and the value-level
   abstraction used to state that INSERT / UPDATE / DELETE follow the relational model (C03, C05, C08).
   Definitions only; the proofs are in InsertRefine.v, DeleteRefine.v, UpdateRefine.v. *)
From Coq Require Import Sorting.Sorted Permutation.
From MsiModel Require Import Base Value Expr Category Column CodePage Pool Table Container StreamName Query
  PoolProofs TableProofs QueryProofs.
Open Scope N_scope.

Record db := mkdb { d_cont : container; d_pool : pool; d_tabs : tables }.

(* ---- string accounting: how many cells of all tables hold reference r ------------------------------ *)
Definition is_ref (r : N) (v : vref) : bool := match v with RStr x => x =? r | _ => false end.
Definition occ_row (r : N) (row : list vref) : N := nlen (filter (is_ref r) row).
Definition occ (r : N) (rows : list (list vref)) : N := fold_right (fun row n => occ_row r row + n) 0 rows.
Definition rows_of (c : container) (t : table) : list (list vref) :=
  match load_rows c t with Ok rows => rows | _ => [] end.
Fixpoint all_rows (c : container) (ts : tables) : list (list vref) :=
  match ts with [] => [] | e :: r => rows_of c (snd e) ++ all_rows c r end.

(* ---- the invariant ------------------------------------------------------------------------------------ *)
Definition table_ok (c : container) (p : pool) (e : str * table) : Prop :=
  t_name (snd e) = fst e /\ t_cols (snd e) <> [] /\ t_long (snd e) = p_long p /\
  exists rows, load_rows c (snd e) = Ok rows /\ Forall (row_ok (snd e)) rows.

Definition Inv (d : db) : Prop :=
  pool_wf (d_pool d) /\
  (* distinct tables live in distinct streams (under the container's name comparison) *)
  NoDup (map (fun e => name_key (stream_name_of (snd e))) (d_tabs d)) /\
  Forall (table_ok (d_cont d) (d_pool d)) (d_tabs d) /\
  (* exact accounting: the refcount of every entry is the number of cells that refer to it *)
  (forall r, 0 < r -> refcount (d_pool d) r = occ r (all_rows (d_cont d) (d_tabs d))).

(* ---- abstraction: the rows of a table as values ---------------------------------------------------------- *)
Definition tvals (prof : profile) (d : db) (t : table) : res (list (list value)) :=
  rows <- load_rows (d_cont d) t ;; rmapM (row_to_values prof (d_pool d)) rows.

Definition key_of (t : table) (r : list value) : list value := project (pk_indices t) r.
Definition sorted_by_key (t : table) (vals : list (list value)) : Prop :=
  StronglySorted key_lt (map (key_of t) vals).

(* a stored cell is valid for its column, where an accepted empty string is stored as null (the C01 identification) *)
Definition cell_valid (c : column) (v : value) : Prop :=
  is_valid_value c v = Ok true \/ (v = VNull /\ is_valid_value c (VStr []) = Ok true).
Definition rows_valid (t : table) (vals : list (list value)) : Prop :=
  Forall (fun r => Forall2 cell_valid (t_cols t) r) vals.

(* ---- specification of UPDATE on one row ------------------------------------------------------------------- *)
Fixpoint assign (t : table) (ups : list (str * value)) (r : list value) : list value :=
  match ups with
  | [] => r
  | (n, v) :: rest =>
      match col_index t n with
      | Some i => assign t rest (set_nth r i (normalize_value v))
      | None => assign t rest r
      end
  end.
Definition upd_row (t : table) (ups : list (str * value)) (cond : option ast) (r : list value) : list value :=
  if holds_v t cond r then assign t ups r else r.
Definition touches_key (t : table) (ups : list (str * value)) : bool :=
  existsb (fun u => match col_index t (fst u) with Some i => existsb (Nat.eqb i) (pk_indices t) | None => false end) ups.
