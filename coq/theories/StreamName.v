(* StreamName.v -- model of src/internal/streamname.rs (MSI stream-name packing). *)
From MsiModel Require Import Base.
From MsiGen Require Import GenStreamName.
Open Scope N_scope.

Definition to_b64 (c : N) : option N :=
  if (48 <=? c) && (c <=? 57) then Some (c - 48)
  else if (65 <=? c) && (c <=? 90) then Some (10 + c - 65)
  else if (97 <=? c) && (c <=? 122) then Some (36 + c - 97)
  else if c =? 46 then Some 62
  else if c =? 95 then Some 63
  else None.

Definition from_b64 (v : N) : N :=
  if v <? 10 then v + 48
  else if v <? 36 then v - 10 + 65
  else if v <? 62 then v - 36 + 97
  else if v =? 62 then 46
  else 95.

(* encode: two adjacent packable characters become one code point, a lone one another *)
Fixpoint encode_chars (s : str) : str :=
  match s with
  | [] => []
  | c1 :: r =>
      match to_b64 c1 with
      | Some v1 =>
          match r with
          | c2 :: r2 =>
              match to_b64 c2 with
              | Some v2 => (SN_ENC_PAIR_BASE + v2 * 2 ^ SN_ENC_SHIFT + v1) :: encode_chars r2
              | None => (SN_ENC_SINGLE_BASE + v1) :: encode_chars r
              end
          | [] => [SN_ENC_SINGLE_BASE + v1]
          end
      | None => c1 :: encode_chars r
      end
  end.
Definition sn_encode (name : str) (is_table : bool) : str :=
  (if is_table then [TABLE_PREFIX] else []) ++ encode_chars name.

Definition decode_char (c : N) : str :=
  if (SN_PAIR_LO <=? c) && (c <? SN_PAIR_HI) then
    let v := c - SN_PAIR_LO in [from_b64 (v mod 64); from_b64 (v / 64)]
  else if (SN_SINGLE_LO <=? c) && (c <? SN_SINGLE_HI) then [from_b64 (c - SN_SINGLE_LO)]
  else [c].
Definition sn_decode (name : str) : str * bool :=
  match name with
  | c :: r => if c =? TABLE_PREFIX then (flat_map decode_char r, true) else (flat_map decode_char name, false)
  | [] => ([], false)
  end.

Definition in_ranges (c : N) (rs : list (N * N)) : bool :=
  existsb (fun r => (fst r <=? c) && (c <=? snd r)) rs.
Definition reserved_char (c : N) : bool :=
  in_ranges c SN_RESERVED_RANGES || existsb (N.eqb c) SN_RESERVED_CHARS.

(* is_valid *)
Definition sn_is_valid (name : str) (is_table : bool) : bool :=
  match name with
  | [] => false
  | c :: _ =>
      if negb is_table && (c =? TABLE_PREFIX) then false
      else if existsb reserved_char name then false
      else utf16_len (sn_encode name is_table) <=? SN_MAX_UNITS
  end.
