(* Category.v -- model of src/internal/category.rs. *)
From MsiModel Require Import Base Sexp Language.
From MsiGen Require Import GenCategory.
Open Scope N_scope.

Inductive category :=
| CText | CUpperCase | CLowerCase | CInteger | CDoubleInteger | CTimeDate | CIdentifier | CProperty
| CFilename | CWildCardFilename | CPath | CPaths | CAnyPath | CDefaultDir | CRegPath | CFormatted
| CFormattedSddlText | CTemplate | CCondition | CGuid | CVersion | CLanguage | CBinary | CCustomSource
| CCabinet | CShortcut.

Definition all_categories : list category :=
  [CText; CUpperCase; CLowerCase; CInteger; CDoubleInteger; CTimeDate; CIdentifier; CProperty;
   CFilename; CWildCardFilename; CPath; CPaths; CAnyPath; CDefaultDir; CRegPath; CFormatted;
   CFormattedSddlText; CTemplate; CCondition; CGuid; CVersion; CLanguage; CBinary; CCustomSource;
   CCabinet; CShortcut].

Open Scope string_scope.
Definition cat_ident_s (c : category) : string :=
  match c with
  | CText => "Text" | CUpperCase => "UpperCase" | CLowerCase => "LowerCase" | CInteger => "Integer"
  | CDoubleInteger => "DoubleInteger" | CTimeDate => "TimeDate" | CIdentifier => "Identifier"
  | CProperty => "Property" | CFilename => "Filename" | CWildCardFilename => "WildCardFilename"
  | CPath => "Path" | CPaths => "Paths" | CAnyPath => "AnyPath" | CDefaultDir => "DefaultDir"
  | CRegPath => "RegPath" | CFormatted => "Formatted" | CFormattedSddlText => "FormattedSddlText"
  | CTemplate => "Template" | CCondition => "Condition" | CGuid => "Guid" | CVersion => "Version"
  | CLanguage => "Language" | CBinary => "Binary" | CCustomSource => "CustomSource"
  | CCabinet => "Cabinet" | CShortcut => "Shortcut"
  end.
Close Scope string_scope.
Definition cat_ident (c : category) : str := str_of_string (cat_ident_s c).

Fixpoint assoc (k : str) (l : list (str * str)) : option str :=
  match l with
  | [] => None
  | (a, b) :: r => if str_eqb a k then Some b else assoc k r
  end.

(* Category::as_str / Display, FromStr -- through the generated match tables *)
Definition cat_as_str (c : category) : str :=
  match assoc (cat_ident c) CAT_AS_STR with Some s => s | None => [] end.
Definition cat_of_ident (i : str) : option category :=
  find (fun c => str_eqb (cat_ident c) i) all_categories.
Definition cat_from_str (s : str) : option category :=
  match assoc s CAT_FROM_STR with Some i => cat_of_ident i | None => None end.

(* ---- character classes (ASCII only, as in the source) --------------------- *)
Definition is_upper (c : N) : bool := (65 <=? c) && (c <=? 90).
Definition is_lower (c : N) : bool := (97 <=? c) && (c <=? 122).
Definition is_digit (c : N) : bool := (48 <=? c) && (c <=? 57).
Definition is_alpha (c : N) : bool := is_upper c || is_lower c.
Definition is_alnum (c : N) : bool := is_alpha c || is_digit c.
Definition is_hex (c : N) : bool := is_digit c || ((65 <=? c) && (c <=? 70)) || ((97 <=? c) && (c <=? 102)).

(* ---- str::parse::<iN/uN>: optional sign, at least one digit, in range ------ *)
Definition digits_value (ds : str) : Z :=
  fold_left (fun acc d => (acc * 10 + Z.of_N (d - 48))%Z) ds 0%Z.
Definition parse_int (signed : bool) (lo hi : Z) (s : str) : bool :=
  let '(neg, ds) :=
    match s with
    | c :: r =>
        if c =? 43 then (false, r)                         (* '+' accepted by every integer type *)
        else if (c =? 45) && signed then (true, r)        (* '-' only by signed types *)
        else (false, s)
    | [] => (false, s)
    end in
  match ds with
  | [] => false
  | _ => forallb is_digit ds &&
         (let v := digits_value ds in
          if neg then (lo <=? - v)%Z else (v <=? hi)%Z)
  end.
Definition parse_i16 := parse_int true (-32768) 32767.
Definition parse_i32 := parse_int true (-2147483648) 2147483647.
Definition parse_u16 := parse_int false 0 65535.

(* ---- str::split(c) ---------------------------------------------------------- *)
Fixpoint split_on (c : N) (s : str) : list str :=
  match s with
  | [] => [[]]
  | x :: r =>
      match split_on c r with
      | [] => [[]]    (* unreachable: split_on never returns [] *)
      | h :: t => if x =? c then [] :: h :: t else (x :: h) :: t
      end
  end.

(* rsplitn(2, '.') reversed: (text before the last dot, Some text after it) *)
Fixpoint rsplit_dot (s : str) : str * option str :=
  match s with
  | [] => ([], None)
  | x :: r =>
      match rsplit_dot r with
      | (b, Some e) => (x :: b, Some e)
      | (b, None) => if x =? 46 then ([], Some b) else (x :: b, None)
      end
  end.

(* ---- Uuid::parse_str on a 36-byte slice: 8-4-4-4-12 hex digits -------------- *)
Fixpoint uuid_chars (i : nat) (b : bytes) : bool :=
  match b with
  | [] => true
  | x :: r =>
      (if (Nat.eqb i 8 || Nat.eqb i 13 || Nat.eqb i 18 || Nat.eqb i 23)%bool then x =? 45 else is_hex x)
      && uuid_chars (S i) r
  end.
Definition uuid_hyphenated (b : bytes) : bool := (nlen b =? 36) && uuid_chars 0 b.

(* &string[a..b]: panics unless a and b are char boundaries of the UTF-8 text *)
Definition is_continuation (b : N) : bool := (128 <=? b) && (b <? 192).
Definition boundary (bs : bytes) (i : nat) : bool :=
  match nth_opt bs i with
  | Some b => negb (is_continuation b)
  | None => Nat.eqb i (length bs)
  end.
Definition slice (bs : bytes) (a b : nat) : res bytes :=
  if (boundary bs a && boundary bs b && Nat.leb a b && Nat.leb b (length bs))%bool
  then Ok (firstn (b - a) (skipn a bs)) else Panic.

Definition strip_prefix_char (c : N) (s : str) : option str :=
  match s with x :: r => if x =? c then Some r else None | [] => None end.
Definition starts_with_char (c : N) (s : str) : bool :=
  match s with x :: _ => x =? c | [] => false end.
Definition ends_with_char (c : N) (s : str) : bool :=
  match rev s with x :: _ => x =? c | [] => false end.

Definition identifier_ok (s : str) : bool :=
  match s with
  | c :: _ => (is_alpha c || (c =? 95)) &&
              negb (existsb (fun x => negb (is_alnum x || (x =? 95) || (x =? 46))) s)
  | [] => false
  end.

Definition measure (s : str) : N := if CAT_CABINET_IN_CHARS then nlen s else utf8_len s.

(* Category::validate *)
Definition validate (c : category) (s : str) : res bool :=
  match c with
  | CText => Ok true
  | CUpperCase => Ok (negb (existsb is_lower s))
  | CLowerCase => Ok (negb (existsb is_upper s))
  | CInteger => Ok (parse_i16 s)
  | CDoubleInteger => Ok (parse_i32 s)
  | CIdentifier => Ok (identifier_ok s)
  | CProperty => Ok (identifier_ok (match strip_prefix_char 37 s with Some r => r | None => s end))
  | CGuid =>
      if (utf8_len s =? 38) && starts_with_char 123 s && ends_with_char 125 s && negb (existsb is_lower s)
      then mid <- slice (utf8_enc s) 1 37 ;; Ok (uuid_hyphenated mid)
      else Ok false
  | CVersion =>
      let parts := split_on 46 s in
      Ok ((nlen parts <=? 4) && forallb parse_u16 parts)
  | CLanguage => Ok (forallb parse_u16 (split_on 44 s))
  | CCabinet =>
      match strip_prefix_char 35 s with
      | Some r => Ok (identifier_ok r)
      | None =>
          let '(base, ext) := rsplit_dot s in
          Ok (negb (match base with [] => true | _ => false end) && (measure base <=? 8) &&
              match ext with None => true | Some e => measure e <=? 3 end)
      end
  | _ => Ok true
  end.
Definition validate_b (c : category) (s : str) : bool :=
  match validate c s with Ok b => b | _ => false end.

(* Value::from(Uuid): brace + hyphenated upper-case hex + brace *)
Definition hex_digit (n : N) : N := if (n <? 10)%N then (48 + n)%N else (55 + n)%N.
Definition hex_byte (b : N) : str := [hex_digit (b / 16)%N; hex_digit (b mod 16)%N].
Fixpoint uuid_text (i : nat) (bs : bytes) : str :=
  match bs with
  | [] => []
  | b :: r =>
      (if (Nat.eqb i 4 || Nat.eqb i 6 || Nat.eqb i 8 || Nat.eqb i 10)%bool then [45%N] else []) ++
      hex_byte b ++ uuid_text (S i) r
  end.
Definition uuid_value_text (bs : bytes) : str := (123%N :: uuid_text 0 bs ++ [125%N]).

(* Value::from(&[Language]) / Value::from(Language) *)
Fixpoint join_sep (sep : N) (parts : list str) : str :=
  match parts with
  | [] => []
  | [p] => p
  | p :: r => p ++ sep :: join_sep sep r
  end.
Definition langs_value_text (codes : list N) : str := (join_sep 44%N (map decimal codes)).

