(* CreateTableDry.v -- create_table dry-runs its three catalog inserts (fix in /repo: Insert::check): proofs of the
   statements in CreateTableDrySpec.v.
     dry_runs_now        the source has the dry runs
     orphan_refused      with them, a create_table that the catalog refuses changes nothing
     orphan_before_fix   without them, the same call is refused after the table has been half-created
     check_is_prefix     an Err of exec_insert_check is an Err of exec_insert
     check_ok_prefix     a successful exec_insert had a successful exec_insert_check *)
From Coq Require Import Lia ZArith NArith List.
From MsiModel Require Import Base Sexp Value Expr Category Column CodePage Pool Table Container StreamName
  Propset Summary Query Package CreateTableDrySpec.
From MsiGen Require Import GenConsts GenCatalog GenStreamName.
Import ListNotations.
Open Scope N_scope.

Theorem dry_runs_now : G_dry_runs_now.
Proof. reflexivity. Qed.

(* pkg_create_table is the variant with the dry runs *)
Lemma pkg_create_table_dry : pkg_create_table = pkg_create_table_with true.
Proof. reflexivity. Qed.

Theorem orphan_refused : G_orphan_refused.
Proof.
  unfold G_orphan_refused.
  destruct (pkg_create Debug Installer) as [k0| |] eqn:E0; [|vm_compute in E0; discriminate..].
  destruct (pkg_insert Debug k0 VALIDATION_TABLE_NAME orphan_row) as [k1 r1] eqn:E1.
  exists k0, k1. vm_compute in E0. inversion E0; subst k0. vm_compute in E1. inversion E1; subst k1 r1.
  repeat split; vm_compute; reflexivity.
Qed.

Theorem orphan_before_fix : G_orphan_before_fix.
Proof.
  unfold G_orphan_before_fix.
  destruct (pkg_create Debug Installer) as [k0| |] eqn:E0; [|vm_compute in E0; discriminate..].
  destruct (pkg_insert Debug k0 VALIDATION_TABLE_NAME orphan_row) as [k1 r1] eqn:E1.
  destruct (pkg_create_table_with false Debug k1 s_Foo [bar_col]) as [k2 r2] eqn:E2.
  exists k0, k1, k2. vm_compute in E0. inversion E0; subst k0. vm_compute in E1. inversion E1; subst k1 r1.
  vm_compute in E2. inversion E2; subst k2 r2.
  split; [reflexivity|]. split; [reflexivity|]. split; [reflexivity|]. split.
  - vm_compute. discriminate.
  - intros H. apply (f_equal (fun k => match find_table (k_tabs k) s_Foo with Some _ => true | None => false end)) in H.
    vm_compute in H. discriminate H.
Qed.

Theorem check_is_prefix : G_check_is_prefix.
Proof.
  unfold G_check_is_prefix, exec_insert_check, exec_insert. intros prof c p ts tn rows.
  destruct (of_opt (find_table ts tn)) as [t| |]; cbn [rbind]; try solve [discriminate | intros _; reflexivity].
  destruct (validate_new_rows t rows) as [[]| |]; cbn [rbind]; try solve [discriminate | intros _; reflexivity].
  destruct (load_rows c t) as [old| |]; cbn [rbind]; try solve [discriminate | intros _; reflexivity].
  destruct (load_keyed prof p (pk_indices t) old []) as [m| |]; cbn [rbind]; try solve [discriminate | intros _; reflexivity].
  destruct (check_new_keys (pk_indices t) m [] (map (map normalize_value) rows)) as [[]| |]; cbn [rbind];
    try solve [discriminate | intros _; reflexivity].
  destruct (match MAX_ROWS_INSERT with
            | Some lim => if lim <? nlen m + nlen (map (map normalize_value) rows) then Err else Ok tt
            | None => Ok tt end) as [[]| |]; cbn [rbind]; solve [discriminate | intros _; reflexivity].
Qed.

Theorem check_ok_prefix : G_check_ok_prefix.
Proof.
  unfold G_check_ok_prefix, exec_insert_check, exec_insert. intros prof c p ts tn rows cp'.
  destruct (of_opt (find_table ts tn)) as [t| |]; cbn [rbind]; try discriminate.
  destruct (validate_new_rows t rows) as [[]| |]; cbn [rbind]; try discriminate.
  destruct (load_rows c t) as [old| |]; cbn [rbind]; try discriminate.
  destruct (load_keyed prof p (pk_indices t) old []) as [m| |]; cbn [rbind]; try discriminate.
  destruct (check_new_keys (pk_indices t) m [] (map (map normalize_value) rows)) as [[]| |]; cbn [rbind];
    try discriminate.
  destruct (match MAX_ROWS_INSERT with
            | Some lim => if lim <? nlen m + nlen (map (map normalize_value) rows) then Err else Ok tt
            | None => Ok tt end) as [[]| |]; cbn [rbind]; [reflexivity | discriminate | discriminate].
Qed.

(* the same for Panic: the two functions agree on everything up to the first mutation *)
Lemma check_panic_prefix prof c p ts tn rows :
  exec_insert_check prof c p ts tn rows = Panic -> exec_insert prof c p ts tn rows = Panic.
Proof.
  unfold exec_insert_check, exec_insert.
  destruct (of_opt (find_table ts tn)) as [t| |]; cbn [rbind]; try solve [discriminate | intros _; reflexivity].
  destruct (validate_new_rows t rows) as [[]| |]; cbn [rbind]; try solve [discriminate | intros _; reflexivity].
  destruct (load_rows c t) as [old| |]; cbn [rbind]; try solve [discriminate | intros _; reflexivity].
  destruct (load_keyed prof p (pk_indices t) old []) as [m| |]; cbn [rbind]; try solve [discriminate | intros _; reflexivity].
  destruct (check_new_keys (pk_indices t) m [] (map (map normalize_value) rows)) as [[]| |]; cbn [rbind];
    try solve [discriminate | intros _; reflexivity].
  destruct (match MAX_ROWS_INSERT with
            | Some lim => if lim <? nlen m + nlen (map (map normalize_value) rows) then Err else Ok tt
            | None => Ok tt end) as [[]| |]; cbn [rbind]; solve [discriminate | intros _; reflexivity].
Qed.

(* every refusal of the repaired create_table that comes from a dry run leaves the package untouched *)
Lemma dry_run_refusal_noop prof k tn cols k' :
  pkg_create_table_with true prof k tn cols = (k', Err) ->
  pkg_create_table_with false prof k tn cols = (k', Err) \/ k' = k.
Proof.
  unfold pkg_create_table_with.
  destruct (negb (is_valid_tname tn)); [left; assumption|].
  destruct (existsb (str_eqb tn) CREATE_TABLE_EXTRA_RESERVED); [left; assumption|].
  destruct cols as [|c0 cols0]; [left; assumption|].
  destruct (MAX_NUM_TABLE_COLUMNS <? nlen (c0 :: cols0)); [left; assumption|].
  destruct (negb (existsb c_pk (c0 :: cols0))); [left; assumption|].
  destruct (negb (first_dup_or_bad (c0 :: cols0) [])); [left; assumption|].
  destruct (find_table (k_tabs k) tn); [left; assumption|].
  cbv zeta.
  destruct (rows_fit (find_table (k_tabs k) COLUMNS_TABLE_NAME) _) as [[|]| |];
  try (destruct (rows_fit (find_table (k_tabs k) TABLES_TABLE_NAME) _) as [[|]| |]);
  try (destruct (vrows_fit tn (find_table (k_tabs k) VALIDATION_TABLE_NAME) _) as [[|]| |]);
  try (left; assumption).
  destruct (_ <- catalog_dry_run prof k COLUMNS_TABLE_NAME _ ;; _) as [u| |].
  - left; assumption.
  - intros H; inversion H; right; reflexivity.
  - intros H; inversion H.
Qed.

Print Assumptions dry_runs_now.
Print Assumptions orphan_refused.
Print Assumptions orphan_before_fix.
Print Assumptions check_is_prefix.
Print Assumptions check_ok_prefix.
Print Assumptions check_panic_prefix.
Print Assumptions dry_run_refusal_noop.
