(* Expr.v -- model of src/internal/expr.rs: AST, the constant-folding
   constructors, evaluation, column names, and the printer (as tokens). *)
From MsiModel Require Import Base Value.
From MsiGen Require Import GenExpr.
Open Scope Z_scope.

Inductive unop := Neg | BitNot | BoolNot.
Inductive binop := OEq | ONe | OLt | OLe | OGt | OGe | OAdd | OSub | OMul | ODiv
                 | OBitAnd | OBitOr | OBitXor | OShl | OShr.

Inductive ast :=
| Lit (v : value)
| Col (name : str)
| UnOp (op : unop) (a : ast)
| BinOp (op : binop) (a b : ast)
| And (a b : ast)
| Or (a b : ast).

(* ---- operators ----------------------------------------------------------- *)
Definition unop_eval (op : unop) (v : value) : value :=
  match op with
  | Neg => match v with VInt n => VInt (wrap32 (- n)) | _ => VNull end
  | BitNot => match v with VInt n => VInt (wrap32 (Z.lnot n)) | _ => VNull end
  | BoolNot => from_bool (negb (to_bool v))
  end.

Definition binop_eval (op : binop) (v1 v2 : value) : value :=
  match op with
  | OEq => from_bool (value_eqb v1 v2)
  | ONe => from_bool (negb (value_eqb v1 v2))
  | OLt => from_bool (value_ltb v1 v2)
  | OLe => from_bool (value_leb v1 v2)
  | OGt => from_bool (value_ltb v2 v1)
  | OGe => from_bool (value_leb v2 v1)
  | OAdd => match v1, v2 with
            | VInt a, VInt b => VInt (wrap32 (a + b))
            | VStr a, VStr b => VStr (a ++ b)
            | _, _ => VNull
            end
  | OSub => match v1, v2 with VInt a, VInt b => VInt (wrap32 (a - b)) | _, _ => VNull end
  | OMul => match v1, v2 with VInt a, VInt b => VInt (wrap32 (a * b)) | _, _ => VNull end
  | ODiv => match v1, v2 with
            | _, VInt 0 => VNull
            | VInt a, VInt b =>
                (* checked_div: None on i32::MIN / -1 *)
                if (a =? i32_min) && (b =? -1) then VNull else VInt (Z.quot a b)
            | _, _ => VNull
            end
  | OBitAnd => match v1, v2 with VInt a, VInt b => VInt (wrap32 (Z.land a b)) | _, _ => VNull end
  | OBitOr => match v1, v2 with VInt a, VInt b => VInt (wrap32 (Z.lor a b)) | _, _ => VNull end
  | OBitXor => match v1, v2 with VInt a, VInt b => VInt (wrap32 (Z.lxor a b)) | _, _ => VNull end
  | OShl => match v1, v2 with
            | VInt a, VInt b =>
                (* u32::try_from(b).ok().and_then(|s| a.checked_shl(s)) *)
                if (0 <=? b) && (b <? 32) then VInt (wrap32 (Z.shiftl a b)) else VNull
            | _, _ => VNull
            end
  | OShr => match v1, v2 with
            | VInt a, VInt b =>
                if (0 <=? b) && (b <? 32) then VInt (Z.shiftr a b) else VNull
            | _, _ => VNull
            end
  end.

(* ---- rows and evaluation ------------------------------------------------- *)
Definition row := list (str * value).    (* column name, value; first match wins *)
Fixpoint lookup (r : row) (name : str) : option value :=
  match r with
  | [] => None
  | (n, v) :: r' => if str_eqb n name then Some v else lookup r' name
  end.

(* Ast::eval; row[name] panics when the column is missing *)
Fixpoint eval (r : row) (e : ast) : res value :=
  match e with
  | Lit v => Ok v
  | Col n => unwrap (lookup r n)
  | UnOp op a => v <- eval r a ;; Ok (unop_eval op v)
  | BinOp op a b => v1 <- eval r a ;; v2 <- eval r b ;; Ok (binop_eval op v1 v2)
  | And a b => v1 <- eval r a ;;
               if to_bool v1 then v2 <- eval r b ;; Ok (from_bool (to_bool v2))
               else Ok (from_bool false)
  | Or a b => v1 <- eval r a ;;
              if to_bool v1 then Ok (from_bool true)
              else v2 <- eval r b ;; Ok (from_bool (to_bool v2))
  end.

(* column_names(), as a list (the Rust side returns a set) *)
Fixpoint cols_of (e : ast) : list str :=
  match e with
  | Lit _ => []
  | Col n => [n]
  | UnOp _ a => cols_of a
  | BinOp _ a b | And a b | Or a b => cols_of a ++ cols_of b
  end.

(* ---- the public constructors fold literals -------------------------------- *)
Definition mk_unop (op : unop) (a : ast) : ast :=
  match a with Lit v => Lit (unop_eval op v) | _ => UnOp op a end.
Definition mk_binop (op : binop) (a b : ast) : ast :=
  match a, b with Lit v1, Lit v2 => Lit (binop_eval op v1 v2) | _, _ => BinOp op a b end.

(* what the API builds when asked for the tree e *)
Fixpoint build (e : ast) : ast :=
  match e with
  | Lit v => Lit v
  | Col n => Col n
  | UnOp op a => mk_unop op (build a)
  | BinOp op a b => mk_binop op (build a) (build b)
  | And a b => And (build a) (build b)
  | Or a b => Or (build a) (build b)
  end.

(* replace every column by the literal the row holds for it *)
Fixpoint subst (r : row) (e : ast) : ast :=
  match e with
  | Lit v => Lit v
  | Col n => match lookup r n with Some v => Lit v | None => Col n end
  | UnOp op a => UnOp op (subst r a)
  | BinOp op a b => BinOp op (subst r a) (subst r b)
  | And a b => And (subst r a) (subst r b)
  | Or a b => Or (subst r a) (subst r b)
  end.

(* ---- printer: format_with_precedence as a token list ---------------------- *)
Inductive bop := BOr | BAnd | BBin (op : binop).
Inductive tok :=
| TLit (v : value) | TId (s : str) | TLP | TRP | TUn (u : unop) | TB (b : bop).

Definition binop_prec (op : binop) : N :=
  match op with
  | OEq => PREC_Eq | ONe => PREC_Ne | OLt => PREC_Lt | OLe => PREC_Le | OGt => PREC_Gt | OGe => PREC_Ge
  | OAdd => PREC_Add | OSub => PREC_Sub | OMul => PREC_Mul | ODiv => PREC_Div
  | OBitAnd => PREC_BitAnd | OBitOr => PREC_BitOr | OBitXor => PREC_BitXor
  | OShl => PREC_Shl | OShr => PREC_Shr
  end.
Definition bop_prec (b : bop) : N :=
  match b with BOr => PREC_OR | BAnd => PREC_AND | BBin op => binop_prec op end.

Definition parens (b : bool) (ts : list tok) : list tok :=
  if b then TLP :: ts ++ [TRP] else ts.

Open Scope N_scope.
Fixpoint print (p : N) (e : ast) : list tok :=
  match e with
  | Lit v => [TLit v]
  | Col n => [TId n]
  | UnOp op a =>
      parens (match op with BoolNot => PREC_NOT_PAREN_ABOVE <? p | _ => false end)
             (TUn op :: print PREC_UNARY_ARG a)
  | BinOp op a b =>
      let q := binop_prec op in
      parens (q <? p) (print q a ++ TB (BBin op) :: print (q + 1) b)
  | And a b =>
      let q := PREC_AND in parens (q <? p) (print q a ++ TB BAnd :: print (q + 1) b)
  | Or a b =>
      let q := PREC_OR in parens (q <? p) (print q a ++ TB BOr :: print (q + 1) b)
  end.
