(* PackageCmd.v -- stateful commands on a package under test. *)
From MsiModel Require Import Base Sexp Value Expr Category Column CodePage Pool Table Container StreamName
  Propset Summary Query Package ExprCmd ColumnCmd Timestamp Language QueryText.
From MsiGen Require Import GenConsts GenCatalog GenStreamName.
Open Scope string_scope.

Record state := mkstate { st_prof : profile; st_pkg : option pkg }.
Definition init_state : state := mkstate Debug None.

Definition sx_cond (s : sx) : option (option ast) := as_opt sx_ast s.
Fixpoint sx_sel (s : sx) : option sel :=
  match s with
  | SL [SY "sel"; from; names; cond] =>
      match sx_join from, as_listof as_str names, sx_cond cond with
      | Some j, Some ns, Some c => Some (Sel j ns c)
      | _, _, _ => None
      end
  | _ => None
  end
with sx_join (s : sx) : option join :=
  match s with
  | SL [SY "t"; n] => option_map JTable (as_str n)
  | SL [SY "inner"; a; b; on] =>
      match sx_sel a, sx_sel b, sx_ast on with
      | Some a', Some b', Some e => Some (JInner a' b' (build e))
      | _, _, _ => None
      end
  | SL [SY "left"; a; b; on] =>
      match sx_sel a, sx_sel b, sx_ast on with
      | Some a', Some b', Some e => Some (JLeft a' b' (build e))
      | _, _, _ => None
      end
  | _ => None
  end.
(* WHERE conditions are built through the public constructors too *)
Fixpoint build_sel (s : sel) : sel :=
  match s with
  | Sel j ns c => Sel (build_join j) ns (option_map build c)
  end
with build_join (j : join) : join :=
  match j with
  | JTable n => JTable n
  | JInner a b e => JInner (build_sel a) (build_sel b) e
  | JLeft a b e => JLeft (build_sel a) (build_sel b) e
  end.

Definition sx_ptype (z : Z) : option ptype :=
  match z with 0%Z => Some Installer | 1%Z => Some Patch | 2%Z => Some Transform | _ => None end.
Definition ptype_sx (t : ptype) : sx := SI (match t with Installer => 0 | Patch => 1 | Transform => 2 end)%Z.

(* sorted insertion of named things, for canonical listings *)
Fixpoint ins_named {A} (x : str * A) (l : list (str * A)) : list (str * A) :=
  match l with
  | [] => [x]
  | y :: r => match str_cmp (fst x) (fst y) with Gt => y :: ins_named x r | _ => x :: l end
  end.
Definition sort_named {A} (l : list (str * A)) : list (str * A) := fold_right ins_named [] l.

Definition tables_sx (k : pkg) : sx :=
  sx_list (fun e => SL [sx_str (fst e); sx_list column_sx (t_cols (snd e))]) (k_tabs k).

Definition summary_sx (ps : propset) : sx :=
  let gs k := sx_opt sx_str (get_str ps k) in
  SL [sx_N (cp_id (ps_cp ps)); gs PROPERTY_TITLE; gs PROPERTY_SUBJECT; gs PROPERTY_AUTHOR; gs PROPERTY_COMMENTS;
      gs PROPERTY_CREATING_APP;
      sx_opt sx_str (sum_uuid ps);
      sx_opt SI (match ps_lookup PROPERTY_WORD_COUNT (ps_props ps) with Some (PI4 z) => Some z | _ => None end);
      sx_opt SI (match ps_lookup PROPERTY_CREATION_TIME (ps_props ps) with Some (PTime t) => Some (to_time (Z.of_N t)) | _ => None end);
      sx_opt sx_str (sum_arch ps);
      sx_list sx_N (sum_languages ps)].

Definition all_rows_sx (prof : profile) (k : pkg) : sx :=
  sx_list (fun e =>
             SL [sx_str (fst e);
                 match pkg_select prof k (Sel (JTable (fst e)) [] None) with
                 | Ok (_, rows) => SL [SY "ok"; sx_list (sx_list value_sx) rows]
                 | Err => SY "err"
                 | Panic => SY "panic"
                 end]) (k_tabs k).

Definition streams_sx (k : pkg) : sx :=
  sx_list (fun e => SL [sx_str (fst e); snd e])
          (sort_named (map (fun n => (n, sx_res sx_str (pkg_read_stream k n))) (pkg_streams k))).

Definition raw_sx (k : pkg) : sx :=
  sx_list (fun e => SL [sx_str (fst e); sx_str (snd e)]) (sort_named (ct_entries (k_cont k))).

Definition with_pkg (st : state) (f : pkg -> state * sx) : state * sx :=
  match st_pkg st with Some k => f k | None => (st, SY "nopkg") end.
Definition upd (st : state) (r : pkg * res unit) : state * sx :=
  (mkstate (st_prof st) (Some (fst r)), sx_res sx_unit (snd r)).

Definition sum_prop (name : string) : option N :=
  match name with
  | "title" => Some PROPERTY_TITLE | "subject" => Some PROPERTY_SUBJECT | "author" => Some PROPERTY_AUTHOR
  | "comments" => Some PROPERTY_COMMENTS | "app" => Some PROPERTY_CREATING_APP | "uuid" => Some PROPERTY_UUID
  | "words" => Some PROPERTY_WORD_COUNT | "ctime" => Some PROPERTY_CREATION_TIME
  | _ => None
  end.

Definition reopen (st : state) (k : pkg) : state * sx :=
  match pkg_flush k with
  | None => (st, SL [SY "any"])
  | Some k1 =>
      match pkg_open (st_prof st) (k_cont k1) with
      | Ok k2 => (mkstate (st_prof st) (Some k2), SL [SY "ok"; SL []])
      | Err => (mkstate (st_prof st) None, SY "err")
      | Panic => (mkstate (st_prof st) None, SY "panic")
      end
  end.

(* C19: the text of a query object, as fmt::Display writes it *)
Definition sx_query (s : sx) : option query :=
  match s with
  | SL [SY "insert"; n; rows] =>
      match as_str n, as_listof (as_listof sx_value) rows with
      | Some n', Some rs => Some (QInsert n' rs) | _, _ => None end
  | SL [SY "delete"; n; cond] =>
      match as_str n, sx_cond cond with
      | Some n', Some c => Some (QDelete n' (option_map build c)) | _, _ => None end
  | SL [SY "update"; n; ups; cond] =>
      match as_str n, as_listof (fun u => match u with
                                          | SL [c; v] => match as_str c, sx_value v with
                                                         | Some c', Some v' => Some (c', v') | _, _ => None end
                                          | _ => None end) ups, sx_cond cond with
      | Some n', Some us, Some c => Some (QUpdate n' us (option_map build c)) | _, _, _ => None end
  | _ => option_map (fun q => QSelect (build_sel q)) (sx_sel s)
  end.

(* C16: save, open the saved container, use read operations only (they do not return a package: by construction they
   cannot change it), close; reports (number of streams the session rewrote, container identical) *)
Definition entries_eqb (a b : list (str * bytes)) : bool :=
  list_eqb (fun x y => str_eqb (fst x) (fst y) && str_eqb (snd x) (snd y)) a b.
Definition container_eqb (a b : container) : bool :=
  str_eqb (ct_clsid a) (ct_clsid b) && entries_eqb (ct_entries a) (ct_entries b).
Definition readonly_session (st : state) (k : pkg) : state * sx :=
  match pkg_flush k with
  | None => (st, SL [SY "any"])
  | Some k1 =>
      match pkg_open (st_prof st) (k_cont k1) with
      | Ok k2 =>
          match pkg_flush k2 with
          | Some k3 =>
              let same := container_eqb (k_cont k3) (k_cont k1) in
              (mkstate (st_prof st) (Some k2), SL [SY "ok"; SL [sx_N (if same then 0 else 1)%N; sx_bool same]])
          | None => (st, SL [SY "any"])
          end
      | Err => (mkstate (st_prof st) None, SY "err")
      | Panic => (mkstate (st_prof st) None, SY "panic")
      end
  end.

(* C11: save, add the two digital-signature entries to the container (as a signing tool would), open the result *)
Definition add_signature (st : state) (k : pkg) : state * sx :=
  match pkg_flush k with
  | None => (st, SL [SY "any"])
  | Some k1 =>
      let c1 := ct_write (k_cont k1) DIGITAL_SIGNATURE_STREAM_NAME [1; 2; 3]%N in
      let c2 := ct_write c1 MSI_DIGITAL_SIGNATURE_EX_STREAM_NAME [4; 5]%N in
      match pkg_open (st_prof st) c2 with
      | Ok k2 => (mkstate (st_prof st) (Some k2), SL [SY "ok"; SL []])
      | Err => (mkstate (st_prof st) None, SY "err")
      | Panic => (mkstate (st_prof st) None, SY "panic")
      end
  end.

Definition pkg_cmd (st : state) (name : string) (args : list sx) : option (state * sx) :=
  let prof := st_prof st in
  match name, args with
  | "query_text", [q] => option_map (fun q' => (st, SL [SY "ok"; sx_str (query_text q')])) (sx_query q)
  | "profile", [SY p] => Some (mkstate (if String.eqb p "release" then Release else Debug) (st_pkg st), SL [])
  | "create", [SI t] =>
      match sx_ptype t with
      | Some pt => Some (match pkg_create prof pt with
                         | Ok k => (mkstate prof (Some k), SL [SY "ok"; SL []])
                         | Err => (mkstate prof None, SY "err")
                         | Panic => (mkstate prof None, SY "panic")
                         end)
      | None => None
      end
  | "open_raw", [clsid; entries] =>
      match as_str clsid, as_listof (fun e => match e with
                                              | SL [n; b] => match as_str n, as_str b with
                                                             | Some n', Some b' => Some (n', b') | _, _ => None end
                                              | _ => None end) entries with
      | Some cl, Some es =>
          Some (match pkg_open prof (mkct cl es) with
                | Ok k => (mkstate prof (Some k), SL [SY "ok"; SL []])
                | Err => (mkstate prof None, SY "err")
                | Panic => (mkstate prof None, SY "panic")
                end)
      | _, _ => None
      end
  | "create_table", [n; cols] =>
      match as_str n, as_listof sx_column cols with
      | Some n', Some cs => Some (with_pkg st (fun k => upd st (pkg_create_table prof k n' cs)))
      | _, _ => None
      end
  | "drop_table", [n] => option_map (fun n' => with_pkg st (fun k => upd st (pkg_drop_table prof k n'))) (as_str n)
  | "insert", [n; rows] =>
      match as_str n, as_listof (as_listof sx_value) rows with
      | Some n', Some rs => Some (with_pkg st (fun k => upd st (pkg_insert prof k n' rs)))
      | _, _ => None
      end
  | "delete", [n; cond] =>
      match as_str n, sx_cond cond with
      | Some n', Some c => Some (with_pkg st (fun k => upd st (pkg_delete prof k n' (option_map build c))))
      | _, _ => None
      end
  | "update", [n; ups; cond] =>
      match as_str n, as_listof (fun u => match u with
                                          | SL [c; v] => match as_str c, sx_value v with
                                                         | Some c', Some v' => Some (c', v') | _, _ => None end
                                          | _ => None end) ups, sx_cond cond with
      | Some n', Some us, Some c => Some (with_pkg st (fun k => upd st (pkg_update prof k n' us (option_map build c))))
      | _, _, _ => None
      end
  | "select", [s] =>
      match sx_sel s with
      | Some q => Some (with_pkg st (fun k =>
                    (st, sx_res (fun tr => SL [sx_list column_sx (t_cols (fst tr)); sx_list (sx_list value_sx) (snd tr)])
                                (pkg_select prof k (build_sel q)))))
      | None => None
      end
  | "tables", [] => Some (with_pkg st (fun k => (st, tables_sx k)))
  | "ptype", [] => Some (with_pkg st (fun k => (st, ptype_sx (k_type k))))
  | "db_cp", [] => Some (with_pkg st (fun k => (st, sx_N (cp_id (p_cp (k_pool k))))))
  | "set_db_cp", [SI i] =>
      match cp_from_id i with
      | Some c => Some (with_pkg st (fun k => (mkstate prof (Some (pkg_set_db_codepage k c)), SL [])))
      | None => None
      end
  | "streams", [] => Some (with_pkg st (fun k => (st, sx_list sx_str (map fst (sort_named (map (fun n => (n, tt)) (pkg_streams k)))))))
  | "has_stream", [n] => option_map (fun n' => with_pkg st (fun k => (st, sx_bool (pkg_has_stream k n')))) (as_str n)
  | "read_stream", [n] => option_map (fun n' => with_pkg st (fun k => (st, sx_res sx_str (pkg_read_stream k n')))) (as_str n)
  | "write_stream", [n; b] =>
      match as_str n, as_str b with
      | Some n', Some b' => Some (with_pkg st (fun k => upd st (pkg_write_stream k n' b')))
      | _, _ => None
      end
  | "remove_stream", [n] => option_map (fun n' => with_pkg st (fun k => upd st (pkg_remove_stream k n'))) (as_str n)
  | "has_sig", [] => Some (with_pkg st (fun k => (st, sx_bool (pkg_has_signature k))))
  | "remove_sig", [] => Some (with_pkg st (fun k => (mkstate prof (Some (pkg_remove_signature k)), SL [SY "ok"; SL []])))
  | "sum_get", [] => Some (with_pkg st (fun k => (st, summary_sx (k_sum k))))
  | "sum_set", [SY p; v] =>
      Some (with_pkg st (fun k =>
        match p, v with
        | "codepage", SI i =>
            match cp_from_id i with
            | Some c => upd st (pkg_summary_mut k (fun s => ps_set_codepage prof s c))
            | None => (st, bad_cmd)
            end
        | "arch", _ => match as_str v with
                       | Some a => upd st (pkg_summary_mut k (fun s => Ok (sum_set_arch prof s a)))
                       | None => (st, bad_cmd) end
        | "langs", _ => match as_str v with
                        | Some l => upd st (pkg_summary_mut k (fun s => Ok (sum_set_languages prof s l)))
                        | None => (st, bad_cmd) end
        | "words", SI z => upd st (pkg_summary_mut k (fun s => Ok (ps_set prof s PROPERTY_WORD_COUNT (PI4 z))))
        | "ctime", SI t => upd st (pkg_summary_mut k (fun s => Ok (ps_set prof s PROPERTY_CREATION_TIME (PTime (Z.to_N (from_time t))))))
        | "uuid", _ => match as_str v with
                       | Some b => upd st (pkg_summary_mut k (fun s => Ok (ps_set prof s PROPERTY_UUID (PStr (uuid_value_text b)))))
                       | None => (st, bad_cmd) end
        | _, _ => match sum_prop p, as_str v with
                  | Some id, Some s' => upd st (pkg_summary_mut k (fun s => Ok (ps_set prof s id (PStr s'))))
                  | _, _ => (st, bad_cmd)
                  end
        end))
  | "sum_clear", [SY p] =>
      Some (with_pkg st (fun k =>
        match p with
        | "arch" => upd st (pkg_summary_mut k (fun s => Ok (sum_set_arch prof s [])))
        | "langs" => upd st (pkg_summary_mut k (fun s => Ok (sum_set_languages prof s [])))
        | _ => match sum_prop p with
               | Some id => upd st (pkg_summary_mut k (fun s => Ok (ps_remove s id)))
               | None => (st, bad_cmd)
               end
        end))
  | "flush", [] =>
      Some (with_pkg st (fun k => match pkg_flush k with
                                  | Some k' => (mkstate prof (Some k'), SL [SY "ok"; SL []])
                                  | None => (st, SL [SY "any"])
                                  end))
  | "reopen", [SY _] => Some (with_pkg st (fun k => reopen st k))
  | "add_signature", [] => Some (with_pkg st (fun k => add_signature st k))
  | "readonly_session", [SY _] => Some (with_pkg st (fun k => readonly_session st k))
  | "raw", [] => Some (with_pkg st (fun k => (st, raw_sx k)))
  | "rows", [] => Some (with_pkg st (fun k => (st, all_rows_sx prof k)))
  | "snapshot", [] =>
      Some (with_pkg st (fun k => (st, SL [ptype_sx (k_type k); sx_N (cp_id (p_cp (k_pool k))); tables_sx k;
                                            all_rows_sx prof k; streams_sx k; summary_sx (k_sum k)])))
  | "stream_data", [] => Some (with_pkg st (fun k => (st, streams_sx k)))
  | _, _ => None
  end.
