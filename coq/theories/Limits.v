(* Limits.v -- the capacity limits of the format and of the library (C20), as regenerated from the source, and what
   happens at each of them. *)
From Coq Require Import Sorting.Sorted Permutation.
From MsiModel Require Import Base Sexp Value Expr Category Column CodePage Pool Table Container StreamName
  Propset Summary Query Package PoolProofs TableProofs QueryProofs.
From MsiGen Require Import GenConsts GenCatalog GenStreamName.
Open Scope N_scope.

Lemma limits_pinned :
  MAX_NUM_TABLE_COLUMNS = 32 /\ MAX_ROWS_READ = 65536 /\ MAX_ROWS_INSERT = Some 65536 /\
  SN_MAX_UNITS = 31 /\ MAX_STRING_REF = 16777215 /\ LONG_STRING_REFS_BIT = 2147483648.
Proof. repeat split; reflexivity. Qed.

(* rows: an INSERT that succeeds never leaves more rows than the reader accepts (the limit is symmetric) *)
Theorem insert_within_row_limit : forall prof c p ts tn rows c' p',
  exec_insert prof c p ts tn rows = Ok (c', p') ->
  exists t old, find_table ts tn = Some t /\ load_rows c t = Ok old /\ nlen old + nlen rows <= MAX_ROWS_READ.
Proof.
  intros prof c p ts tn rows c' p' H.
  destruct (exec_insert_sorted _ _ _ _ _ _ _ _ H) as (t & old & m' & Hf & Hl & _ & Hn & Hb & _).
  exists t, old. split; [exact Hf|]. split; [exact Hl|]. change MAX_ROWS_READ with 65536. rewrite <- Hn. exact Hb.
Qed.
Corollary insert_over_row_limit_rejected : forall prof c p ts tn t rows old,
  find_table ts tn = Some t -> load_rows c t = Ok old -> MAX_ROWS_READ < nlen old + nlen rows ->
  forall c' p', exec_insert prof c p ts tn rows <> Ok (c', p').
Proof.
  intros prof c p ts tn t rows old Hf Hl Hlim c' p' H.
  destruct (insert_within_row_limit _ _ _ _ _ _ _ _ H) as (t' & old' & Hf' & Hl' & Hb).
  rewrite Hf in Hf'. inversion Hf'; subst t'. rewrite Hl in Hl'. inversion Hl'; subst old'.
  apply N.lt_nge in Hlim. contradiction.
Qed.

(* names: an accepted stream or table name occupies at most 31 UTF-16 units once packed *)
Theorem valid_name_units : forall n b, sn_is_valid n b = true -> utf16_len (sn_encode n b) <= SN_MAX_UNITS.
Proof.
  intros n b H. unfold sn_is_valid in H. destruct n as [|c r]; [discriminate|].
  destruct (negb b && (c =? TABLE_PREFIX)); [discriminate|].
  destruct (existsb reserved_char (c :: r)); [discriminate|]. apply N.leb_le. exact H.
Qed.

(* strings: the one limit that is NOT an error -- with two-byte references the 65,536th entry makes incref panic
   (known finding pool_full_panic): a witness pool of 65,535 live entries *)
Definition full_pool : pool := mkpool cp_utf8 (repeat ([97], 1) (N.to_nat 65535)) false false.
Lemma pool_full_panics : pool_incref Release full_pool [98] = Panic /\ nlen (p_strings full_pool) = 65535.
Proof. split; vm_compute; reflexivity. Qed.
(* ... and below the limit it never panics on a well-formed pool *)
Theorem pool_room_no_panic : forall prof p s,
  pool_wf p -> nlen (p_strings p) < 65535 -> exists p' r, pool_incref prof p s = Ok (p', r).
Proof. exact incref_total. Qed.
