(* UpdateRefine.v -- UPDATE follows the relational model (C05): exec_update on a store satisfying the invariant
   re-establishes it (exact string accounting), rewrites exactly the named columns of exactly the matching rows,
   leaves every other table untouched, and keeps the rows sorted and unique by key. *)
From Coq Require Import ZifyBool ZifyNat ZifyN Lia Sorting.Sorted Permutation.
From MsiModel Require Import Base Value Expr Category Column CodePage Pool Table Container StreamName Query
  PoolProofs TableProofs QueryProofs CategoryProofs DbInv.
From MsiGen Require Import GenConsts.
Open Scope N_scope.

Ltac Zify.zify_post_hook ::= Z.div_mod_to_equations.
Arguments N.add : simpl never.
Arguments N.mul : simpl never.
Arguments N.div : simpl never.
Arguments N.modulo : simpl never.
Arguments N.sub : simpl never.

(* ====================================================================== *)
(* lists: nth_opt / set_nth / Forall2                                      *)
(* ====================================================================== *)
Lemma nth_opt_lt {A} (l : list A) i x : nth_opt l i = Some x -> (i < length l)%nat.
Proof.
  revert i; induction l as [|a l IH]; intros i H; destruct i; cbn [nth_opt length] in *; try discriminate; try lia.
  apply IH in H. lia.
Qed.
Lemma nth_opt_in {A} (l : list A) i x : nth_opt l i = Some x -> In x l.
Proof.
  revert i; induction l as [|a l IH]; intros i H; destruct i; cbn [nth_opt] in *; try discriminate.
  - inversion H; left; reflexivity.
  - right; eauto.
Qed.
Lemma nth_opt_some {A} (l : list A) i : (i < length l)%nat -> exists x, nth_opt l i = Some x.
Proof.
  revert i; induction l as [|a l IH]; intros i H; cbn [length] in H; [lia|].
  destruct i; cbn [nth_opt]; [eauto|]. apply IH. lia.
Qed.
Lemma set_nth_length {A} (l : list A) i x : length (set_nth l i x) = length l.
Proof. revert i; induction l as [|a l IH]; intros [|i]; cbn [set_nth length]; auto. Qed.
Lemma nth_set_same {A} (l : list A) i x : (i < length l)%nat -> nth_opt (set_nth l i x) i = Some x.
Proof.
  revert i; induction l as [|a l IH]; intros i H; cbn [length] in H; [lia|].
  destruct i; cbn [set_nth nth_opt]; [reflexivity|]. apply IH. lia.
Qed.
Lemma nth_set_other {A} (l : list A) i j x : i <> j -> nth_opt (set_nth l i x) j = nth_opt l j.
Proof.
  revert i j; induction l as [|a l IH]; intros i j H; destruct i, j; cbn [set_nth nth_opt]; try reflexivity; try congruence.
  apply IH. congruence.
Qed.
Lemma set_nth_twice {A} (l : list A) i x y : set_nth (set_nth l i x) i y = set_nth l i y.
Proof. revert i; induction l as [|a l IH]; intros [|i]; cbn [set_nth]; try reflexivity. rewrite IH. reflexivity. Qed.
Lemma set_nth_in {A} (l : list A) i x z : In z (set_nth l i x) -> z = x \/ In z l.
Proof.
  revert i; induction l as [|a l IH]; intros [|i]; cbn [set_nth In]; try tauto.
  - intros [H|H]; auto.
  - intros [H|H]; auto. destruct (IH _ H); auto.
Qed.

Lemma Forall2_set_nth_r {A B} (P : A -> B -> Prop) l1 l2 i a y :
  Forall2 P l1 l2 -> nth_opt l1 i = Some a -> P a y -> Forall2 P l1 (set_nth l2 i y).
Proof.
  intros H; revert i; induction H as [|a0 b0 l1 l2 H0 H IH]; intros i Hn Hp; destruct i; cbn [nth_opt set_nth] in *;
    try discriminate.
  - inversion Hn; subst. constructor; assumption.
  - constructor; [assumption|]. apply IH; assumption.
Qed.
Lemma Forall2_set_nth {A B} (P : A -> B -> Prop) l1 l2 i x y :
  Forall2 P l1 l2 -> P x y -> Forall2 P (set_nth l1 i x) (set_nth l2 i y).
Proof.
  intros H; revert i; induction H as [|a0 b0 l1 l2 H0 H IH]; intros i Hp; destruct i; cbn [set_nth];
    constructor; auto.
Qed.
Lemma Forall2_impl_in {A B} (P Q : A -> B -> Prop) l1 l2 :
  Forall2 P l1 l2 -> (forall x y, In x l1 -> P x y -> Q x y) -> Forall2 Q l1 l2.
Proof.
  induction 1 as [|a b l1 l2 H0 H IH]; intros HI; constructor.
  - apply HI; [left; reflexivity|assumption].
  - apply IH. intros x y Hx. apply HI. right; assumption.
Qed.
Lemma Forall2_nth {A B} (P : A -> B -> Prop) l1 l2 i a :
  Forall2 P l1 l2 -> nth_opt l1 i = Some a -> exists b, nth_opt l2 i = Some b /\ P a b.
Proof.
  intros H; revert i; induction H as [|a0 b0 l1 l2 H0 H IH]; intros i Hn; destruct i; cbn [nth_opt] in *; try discriminate.
  - inversion Hn; subst. eauto.
  - eauto.
Qed.
Lemma Forall2_len {A B} (P : A -> B -> Prop) l1 l2 : Forall2 P l1 l2 -> length l1 = length l2.
Proof. induction 1; cbn [length]; congruence. Qed.

Lemma rmapM_Forall2 {A B} (f : A -> res B) l vs : rmapM f l = Ok vs <-> Forall2 (fun a b => f a = Ok b) l vs.
Proof.
  revert vs; induction l as [|a l IH]; intros vs; cbn [rmapM]; split; intro H.
  - inversion H; constructor.
  - inversion H; reflexivity.
  - destruct (f a) as [b| |] eqn:E; cbn [rbind] in H; try discriminate.
    destruct (rmapM f l) as [bs| |] eqn:E2; cbn [rbind] in H; try discriminate.
    inversion H; subst. constructor; [assumption|]. apply IH. reflexivity.
  - inversion H as [|? b ? bs H1 H2]; subst. rewrite H1. cbn [rbind].
    apply IH in H2. rewrite H2. reflexivity.
Qed.

(* ====================================================================== *)
(* the container                                                           *)
(* ====================================================================== *)
Lemma name_eqb_eq a b : name_eqb a b = true <-> name_key a = name_key b.
Proof. unfold name_eqb. apply str_eqb_spec. Qed.
Lemma name_eqb_refl a : name_eqb a a = true.
Proof. apply name_eqb_eq. reflexivity. Qed.
Lemma name_eqb_false a b : name_eqb a b = false <-> name_key a <> name_key b.
Proof.
  rewrite <- name_eqb_eq. destruct (name_eqb a b); split; intro H; congruence.
Qed.

Lemma ct_find_put_other l n b s : name_key s <> name_key n -> ct_find (ct_put l n b) s = ct_find l s.
Proof.
  intro Hne. induction l as [|[m x] l IH]; cbn [ct_put ct_find].
  - assert (E : name_eqb n s = false) by (apply name_eqb_false; congruence). rewrite E. reflexivity.
  - destruct (name_eqb m n) eqn:E1; cbn [ct_find].
    + destruct (name_eqb m s) eqn:E2; [|reflexivity].
      apply name_eqb_eq in E1, E2. congruence.
    + destruct (name_eqb m s); [reflexivity|apply IH].
Qed.
Lemma ct_find_put_same l n b s : name_key s = name_key n -> ct_find (ct_put l n b) s = Some b.
Proof.
  intro He. induction l as [|[m x] l IH]; cbn [ct_put ct_find].
  - assert (E : name_eqb n s = true) by (apply name_eqb_eq; congruence). rewrite E. reflexivity.
  - destruct (name_eqb m n) eqn:E1; cbn [ct_find].
    + assert (E : name_eqb m s = true) by (apply name_eqb_eq; apply name_eqb_eq in E1; congruence). rewrite E. reflexivity.
    + assert (E : name_eqb m s = false).
      { apply name_eqb_false. apply name_eqb_false in E1. congruence. }
      rewrite E. apply IH.
Qed.

Definition tkey (e : str * table) : str := name_key (stream_name_of (snd e)).

Lemma load_rows_write_other c t b t' :
  name_key (stream_name_of t') <> name_key (stream_name_of t) ->
  load_rows (ct_write c (stream_name_of t) b) t' = load_rows c t'.
Proof.
  intro H. unfold load_rows, ct_write. cbn [ct_entries]. rewrite ct_find_put_other by assumption. reflexivity.
Qed.
Lemma load_rows_write_same c t b :
  load_rows (ct_write c (stream_name_of t) b) t = read_rows t b.
Proof.
  unfold load_rows, ct_write. cbn [ct_entries]. rewrite ct_find_put_same by reflexivity. reflexivity.
Qed.

(* ====================================================================== *)
(* occurrences                                                             *)
(* ====================================================================== *)
Lemma occ_nil r : occ r [] = 0.
Proof. reflexivity. Qed.
Lemma occ_cons r row R : occ r (row :: R) = occ_row r row + occ r R.
Proof. reflexivity. Qed.
Lemma occ_app r a b : occ r (a ++ b) = occ r a + occ r b.
Proof. induction a as [|x a IH]; cbn [app]; rewrite ?occ_cons, ?occ_nil; lia. Qed.
Lemma occ_row_cons r x row : occ_row r (x :: row) = (if is_ref r x then 1 else 0) + occ_row r row.
Proof. unfold occ_row. cbn [filter]. destruct (is_ref r x); rewrite ?nlen_cons; lia. Qed.
Lemma occ_row_in r row : In (RStr r) row -> 0 < occ_row r row.
Proof.
  induction row as [|x row IH]; [intros []|]; intros [H|H]; rewrite occ_row_cons.
  - subst x. cbn [is_ref]. rewrite N.eqb_refl. lia.
  - specialize (IH H). lia.
Qed.
Lemma occ_in r row R : In row R -> In (RStr r) row -> 0 < occ r R.
Proof.
  induction R as [|a R IH]; [intros []|]; intros [H|H] Hx; rewrite occ_cons.
  - subst a. pose proof (occ_row_in _ _ Hx). lia.
  - specialize (IH H Hx). lia.
Qed.
Lemma occ_row_set r row i x y : nth_opt row i = Some x ->
  occ_row r (set_nth row i y) + (if is_ref r x then 1 else 0) = occ_row r row + (if is_ref r y then 1 else 0).
Proof.
  revert i; induction row as [|a row IH]; intros i H; destruct i; cbn [nth_opt set_nth] in *; try discriminate.
  - inversion H; subst. rewrite !occ_row_cons. lia.
  - rewrite !occ_row_cons. specialize (IH _ H). lia.
Qed.
Lemma occ_perm r a b : Permutation a b -> occ r a = occ r b.
Proof. induction 1; rewrite ?occ_cons in *; lia. Qed.

(* ====================================================================== *)
(* the pool: what a reference denotes, and the bound on its length         *)
(* ====================================================================== *)
Definition ref_bound (long : bool) : N := if long then MAX_STRING_REF else 65535.
Definition len_ok (p : pool) : Prop := nlen (p_strings p) <= ref_bound (p_long p).

Definition den (p : pool) (x : vref) (v : value) : Prop :=
  match x with
  | RNull => v = VNull
  | RInt z => v = VInt z
  | RStr r => exists s, v = VStr s /\ live p r s /\ r <= MAX_STRING_REF
  end.

Lemma ref_bound_max long : ref_bound long <= MAX_STRING_REF.
Proof. unfold ref_bound, MAX_STRING_REF. destruct long; lia. Qed.

Lemma den_to_value prof p x v : den p x v -> to_value prof p x = Ok v.
Proof.
  destruct x as [|z|r]; cbn [den to_value]; intros H; subst; try reflexivity.
  destruct H as [s [-> [Hl Hm]]]. rewrite (get_live prof _ _ _ Hl Hm). reflexivity.
Qed.
Lemma den_row prof p row vals : Forall2 (den p) row vals -> row_to_values prof p row = Ok vals.
Proof.
  induction 1 as [|x v row vals H0 H IH]; cbn [row_to_values]; [reflexivity|].
  rewrite (den_to_value prof _ _ _ H0). cbn [rbind]. rewrite IH. reflexivity.
Qed.
Lemma den_rows prof p rows vals : Forall2 (Forall2 (den p)) rows vals -> rmapM (row_to_values prof p) rows = Ok vals.
Proof.
  intro H. apply rmapM_Forall2. eapply Forall2_impl_in; [exact H|]. intros x y _ Hxy. apply den_row; assumption.
Qed.

Lemma live_refcount p r s : live p r s -> 0 < refcount p r.
Proof. intros [_ [rc [Hn Hp]]]. unfold refcount. rewrite Hn. assumption. Qed.
Lemma refcount_live p r : 0 < r -> 0 < refcount p r -> exists s, live p r s.
Proof.
  unfold refcount, live. intros Hr H.
  destruct (nth_opt (p_strings p) (N.to_nat (r - 1))) as [[s rc]|] eqn:E; [|lia].
  exists s. split; [assumption|]. exists rc. auto.
Qed.
Lemma live_fun p r s s' : live p r s -> live p r s' -> s = s'.
Proof. intros [_ [rc [H1 _]]] [_ [rc' [H2 _]]]. congruence. Qed.
Lemma live_nonempty p r s : pool_wf p -> live p r s -> s <> [].
Proof.
  intros Hwf [_ [rc [Hn Hp]]]. apply nth_opt_in in Hn. unfold pool_wf in Hwf. rewrite Forall_forall in Hwf.
  destruct (Hwf _ Hn) as [_ [[_ H] _]]. cbn [fst snd] in H. intro E. apply H in E. lia.
Qed.
Lemma live_bound p r s : len_ok p -> live p r s -> r <= ref_bound (p_long p).
Proof.
  intros Hl [Hr [rc [Hn _]]]. apply nth_opt_lt in Hn. unfold len_ok, nlen in Hl. lia.
Qed.

Lemma decref_at_length : forall l i l', decref_at l i = Some l' -> length l' = length l.
Proof.
  induction l as [|[t rc] l IH]; intros i l' H; destruct i; cbn [decref_at] in H; try discriminate.
  - destruct (rc =? 0); [discriminate|]. inversion H. reflexivity.
  - destruct (decref_at l i) as [l1|] eqn:E; cbn [option_map] in H; try discriminate.
    inversion H. cbn [length]. f_equal. eapply IH; eassumption.
Qed.
Lemma decref_len_ok prof p r p' : pool_decref prof p r = Ok p' -> len_ok p -> len_ok p'.
Proof.
  unfold pool_decref, len_ok. rewrite decref_at_N_eq. intros H Hl.
  destruct (match prof with Debug => _ | Release => _ end) as [[]| |]; cbn [rbind] in H; try discriminate.
  destruct (r =? 0); [discriminate|].
  destruct (decref_at (p_strings p) (N.to_nat (r - 1))) as [l|] eqn:E;
    [|destruct POOL_DECREF_PANICS; [discriminate|inversion H; subst; assumption]].
  inversion H; subst. cbn [p_strings p_long]. apply decref_at_length in E. unfold nlen in *. rewrite E. assumption.
Qed.
Lemma upd_length {A} (l : list A) k e e' l' : upd l k e e' l' -> length l' = length l.
Proof. induction 1; cbn [length]; congruence. Qed.
Lemma incref_len_ok prof p s p' r : pool_wf p -> pool_incref prof p s = Ok (p', r) -> len_ok p -> len_ok p'.
Proof.
  unfold pool_incref, len_ok. intros Hwf H Hl.
  destruct (incref_scan prof (p_strings p) s 1) as [[[l' i]|]| |] eqn:Es; cbn [rbind] in H; try discriminate.
  - inversion H; subst. cbn [p_strings p_long].
    destruct (incref_scan_some _ _ _ _ _ _ Hwf Es) as [k [t [rc [_ [Hu _]]]]].
    apply upd_length in Hu. unfold nlen in *. rewrite Hu. assumption.
  - destruct ((65535 <=? nlen (p_strings p)) && negb (p_long p)) eqn:E1; [discriminate|].
    destruct (MAX_STRING_REF <=? nlen (p_strings p)) eqn:E2; [discriminate|].
    inversion H; subst. cbn [p_strings p_long]. rewrite nlen_app. unfold ref_bound in *.
    change (nlen [(s, 1)]) with 1. destruct (p_long p); cbn [negb] in E1; lia.
Qed.

(* a reference that is still counted after a decref keeps its text *)
Lemma decref_keep prof p r p' : pool_wf p -> (exists s, live p r s) -> r <= MAX_STRING_REF ->
  pool_decref prof p r = Ok p' ->
  pool_wf p' /\ p_long p' = p_long p /\ refcount p' r + 1 = refcount p r /\
  (forall r', r' <> r -> 0 < r' -> refcount p' r' = refcount p r') /\
  (forall r' s, live p r' s -> 0 < refcount p' r' -> live p' r' s).
Proof.
  intros Hwf [s0 Hl] Hm H.
  destruct (decref_spec prof _ _ _ Hwf Hl Hm) as [p1 [H1 [Hwf1 [_ [Hrc [Hfr [Hlv [Hk [_ Hlong]]]]]]]]].
  rewrite H in H1. inversion H1; subst p1. clear H1.
  split; [assumption|]. split; [assumption|]. split; [assumption|].
  split; [intros r' Hne Hp; apply Hfr; [assumption|left; lia]|].
  intros r' s Hl' Hp. destruct (N.eq_dec r' r) as [->|Hne].
  - rewrite (live_fun _ _ _ _ Hl' Hl). apply Hk. lia.
  - apply Hlv; assumption.
Qed.

(* ====================================================================== *)
(* the state threaded through the update: accounting over a list of rows   *)
(* ====================================================================== *)
Definition Acc (p : pool) (R : list (list vref)) : Prop := forall r, 0 < r -> refcount p r = occ r R.
Definition PS (p : pool) (R : list (list vref)) : Prop := pool_wf p /\ len_ok p /\ Acc p R.
(* every cell of R denotes under p' what it denoted under p *)
Definition pres (p p' : pool) (R : list (list vref)) : Prop :=
  forall row x v, In row R -> In x row -> den p x v -> den p' x v.

Lemma pres_refl p R : pres p p R.
Proof. intros row x v _ _ H. exact H. Qed.
Lemma pres_trans p1 p2 p3 R : pres p1 p2 R -> pres p2 p3 R -> pres p1 p3 R.
Proof. intros H1 H2 row x v Hr Hx Hd. eapply H2; eauto. Qed.
Lemma pres_sub p p' R R' : (forall row, In row R' -> In row R) -> pres p p' R -> pres p p' R'.
Proof. intros Hs H row x v Hr. apply H. apply Hs. assumption. Qed.
Lemma pres_rows p p' R vals : pres p p' R -> Forall2 (Forall2 (den p)) R vals -> Forall2 (Forall2 (den p')) R vals.
Proof.
  intros Hp H. eapply Forall2_impl_in; [exact H|]. intros row vs Hr Hd.
  eapply Forall2_impl_in; [exact Hd|]. intros x v Hx Hxv. eapply Hp; eassumption.
Qed.
Lemma Acc_ext p R R' : (forall r, occ r R = occ r R') -> Acc p R -> Acc p R'.
Proof. intros He H r Hr. rewrite <- He. apply H. assumption. Qed.

(* what a valid, well-formed assigned value is *)
Definition val_wf (v : value) : Prop :=
  value_ok v = true /\ match v with VStr s => utf8_len s < 4294967296 | _ => True end.

(* one assignment to one cell *)
Lemma cell_step prof p row C vals i old p1 v p2 nv :
  PS p (row :: C) -> Forall2 (den p) row vals -> nth_opt row i = Some old ->
  vref_remove prof p old = Ok p1 -> vref_create prof p1 v = Ok (p2, nv) -> val_wf v ->
  PS p2 (set_nth row i nv :: C) /\ pres p p2 C /\
  Forall2 (den p2) (set_nth row i nv) (set_nth vals i (normalize_value v)) /\
  p_long p2 = p_long p /\
  (forall r, nv = RStr r -> 0 < r /\ r <= ref_bound (p_long p)).
Proof.
  intros [Hwf [Hlen HA]] Hd Hn Hrm Hcr [Hvok Hvlen].
  set (row1 := set_nth row i RNull).
  (* ---- the release half ---- *)
  assert (S1 : PS p1 (row1 :: C) /\ p_long p1 = p_long p /\
               (forall x w, (In x row1 \/ exists rw, In rw C /\ In x rw) -> den p x w -> den p1 x w)).
  { destruct old as [|z|r]; cbn [vref_remove] in Hrm.
    - inversion Hrm; subst p1. split; [|split; [reflexivity|auto]].
      split; [assumption|]. split; [assumption|]. intros r Hr. rewrite (HA r Hr), !occ_cons.
      pose proof (occ_row_set r row i RNull RNull Hn) as E. fold row1 in E. lia.
    - inversion Hrm; subst p1. split; [|split; [reflexivity|auto]].
      split; [assumption|]. split; [assumption|]. intros r Hr. rewrite (HA r Hr), !occ_cons.
      pose proof (occ_row_set r row i (RInt z) RNull Hn) as E. fold row1 in E. cbn [is_ref] in E. lia.
    - destruct (Forall2_nth _ _ _ _ _ Hd Hn) as [w0 [_ Hw]]. cbn [den] in Hw. destruct Hw as [s [_ [Hlv Hm]]].
      destruct (decref_keep prof p r p1 Hwf (ex_intro _ s Hlv) Hm Hrm) as [Hwf1 [Hlong1 [Hrc [Hfr Hkeep]]]].
      assert (HA1 : Acc p1 (row1 :: C)).
      { intros r0 Hr0. rewrite occ_cons.
        pose proof (occ_row_set r0 row i (RStr r) RNull Hn) as E. fold row1 in E. cbn [is_ref] in E.
        specialize (HA r0 Hr0). rewrite occ_cons in HA.
        destruct (N.eq_dec r0 r) as [->|Hne].
        - rewrite N.eqb_refl in E. lia.
        - rewrite (Hfr r0 Hne Hr0). destruct (r =? r0) eqn:E0; [apply N.eqb_eq in E0; congruence|]. lia. }
      split; [split; [assumption|split; [eapply decref_len_ok; eassumption|assumption]]|].
      split; [assumption|].
      intros x w Hin Hx. destruct x as [|z|r']; cbn [den] in *; try assumption.
      destruct Hx as [s' [-> [Hl' Hm']]]. exists s'. split; [reflexivity|]. split; [|assumption].
      apply Hkeep; [assumption|]. destruct Hl' as [Hpos _]. rewrite (HA1 r' Hpos), occ_cons.
      destruct Hin as [Hin|[rw [Hrw Hin]]].
      + pose proof (occ_row_in _ _ Hin). lia.
      + pose proof (occ_in _ _ _ Hrw Hin). lia. }
  destruct S1 as [[Hwf1 [Hlen1 HA1]] [Hlong1 Hk1]].
  assert (Hn1 : nth_opt row1 i = Some RNull) by (apply nth_set_same; eapply nth_opt_lt; eassumption).
  assert (Hd1 : Forall2 (den p1) row1 (set_nth vals i VNull)).
  { eapply Forall2_impl_in with (P := den p).
    - apply Forall2_set_nth; [assumption|reflexivity].
    - intros x w Hx. apply Hk1. left; assumption. }
  assert (Hset : forall y, set_nth row1 i y = set_nth row i y) by (intro y; apply set_nth_twice).
  assert (HsetV : forall y, set_nth (set_nth vals i VNull) i y = set_nth vals i y) by (intro y; apply set_nth_twice).
  (* ---- the acquire half ---- *)
  assert (Same : p2 = p1 -> (forall r, is_ref r nv = false) -> den p1 nv (normalize_value v) ->
    PS p2 (set_nth row i nv :: C) /\ pres p p2 C /\
    Forall2 (den p2) (set_nth row i nv) (set_nth vals i (normalize_value v)) /\
    p_long p2 = p_long p /\ (forall r, nv = RStr r -> 0 < r /\ r <= ref_bound (p_long p))).
  { intros -> Hnr Hdn. split; [|split; [|split; [|split]]].
    - split; [assumption|]. split; [assumption|]. intros r Hr. rewrite (HA1 r Hr), !occ_cons.
      pose proof (occ_row_set r row1 i RNull nv Hn1) as E. rewrite Hset, Hnr in E. cbn [is_ref] in E. lia.
    - intros rw x w Hrw Hx. apply Hk1. right. eauto.
    - rewrite <- Hset, <- HsetV. apply Forall2_set_nth; assumption.
    - assumption.
    - intros r E. subst nv. specialize (Hnr r). cbn [is_ref] in Hnr. rewrite N.eqb_refl in Hnr. discriminate. }
  destruct v as [|z|s]; cbn [vref_create] in Hcr.
  - inversion Hcr; subst. apply Same; [reflexivity|reflexivity|reflexivity].
  - inversion Hcr; subst. apply Same; [reflexivity|reflexivity|reflexivity].
  - destruct s as [|ch s'].
    + inversion Hcr; subst. apply Same; [reflexivity|reflexivity|reflexivity].
    + set (s := ch :: s') in *.
      destruct (pool_incref prof p1 s) as [[p2' r]| |] eqn:Ei; cbn [rbind] in Hcr; try discriminate.
      inversion Hcr; subst p2' nv. clear Hcr.
      assert (Hs : s <> []) by discriminate.
      cbn [value_ok] in Hvok.
      destruct (incref_spec prof p1 s p2 r Hwf1 Hs Hvok Hvlen Ei)
        as [Hwf2 [Hlv2 [_ [Hrc2 [Hfr2 [Hkeep2 [_ [Hlong2 _]]]]]]]].
      pose proof (incref_len_ok _ _ _ _ _ Hwf1 Ei Hlen1) as Hlen2.
      assert (Hrpos : 0 < r) by (destruct Hlv2; assumption).
      assert (Hrb : r <= ref_bound (p_long p)).
      { rewrite <- Hlong1, <- Hlong2. eapply live_bound; eassumption. }
      assert (Hpres12 : forall x w, den p1 x w -> den p2 x w).
      { intros x w Hx. destruct x as [|z|r']; cbn [den] in *; try assumption.
        destruct Hx as [s1 [-> [Hl1 Hm1]]]. exists s1. auto. }
      split; [|split; [|split; [|split]]].
      * split; [assumption|]. split; [assumption|]. intros r0 Hr0. rewrite !occ_cons.
        pose proof (occ_row_set r0 row1 i RNull (RStr r) Hn1) as E. rewrite Hset in E. cbn [is_ref] in E.
        specialize (HA1 r0 Hr0). rewrite occ_cons in HA1.
        destruct (N.eq_dec r0 r) as [->|Hne].
        -- rewrite N.eqb_refl in E. lia.
        -- assert (Hnz : r0 <> 0) by lia. rewrite (Hfr2 r0 Hne (or_introl Hnz)).
           destruct (r =? r0) eqn:E0; [apply N.eqb_eq in E0; congruence|]. lia.
      * intros rw x w Hrw Hx Hdx. apply Hpres12. apply Hk1; [right; eauto|assumption].
      * rewrite <- Hset, <- HsetV. apply Forall2_set_nth.
        -- eapply Forall2_impl_in; [exact Hd1|]. intros x w _. apply Hpres12.
        -- cbn [normalize_value den]. exists s. split; [reflexivity|]. split; [assumption|].
           pose proof (ref_bound_max (p_long p)). lia.
      * congruence.
      * intros r0 E. inversion E; subst r0. auto.
Qed.

(* ====================================================================== *)
(* validation of the assignments                                           *)
(* ====================================================================== *)
Definition upd_valid (t : table) (u : str * value) : Prop :=
  exists i c, col_index t (fst u) = Some i /\ nth_opt (t_cols t) i = Some c /\ is_valid_value c (snd u) = Ok true.

Lemma validate_updates_spec t : forall ups, validate_updates t ups = Ok tt -> Forall (upd_valid t) ups.
Proof.
  induction ups as [|[n v] ups IH]; intro H; [constructor|]. cbn [validate_updates] in H.
  destruct (col_index t n) as [i|] eqn:Ei; [|discriminate].
  destruct (nth_opt (t_cols t) i) as [c|] eqn:En; cbn [unwrap rbind] in H; [|discriminate].
  destruct (is_valid_value c v) as [b| |] eqn:Ev; cbn [rbind] in H; try discriminate.
  destruct b; [|discriminate].
  constructor; [|apply IH; assumption]. exists i, c. cbn [fst snd]. auto.
Qed.

Lemma create_cell_ok prof p1 v p2 nv c long :
  vref_create prof p1 v = Ok (p2, nv) -> is_valid_value c v = Ok true -> value_ok v = true ->
  (forall r, nv = RStr r -> 0 < r /\ r <= ref_bound long) -> cell_ok (c_type c) long nv.
Proof.
  intros Hc Hv Hok Hb. destruct v as [|z|s]; cbn [vref_create] in Hc.
  - inversion Hc; subst. destruct (c_type c); exact I.
  - inversion Hc; subst. cbn [is_valid_value] in Hv. cbn [value_ok] in Hok.
    destruct (match c_range c with Some (lo, hi) => _ | None => false end); [discriminate|].
    unfold in_i32, i32_min, i32_max in Hok.
    destruct (c_type c); cbn [cell_ok]; inversion Hv; lia.
  - destruct s as [|ch s'].
    + inversion Hc; subst. destruct (c_type c); exact I.
    + destruct (pool_incref prof p1 (ch :: s')) as [[p2' r]| |]; cbn [rbind] in Hc; try discriminate.
      inversion Hc; subst. cbn [is_valid_value] in Hv.
      destruct (c_type c); try discriminate. cbn [cell_ok]. apply Hb. reflexivity.
Qed.

(* ====================================================================== *)
(* all assignments to one row                                              *)
(* ====================================================================== *)
Lemma apply_updates_spec prof t C : forall ups p row vals p' row',
  PS p (row :: C) -> Forall2 (den p) row vals -> row_ok t row -> t_long t = p_long p ->
  Forall (upd_valid t) ups -> Forall (fun u => val_wf (snd u)) ups ->
  apply_updates prof p t ups row = Ok (p', row') ->
  PS p' (row' :: C) /\ pres p p' C /\ Forall2 (den p') row' (assign t ups vals) /\
  p_long p' = p_long p /\ row_ok t row'.
Proof.
  induction ups as [|[n v] ups IH]; intros p row vals p' row' HPS Hd Hrow Hlong Hval Hwf H.
  - cbn [apply_updates] in H. inversion H; subst. cbn [assign].
    split; [assumption|]. split; [apply pres_refl|]. auto.
  - cbn [apply_updates] in H. inversion Hval as [|? ? [i' [c [Hi [Hc Hv]]]] Hval']; subst.
    inversion Hwf as [|? ? Hw Hwf']; subst. cbn [fst snd] in *.
    destruct (col_index t n) as [i|] eqn:Ei; cbn [unwrap rbind] in H; [|discriminate].
    inversion Hi; subst i'. clear Hi.
    destruct (nth_opt row i) as [old|] eqn:En; cbn [unwrap rbind] in H; [|discriminate].
    destruct (vref_remove prof p old) as [p1| |] eqn:Er; cbn [rbind] in H; try discriminate.
    destruct (vref_create prof p1 v) as [[p2 nv]| |] eqn:Ec; cbn [rbind] in H; try discriminate.
    destruct (cell_step prof p row C vals i old p1 v p2 nv HPS Hd En Er Ec Hw) as [HPS2 [Hp2 [Hd2 [Hl2 Hb2]]]].
    assert (Hrow2 : row_ok t (set_nth row i nv)).
    { unfold row_ok in *. eapply Forall2_set_nth_r; [exact Hrow|exact Hc|].
      eapply create_cell_ok; [exact Ec|exact Hv|apply Hw|]. rewrite Hlong. exact Hb2. }
    destruct (IH p2 (set_nth row i nv) (set_nth vals i (normalize_value v)) p' row' HPS2 Hd2 Hrow2
                ltac:(congruence) Hval' Hwf' H) as [HPS' [Hp' [Hd' [Hl' Hrow']]]].
    cbn [assign]. rewrite Ei.
    split; [assumption|]. split; [eapply pres_trans; eassumption|]. split; [assumption|].
    split; [congruence|assumption].
Qed.

(* ====================================================================== *)
(* the loop over the rows                                                  *)
(* ====================================================================== *)
Lemma In_mid {A} (x a : A) l1 l2 : In x (l1 ++ l2) -> In x (l1 ++ a :: l2).
Proof. intro H. apply in_or_app. apply in_app_or in H as [H|H]; [left|right; right]; assumption. Qed.

Lemma update_loop_spec prof t ups cond :
  Forall (upd_valid t) ups -> Forall (fun u => val_wf (snd u)) ups ->
  forall rows vals p C p' rows',
  PS p (rows ++ C) -> Forall2 (Forall2 (den p)) rows vals -> Forall (row_ok t) rows -> t_long t = p_long p ->
  update_loop prof p t ups rows (map (holds_v t cond) vals) = Ok (p', rows') ->
  PS p' (rows' ++ C) /\ pres p p' C /\ Forall2 (Forall2 (den p')) rows' (map (upd_row t ups cond) vals) /\
  p_long p' = p_long p /\ Forall (row_ok t) rows'.
Proof.
  intros Hval Hwf. induction rows as [|row rows IH]; intros vals p C p' rows' HPS Hd Hrows Hlong H.
  - inversion Hd; subst. cbn [map update_loop] in H. inversion H; subst. cbn [map app].
    split; [assumption|]. split; [apply pres_refl|]. split; [constructor|]. auto.
  - inversion Hd as [|? vs ? vals' Hd1 Hd2]; subst. inversion Hrows as [|? ? Hr1 Hr2]; subst.
    cbn [map update_loop] in H. cbn [app] in HPS.
    assert (S1 : exists p1 row1, (if holds_v t cond vs then apply_updates prof p t ups row else Ok (p, row)) = Ok (p1, row1) /\
                 update_loop prof p1 t ups rows (map (holds_v t cond) vals') = Ok (p', tl rows') /\
                 rows' = row1 :: tl rows').
    { destruct (if holds_v t cond vs then apply_updates prof p t ups row else Ok (p, row)) as [[p1 row1]| |] eqn:E1;
        cbn [rbind] in H; try discriminate.
      destruct (update_loop prof p1 t ups rows (map (holds_v t cond) vals')) as [[p2 rest]| |] eqn:E2; cbn [rbind] in H;
        try discriminate.
      inversion H; subst. exists p1, row1. cbn [tl]. repeat split; try reflexivity. exact E2. }
    destruct S1 as [p1 [row1 [E1 [E2 E3]]]]. rewrite E3. clear H. set (rest := tl rows') in *. clearbody rest. clear E3.
    assert (S2 : PS p1 (row1 :: rows ++ C) /\ pres p p1 (rows ++ C) /\ Forall2 (den p1) row1 (upd_row t ups cond vs) /\
                 p_long p1 = p_long p /\ row_ok t row1).
    { unfold upd_row. destruct (holds_v t cond vs).
      - eapply apply_updates_spec; eassumption.
      - inversion E1; subst. split; [assumption|]. split; [apply pres_refl|]. auto. }
    destruct S2 as [HPS1 [Hp1 [Hdr1 [Hl1 Hrow1]]]].
    assert (HPS1' : PS p1 (rows ++ row1 :: C)).
    { destruct HPS1 as [A1 [A2 A3]]. split; [assumption|]. split; [assumption|].
      eapply Acc_ext; [|exact A3]. intro r. rewrite !occ_cons, !occ_app, !occ_cons. lia. }
    assert (Hd2' : Forall2 (Forall2 (den p1)) rows vals').
    { eapply Forall2_impl_in; [exact Hd2|]. intros rw vv Hrw Hdd.
      eapply Forall2_impl_in; [exact Hdd|]. intros x w Hx Hxw. eapply Hp1; [|exact Hx|exact Hxw].
      apply in_or_app; left; assumption. }
    destruct (IH vals' p1 (row1 :: C) p' rest HPS1' Hd2' Hr2 ltac:(congruence) E2) as [HPS' [Hp' [Hd' [Hl' Hrows']]]].
    split.
    { destruct HPS' as [A1 [A2 A3]]. split; [assumption|]. split; [assumption|].
      eapply Acc_ext; [|exact A3]. intro r. cbn [app]. rewrite !occ_cons, !occ_app, !occ_cons. lia. }
    split.
    { eapply pres_trans.
      - eapply pres_sub; [|exact Hp1]. intros rw Hrw. apply in_or_app; right; assumption.
      - eapply pres_sub; [|exact Hp']. intros rw Hrw. right; assumption. }
    split.
    { cbn [map]. constructor; [|assumption].
      eapply Forall2_impl_in; [exact Hdr1|]. intros x w Hx Hxw. eapply Hp'; [left; reflexivity|exact Hx|exact Hxw]. }
    split; [congruence|]. constructor; assumption.
Qed.

(* ====================================================================== *)
(* assignments and keys                                                    *)
(* ====================================================================== *)
Lemma assign_length t : forall ups r, length (assign t ups r) = length r.
Proof.
  induction ups as [|[n v] ups IH]; intro r; cbn [assign]; [reflexivity|].
  destruct (col_index t n); rewrite IH; [apply set_nth_length|reflexivity].
Qed.

Lemma assign_nth_untouched t : forall ups r j,
  (forall u i, In u ups -> col_index t (fst u) = Some i -> i <> j) -> nth_opt (assign t ups r) j = nth_opt r j.
Proof.
  induction ups as [|[n v] ups IH]; intros r j H; cbn [assign]; [reflexivity|].
  assert (H' : forall u i, In u ups -> col_index t (fst u) = Some i -> i <> j).
  { intros u i Hu. apply H. right; assumption. }
  destruct (col_index t n) as [i|] eqn:Ei.
  - rewrite IH by assumption. apply nth_set_other. apply (H (n, v) i); [left; reflexivity|exact Ei].
  - apply IH; assumption.
Qed.

Lemma project_ext idx r r' : (forall j, In j idx -> nth_opt r j = nth_opt r' j) -> project idx r = project idx r'.
Proof.
  unfold project. induction idx as [|i idx IH]; intro H; cbn [flat_map]; [reflexivity|].
  rewrite (H i) by (left; reflexivity). f_equal. apply IH. intros j Hj. apply H. right; assumption.
Qed.

Lemma touches_key_false t ups : touches_key t ups = false ->
  forall u i, In u ups -> col_index t (fst u) = Some i -> ~ In i (pk_indices t).
Proof.
  unfold touches_key. intros H u i Hu Hi Hin.
  assert (E : existsb (fun u => match col_index t (fst u) with Some i => existsb (Nat.eqb i) (pk_indices t) | None => false end) ups = true).
  { apply existsb_exists. exists u. split; [assumption|]. rewrite Hi. apply existsb_exists. exists i.
    split; [assumption|apply Nat.eqb_refl]. }
  congruence.
Qed.

Lemma key_of_untouched t ups cond r : touches_key t ups = false -> key_of t (upd_row t ups cond r) = key_of t r.
Proof.
  intro H. unfold key_of, upd_row. destruct (holds_v t cond r); [|reflexivity].
  apply project_ext. intros j Hj. apply assign_nth_untouched. intros u i Hu Hi E. subst i.
  exact (touches_key_false t ups H u j Hu Hi Hj).
Qed.

Theorem update_keeps_sorted : forall t ups cond old,
  touches_key t ups = false -> Forall (fun r => length r = length (t_cols t)) old ->
  sorted_by_key t old -> sorted_by_key t (map (upd_row t ups cond) old).
Proof.
  intros t ups cond old H _ Hs. unfold sorted_by_key in *. rewrite map_map.
  rewrite (map_ext _ (key_of t)); [assumption|]. intro r. apply key_of_untouched. assumption.
Qed.

Lemma last_assignment_acc t : forall ups i acc,
  last_assignment t ups i acc = match last_assignment t ups i None with Some v => Some v | None => acc end.
Proof.
  induction ups as [|[n v] ups IH]; intros i acc; cbn [last_assignment]; [reflexivity|].
  destruct (col_index t n) as [j|]; [|apply IH].
  destruct (Nat.eqb i j); [|apply IH].
  rewrite (IH i (Some (normalize_value v))). destruct (last_assignment t ups i None); reflexivity.
Qed.

Lemma assign_nth t : forall ups r i, (i < length r)%nat ->
  nth_opt (assign t ups r) i = match last_assignment t ups i None with Some v => Some v | None => nth_opt r i end.
Proof.
  induction ups as [|[n v] ups IH]; intros r i Hi; cbn [assign last_assignment]; [reflexivity|].
  destruct (col_index t n) as [j|]; [|apply IH; assumption].
  rewrite IH by (rewrite set_nth_length; assumption).
  destruct (Nat.eqb i j) eqn:E.
  - apply Nat.eqb_eq in E. subst j. rewrite nth_set_same by assumption.
    rewrite (last_assignment_acc t ups i (Some _)). destruct (last_assignment t ups i None); reflexivity.
  - apply Nat.eqb_neq in E. rewrite nth_set_other by congruence. reflexivity.
Qed.

Lemma pk_indices_from_range : forall cols i0 i, In i (pk_indices_from cols i0) -> (i0 <= i < i0 + length cols)%nat.
Proof.
  induction cols as [|c cols IH]; intros i0 i H; cbn [pk_indices_from] in H; [destruct H|]. cbn [length].
  destruct (c_pk c); [destruct H as [<-|H]; [lia|]|]; apply IH in H; lia.
Qed.
Lemma pk_indices_range t i : In i (pk_indices t) -> (i < length (t_cols t))%nat.
Proof. intro H. apply pk_indices_from_range in H. lia. Qed.

(* ---- the keys new_keys predicts -------------------------------------------------------------------------- *)
Definition nk_go (prof : profile) (p : pool) (t : table) (ups : list (str * value)) (r : list vref) (m : bool) :=
  fix go (idx : list nat) : res (list value) :=
    match idx with
    | [] => Ok []
    | i :: is' =>
        v <- match (if m then last_assignment t ups i None else None) with
             | Some v => Ok v
             | None => cell <- unwrap (nth_opt r i) ;; to_value prof p cell
             end ;;
        vs <- go is' ;; Ok (v :: vs)
    end.
Lemma nk_go_cons prof p t ups r m i idx :
  nk_go prof p t ups r m (i :: idx) =
  (v <- match (if m then last_assignment t ups i None else None) with
        | Some v => Ok v
        | None => cell <- unwrap (nth_opt r i) ;; to_value prof p cell
        end ;;
   vs <- nk_go prof p t ups r m idx ;; Ok (v :: vs)).
Proof. reflexivity. Qed.
Lemma new_keys_cons prof p t ups kidx r rs m ms seen :
  new_keys prof p t ups kidx (r :: rs) (m :: ms) seen =
  (k <- nk_go prof p t ups r m kidx ;;
   if existsb (key_eqb k) seen then Err else new_keys prof p t ups kidx rs ms (k :: seen)).
Proof. reflexivity. Qed.

Lemma project_cons i idx r :
  project (i :: idx) r = (match nth_opt r i with Some v => [v] | None => [] end) ++ project idx r.
Proof. reflexivity. Qed.

Lemma nk_go_spec prof p t ups r vs m : Forall2 (den p) r vs ->
  forall idx k, (forall i, In i idx -> (i < length r)%nat) ->
  nk_go prof p t ups r m idx = Ok k -> k = project idx (if m then assign t ups vs else vs).
Proof.
  intros Hd. pose proof (Forall2_len _ _ _ Hd) as Hlen.
  induction idx as [|i idx IH]; intros k Hr H.
  - cbn in H. inversion H. reflexivity.
  - rewrite nk_go_cons in H. rewrite project_cons.
    assert (Hi : (i < length vs)%nat) by (rewrite <- Hlen; apply Hr; left; reflexivity).
    assert (S : exists v, match (if m then last_assignment t ups i None else None) with
                          | Some v => Ok v
                          | None => cell <- unwrap (nth_opt r i) ;; to_value prof p cell
                          end = Ok v /\ nth_opt (if m then assign t ups vs else vs) i = Some v).
    { assert (Hcell : forall v, (cell <- unwrap (nth_opt r i) ;; to_value prof p cell) = Ok v -> nth_opt vs i = Some v).
      { intros v E. destruct (nth_opt r i) as [cell|] eqn:En; cbn [unwrap rbind] in E; [|discriminate].
        destruct (Forall2_nth _ _ _ _ _ Hd En) as [w [Hw Hcw]].
        rewrite (den_to_value prof _ _ _ Hcw) in E. congruence. }
      destruct m.
      - rewrite assign_nth by assumption. destruct (last_assignment t ups i None) as [v|]; [eauto|].
        destruct (cell <- unwrap (nth_opt r i) ;; to_value prof p cell) as [v| |] eqn:E; cbn [rbind] in H; try discriminate.
        exists v. split; [reflexivity|]. apply Hcell. reflexivity.
      - destruct (cell <- unwrap (nth_opt r i) ;; to_value prof p cell) as [v| |] eqn:E; cbn [rbind] in H; try discriminate.
        exists v. split; [reflexivity|]. apply Hcell. reflexivity. }
    destruct S as [v [E1 E2]]. rewrite E1 in H. cbn [rbind] in H. rewrite E2.
    destruct (nk_go prof p t ups r m idx) as [ks| |] eqn:E3; cbn [rbind] in H; try discriminate.
    inversion H; subst. cbn [app]. f_equal. apply IH; [|reflexivity]. intros j Hj. apply Hr. right; assumption.
Qed.

Lemma new_keys_spec prof p t ups cond kidx :
  (forall i, In i kidx -> (i < length (t_cols t))%nat) ->
  forall rows vals seen, Forall2 (Forall2 (den p)) rows vals ->
  Forall (fun r => length r = length (t_cols t)) rows ->
  new_keys prof p t ups kidx rows (map (holds_v t cond) vals) seen = Ok tt -> NoDup seen ->
  NoDup (map (fun v => project kidx (upd_row t ups cond v)) vals ++ seen).
Proof.
  intros Hk. induction rows as [|r rows IH]; intros vals seen Hd Hl H Hnd.
  - inversion Hd; subst. exact Hnd.
  - inversion Hd as [|? vs ? vals' Hd1 Hd2]; subst. inversion Hl as [|? ? Hl1 Hl2]; subst.
    cbn [map] in H. rewrite new_keys_cons in H.
    destruct (nk_go prof p t ups r (holds_v t cond vs) kidx) as [k| |] eqn:Ek; cbn [rbind] in H; try discriminate.
    destruct (existsb (key_eqb k) seen) eqn:Es; [discriminate|].
    apply nk_go_spec with (vs := vs) in Ek; [|assumption|intros i Hi; rewrite Hl1; apply Hk; assumption].
    fold (upd_row t ups cond vs) in Ek. subst k.
    set (k := project kidx (upd_row t ups cond vs)) in *.
    assert (Hn : ~ In k seen).
    { intro Hin. assert (existsb (key_eqb k) seen = true); [|congruence].
      apply existsb_exists. exists k. split; [assumption|apply key_eqb_spec; reflexivity]. }
    specialize (IH vals' (k :: seen) Hd2 Hl2 H (NoDup_cons _ Hn Hnd)).
    cbn [map app]. eapply Permutation_NoDup; [|exact IH]. apply Permutation_sym, Permutation_middle.
Qed.

(* ---- re-sorting ---------------------------------------------------------------------------------------------- *)
Definition KV (prof : profile) (p : pool) (kidx : list nat) (m : keyed) : Prop :=
  Forall (fun e => exists vs, row_to_values prof p (snd e) = Ok vs /\ project kidx vs = fst e) m.

Lemma sort_rows_spec prof p kidx : forall rows vals m0 m,
  Forall2 (fun r v => row_to_values prof p r = Ok v) rows vals ->
  keyed_sorted m0 -> KV prof p kidx m0 -> NoDup (map (project kidx) vals ++ map fst m0) ->
  sort_rows prof p kidx rows m0 = Ok m ->
  keyed_sorted m /\ KV prof p kidx m /\ Permutation (map snd m) (rows ++ map snd m0).
Proof.
  induction rows as [|r rows IH]; intros vals m0 m Hv Hs Hkv Hnd H.
  - cbn [sort_rows] in H. inversion H; subst. cbn [app]. auto.
  - inversion Hv as [|? v ? vals' Hv1 Hv2]; subst. cbn [sort_rows] in H.
    destruct (select_nth r kidx) as [kr| |] eqn:Ekr; cbn [rbind] in H; try discriminate.
    rewrite (select_nth_values _ _ _ _ Hv1 _ _ Ekr) in H. cbn [rbind] in H.
    set (k := project kidx v) in *. cbn [map app] in Hnd. fold k in Hnd.
    apply NoDup_cons_iff in Hnd as [Hn Hnd].
    assert (Hn0 : ~ In k (map fst m0)) by (intro Hin; apply Hn; apply in_or_app; right; assumption).
    pose proof (keyed_insert_perm' m0 k r Hn0) as Hperm.
    apply IH with (vals := vals') in H; try assumption.
    + destruct H as [H1 [H2 H3]]. split; [assumption|]. split; [assumption|].
      rewrite H3. rewrite (Permutation_map snd Hperm). cbn [map snd app].
      apply Permutation_sym, Permutation_middle.
    + apply keyed_insert_sorted; assumption.
    + unfold KV. eapply Permutation_Forall; [apply Permutation_sym; exact Hperm|].
      constructor; [|assumption]. exists v. cbn [fst snd]. auto.
    + eapply Permutation_NoDup.
      * apply Permutation_app_head. apply Permutation_sym. apply (Permutation_map fst Hperm).
      * cbn [map fst]. eapply Permutation_NoDup; [apply Permutation_middle|].
        constructor; assumption.
Qed.

(* ====================================================================== *)
(* all the rows of the store                                               *)
(* ====================================================================== *)
Lemma all_rows_app c ts1 ts2 : all_rows c (ts1 ++ ts2) = all_rows c ts1 ++ all_rows c ts2.
Proof. induction ts1 as [|e ts1 IH]; cbn [app all_rows]; [reflexivity|]. rewrite IH, app_assoc. reflexivity. Qed.
Lemma all_rows_frame c c' ts : (forall e, In e ts -> load_rows c' (snd e) = load_rows c (snd e)) ->
  all_rows c' ts = all_rows c ts.
Proof.
  induction ts as [|e ts IH]; intro H; cbn [all_rows]; [reflexivity|].
  unfold rows_of. rewrite (H e) by (left; reflexivity). f_equal. apply IH. intros e' He'. apply H. right; assumption.
Qed.
Lemma in_all_rows c ts e rows row : In e ts -> load_rows c (snd e) = Ok rows -> In row rows -> In row (all_rows c ts).
Proof.
  induction ts as [|e0 ts IH]; [intros []|]; intros [He|He] Hl Hr; cbn [all_rows]; apply in_or_app.
  - subst e0. left. unfold rows_of. rewrite Hl. assumption.
  - right. eapply IH; eassumption.
Qed.
Lemma NoDup_map_inj {A B} (f : A -> B) l a b : NoDup (map f l) -> In a l -> In b l -> f a = f b -> a = b.
Proof.
  induction l as [|x l IH]; intros Hnd Ha Hb E; [destruct Ha|]. cbn [map] in Hnd. apply NoDup_cons_iff in Hnd as [Hn Hnd].
  destruct Ha as [->|Ha], Hb as [->|Hb]; try reflexivity.
  - exfalso. apply Hn. rewrite E. apply in_map. assumption.
  - exfalso. apply Hn. rewrite <- E. apply in_map. assumption.
  - apply IH; assumption.
Qed.

(* ---- what the cells of an accounted store denote ---------------------------------------------------------- *)
Lemma row_ok_refs t row : row_ok t row -> Forall (fun x => forall r, x = RStr r -> 0 < r /\ r <= MAX_STRING_REF) row.
Proof.
  unfold row_ok. induction 1 as [|c x cols row H0 H IH]; constructor; [|assumption].
  intros r ->. destruct (c_type c); cbn [cell_ok] in H0; try contradiction.
  destruct H0 as [H1 H2]. split; [assumption|]. fold (ref_bound (t_long t)) in H2.
  pose proof (ref_bound_max (t_long t)). lia.
Qed.
Lemma den_exists_row p R row : Acc p R -> In row R ->
  Forall (fun x => forall r, x = RStr r -> 0 < r /\ r <= MAX_STRING_REF) row -> exists vals, Forall2 (den p) row vals.
Proof.
  intros HA Hin. assert (Hsub : forall x, In x row -> In x row) by auto. revert Hsub.
  generalize row at 1 3 4 as sub. induction sub as [|x sub IH]; intros Hsub HF.
  - exists []. constructor.
  - inversion HF as [|? ? Hx HF']; subst.
    destruct IH as [vals Hv]; [intros y Hy; apply Hsub; right; assumption|assumption|].
    assert (Hd : exists v, den p x v).
    { destruct x as [|z|r]; cbn [den]; eauto.
      destruct (Hx r eq_refl) as [Hpos Hmax].
      assert (Ho : 0 < occ r R) by (eapply occ_in; [exact Hin|apply Hsub; left; reflexivity]).
      rewrite <- (HA r Hpos) in Ho. destruct (refcount_live p r Hpos Ho) as [s Hs]. eauto. }
    destruct Hd as [v Hd]. exists (v :: vals). constructor; assumption.
Qed.
Lemma den_exists_rows p R t rows : Acc p R -> (forall row, In row rows -> In row R) -> Forall (row_ok t) rows ->
  exists vals, Forall2 (Forall2 (den p)) rows vals.
Proof.
  intros HA. induction rows as [|row rows IH]; intros Hsub HF.
  - exists []. constructor.
  - inversion HF as [|? ? H1 H2]; subst.
    destruct IH as [vals Hv]; [intros y Hy; apply Hsub; right; assumption|assumption|].
    destruct (den_exists_row p R row HA (Hsub row (or_introl eq_refl)) (row_ok_refs t row H1)) as [v Hd].
    exists (v :: vals). constructor; assumption.
Qed.

(* ---- the reader's row limit ---------------------------------------------------------------------------------- *)
Lemma transpose_length n : forall X, length (transpose n X) = n.
Proof. induction n as [|n IH]; intro X; cbn [transpose length]; [reflexivity|]. rewrite IH. reflexivity. Qed.
Lemma read_rows_len t b rows : read_rows t b = Ok rows -> nlen rows <= MAX_ROWS_READ.
Proof.
  unfold read_rows. cbv zeta. set (n := if 0 <? row_size t then nlen b / row_size t else 0).
  destruct (MAX_ROWS_READ <? n) eqn:E; [discriminate|]. apply N.ltb_ge in E.
  destruct (read_columns (t_cols t) (t_long t) (N.to_nat n) b) as [X| |]; cbn [rbind]; try discriminate.
  intro H. inversion H; subst. unfold nlen. rewrite transpose_length. lia.
Qed.
Lemma load_rows_len c t rows : load_rows c t = Ok rows -> nlen rows <= MAX_ROWS_READ.
Proof.
  unfold load_rows. destruct (ct_find (ct_entries c) (stream_name_of t)) as [b|].
  - apply read_rows_len.
  - intro H. inversion H. unfold MAX_ROWS_READ. cbn. lia.
Qed.

Lemma matches_of_spec prof p t cond : forall rows vals ms,
  Forall2 (Forall2 (den p)) rows vals -> matches_of prof p t cond rows = Ok ms -> ms = map (holds_v t cond) vals.
Proof.
  induction rows as [|r rows IH]; intros vals ms Hd H; inversion Hd as [|? v ? vals' H1 H2]; subst; cbn [matches_of] in H.
  - inversion H. reflexivity.
  - destruct (cond_holds prof p t cond r) as [b| |] eqn:Ec; cbn [rbind] in H; try discriminate.
    destruct (matches_of prof p t cond rows) as [bs| |] eqn:Em; cbn [rbind] in H; try discriminate.
    inversion H; subst. cbn [map]. f_equal.
    + symmetry. eapply cond_holds_ok; [apply den_row; exact H1|exact Ec].
    + apply IH; [assumption|reflexivity].
Qed.

(* ---- validity of the assigned cells ---------------------------------------------------------------------------- *)
Lemma assign_valid t : forall ups, Forall (upd_valid t) ups ->
  forall r, Forall2 cell_valid (t_cols t) r -> Forall2 cell_valid (t_cols t) (assign t ups r).
Proof.
  induction ups as [|[n v] ups IH]; intros Hval r Hr; cbn [assign]; [assumption|].
  inversion Hval as [|? ? [i [c [Hi [Hc Hv]]]] Hval']; subst. cbn [fst snd] in *. rewrite Hi.
  apply IH; [assumption|]. eapply Forall2_set_nth_r; [exact Hr|exact Hc|].
  unfold cell_valid. destruct v as [|z|[|ch s]]; cbn [normalize_value]; auto.
Qed.

Lemma StronglySorted_map_fst (m : keyed) : keyed_sorted m -> StronglySorted key_lt (map fst m).
Proof.
  unfold keyed_sorted. induction 1 as [|a m H IH HF]; cbn [map]; constructor; [assumption|].
  rewrite Forall_map. assumption.
Qed.
Lemma KV_vals prof p kidx m : KV prof p kidx m ->
  exists new, Forall2 (fun r v => row_to_values prof p r = Ok v) (map snd m) new /\ map (project kidx) new = map fst m.
Proof.
  induction 1 as [|e m [vs [H1 H2]] H IH]; [exists []; split; [constructor|reflexivity]|].
  destruct IH as [new [Ha Hb]]. exists (vs :: new). split; [constructor; assumption|]. cbn [map]. congruence.
Qed.
Lemma Forall2_fun_map {A B} (f : A -> res B) (g : A -> B) l vs :
  (forall a b, f a = Ok b -> g a = b) -> Forall2 (fun a b => f a = Ok b) l vs -> vs = map g l.
Proof. intros Hg. induction 1; cbn [map]; [reflexivity|]. f_equal; auto. symmetry; auto. Qed.

(* ====================================================================== *)
(* the theorem                                                             *)
(* ====================================================================== *)
(* the invariant, with the conjunct that makes "references fit their width" inductive *)
Definition pool_len_ok (d : db) : Prop :=
  nlen (p_strings (d_pool d)) <= (if p_long (d_pool d) then MAX_STRING_REF else 65535).
Definition Inv' (d : db) : Prop := Inv d /\ pool_len_ok d.
(* assigned values are values of the Rust type: i32 numbers, strings of scalar values shorter than 4 GiB *)
Definition ups_wf (ups : list (str * value)) : Prop :=
  Forall (fun u => value_ok (snd u) = true /\
                   match snd u with VStr s => utf8_len s < 4294967296 | _ => True end) ups.

Theorem update_refines : forall prof d tn t ups cond c' p',
  Inv' d -> ups_wf ups -> In (tn, t) (d_tabs d) -> find_table (d_tabs d) tn = Some t ->
  exec_update prof (d_cont d) (d_pool d) (d_tabs d) tn ups cond = Ok (c', p') ->
  let d' := mkdb c' p' (d_tabs d) in
  Inv' d' /\
  (exists old new, tvals prof d t = Ok old /\ tvals prof d' t = Ok new /\
     (if touches_key t ups
      then Permutation new (map (upd_row t ups cond) old) /\ sorted_by_key t new
      else new = map (upd_row t ups cond) old) /\
     (rows_valid t old -> rows_valid t new)) /\
  (forall n' t', In (n', t') (d_tabs d) -> n' <> tn -> tvals prof d' t' = tvals prof d t') /\
  (forall s, name_eqb s (stream_name_of t) = false -> ct_find (ct_entries c') s = ct_find (ct_entries (d_cont d)) s) /\
  ct_clsid c' = ct_clsid (d_cont d).
Proof.
  intros prof [c p ts] tn t ups cond c' p' [[Hwf [Hnd [Htabs HA]]] Hlen] Hups Hin Hfind H.
  cbv zeta. unfold pool_len_ok, tvals in *. cbn [d_cont d_pool d_tabs] in *.
  fold (ref_bound (p_long p)) in Hlen. fold (len_ok p) in Hlen.
  change (Forall (fun u => val_wf (snd u)) ups) in Hups.
  fold (Acc p (all_rows c ts)) in HA.
  (* ---- run the executor ---- *)
  unfold exec_update in H. rewrite Hfind in H. cbn [of_opt rbind] in H.
  destruct (validate_updates t ups) as [[]| |] eqn:Ev; cbn [rbind] in H; try discriminate.
  apply validate_updates_spec in Ev.
  destruct (negb (cond_ok t cond)); [discriminate|].
  destruct (load_rows c t) as [rows| |] eqn:El; cbn [rbind] in H; try discriminate.
  destruct (matches_of prof p t cond rows) as [ms| |] eqn:Em; cbn [rbind] in H; try discriminate.
  cbv zeta in H. fold (touches_key t ups) in H.
  destruct (if touches_key t ups then new_keys prof p t ups (pk_indices t) rows ms [] else Ok tt) as [[]| |] eqn:Enk;
    cbn [rbind] in H; try discriminate.
  destruct (update_loop prof p t ups rows ms) as [[p1 rows']| |] eqn:Eul; cbn [rbind] in H; try discriminate.
  destruct (if touches_key t ups then m <- sort_rows prof p1 (pk_indices t) rows' [] ;; Ok (map snd m) else Ok rows')
    as [rows''| |] eqn:Esr; cbn [rbind] in H; try discriminate.
  destruct (store_rows prof c t rows'') as [c1| |] eqn:Est; cbn [rbind] in H; try discriminate.
  inversion H; subst c1 p1. clear H.
  (* ---- the table map around t ---- *)
  destruct (in_split _ _ Hin) as [ts1 [ts2 Hts]].
  pose proof Htabs as Htabs0. rewrite Forall_forall in Htabs.
  destruct (Htabs _ Hin) as [Hname [Hcols [Hlong [rows0 [El0 Hrows]]]]]. cbn [fst snd] in *.
  rewrite El in El0. inversion El0; subst rows0. clear El0.
  assert (Hother : forall e, In e ts1 \/ In e ts2 -> name_key (stream_name_of (snd e)) <> name_key (stream_name_of t)).
  { intros e He E. rewrite Hts, map_app in Hnd. cbn [map] in Hnd. apply NoDup_remove_2 in Hnd. apply Hnd.
    cbn [snd]. rewrite <- E. apply in_or_app.
    destruct He as [He|He]; [left|right]; apply (in_map (fun e => name_key (stream_name_of (snd e)))); assumption. }
  assert (Hsame : forall e, In e ts -> name_key (stream_name_of (snd e)) = name_key (stream_name_of t) -> e = (tn, t)).
  { intros e He E. eapply NoDup_map_inj; [exact Hnd|assumption|assumption|exact E]. }
  set (O := all_rows c ts1 ++ all_rows c ts2).
  assert (Hall : all_rows c ts = all_rows c ts1 ++ rows ++ all_rows c ts2).
  { rewrite Hts, all_rows_app. cbn [all_rows snd]. unfold rows_of. rewrite El. reflexivity. }
  assert (HPS : PS p (rows ++ O)).
  { split; [assumption|]. split; [assumption|]. eapply Acc_ext; [|exact HA]. intro r. rewrite Hall. unfold O.
    rewrite !occ_app. lia. }
  destruct (den_exists_rows p (all_rows c ts) t rows HA) as [old Hold]; [|assumption|].
  { intros row Hrow. eapply in_all_rows; [exact Hin|exact El|exact Hrow]. }
  apply (matches_of_spec _ _ _ _ _ _ _ Hold) in Em. subst ms.
  destruct (update_loop_spec prof t ups cond Ev Hups rows old p O p' rows' HPS Hold Hrows Hlong Eul)
    as [HPS' [Hpres [Hnew [Hlong' Hrows']]]].
  set (newvals := map (upd_row t ups cond) old) in *.
  assert (Hlen' : length rows' = length rows).
  { rewrite (Forall2_len _ _ _ Hnew), (Forall2_len _ _ _ Hold). unfold newvals. apply map_length. }
  pose proof (fun r => row_to_values prof p' r) as _.
  set (f := fun r => match row_to_values prof p' r with Ok v => v | _ => [] end).
  assert (Hf : forall a b, row_to_values prof p' a = Ok b -> f a = b) by (intros a b E; unfold f; rewrite E; reflexivity).
  assert (Hnew' : Forall2 (fun r v => row_to_values prof p' r = Ok v) rows' newvals).
  { eapply Forall2_impl_in; [exact Hnew|]. intros x y _ Hxy. apply den_row; assumption. }
  (* ---- the stored rows ---- *)
  assert (S : Permutation rows'' rows' /\
              exists new, Forall2 (fun r v => row_to_values prof p' r = Ok v) rows'' new /\
                (if touches_key t ups then Permutation new newvals /\ sorted_by_key t new else new = newvals)).
  { destruct (touches_key t ups) eqn:Etk.
    - destruct (sort_rows prof p' (pk_indices t) rows' []) as [m| |] eqn:Es; cbn [rbind] in Esr; try discriminate.
      inversion Esr; subst rows''. clear Esr.
      assert (Hnd' : NoDup (map (project (pk_indices t)) newvals ++ map fst (@nil (list value * list vref)))).
      { cbn [map]. rewrite app_nil_r. unfold newvals. rewrite map_map.
        rewrite <- (app_nil_r (map _ old)).
        eapply (new_keys_spec prof p t ups cond (pk_indices t) (pk_indices_range t) rows old []); try eassumption.
        - eapply Forall_impl; [|exact Hrows]. intros r Hr. unfold row_ok in Hr. symmetry. eapply Forall2_len; eassumption.
        - constructor. }
      destruct (sort_rows_spec prof p' (pk_indices t) rows' newvals [] m Hnew' keyed_sorted_nil (Forall_nil _) Hnd' Es)
        as [Hsm [Hkv Hperm]].
      cbn [map] in Hperm. rewrite app_nil_r in Hperm.
      split; [assumption|].
      destruct (KV_vals _ _ _ _ Hkv) as [new [Hn1 Hn2]]. exists new. split; [assumption|]. split.
      + rewrite (Forall2_fun_map _ f _ _ Hf Hn1), (Forall2_fun_map _ f _ _ Hf Hnew'). apply Permutation_map. assumption.
      + unfold sorted_by_key. change (key_of t) with (project (pk_indices t)). rewrite Hn2.
        apply StronglySorted_map_fst. assumption.
    - inversion Esr; subst rows''. split; [apply Permutation_refl|]. exists newvals. auto. }
  destruct S as [Hperm [new [Hnewv Hspec]]].
  assert (Hrows'' : Forall (row_ok t) rows'') by (eapply Permutation_Forall; [apply Permutation_sym; exact Hperm|assumption]).
  assert (Hcount : nlen rows'' <= MAX_ROWS_READ).
  { pose proof (load_rows_len _ _ _ El) as Hl. unfold nlen in *. rewrite (Permutation_length Hperm), Hlen'. assumption. }
  unfold store_rows in Est.
  destruct (write_rows prof t rows'') as [b| |] eqn:Ew; cbn [rbind] in Est; try discriminate.
  inversion Est; subst c'. clear Est.
  destruct (rows_roundtrip prof t rows'' Hcols Hrows'' Hcount) as [b' [Ew' [_ Hread]]].
  rewrite Ew in Ew'. inversion Ew'; subst b'. clear Ew'.
  set (c' := ct_write c (stream_name_of t) b) in *.
  assert (El' : load_rows c' t = Ok rows'') by (unfold c'; rewrite load_rows_write_same; exact Hread).
  assert (Hframe : forall e, In e ts1 \/ In e ts2 -> load_rows c' (snd e) = load_rows c (snd e)).
  { intros e He. apply load_rows_write_other. apply Hother. assumption. }
  assert (Hall' : all_rows c' ts = all_rows c ts1 ++ rows'' ++ all_rows c ts2).
  { rewrite Hts, all_rows_app. cbn [all_rows snd]. unfold rows_of at 1. rewrite El'.
    rewrite (all_rows_frame c c' ts1) by (intros e He; apply Hframe; left; assumption).
    rewrite (all_rows_frame c c' ts2) by (intros e He; apply Hframe; right; assumption). reflexivity. }
  destruct HPS' as [Hwf' [Hlenp' HA']].
  (* ---- assemble ---- *)
  split; [split|].
  - (* Inv d' *)
    unfold Inv. cbn [d_cont d_pool d_tabs]. split; [assumption|]. split; [assumption|]. split.
    + apply Forall_forall. intros e He.
      destruct (name_eqb (stream_name_of (snd e)) (stream_name_of t)) eqn:Ene.
      * apply name_eqb_eq in Ene. rewrite (Hsame e He Ene). unfold table_ok. cbn [fst snd].
        split; [assumption|]. split; [assumption|]. split; [congruence|]. exists rows''. auto.
      * apply name_eqb_false in Ene. destruct (Htabs e He) as [T1 [T2 [T3 [rw [T4 T5]]]]].
        unfold table_ok. split; [assumption|]. split; [assumption|]. split; [congruence|]. exists rw.
        split; [|assumption]. unfold c'. rewrite load_rows_write_other by assumption. assumption.
    + intros r Hr. rewrite Hall'. specialize (HA' r Hr). unfold O in HA'. rewrite !occ_app in *.
      rewrite (occ_perm r _ _ Hperm). lia.
  - unfold pool_len_ok. cbn [d_pool]. exact Hlenp'.
  - split; [|split; [|split]].
    + (* the values of t *)
      exists old, new. cbn [d_cont d_pool].
      split; [cbn [rbind]; apply den_rows; assumption|].
      split; [rewrite El'; cbn [rbind]; apply rmapM_Forall2; assumption|].
      split; [exact Hspec|].
      intro Hvalid. assert (Hv' : rows_valid t newvals).
      { unfold rows_valid, newvals in *. rewrite Forall_map. eapply Forall_impl; [|exact Hvalid].
        intros r Hr. unfold upd_row. destruct (holds_v t cond r); [apply assign_valid|]; assumption. }
      destruct (touches_key t ups).
      * destruct Hspec as [Hp _]. unfold rows_valid in *. eapply Permutation_Forall; [apply Permutation_sym; exact Hp|assumption].
      * subst new. assumption.
    + (* the other tables *)
      intros n' t' Hin' Hne. cbn [d_cont d_pool].
      assert (Hin12 : In (n', t') ts1 \/ In (n', t') ts2).
      { rewrite Hts in Hin'. apply in_app_or in Hin' as [Hi|[Hi|Hi]]; auto. inversion Hi; congruence. }
      pose proof (Hframe (n', t') Hin12) as Hfr. cbn [snd] in Hfr. rewrite Hfr. clear Hfr.
      destruct (Htabs _ Hin') as [_ [_ [_ [rw [T4 T5]]]]]. cbn [snd] in *. rewrite T4. cbn [rbind].
      destruct (den_exists_rows p (all_rows c ts) t' rw HA) as [vs Hvs]; [|assumption|].
      { intros row Hrow. eapply in_all_rows; [exact Hin'|exact T4|exact Hrow]. }
      rewrite (den_rows prof p rw vs Hvs). apply den_rows. eapply pres_rows; [|exact Hvs].
      eapply pres_sub; [|exact Hpres]. intros row Hrow. unfold O. apply in_or_app.
      destruct Hin12 as [Hi|Hi]; [left|right]; eapply in_all_rows; try eassumption; exact T4.
    + intros s Hs. unfold c', ct_write. cbn [ct_entries]. apply ct_find_put_other. apply name_eqb_false. assumption.
    + reflexivity.
Qed.

(* ====================================================================== *)
(* why update_refines carries ups_wf: the statement without it is false    *)
(* ====================================================================== *)
(* the goal as first stated (plain Inv, no condition on the assigned values) *)
Definition G_update_refines : Prop := forall prof d tn t ups cond c' p',
  Inv d -> In (tn, t) (d_tabs d) -> find_table (d_tabs d) tn = Some t ->
  exec_update prof (d_cont d) (d_pool d) (d_tabs d) tn ups cond = Ok (c', p') ->
  let d' := mkdb c' p' (d_tabs d) in
  Inv d' /\
  (exists old new, tvals prof d t = Ok old /\ tvals prof d' t = Ok new /\
     (if touches_key t ups
      then Permutation new (map (upd_row t ups cond) old) /\ sorted_by_key t new
      else new = map (upd_row t ups cond) old) /\
     (rows_valid t old -> rows_valid t new)) /\
  (forall n' t', In (n', t') (d_tabs d) -> n' <> tn -> tvals prof d' t' = tvals prof d t') /\
  (forall s, name_eqb s (stream_name_of t) = false -> ct_find (ct_entries c') s = ct_find (ct_entries (d_cont d)) s) /\
  ct_clsid c' = ct_clsid (d_cont d).

Lemma Inv_single c p n t rows :
  pool_wf p -> t_name t = n -> t_cols t <> [] -> t_long t = p_long p ->
  load_rows c t = Ok rows -> Forall (row_ok t) rows ->
  (forall r, 0 < r -> refcount p r = occ r rows) -> Inv (mkdb c p [(n, t)]).
Proof.
  intros Hwf Hn Hc Hl El Hr HA. unfold Inv. cbn [d_cont d_pool d_tabs].
  split; [assumption|]. split; [constructor; [intros []|constructor]|]. split.
  - constructor; [|constructor]. unfold table_ok. cbn [fst snd]. repeat split; try assumption. exists rows. auto.
  - intros r Hr0. cbn [all_rows snd]. unfold rows_of. rewrite El, app_nil_r. apply HA. assumption.
Qed.

(* (1) a string column accepts any text: a surrogate code point enters the pool, which is then not well-formed *)
Definition cex_colS : column := mkcol [65] (Str 0) false true true None None None [].
Definition cex_tS : table := mktable [84] [cex_colS] false.
Definition cex_dS : db :=
  mkdb (mkct [] [(stream_name_of cex_tS, [1; 0])]) (mkpool cp_utf8 [([66], 1)] false false) [([84], cex_tS)].

Lemma cex_dS_Inv : Inv cex_dS.
Proof.
  apply Inv_single with (rows := [[RStr 1]]); try reflexivity; try discriminate.
  - constructor; [|constructor]. unfold entry_wf. cbn [fst snd]. repeat split; try discriminate; try reflexivity.
  - constructor; [|constructor]. constructor; [|constructor]. cbn. lia.
  - intros r Hr. unfold refcount. cbn [p_strings].
    unfold occ, occ_row. cbn [fold_right filter is_ref].
    destruct (N.eq_dec r 1) as [->|Hne]; [reflexivity|].
    destruct (1 =? r) eqn:E; [apply N.eqb_eq in E; congruence|].
    destruct (N.to_nat (r - 1)) as [|k] eqn:Ek; [lia|]. destruct k; reflexivity.
Qed.

Lemma update_refines_needs_scalar : ~ G_update_refines.
Proof.
  intro G.
  destruct (G Debug cex_dS [84] cex_tS [([65], VStr [55296])] None
              (mkct [] [(stream_name_of cex_tS, [1; 0])]) (mkpool cp_utf8 [([55296], 1)] false true)
              cex_dS_Inv (or_introl eq_refl) eq_refl) as [[Hwf _] _].
  - vm_compute. reflexivity.
  - cbn [d_pool] in Hwf. unfold pool_wf in Hwf. cbn [p_strings] in Hwf.
    inversion Hwf as [|? ? [_ [_ [Hsc _]]] _]; subst. vm_compute in Hsc. discriminate.
Qed.

(* (2) an Int32 column accepts any number above i32::MIN (the Rust type is i32, the model's is Z):
   2^31 is stored as the bit pattern of null and reads back as VNull *)
Definition cex_colI : column := mkcol [65] Int32 false true false None None None [].
Definition cex_tI : table := mktable [84] [cex_colI] false.
Definition cex_dI : db :=
  mkdb (mkct [] [(stream_name_of cex_tI, [5; 0; 0; 128])]) (mkpool cp_utf8 [] false false) [([84], cex_tI)].

Lemma cex_dI_Inv : Inv cex_dI.
Proof.
  apply Inv_single with (rows := [[RInt 5]]); try reflexivity; try discriminate.
  - constructor.
  - constructor; [|constructor]. constructor; [|constructor]. cbn. lia.
Qed.

Lemma update_refines_needs_i32 : ~ G_update_refines.
Proof.
  intro G.
  destruct (G Debug cex_dI [84] cex_tI [([65], VInt 2147483648)] None
              (mkct [] [(stream_name_of cex_tI, [0; 0; 0; 0])]) (mkpool cp_utf8 [] false false)
              cex_dI_Inv (or_introl eq_refl) eq_refl) as [_ [[old [new [Ho [Hn [Hs _]]]]] _]].
  - vm_compute. reflexivity.
  - vm_compute in Ho. inversion Ho; subst old. vm_compute in Hn. inversion Hn; subst new.
    vm_compute in Hs. discriminate.
Qed.

Print Assumptions update_keeps_sorted.
Print Assumptions update_refines.
Print Assumptions update_refines_needs_scalar.
Print Assumptions update_refines_needs_i32.
