(* ReachStreams.v -- C11 on reachable packages: every entry of the container of a reachable package is accounted
   for (a protected entry, the pool or data stream, the stream of a table of the table map, or the packed name of a
   valid stream name), entry names are pairwise distinct under the container's comparison, hence the stream listing is
   exactly the set of names for which has_stream holds and lists no name twice; and C06 end to end: a table that
   create_table accepted is in the table map with exactly the columns given, also after save + reopen. *)
From Coq Require Import Sorting.Sorted Permutation.
From MsiModel Require Import Base Sexp Value Expr Category Column CodePage Pool Table Container StreamName StreamNameProofs
  Propset Summary Query Package PoolProofs TableProofs QueryProofs DbInv CatalogProofs PropsetCodecProofs PackageProofs
  PkgInv UpdateRefine PkgInv2 InsertRefine DeleteRefine ReopenLemmas DmlPkgProofs DropTableProofs MiscOpsProofs ReopenProofs
  CreateTableLemmas CreateTableProofs StreamProofs Reach.
From MsiGen Require Import GenConsts GenCatalog GenStreamName.
Open Scope N_scope.

(* ---- the definitions of the goal file, verbatim ---------------------------------------------------------------- *)
Definition entry_accounted (k : pkg) (m : str) : Prop :=
  In m special_names \/
  m = pool_stream \/ m = data_stream \/
  (exists e, In e (k_tabs k) /\ m = sn_encode (fst e) true) \/
  (exists n, sn_is_valid n false = true /\ m = sn_encode n false).
Definition entries_accounted (k : pkg) : Prop :=
  forall m, In m (ct_names (k_cont k)) -> entry_accounted k m.

(* ====================================================================== *)
(* 1. the invariant on entry lists                                         *)
(* ====================================================================== *)
Definition acc (ts : tables) (m : str) : Prop :=
  In m special_names \/
  m = pool_stream \/ m = data_stream \/
  (exists e, In e ts /\ m = sn_encode (fst e) true) \/
  (exists n, sn_is_valid n false = true /\ m = sn_encode n false).

Definition CIl (ts : tables) (l : list (str * bytes)) : Prop :=
  (forall m, In m (map fst l) -> acc ts m) /\ NoDup (map name_key (map fst l)).
Definition CI (k : pkg) : Prop := CIl (k_tabs k) (ct_entries (k_cont k)).

Lemma CI_goal k : CI k -> entries_accounted k /\ NoDup (map name_key (ct_names (k_cont k))).
Proof. intros H. exact H. Qed.

Lemma put_names_in l n b m : In m (map fst (ct_put l n b)) -> In m (map fst l) \/ m = n.
Proof.
  destruct (ct_put_names l n b) as [-> | ->]; [left; assumption|].
  intros H. apply in_app_or in H as [H|[<-|[]]]; [left; exact H | right; reflexivity].
Qed.

Lemma put_names_nodup l n b : NoDup (map name_key (map fst l)) -> NoDup (map name_key (map fst (ct_put l n b))).
Proof.
  induction l as [|[m x] r IH]; intros H; cbn [ct_put].
  - cbn [map fst]. constructor; [intros []|constructor].
  - destruct (name_eqb m n) eqn:E; [exact H|].
    cbn [map fst] in *. inversion H as [|? ? Hn Hr]; subst. constructor; [|apply IH; exact Hr].
    intros Hin. apply in_map_iff in Hin as (m' & Ek & Hm'). apply put_names_in in Hm' as [Hm'| ->].
    + apply Hn. rewrite <- Ek. apply in_map. exact Hm'.
    + apply name_eqb_false_iff in E. apply E. symmetry. exact Ek.
Qed.

Lemma CIl_put ts l n b : acc ts n -> CIl ts l -> CIl ts (ct_put l n b).
Proof.
  intros Hn [Ha Hd]. split.
  - intros m Hm. apply put_names_in in Hm as [Hm| ->]; [apply Ha; exact Hm | exact Hn].
  - apply put_names_nodup. exact Hd.
Qed.

Lemma CIl_filter ts l (g : str * bytes -> bool) : CIl ts l -> CIl ts (filter g l).
Proof.
  intros [Ha Hd]. split.
  - intros m Hm. apply Ha. apply in_map_iff in Hm as (e & <- & He). apply filter_In in He as [He _].
    apply in_map. exact He.
  - rewrite map_map in *. apply NoDup_map_filter. exact Hd.
Qed.

Lemma CIl_mono ts ts' l : (forall e, In e ts -> exists e', In e' ts' /\ fst e' = fst e) -> CIl ts l -> CIl ts' l.
Proof.
  intros Hm [Ha Hd]. split; [|exact Hd]. intros m Hin.
  destruct (Ha m Hin) as [H|[H|[H|[(e & He & ->)|H]]]].
  - left. exact H.
  - right. left. exact H.
  - right. right. left. exact H.
  - right. right. right. left. destruct (Hm e He) as (e' & He' & Ee). exists e'. split; [exact He'|]. rewrite Ee. reflexivity.
  - right. right. right. right. exact H.
Qed.

Lemma CIl_remove ts c n c' : ct_remove c n = Ok c' -> CIl ts (ct_entries c) -> CIl ts (ct_entries c').
Proof. intros H. rewrite (ct_remove_entries _ _ _ H). apply CIl_filter. Qed.

Lemma CIl_remove_or_not ts c n :
  CIl ts (ct_entries c) -> CIl ts (ct_entries (match ct_remove c n with Ok c' => c' | _ => c end)).
Proof.
  intros H. destruct (ct_remove c n) as [c'| |] eqn:E; [|exact H|exact H]. eapply CIl_remove; eassumption.
Qed.

Lemma CIl_write ts c n b : acc ts n -> CIl ts (ct_entries c) -> CIl ts (ct_entries (ct_write c n b)).
Proof. intros Hn H. unfold ct_write. cbn [ct_entries]. apply CIl_put; assumption. Qed.

(* ====================================================================== *)
(* 2. INSERT / DELETE / UPDATE                                             *)
(* ====================================================================== *)
Definition TN (ts : tables) : Prop := forall e, In e ts -> t_name (snd e) = fst e.

Lemma PInv3_TN prof k : PInv3 prof k -> TN (k_tabs k).
Proof.
  intros [[HP _] _]. destruct HP as (_ & _ & _ & _ & (_ & _ & _ & _ & F1 & _) & _).
  rewrite Forall_forall in F1. intros e He. destruct (F1 e He) as (_ & _ & E). rewrite E. reflexivity.
Qed.

Lemma acc_table ts tn t : TN ts -> find_table ts tn = Some t -> acc ts (stream_name_of t).
Proof.
  intros Htn Hf. apply find_table_in in Hf. right. right. right. left. exists (tn, t). split; [exact Hf|].
  unfold stream_name_of. pose proof (Htn _ Hf) as E. cbn [fst snd] in *. rewrite E. reflexivity.
Qed.

Lemma op_res_CI k (r : res (container * pool)) k' a :
  op_res (set_finisher k) r = (k', a) ->
  (forall c p, r = Ok (c, p) -> CIl (k_tabs k) (ct_entries c)) ->
  CI k -> CI k' /\ k_tabs k' = k_tabs k.
Proof.
  intros H Hr Hk. destruct r as [[c p]| |]; cbn [op_res] in H; inversion H; subst.
  - split; [|reflexivity]. unfold CI. cbn [with_cp set_finisher k_tabs k_cont]. apply (Hr c p). reflexivity.
  - split; [exact Hk | reflexivity].
  - split; [exact Hk | reflexivity].
Qed.

Lemma insert_CI prof k tn rows k' a :
  TN (k_tabs k) -> CI k -> pkg_insert prof k tn rows = (k', a) -> CI k' /\ k_tabs k' = k_tabs k.
Proof.
  intros Htn Hk H. rewrite pkg_insert_eq in H. apply (op_res_CI _ _ _ _ H); [|exact Hk].
  intros c p Ex. destruct (DmlPkgProofs.exec_insert_shape _ _ _ _ _ _ _ _ Ex) as (t & bs & Hf & -> & _).
  apply CIl_write; [eapply acc_table; eassumption | exact Hk].
Qed.

Lemma delete_CI prof k tn cond k' a :
  TN (k_tabs k) -> CI k -> pkg_delete prof k tn cond = (k', a) -> CI k' /\ k_tabs k' = k_tabs k.
Proof.
  intros Htn Hk H.
  change (pkg_delete prof k tn cond)
    with (op_res (set_finisher k) (exec_delete prof (k_cont k) (k_pool k) (k_tabs k) tn cond)) in H.
  apply (op_res_CI _ _ _ _ H); [|exact Hk].
  intros c p Ex. destruct (DmlPkgProofs.exec_delete_shape _ _ _ _ _ _ _ _ Ex) as ((t & bs & Hf & -> & _) & _).
  apply CIl_write; [eapply acc_table; eassumption | exact Hk].
Qed.

Lemma update_CI prof k tn ups cond k' a :
  TN (k_tabs k) -> CI k -> pkg_update prof k tn ups cond = (k', a) -> CI k' /\ k_tabs k' = k_tabs k.
Proof.
  intros Htn Hk H.
  change (pkg_update prof k tn ups cond)
    with (op_res (set_finisher k) (exec_update prof (k_cont k) (k_pool k) (k_tabs k) tn ups cond)) in H.
  apply (op_res_CI _ _ _ _ H); [|exact Hk].
  intros c p Ex. destruct (DmlPkgProofs.exec_update_shape _ _ _ _ _ _ _ _ _ Ex) as (t & bs & Hf & -> & _).
  apply CIl_write; [eapply acc_table; eassumption | exact Hk].
Qed.

(* ====================================================================== *)
(* 3. create_table                                                         *)
(* ====================================================================== *)
Lemma TN_insert ts tn cols long : TN ts -> TN (tables_insert ts tn (mktable tn cols long)).
Proof.
  intros H e He. apply tables_insert_in in He as [-> | He]; [reflexivity | apply H; exact He].
Qed.

Lemma insert_covers ts tn t e : In e ts -> exists e', In e' (tables_insert ts tn t) /\ fst e' = fst e.
Proof.
  intros He. destruct (list_eq_dec N.eq_dec (fst e) tn) as [E|E].
  - exists (tn, t). split; [apply tables_insert_new | symmetry; exact E].
  - exists e. split; [apply tables_insert_keep; assumption | reflexivity].
Qed.

Lemma create_tail_CI prof k tn cols k' a :
  TN (k_tabs k) -> CI k -> create_tail prof k tn cols = (k', a) -> CI k'.
Proof.
  intros Htn Hk H. unfold create_tail in H.
  destruct (pkg_insert prof k COLUMNS_TABLE_NAME (columns_rows tn cols)) as [k1 r1] eqn:E1.
  destruct (insert_CI _ _ _ _ _ _ Htn Hk E1) as [Hk1 Et1].
  destruct r1 as [u1| |]; [|inversion H; subst; exact Hk1|inversion H; subst; exact Hk1].
  assert (Htn1 : TN (k_tabs k1)) by (rewrite Et1; exact Htn).
  destruct (pkg_insert prof k1 TABLES_TABLE_NAME [[VStr tn]]) as [k2 r2] eqn:E2.
  destruct (insert_CI _ _ _ _ _ _ Htn1 Hk1 E2) as [Hk2 Et2].
  destruct r2 as [u2| |]; [|inversion H; subst; exact Hk2|inversion H; subst; exact Hk2].
  assert (Htn2 : TN (k_tabs k2)) by (rewrite Et2; exact Htn1).
  cbv zeta in H.
  set (k3 := with_tabs k2 (tables_insert (k_tabs k2) tn (mktable tn cols (p_long (k_pool k2))))) in *.
  assert (Hk3 : CI k3).
  { unfold CI, k3. cbn [with_tabs k_tabs k_cont]. apply (CIl_mono (k_tabs k2)); [|exact Hk2].
    intros e He. apply insert_covers. exact He. }
  assert (Htn3 : TN (k_tabs k3)).
  { unfold k3. cbn [with_tabs k_tabs]. apply TN_insert. exact Htn2. }
  destruct (find_table (k_tabs k3) VALIDATION_TABLE_NAME).
  - apply (insert_CI _ _ _ _ _ _ Htn3 Hk3 H).
  - inversion H; subst. exact Hk3.
Qed.

Lemma create_table_CI prof k tn cols k' a :
  TN (k_tabs k) -> CI k -> pkg_create_table prof k tn cols = (k', a) -> CI k'.
Proof.
  intros Htn Hk H. apply create_table_cases in H as [[-> _]|[_ H]]; [exact Hk|].
  eapply create_tail_CI; eassumption.
Qed.

(* ====================================================================== *)
(* 4. drop_table                                                           *)
(* ====================================================================== *)
(* whatever drop_table answers, the entries stay accounted for by the table map before the call; the table map is
   the one before the call, or (an Ok answer) that map without the dropped table *)
Lemma drop_table_CI0 prof k tn k' a :
  TN (k_tabs k) -> CI k -> pkg_drop_table prof k tn = (k', a) ->
  CIl (k_tabs k) (ct_entries (k_cont k')) /\
  (k_tabs k' = k_tabs k \/ k_tabs k' = tables_remove (k_tabs k) tn).
Proof.
  intros Htn Hk H. unfold pkg_drop_table in H.
  destruct (is_reserved tn); [inversion H; subst; split; [exact Hk | left; reflexivity]|].
  destruct (negb (is_valid_tname tn)); [inversion H; subst; split; [exact Hk | left; reflexivity]|].
  destruct (find_table (k_tabs k) tn) as [t|]; [|inversion H; subst; split; [exact Hk | left; reflexivity]].
  destruct (pkg_delete prof k tn None) as [k0 r0] eqn:E0.
  destruct (delete_CI _ _ _ _ _ _ Htn Hk E0) as [Hk0 Et0]. unfold CI in Hk0. rewrite Et0 in Hk0.
  destruct r0 as [u0| |]; [|inversion H; subst; split; [exact Hk0 | left; exact Et0]
                           |inversion H; subst; split; [exact Hk0 | left; exact Et0]].
  cbv zeta in H.
  destruct (if ct_exists (k_cont k0) (stream_name_of t) then ct_remove (k_cont k0) (stream_name_of t) else Ok (k_cont k0))
    as [c1| |] eqn:Ec1; [|inversion H; subst; split; [exact Hk0 | left; exact Et0]
                         |inversion H; subst; split; [exact Hk0 | left; exact Et0]].
  assert (Hc1 : CIl (k_tabs k) (ct_entries c1)).
  { destruct (ct_exists (k_cont k0) (stream_name_of t)).
    - eapply CIl_remove; eassumption.
    - inversion Ec1; subst. exact Hk0. }
  set (k1 := with_cont k0 c1) in *.
  assert (Et1 : k_tabs k1 = k_tabs k) by exact Et0.
  assert (Hk1 : CI k1) by (unfold CI; rewrite Et1; exact Hc1).
  assert (Htn1 : TN (k_tabs k1)) by (rewrite Et1; exact Htn).
  destruct (match find_table (k_tabs k1) VALIDATION_TABLE_NAME with
            | Some _ => pkg_delete prof k1 VALIDATION_TABLE_NAME (table_eq_cond s_Table tn)
            | None => (set_finisher k1, Ok tt)
            end) as [k2 r2] eqn:E2.
  assert (Hk2 : CI k2 /\ k_tabs k2 = k_tabs k1).
  { destruct (find_table (k_tabs k1) VALIDATION_TABLE_NAME).
    - eapply delete_CI; eassumption.
    - inversion E2; subst. split; [exact Hk1 | reflexivity]. }
  destruct Hk2 as [Hk2 Et2]. rewrite Et1 in Et2.
  assert (Hc2 : CIl (k_tabs k) (ct_entries (k_cont k2))) by (unfold CI in Hk2; rewrite Et2 in Hk2; exact Hk2).
  destruct r2 as [u2| |]; [|inversion H; subst; split; [exact Hc2 | left; exact Et2]
                           |inversion H; subst; split; [exact Hc2 | left; exact Et2]].
  assert (Htn2 : TN (k_tabs k2)) by (rewrite Et2; exact Htn).
  destruct (pkg_delete prof k2 COLUMNS_TABLE_NAME (table_eq_cond s_Table tn)) as [k3 r3] eqn:E3.
  destruct (delete_CI _ _ _ _ _ _ Htn2 Hk2 E3) as [Hk3 Et3]. rewrite Et2 in Et3.
  assert (Hc3 : CIl (k_tabs k) (ct_entries (k_cont k3))) by (unfold CI in Hk3; rewrite Et3 in Hk3; exact Hk3).
  destruct r3 as [u3| |]; [|inversion H; subst; split; [exact Hc3 | left; exact Et3]
                           |inversion H; subst; split; [exact Hc3 | left; exact Et3]].
  assert (Htn3 : TN (k_tabs k3)) by (rewrite Et3; exact Htn).
  destruct (pkg_delete prof k3 TABLES_TABLE_NAME (table_eq_cond s_Name tn)) as [k4 r4] eqn:E4.
  destruct (delete_CI _ _ _ _ _ _ Htn3 Hk3 E4) as [Hk4 Et4]. rewrite Et3 in Et4.
  assert (Hc4 : CIl (k_tabs k) (ct_entries (k_cont k4))) by (unfold CI in Hk4; rewrite Et4 in Hk4; exact Hk4).
  destruct r4 as [u4| |]; [|inversion H; subst; split; [exact Hc4 | left; exact Et4]
                           |inversion H; subst; split; [exact Hc4 | left; exact Et4]].
  inversion H; subst. cbn [with_tabs k_cont k_tabs]. split; [exact Hc4 | right; rewrite Et4; reflexivity].
Qed.

Lemma in_names_find l m : In m (map fst l) -> ct_find l m <> None.
Proof.
  induction l as [|[m' x] r IH]; intros H; [destruct H|]. cbn [ct_find].
  destruct (name_eqb m' m) eqn:E; [discriminate|].
  destruct H as [H|H]; [cbn [fst] in H; subst m'; rewrite name_eqb_refl in E; discriminate | apply IH; exact H].
Qed.

Lemma step_drop_table_CI prof k tn k' :
  PInv3 prof k -> CI k -> after (pkg_drop_table prof k tn) = Some k' -> CI k'.
Proof.
  intros HP3 Hk H. pose proof HP3 as [HP _].
  destruct (drop_table_cases prof k tn HP) as [[E _] | [k1 E]]; rewrite E in H; apply after_cases in H as [-> _].
  - exact Hk.
  - destruct (drop_table_CI0 _ _ _ _ _ (PInv3_TN _ _ HP3) Hk E) as [[Ha Hd] Ht].
    destruct (drop_table_ok prof k tn k' HP E) as (_ & _ & _ & _ & Hnone & _).
    unfold CI. destruct Ht as [-> | ->]; [split; assumption|].
    split; [|exact Hd]. intros m Hm.
    destruct (Ha m Hm) as [A|[A|[A|[(e & He & ->)|A]]]].
    + left. exact A.
    + right. left. exact A.
    + right. right. left. exact A.
    + right. right. right. left. exists e. split; [|reflexivity].
      unfold tables_remove. apply filter_In. split; [exact He|].
      destruct (str_eqb (fst e) tn) eqn:Ee; [|reflexivity]. exfalso.
      apply str_eqb_spec in Ee. rewrite Ee in Hm. exact (in_names_find _ _ Hm Hnone).
    + right. right. right. right. exact A.
Qed.

(* ====================================================================== *)
(* 5. streams, signature, flush                                            *)
(* ====================================================================== *)
Lemma write_stream_CI k n b k' a : CI k -> pkg_write_stream k n b = (k', a) -> CI k'.
Proof.
  intros Hk H. unfold pkg_write_stream in H. destruct (sn_is_valid n false) eqn:V; cbn [negb] in H; inversion H; subst.
  - unfold CI. cbn [with_cont with_cp k_tabs k_cont]. apply CIl_write; [|exact Hk].
    right. right. right. right. exists n. split; [exact V | reflexivity].
  - exact Hk.
Qed.

Lemma remove_stream_CI k n k' a : CI k -> pkg_remove_stream k n = (k', a) -> CI k'.
Proof.
  intros Hk H. unfold pkg_remove_stream in H. destruct (negb (sn_is_valid n false)); [inversion H; subst; exact Hk|].
  destruct (ct_remove (k_cont k) (sn_encode n false)) as [c| |] eqn:R; inversion H; subst; try exact Hk.
  unfold CI. cbn [with_cont with_cp k_tabs k_cont]. eapply CIl_remove; eassumption.
Qed.

Lemma remove_signature_CI k : CI k -> CI (pkg_remove_signature k).
Proof.
  intros Hk. unfold CI, pkg_remove_signature. cbn [with_cont with_cp k_tabs k_cont].
  apply CIl_remove_or_not. apply CIl_remove_or_not. exact Hk.
Qed.

Lemma acc_summary ts : acc ts SUMMARY_INFO_STREAM_NAME.
Proof. left. unfold special_names. cbn [In]. tauto. Qed.

Lemma flush_CI k k1 : CI k -> pkg_flush k = Some k1 -> CI k1 /\ k_tabs k1 = k_tabs k.
Proof.
  intros Hk Ef. destruct k as [c ty s sm p ts f].
  apply flush_cases in Ef as [[_ ->]|(_ & c0 & c1 & p1 & -> & Hsum & Hpl)]; [split; [exact Hk | reflexivity]|].
  split; [|reflexivity]. unfold CI in *. cbn [k_tabs k_cont] in *.
  assert (H0 : CIl ts (ct_entries c0)).
  { destruct sm; [|subst c0; exact Hk]. destruct Hsum as (b & _ & ->). apply CIl_write; [apply acc_summary | exact Hk]. }
  destruct (p_mod p); [|destruct Hpl as [-> _]; exact H0].
  destruct Hpl as (pb & db & _ & _ & -> & _).
  apply CIl_write; [right; right; left; reflexivity|]. apply CIl_write; [right; left; reflexivity | exact H0].
Qed.

(* ====================================================================== *)
(* 6. every step, every history                                            *)
(* ====================================================================== *)
Lemma after_CI {A} (P : pkg -> Prop) (x : pkg * res A) k' :
  (forall k1 a, x = (k1, a) -> P k1) -> after x = Some k' -> P k'.
Proof. intros H Ha. destruct x as [k1 a]. apply after_cases in Ha as [-> _]. apply (H k' a). reflexivity. Qed.

Lemma step_CI prof k o k' : PInv3 prof k -> CI k -> op_ok o -> step prof k o = Some k' -> CI k'.
Proof.
  intros HP Hk Hok H. pose proof (PInv3_TN _ _ HP) as Htn. destruct o; cbn [step] in H.
  - apply (after_CI CI _ _ (fun k1 a E => proj1 (insert_CI _ _ _ _ _ _ Htn Hk E)) H).
  - apply (after_CI CI _ _ (fun k1 a E => proj1 (delete_CI _ _ _ _ _ _ Htn Hk E)) H).
  - apply (after_CI CI _ _ (fun k1 a E => proj1 (update_CI _ _ _ _ _ _ _ Htn Hk E)) H).
  - apply (after_CI CI _ _ (fun k1 a E => create_table_CI _ _ _ _ _ _ Htn Hk E) H).
  - eapply step_drop_table_CI; eassumption.
  - apply (after_CI CI _ _ (fun k1 a E => write_stream_CI _ _ _ _ _ Hk E) H).
  - apply (after_CI CI _ _ (fun k1 a E => remove_stream_CI _ _ _ _ Hk E) H).
  - inversion H; subst. apply remove_signature_CI. exact Hk.
  - unfold pkg_summary_mut in H. destruct (f (k_sum k)); apply after_cases in H as [<- _]; exact Hk.
  - inversion H; subst. exact Hk.
  - apply (flush_CI _ _ Hk H).
  - destruct (pkg_flush k) as [k1|] eqn:Hf; [|discriminate H].
    destruct (pkg_open prof (k_cont k1)) as [k2| |] eqn:Ho; try discriminate H.
    inversion H; subst k2. destruct HP as [HP _].
    destruct (reopen_roundtrip2 prof k HP) as (k1' & k2' & Hf' & Ho' & Hobs & _ & Ec & _ & _).
    rewrite Hf in Hf'. inversion Hf'; subst k1'. rewrite Ho in Ho'. inversion Ho'; subst k2'.
    destruct (flush_CI _ _ Hk Hf) as [Hk1 Et1].
    unfold CI. rewrite Ec, (same_obs_tabs _ _ _ Hobs), <- Et1. exact Hk1.
Qed.

Lemma run_CI prof : forall ops k k', PInv3 prof k -> CI k -> Forall op_ok ops -> run prof k ops = Some k' -> CI k'.
Proof.
  induction ops as [|o r IH]; intros k k' HP Hk Hok H; cbn [run] in H.
  - inversion H; subst k'. exact Hk.
  - inversion Hok as [|? ? Ho Hr]; subst.
    destruct (step prof k o) as [k1|] eqn:E; [|discriminate H].
    apply (IH k1 k'); [eapply step_inv; eassumption | eapply step_CI; eassumption | exact Hr | exact H].
Qed.

Lemma create_CI prof t k : pkg_create prof t = Ok k -> CI k.
Proof.
  intros H. unfold pkg_create in H.
  apply rbind_ok in H as (s0 & _ & H). cbv zeta in H.
  match type of H with context [pkg_create_table prof ?k0 ?n ?c] =>
    set (kk := k0) in *; destruct (pkg_create_table prof kk n c) as [k1 r] eqn:E end.
  apply rbind_ok in H as (u & _ & H).
  destruct (pkg_flush k1) as [k2|] eqn:Ef; [|discriminate H]. inversion H; subst k2.
  assert (Hk0 : CI kk).
  { unfold CI, kk. cbn [k_cont k_tabs ct_entries]. split; [intros m []|constructor]. }
  assert (Htn0 : TN (k_tabs kk)).
  { unfold kk. cbn [k_tabs]. apply TN_insert. apply TN_insert. intros e []. }
  apply (flush_CI k1 k (create_table_CI _ _ _ _ _ _ Htn0 Hk0 E) Ef).
Qed.

Lemma reachable_CI prof k : reachable prof k -> CI k.
Proof.
  intros (t & k0 & ops & Hc & Hok & Hr).
  apply (run_CI prof ops k0 k); [apply (create_inv3 prof t k0 Hc) | apply (create_CI prof t k0 Hc) | exact Hok | exact Hr].
Qed.

Theorem reachable_entries_accounted : forall prof k, reachable prof k ->
  entries_accounted k /\ NoDup (map name_key (ct_names (k_cont k))).
Proof. intros prof k H. apply CI_goal. eapply reachable_CI. exact H. Qed.

(* ====================================================================== *)
(* 7. the listing                                                          *)
(* ====================================================================== *)
Lemma table_stream_decodes n : snd (sn_decode (sn_encode n true)) = true.
Proof. unfold sn_encode, sn_decode. cbn [app]. rewrite N.eqb_refl. reflexivity. Qed.

Lemma existsb_str_in s l : existsb (str_eqb s) l = true <-> In s l.
Proof.
  rewrite existsb_exists. split.
  - intros (x & Hx & E). apply str_eqb_spec in E. subst. exact Hx.
  - intros H. exists s. split; [exact H | apply str_eqb_spec; reflexivity].
Qed.

(* what the listing shows for one entry *)
Definition shown (m : str) : list str :=
  if existsb (str_eqb m) special_names then []
  else let '(d, is_table) := sn_decode m in if is_table then [] else [d].

Lemma pkg_streams_shown k : pkg_streams k = flat_map shown (ct_names (k_cont k)).
Proof. reflexivity. Qed.

(* an accounted entry that the listing shows is the packed form of the (valid) name shown *)
Lemma shown_accounted ts m d : acc ts m -> In d (shown m) -> sn_is_valid d false = true /\ m = sn_encode d false.
Proof.
  intros Ha Hd. unfold shown in Hd.
  destruct (existsb (str_eqb m) special_names) eqn:Es; [destruct Hd|].
  destruct Ha as [A|[A|[A|[(e & _ & A)|(n & V & A)]]]].
  - exfalso. apply existsb_str_in in A. congruence.
  - exfalso. subst m. unfold pool_stream in Hd. destruct (sn_decode _) as [x b] eqn:E.
    pose proof (table_stream_decodes STRING_POOL_TABLE_NAME) as T. rewrite E in T. cbn [snd] in T. subst b. destruct Hd.
  - exfalso. subst m. unfold data_stream in Hd. destruct (sn_decode _) as [x b] eqn:E.
    pose proof (table_stream_decodes STRING_DATA_TABLE_NAME) as T. rewrite E in T. cbn [snd] in T. subst b. destruct Hd.
  - exfalso. subst m. destruct (sn_decode _) as [x b] eqn:E.
    pose proof (table_stream_decodes (fst e)) as T. rewrite E in T. cbn [snd] in T. subst b. destruct Hd.
  - subst m. rewrite (sn_roundtrip_valid n false V) in Hd. destruct Hd as [<-|[]]. split; [exact V | reflexivity].
Qed.

Lemma accounted_canonical ts m : acc ts m -> entry_canonical m.
Proof.
  intros Ha Hs Ht.
  assert (Hin : In (fst (sn_decode m)) (shown m)).
  { unfold shown. rewrite Hs. destruct (sn_decode m) as [d b]. cbn [snd fst] in *. subst b. left. reflexivity. }
  destruct (shown_accounted ts m _ Ha Hin) as [_ E]. symmetry. exact E.
Qed.

Lemma special_in_protected m : In m special_names -> In m protected_names.
Proof. intros H. apply special_is_protected. apply existsb_str_in. exact H. Qed.

(* an accounted entry equal to a packed valid name under the container's comparison is that packed name *)
Lemma accounted_eqb_encoded ts m n : acc ts m -> sn_is_valid n false = true ->
  name_eqb m (sn_encode n false) = true -> m = sn_encode n false.
Proof.
  intros Ha V E. rewrite name_eqb_sym in E.
  destruct Ha as [A|[A|[A|[(e & _ & A)|(n' & V' & A)]]]].
  - rewrite (stream_not_protected n m V (special_in_protected m A)) in E. discriminate.
  - subst m. unfold pool_stream in E. rewrite (stream_not_table n _ V) in E. discriminate.
  - subst m. unfold data_stream in E. rewrite (stream_not_table n _ V) in E. discriminate.
  - subst m. rewrite (stream_not_table n _ V) in E. discriminate.
  - subst m. rewrite (encoded_name_eqb n n' V V' E). reflexivity.
Qed.

Lemma find_some_in l n : ct_find l n <> None -> exists m, In m (map fst l) /\ name_eqb m n = true.
Proof.
  induction l as [|[m x] r IH]; cbn [ct_find]; intros H; [exfalso; apply H; reflexivity|].
  destruct (name_eqb m n) eqn:E.
  - exists m. split; [left; reflexivity | exact E].
  - destruct (IH H) as (m' & Hm' & E'). exists m'. split; [right; exact Hm' | exact E'].
Qed.

Theorem reachable_listing : forall prof k n, reachable prof k ->
  (In n (pkg_streams k) <-> pkg_has_stream k n = true).
Proof.
  intros prof k n Hre. destruct (reachable_CI prof k Hre) as [Ha _].
  change (map fst (ct_entries (k_cont k))) with (ct_names (k_cont k)) in Ha.
  assert (Hcanon : forall m, In m (ct_names (k_cont k)) -> entry_canonical m).
  { intros m Hm. apply (accounted_canonical (k_tabs k)). apply Ha. exact Hm. }
  split.
  - intros Hin.
    assert (V : sn_is_valid n false = true).
    { rewrite pkg_streams_shown in Hin. apply in_flat_map in Hin as (m & Hm & Hs).
      apply (shown_accounted (k_tabs k) m n (Ha m Hm) Hs). }
    apply streams_listing_has_stream; assumption.
  - intros Hh. unfold pkg_has_stream in Hh. apply andb_true_iff in Hh as [V Hex].
    apply (streams_listing_core k n V Hcanon).
    unfold ct_exists in Hex.
    destruct (ct_find (ct_entries (k_cont k)) (sn_encode n false)) eqn:F; [|discriminate].
    destruct (find_some_in (ct_entries (k_cont k)) (sn_encode n false)) as (m & Hm & E); [congruence|].
    change (map fst (ct_entries (k_cont k))) with (ct_names (k_cont k)) in Hm.
    rewrite <- (accounted_eqb_encoded (k_tabs k) m n (Ha m Hm) V E). exact Hm.
Qed.

Lemma shown_nodup ts : forall names, (forall m, In m names -> acc ts m) -> NoDup (map name_key names) ->
  NoDup (flat_map shown names).
Proof.
  induction names as [|m r IH]; intros Ha Hd; cbn [flat_map]; [constructor|].
  cbn [map] in Hd. inversion Hd as [|? ? Hn Hr]; subst.
  assert (IH' : NoDup (flat_map shown r)) by (apply IH; [intros x Hx; apply Ha; right; exact Hx | exact Hr]).
  assert (Hone : shown m = [] \/ exists d, shown m = [d]).
  { unfold shown. destruct (existsb _ special_names); [left; reflexivity|].
    destruct (sn_decode m) as [d b]. destruct b; [left; reflexivity | right; exists d; reflexivity]. }
  destruct Hone as [-> | (d & Ed)]; [exact IH'|]. rewrite Ed. cbn [app]. constructor; [|exact IH'].
  intros Hin. apply in_flat_map in Hin as (m' & Hm' & Hs').
  destruct (shown_accounted ts m d (Ha m (or_introl eq_refl))) as [_ E1]; [rewrite Ed; left; reflexivity|].
  destruct (shown_accounted ts m' d (Ha m' (or_intror Hm')) Hs') as [_ E2].
  apply Hn. rewrite E1, <- E2. apply in_map. exact Hm'.
Qed.

Theorem reachable_listing_nodup : forall prof k, reachable prof k -> NoDup (pkg_streams k).
Proof.
  intros prof k Hre. destruct (reachable_CI prof k Hre) as [Ha Hd].
  rewrite pkg_streams_shown. apply (shown_nodup (k_tabs k)); assumption.
Qed.

(* ====================================================================== *)
(* 8. C06 end to end                                                       *)
(* ====================================================================== *)
Theorem created_table_reopens : forall prof k tn cols k',
  reachable prof k -> enums_scalar cols ->
  pkg_create_table prof k tn cols = (k', Ok tt) ->
  find_table (k_tabs k') tn = Some (mktable tn cols (p_long (k_pool k))) /\
  exists k1 k2, pkg_flush k' = Some k1 /\ pkg_open prof (k_cont k1) = Ok k2 /\
    find_table (k_tabs k2) tn = Some (mktable tn cols (p_long (k_pool k))).
Proof.
  intros prof k tn cols k' Hre Hen H.
  destruct (create_table_ok prof k tn cols k' (reachable_inv prof k Hre) Hen H) as (_ & _ & Hf & _).
  split; [exact Hf|].
  assert (Hre' : reachable prof k').
  { apply (reachable_step prof k (OCreateTable tn cols) k' Hre Hen). cbn [step]. rewrite H. reflexivity. }
  destruct (reachable_roundtrip prof k' Hre') as (k1 & k2 & Hfl & Ho & Hobs & _).
  exists k1, k2. split; [exact Hfl|]. split; [exact Ho|].
  rewrite (same_obs_tabs _ _ _ Hobs). exact Hf.
Qed.

(* ---- the goal statements, verbatim ---------------------------------------------------------------------------- *)
Definition G_reachable_entries_accounted : Prop := forall prof k, reachable prof k ->
  entries_accounted k /\ NoDup (map name_key (ct_names (k_cont k))).
Definition G_reachable_listing : Prop := forall prof k n, reachable prof k ->
  (In n (pkg_streams k) <-> pkg_has_stream k n = true).
Definition G_reachable_listing_nodup : Prop := forall prof k, reachable prof k -> NoDup (pkg_streams k).
Definition G_created_table_reopens : Prop := forall prof k tn cols k',
  reachable prof k -> enums_scalar cols ->
  pkg_create_table prof k tn cols = (k', Ok tt) ->
  find_table (k_tabs k') tn = Some (mktable tn cols (p_long (k_pool k))) /\
  exists k1 k2, pkg_flush k' = Some k1 /\ pkg_open prof (k_cont k1) = Ok k2 /\
    find_table (k_tabs k2) tn = Some (mktable tn cols (p_long (k_pool k))).

Lemma G_reachable_entries_accounted_holds : G_reachable_entries_accounted.  Proof. exact reachable_entries_accounted. Qed.
Lemma G_reachable_listing_holds : G_reachable_listing.  Proof. exact reachable_listing. Qed.
Lemma G_reachable_listing_nodup_holds : G_reachable_listing_nodup.  Proof. exact reachable_listing_nodup. Qed.
Lemma G_created_table_reopens_holds : G_created_table_reopens.  Proof. exact created_table_reopens. Qed.

Print Assumptions reachable_entries_accounted.
Print Assumptions reachable_listing.
Print Assumptions reachable_listing_nodup.
Print Assumptions created_table_reopens.
