(* SingleByteSpec.v -- specification vocabulary and statements for the single-byte code pages (model in CodePage.v, tables in GenSingleByte.v). *)
From MsiModel Require Import Base CodePage CodePageProofs.
From MsiGen Require Import GenCodePage GenSingleByte.
Open Scope N_scope.

(* nonzero entries are pairwise distinct *)
Fixpoint nodup_nz (t : list N) : bool :=
  match t with
  | [] => true
  | h :: r => ((h =? 0) || negb (existsb (N.eqb h) r)) && nodup_nz r
  end.
(* a well-formed index table: 128 entries, each unmapped (0) or a scalar value >= 128, no code point twice *)
Definition sb_table_ok (t : list N) : bool :=
  (length t =? 128)%nat && forallb (fun c => (c =? 0) || ((128 <=? c) && is_scalar c)) t && nodup_nz t.
(* what a table can represent *)
Definition sb_repr (t : list N) (c : N) : Prop := c < 128 \/ (c <> 0 /\ In c t).
Definition multibyte_labels : list str :=
  [[83; 72; 73; 70; 84; 95; 74; 73; 83]; [71; 66; 75]; [69; 85; 67; 95; 75; 82]; [66; 73; 71; 53]; [85; 84; 70; 95; 56]].
  (* SHIFT_JIS GBK EUC_KR BIG5 UTF_8 *)
Definition wired_ok (p : str * str) : bool :=
  existsb (str_eqb (snd p)) multibyte_labels
  || match sb_table (fst p) with Some t => sb_table_ok t | None => false end.

(* every table of the pinned encoding_rs release is well formed (finite: vm_compute) *)
Definition G_sb_tables_ok : Prop := forallb (fun p => sb_table_ok (snd p)) SB_TABLES = true.
(* every code page that codepage.rs wires to a single-byte encoding has its table, and it is well formed *)
Definition G_sb_wiring : Prop := forallb wired_ok CP_ENCODING = true.
(* C14, first clause, for EVERY character and any well-formed table: the byte decodes back to the character, or it is '?' *)
Definition G_sb_char_law : Prop := forall t c, sb_table_ok t = true ->
  sb_dec1 t (sb_enc1 t c) = c \/ sb_enc1 t c = CP_REPLACEMENT.
(* representable characters are never replaced *)
Definition G_sb_repr_exact : Prop := forall t c, sb_table_ok t = true -> sb_repr t c -> sb_dec1 t (sb_enc1 t c) = c.
(* and unrepresentable ones always are *)
Definition G_sb_unrepr : Prop := forall t c, sb_table_ok t = true -> ~ sb_repr t c -> sb_enc1 t c = CP_REPLACEMENT.
(* every produced byte is a byte *)
Definition G_sb_byte : Prop := forall t c, sb_table_ok t = true -> sb_enc1 t c < 256.
(* strings of every length *)
Definition G_sb_roundtrip : Prop := forall t s, sb_table_ok t = true -> Forall (sb_repr t) s -> sb_decode t (sb_encode t s) = s.
Definition G_sb_concat : Prop := forall t a b, sb_encode t (a ++ b) = sb_encode t a ++ sb_encode t b.
Definition G_sb_flat : Prop := forall t s, sb_encode t s = flat_map (fun c => sb_encode t [c]) s.
Definition G_sb_decode_len : Prop := forall t b, length (sb_decode t b) = length b.
(* decoding accepts any bytes: every byte yields a scalar value *)
Definition G_sb_decode_scalar : Prop := forall t b, sb_table_ok t = true -> forallb is_scalar (sb_decode t b) = true.
(* the encode loop of CodePage::encode (1024-byte buffer, refilled) instantiated with a single-byte encoder *)
Definition sb_enc1opt (t : list N) (c : N) : option bytes :=
  if c <? 128 then Some [c] else match sb_index c t 0 with Some i => Some [128 + i] | None => None end.
Definition G_sb_loop : Prop := forall t room fuel s, 0 < room -> room <= CP_ENCODE_BUFFER -> 1 <= room ->
  (length s < fuel)%nat -> enc_loop (sb_enc1opt t) room fuel s = Some (sb_encode t s).
(* at code page level *)
Definition G_cp_sb : Prop := forall c t, sb_table c = Some t -> str_eqb c cp_ascii = false -> str_eqb c cp_utf8 = false ->
  (forall s, cp_encode c s = Some (sb_encode t s)) /\ (forall b, cp_decode c b = Some (sb_decode t b)).
Definition G_cp_sb_roundtrip : Prop := forall c t s, sb_table c = Some t -> sb_table_ok t = true ->
  str_eqb c cp_ascii = false -> str_eqb c cp_utf8 = false -> Forall (sb_repr t) s ->
  exists b, cp_encode c s = Some b /\ cp_decode c b = Some s.
(* non-vacuity: Windows-1252 has a table, 'é' and the euro sign are representable, U+0100 is not *)
Definition cp_1252 : codepage := [87; 105; 110; 100; 111; 119; 115; 49; 50; 53; 50].
Definition G_sb_example : Prop := exists t, sb_table cp_1252 = Some t /\ sb_table_ok t = true /\
  cp_encode cp_1252 [233; 8364; 65; 256] = Some [233; 128; 65; 63] /\ cp_decode cp_1252 [233; 128; 65; 63] = Some [233; 8364; 65; 63].
