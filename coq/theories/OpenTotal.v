(* OpenTotal.v -- C09: no container can make the library panic.
   For EVERY container whose stream bytes are < 256, any pool, any table map and any arguments,
   in both build profiles: opening, reading a property set, DELETE and -- below the pool's
   capacity -- INSERT / UPDATE return Ok or Err, never Panic.  No invariant is assumed: the
   loops are re-proved here under the shape facts the readers guarantee (rows_shaped). *)
From Coq Require Import ZifyBool ZifyNat ZifyN Lia.
From MsiModel Require Import Base Sexp Value Expr Category CategoryProofs Column CodePage Pool Table Container StreamName
  Propset Summary Query Package PoolProofs TableProofs QueryProofs SelectTotal.
From MsiModel Require UpdateRefine.
From MsiGen Require Import GenConsts GenCatalog.
Open Scope N_scope.
Arguments N.add : simpl never.
Arguments N.mul : simpl never.
Arguments N.sub : simpl never.
Arguments N.div : simpl never.
Arguments N.modulo : simpl never.

(* ====================================================================================== *)
(* the failure behaviour of the source as regenerated on this run                          *)
(* ====================================================================================== *)
Theorem failure_flags_now :
  OPEN_UNWRAPS_CATALOG_CELLS = false /\ POOL_DECREF_PANICS = false /\ POOL_INCREF_ASSERTS_EMPTY = false.
Proof. repeat split; reflexivity. Qed.

Lemma flag_open : OPEN_UNWRAPS_CATALOG_CELLS = false.
Proof. exact (proj1 failure_flags_now). Qed.
Lemma flag_decref : POOL_DECREF_PANICS = false.
Proof. exact (proj1 (proj2 failure_flags_now)). Qed.
Lemma flag_incref : POOL_INCREF_ASSERTS_EMPTY = false.
Proof. exact (proj2 (proj2 failure_flags_now)). Qed.

(* ====================================================================================== *)
(* "never Panic, and on Ok the value satisfies Q"                                          *)
(* ====================================================================================== *)
Definition np {A} (r : res A) (Q : A -> Prop) : Prop :=
  match r with Ok a => Q a | Err => True | Panic => False end.

Lemma np_panic {A} (r : res A) Q : np r Q -> r <> Panic.
Proof. destruct r; cbn [np]; intros H; [discriminate | discriminate | destruct H]. Qed.
Lemma np_intro {A} (r : res A) (Q : A -> Prop) : r <> Panic -> (forall a, r = Ok a -> Q a) -> np r Q.
Proof. destruct r; cbn [np]; intros H1 H2; [apply H2; reflexivity | exact I | apply H1; reflexivity]. Qed.
Lemma np_true {A} (r : res A) : r <> Panic -> np r (fun _ => True).
Proof. intro H. apply np_intro; [assumption | intros; exact I]. Qed.
Lemma np_ex {A} (r : res A) (Q : A -> Prop) : (exists a, r = Ok a /\ Q a) -> np r Q.
Proof. intros [a [-> H]]. exact H. Qed.
Lemma np_weaken {A} (r : res A) (P Q : A -> Prop) : np r P -> (forall a, P a -> Q a) -> np r Q.
Proof. destruct r; cbn [np]; auto. Qed.
Lemma np_bind {A B} (e : res A) (f : A -> res B) (P : A -> Prop) (Q : B -> Prop) :
  np e P -> (forall a, P a -> np (f a) Q) -> np (rbind e f) Q.
Proof. destruct e; cbn [np rbind]; auto. Qed.
Lemma np_bind_np {A B} (e : res A) (f : A -> res B) (P : A -> Prop) :
  np e P -> (forall a, P a -> f a <> Panic) -> rbind e f <> Panic.
Proof. destruct e; cbn [np rbind]; intros H1 H2; [auto | discriminate | destruct H1]. Qed.
Lemma rbind_np {A B} (e : res A) (f : A -> res B) :
  e <> Panic -> (forall a, e = Ok a -> f a <> Panic) -> rbind e f <> Panic.
Proof. destruct e; cbn [rbind]; intros H1 H2; [auto | discriminate | exfalso; apply H1; reflexivity]. Qed.

Lemma of_opt_np {A} (o : option A) : of_opt o <> Panic.
Proof. destruct o; discriminate. Qed.
Lemma ct_read_np c n : ct_read c n <> Panic.
Proof. apply of_opt_np. Qed.

(* ====================================================================================== *)
(* property sets                                                                           *)
(* ====================================================================================== *)
Ltac np_step :=
  match goal with
  | |- Ok _ <> Panic => discriminate
  | |- Err <> Panic => discriminate
  | |- (match ?x with _ => _ end) <> Panic => destruct x
  end.

Lemma read_value_np cp b : read_value cp b <> Panic.
Proof. unfold read_value. cbv zeta. repeat np_step. Qed.

Lemma read_offsets_np : forall n b acc, read_offsets n b acc <> Panic.
Proof.
  induction n as [|n IH]; intros b acc; cbn [read_offsets]; [discriminate|].
  destruct (get32 b) as [[name r]|]; [|discriminate].
  destruct (get32 r) as [[off r']|]; [|discriminate].
  destruct (existsb _ acc); [discriminate | apply IH].
Qed.

Lemma read_values_np cp version b sec : forall l, read_values cp version b sec l <> Panic.
Proof.
  induction l as [|[name off] l IH]; cbn [read_values]; [discriminate|].
  apply rbind_np; [apply read_value_np | intros v _].
  destruct (version <? min_version v); [discriminate|].
  apply rbind_np; [apply IH | intros; discriminate].
Qed.

Theorem ps_read_total : forall b, ps_read b <> Panic.
Proof.
  intro b. unfold ps_read.
  destruct (get16 b) as [[bom r1]|]; [|discriminate].
  destruct (negb (bom =? BYTE_ORDER_MARK)); [discriminate|].
  destruct (get16 r1) as [[version r2]|]; [|discriminate].
  destruct (1 <? version); [discriminate|].
  destruct (get16 r2) as [[osv r3]|]; [|discriminate].
  destruct (get16 r3) as [[os r4]|]; [|discriminate].
  destruct (2 <? os); [discriminate|].
  destruct (take_bytes 16 r4) as [[clsid r5]|]; [|discriminate].
  destruct (get32 r5) as [[reserved r6]|]; [|discriminate].
  destruct (reserved <? 1); [discriminate|].
  destruct (take_bytes 16 r6) as [[fmtid r7]|]; [|discriminate].
  destruct (get32 r7) as [[sec r8]|]; [|discriminate].
  cbv zeta.
  destruct (get32 (seek b sec)) as [[w s1]|]; [|discriminate].
  destruct (get32 s1) as [[nprops s2]|]; [|discriminate].
  apply rbind_np.
  { destruct (nlen s2 / 8 <? nprops); [discriminate | apply read_offsets_np]. }
  intros offs _.
  apply rbind_np.
  { destruct (lookup_off PROPERTY_CODEPAGE offs) as [off|]; [|discriminate].
    apply rbind_np; [apply read_value_np | intros v _].
    destruct v; try discriminate. destruct (cp_from_id _); discriminate. }
  intros cp _.
  apply rbind_np; [apply read_values_np | intros; discriminate].
Qed.

Theorem summary_read_total : forall b, summary_read b <> Panic.
Proof.
  intro b. unfold summary_read.
  apply rbind_np; [apply ps_read_total | intros ps _].
  destruct (list_eqb N.eqb (ps_fmtid ps) FMTID); discriminate.
Qed.

(* ====================================================================================== *)
(* opening a package                                                                       *)
(* ====================================================================================== *)
Lemma bad_cell_np {A} : @bad_cell A <> Panic.
Proof. unfold bad_cell. rewrite flag_open. discriminate. Qed.
Lemma as_str_v_np v : as_str_v v <> Panic.
Proof. destruct v; cbn [as_str_v]; try apply bad_cell_np; discriminate. Qed.
Lemma as_int_v_np v : as_int_v v <> Panic.
Proof. destruct v; cbn [as_int_v]; try apply bad_cell_np; discriminate. Qed.

(* the values of the rows of a table: one value per column *)
Lemma rmapM_values_np prof p (t : table) rows : rows_shaped t rows ->
  np (rmapM (row_to_values prof p) rows) (Forall (fun r => length r = length (t_cols t))).
Proof.
  intros H. induction H as [|r rows [Hl Hr] _ IH]; cbn [rmapM]; [constructor|].
  destruct (row_to_values_total prof p r Hr) as [vals [-> Hv]]. cbn [rbind].
  eapply np_bind; [exact IH|]. intros vs Hvs. cbn [np]. constructor; [congruence | assumption].
Qed.

Lemma load_rows_np c t : bytes_ok c -> np (load_rows c t) (rows_shaped t).
Proof.
  intro Hc. apply np_intro; [apply load_rows_total | intros rows H; eapply load_rows_shape; eassumption].
Qed.

Lemma rows_values_np prof c p t : bytes_ok c ->
  np (rows_values prof c p t) (Forall (fun r => length r = length (t_cols t))).
Proof.
  intro Hc. unfold rows_values. eapply np_bind; [apply load_rows_np; assumption|].
  intros rows Hrows. apply rmapM_values_np; assumption.
Qed.

Lemma read_table_names_np : forall rows seen,
  Forall (fun r : list value => (1 <= length r)%nat) rows -> read_table_names rows seen <> Panic.
Proof.
  induction rows as [|r rows IH]; intros seen H; cbn [read_table_names]; [discriminate|].
  inversion H as [|? ? Hr Hrows]; subst.
  destruct r as [|v0 r]; cbn [length] in Hr; [lia|]. cbn [nth_opt unwrap rbind].
  apply rbind_np; [apply as_str_v_np | intros n _].
  destruct (existsb (str_eqb n) seen); [discriminate | apply IH; assumption].
Qed.

Lemma read_columns_rows_np names : forall rows acc,
  Forall (fun r : list value => (4 <= length r)%nat) rows -> read_columns_rows names rows acc <> Panic.
Proof.
  induction rows as [|r rows IH]; intros acc H; cbn [read_columns_rows]; [discriminate|].
  inversion H as [|? ? Hr Hrows]; subst.
  destruct r as [|v0 [|v1 [|v2 [|v3 r]]]]; cbn [length] in Hr; try lia. cbn [nth_opt unwrap rbind].
  apply rbind_np; [apply as_str_v_np | intros tn _].
  destruct (negb (existsb (str_eqb tn) names)); [discriminate|].
  apply rbind_np; [apply as_int_v_np | intros idx _].
  cbv zeta.
  match goal with |- (if ?x then _ else _) <> Panic => destruct x; [discriminate|] end.
  apply rbind_np; [apply as_str_v_np | intros cn _].
  apply rbind_np; [apply as_int_v_np | intros bits _].
  apply IH; assumption.
Qed.

Lemma read_validation_rows_np : forall rows acc,
  Forall (fun r : list value => (2 <= length r)%nat) rows -> read_validation_rows rows acc <> Panic.
Proof.
  induction rows as [|r rows IH]; intros acc H; cbn [read_validation_rows]; [discriminate|].
  inversion H as [|? ? Hr Hrows]; subst.
  destruct r as [|v0 [|v1 r]]; cbn [length] in Hr; try lia. cbn [nth_opt unwrap rbind].
  apply rbind_np; [apply as_str_v_np | intros tn _].
  apply rbind_np; [apply as_str_v_np | intros cn _].
  match goal with |- (if ?x then _ else _) <> Panic => destruct x; [discriminate|] end.
  apply IH; assumption.
Qed.

Lemma builder_from_validation_np cn v : builder_from_validation cn v <> Panic.
Proof.
  unfold builder_from_validation. destruct v as [r|]; [|discriminate]. cbv beta zeta.
  repeat first
    [ discriminate
    | apply as_str_v_np
    | apply as_int_v_np
    | apply rbind_np; [|intros ? _]
    | match goal with |- (match ?x with _ => _ end) <> Panic => destruct x end ].
Qed.

Lemma col_with_bits_np c bits : col_with_bits c bits <> Panic.
Proof.
  unfold col_with_bits, ct_of_bits. cbv zeta.
  apply rbind_np; [|intros; discriminate].
  destruct (has_bit bits _); [discriminate | apply of_opt_np].
Qed.

Lemma build_columns_np tn vals : forall specs, build_columns tn specs vals <> Panic.
Proof.
  induction specs as [|[[i cn] bits] specs IH]; cbn [build_columns]; [discriminate|].
  cbv zeta.
  apply rbind_np; [apply builder_from_validation_np | intros b _].
  apply rbind_np; [apply col_with_bits_np | intros c _].
  apply rbind_np; [apply IH | intros; discriminate].
Qed.

Lemma build_tables_np cmap vals long : forall names acc, build_tables names cmap vals long acc <> Panic.
Proof.
  induction names as [|tn names IH]; intros acc; cbn [build_tables]; [discriminate|].
  cbv zeta.
  destruct (sort_specs _) as [|[[first cn] bits] specs]; [discriminate|].
  match goal with |- (if ?x then _ else _) <> Panic => destruct x; [discriminate|] end.
  apply rbind_np; [apply build_columns_np | intros cols _]. apply IH.
Qed.

Lemma tables_table_cols long : length (t_cols (tables_table long)) = 1%nat.
Proof. unfold tables_table. cbn [t_cols]. rewrite map_length. vm_compute. reflexivity. Qed.
Lemma columns_table_cols long : length (t_cols (columns_table long)) = 4%nat.
Proof. unfold columns_table. cbn [t_cols]. rewrite map_length. vm_compute. reflexivity. Qed.
Lemma validation_table_cols long : length (t_cols (validation_table long)) = 10%nat.
Proof. unfold validation_table, validation_columns. cbn [t_cols]. rewrite map_length. vm_compute. reflexivity. Qed.

Lemma Forall_len_ge {A} (n k : nat) (rows : list (list A)) :
  (k <= n)%nat -> Forall (fun r => length r = n) rows -> Forall (fun r => (k <= length r)%nat) rows.
Proof. intros Hk H. eapply Forall_impl; [|exact H]. cbv beta. intros r Hr. lia. Qed.

Theorem open_total : forall prof c, bytes_ok c -> pkg_open prof c <> Panic.
Proof.
  intros prof c Hc. unfold pkg_open.
  apply rbind_np; [apply of_opt_np | intros ty _].
  apply rbind_np; [apply ct_read_np | intros sb _].
  apply rbind_np; [apply summary_read_total | intros s _].
  apply rbind_np; [apply ct_read_np | intros pb _].
  apply rbind_np; [apply ct_read_np | intros db _].
  apply rbind_np; [apply read_pool_total | intros p _].
  cbv zeta.
  eapply np_bind_np; [apply rows_values_np; assumption | intros trows Ht].
  rewrite tables_table_cols in Ht.
  apply rbind_np; [apply read_table_names_np; eapply Forall_len_ge; [|exact Ht]; lia | intros names _].
  eapply np_bind_np; [apply rows_values_np; assumption | intros crows Hcr].
  rewrite columns_table_cols in Hcr.
  apply rbind_np; [apply read_columns_rows_np; eapply Forall_len_ge; [|exact Hcr]; lia | intros cmap _].
  eapply np_bind_np; [apply rows_values_np; assumption | intros vrows Hv].
  rewrite validation_table_cols in Hv.
  apply rbind_np; [apply read_validation_rows_np; eapply Forall_len_ge; [|exact Hv]; lia | intros vals _].
  apply rbind_np; [apply build_tables_np | intros; discriminate].
Qed.

(* ====================================================================================== *)
(* the string pool: incref below the capacity, decref of an in-range reference             *)
(* ====================================================================================== *)
Definition plen (p : pool) : N := nlen (p_strings p).

Lemma nlen_cons' {A} (x : A) l : nlen (x :: l) = 1 + nlen l.
Proof. unfold nlen. cbn [length]. lia. Qed.

Lemma incref_scan_np prof s : forall l idx,
  np (incref_scan prof l s idx)
     (fun o => match o with
               | Some (l', i) => nlen l' = nlen l /\ idx <= i /\ i < idx + nlen l
               | None => True
               end).
Proof.
  induction l as [|[t rc] l IH]; intros idx; cbn [incref_scan]; [exact I|].
  assert (Hfree : np (Ok (Some ((s, 1) :: l, idx)) : res (option (list (str * N) * N)))
                     (fun o => match o with
                               | Some (l', i) => nlen l' = nlen ((t, rc) :: l) /\ idx <= i /\ i < idx + nlen ((t, rc) :: l)
                               | None => True
                               end)).
  { cbn [np]. rewrite !nlen_cons'. lia. }
  destruct (rc =? 0).
  - destruct prof; [destruct t|]; try rewrite flag_incref; exact Hfree.
  - destruct (str_eqb t s && (rc <? 65535)).
    + cbn [np]. rewrite !nlen_cons'. lia.
    + eapply np_bind; [apply IH|]. intros [[l' i]|] H; cbn [np]; [|exact I].
      rewrite !nlen_cons'. lia.
Qed.

Lemma pool_incref_np prof p s : plen p < 65535 ->
  np (pool_incref prof p s) (fun x => plen (fst x) <= plen p + 1 /\ 0 < snd x /\ snd x <= 65535).
Proof.
  unfold plen. intro Hn. unfold pool_incref.
  eapply np_bind; [apply incref_scan_np|]. intros [[l' i]|] H.
  - cbn [np fst snd p_strings]. lia.
  - cbv zeta.
    assert (E1 : (65535 <=? nlen (p_strings p)) = false) by lia.
    assert (E2 : (MAX_STRING_REF <=? nlen (p_strings p)) = false) by (unfold MAX_STRING_REF; lia).
    rewrite E1, E2. cbn [andb np fst snd p_strings]. unfold nlen in *. rewrite app_length. cbn [length]. lia.
Qed.

Lemma decref_at_len : forall l i l', decref_at l i = Some l' -> length l' = length l.
Proof.
  induction l as [|[t rc] l IH]; intros i l' H; destruct i; cbn [decref_at] in H; try discriminate.
  - destruct (rc =? 0); [discriminate|]. inversion H. reflexivity.
  - destruct (decref_at l i) as [l1|] eqn:E; cbn [option_map] in H; try discriminate.
    inversion H. cbn [length]. f_equal. eapply IH; eassumption.
Qed.

Lemma pool_decref_np prof p r : 0 < r -> r <= MAX_STRING_REF ->
  np (pool_decref prof p r) (fun p' => plen p' = plen p).
Proof.
  intros H0 H1. unfold pool_decref, plen. rewrite decref_at_N_eq.
  assert (E : (0 <? r) && (r <=? MAX_STRING_REF) = true) by lia.
  assert (E0 : (r =? 0) = false) by lia.
  rewrite E, E0.
  assert (Hgoal : np (match decref_at (p_strings p) (N.to_nat (r - 1)) with
                      | Some l => Ok (mkpool (p_cp p) l (p_long p) true)
                      | None => if POOL_DECREF_PANICS then Panic else Ok p
                      end) (fun p' => nlen (p_strings p') = nlen (p_strings p))).
  { destruct (decref_at (p_strings p) (N.to_nat (r - 1))) as [l|] eqn:Ed.
    - cbn [np p_strings]. apply decref_at_len in Ed. unfold nlen. rewrite Ed. reflexivity.
    - rewrite flag_decref. reflexivity. }
  destruct prof; cbn [rbind]; exact Hgoal.
Qed.

Lemma vref_create_np prof p v : plen p < 65535 ->
  np (vref_create prof p v) (fun x => plen (fst x) <= plen p + 1 /\ ref_ok (snd x)).
Proof.
  intro Hn. destruct v as [|z|s]; cbn [vref_create]; try (cbn [np fst snd ref_ok]; split; [lia | exact I]).
  destruct s as [|ch s]; [cbn [np fst snd ref_ok]; split; [lia | exact I]|].
  eapply np_bind; [apply pool_incref_np; assumption|]. intros [p' r] H. cbn [fst snd] in H.
  cbn [np fst snd ref_ok]. unfold MAX_STRING_REF. lia.
Qed.

Lemma vref_remove_np prof p v : ref_ok v -> np (vref_remove prof p v) (fun p' => plen p' = plen p).
Proof.
  destruct v as [|z|r]; cbn [vref_remove ref_ok]; intro H; try reflexivity.
  apply pool_decref_np; apply H.
Qed.

(* ====================================================================================== *)
(* writing rows back                                                                       *)
(* ====================================================================================== *)
Lemma nth_opt_ex {A} : forall (l : list A) i, (i < length l)%nat -> exists x, nth_opt l i = Some x /\ In x l.
Proof.
  induction l as [|a l IH]; intros i Hi; cbn [length] in Hi; [lia|].
  destruct i as [|i]; cbn [nth_opt].
  - exists a. split; [reflexivity | left; reflexivity].
  - destruct (IH i) as [x [E Hin]]; [lia|]. exists x. split; [assumption | right; assumption].
Qed.

Lemma write_ref_np prof long o :
  match o with Some n => 0 < n /\ n <= MAX_STRING_REF | None => True end -> write_ref prof long o <> Panic.
Proof.
  intro H. unfold write_ref. cbv zeta. apply rbind_np.
  - destruct o as [n|]; [|discriminate]. destruct prof; [|discriminate].
    assert (E : (0 <? n) && (n <=? MAX_STRING_REF) = true) by lia. rewrite E. discriminate.
  - intros _ _. destruct long; [discriminate|]. destruct (_ <=? 65535); discriminate.
Qed.

Lemma write_cell_np prof ty long v : ref_ok v -> write_cell prof ty long v <> Panic.
Proof.
  intro H. destruct ty, v; cbn [write_cell]; try discriminate; apply write_ref_np; [exact I | exact H].
Qed.

Lemma write_column_np prof ty long idx : forall rows,
  Forall (fun r => (idx < length r)%nat /\ Forall ref_ok r) rows -> write_column prof ty long idx rows <> Panic.
Proof.
  intros rows H. induction H as [|r rows [Hl Hr] _ IH]; cbn [write_column]; [discriminate|].
  destruct (nth_opt_ex r idx Hl) as [v [-> Hin]]. cbn [unwrap rbind].
  apply rbind_np; [apply write_cell_np; rewrite Forall_forall in Hr; apply Hr; assumption | intros b _].
  apply rbind_np; [apply IH | intros; discriminate].
Qed.

Lemma write_columns_np prof long rows : forall cols idx,
  Forall (fun r => (idx + length cols <= length r)%nat /\ Forall ref_ok r) rows ->
  write_columns prof cols long idx rows <> Panic.
Proof.
  induction cols as [|c cols IH]; intros idx H; cbn [write_columns]; [discriminate|].
  apply rbind_np.
  - apply write_column_np. eapply Forall_impl; [|exact H]. cbv beta. cbn [length]. intros r [Hl Hr]. split; [lia | assumption].
  - intros b _. apply rbind_np; [|intros; discriminate]. apply IH.
    eapply Forall_impl; [|exact H]. cbv beta. cbn [length]. intros r [Hl Hr]. split; [lia | assumption].
Qed.

Lemma store_rows_np prof c t rows : rows_shaped t rows -> store_rows prof c t rows <> Panic.
Proof.
  intro H. unfold store_rows, write_rows. apply rbind_np; [|intros; discriminate].
  apply write_columns_np. eapply Forall_impl; [|exact H]. cbv beta. intros r [Hl Hr]. split; [lia | assumption].
Qed.

(* ====================================================================================== *)
(* DELETE                                                                                  *)
(* ====================================================================================== *)
Lemma remove_refs_np prof : forall r p, Forall ref_ok r -> np (remove_refs prof p r) (fun p' => plen p' = plen p).
Proof.
  induction r as [|v r IH]; intros p H; cbn [remove_refs]; [reflexivity|].
  inversion H as [|? ? Hv Hr]; subst.
  eapply np_bind; [apply vref_remove_np; assumption|]. intros p1 H1.
  eapply np_weaken; [apply IH; assumption|]. cbv beta. intros p' Hp'. congruence.
Qed.

Lemma delete_loop_np prof t cond : cond_ok t cond = true -> forall rows p, rows_shaped t rows ->
  np (delete_loop prof p t cond rows) (fun x => rows_shaped t (snd x)).
Proof.
  intros Hc rows p H. revert p. induction H as [|r rows [Hl Hr] Hrows IH]; intros p; cbn [delete_loop].
  - constructor.
  - destruct (cond_holds_total prof p t cond r Hl Hr Hc) as [d ->]. cbn [rbind]. destruct d.
    + eapply np_bind; [apply remove_refs_np; assumption|]. intros p1 _. apply IH.
    + eapply np_bind; [apply IH|]. intros [p2 kept] Hk. cbn [snd] in Hk. cbn [np snd].
      constructor; [split; assumption | assumption].
Qed.

Theorem delete_total_any : forall prof c p ts tn cond,
  bytes_ok c -> exec_delete prof c p ts tn cond <> Panic.
Proof.
  intros prof c p ts tn cond Hc. unfold exec_delete.
  apply rbind_np; [apply of_opt_np | intros t _].
  destruct (cond_ok t cond) eqn:Ec; cbn [negb]; [|discriminate].
  eapply np_bind_np; [apply load_rows_np; assumption | intros rows Hrows].
  eapply np_bind_np; [apply delete_loop_np; assumption | intros [p' kept] Hk]. cbn [snd] in Hk.
  apply rbind_np; [apply store_rows_np; assumption | intros; discriminate].
Qed.

Theorem pkg_delete_total_any : forall prof k tn cond,
  bytes_ok (k_cont k) -> snd (pkg_delete prof k tn cond) <> Panic.
Proof.
  intros prof k tn cond Hc. unfold pkg_delete. cbv zeta.
  pose proof (delete_total_any prof (k_cont (set_finisher k)) (k_pool (set_finisher k)) (k_tabs (set_finisher k)) tn cond Hc) as H.
  destruct (exec_delete prof _ _ _ tn cond) as [[c' p']| |]; cbn [op_res snd]; [discriminate | discriminate | exfalso; apply H; reflexivity].
Qed.

(* ====================================================================================== *)
(* INSERT below the pool's capacity                                                        *)
(* ====================================================================================== *)
Definition room (p : pool) (n : N) : Prop := nlen (p_strings p) + n < 65535.

Lemma pk_indices_lt t : Forall (fun i => (i < length (t_cols t))%nat) (pk_indices t).
Proof. apply Forall_forall. intros i Hi. apply UpdateRefine.pk_indices_range. assumption. Qed.

Lemma all_valid_np cols vals : all_valid cols vals <> Panic.
Proof. destruct (all_valid_total cols vals) as [b ->]. discriminate. Qed.

Lemma validate_new_rows_np t : forall rows,
  np (validate_new_rows t rows) (fun _ => Forall (fun r => length r = length (t_cols t)) rows).
Proof.
  induction rows as [|r rows IH]; cbn [validate_new_rows]; [constructor|].
  destruct (Nat.eqb (length r) (length (t_cols t))) eqn:El; cbn [negb]; [|exact I].
  apply Nat.eqb_eq in El.
  destruct (all_valid_total (t_cols t) r) as [b ->]. cbn [rbind]. destruct b; [|exact I].
  eapply np_weaken; [exact IH|]. cbv beta. intros _ H. constructor; assumption.
Qed.

Lemma keyed_insert_snd (P : list vref -> Prop) k row : forall m,
  P row -> Forall P (map snd m) -> Forall P (map snd (keyed_insert m k row)).
Proof.
  induction m as [|[k' r'] m IH]; intros Hrow Hm; cbn [keyed_insert map snd].
  - constructor; [assumption | constructor].
  - cbn [map snd] in Hm. inversion Hm as [|? ? H1 H2]; subst.
    destruct (key_cmp k k'); cbn [map snd].
    + constructor; assumption.
    + constructor; [assumption | constructor; assumption].
    + constructor; [assumption | apply IH; assumption].
Qed.

(* the key cells of a shaped row decode *)
Lemma key_values_np prof p (t : table) kidx r :
  Forall (fun i => (i < length (t_cols t))%nat) kidx -> length r = length (t_cols t) -> Forall ref_ok r ->
  exists kr k, select_nth r kidx = Ok kr /\ row_to_values prof p kr = Ok k.
Proof.
  intros Hk Hl Hr. destruct (select_nth_total r kidx) as [kr [E [_ HP]]]; [rewrite Hl; assumption|].
  destruct (row_to_values_total prof p kr (HP _ Hr)) as [k [Ek _]]. eauto.
Qed.

Lemma load_keyed_np prof p (t : table) kidx :
  Forall (fun i => (i < length (t_cols t))%nat) kidx ->
  forall rows, rows_shaped t rows -> forall m, rows_shaped t (map snd m) ->
  np (load_keyed prof p kidx rows m) (fun m' => rows_shaped t (map snd m')).
Proof.
  intros Hk rows H. induction H as [|r rows [Hl Hr] _ IH]; intros m Hm; cbn [load_keyed]; [exact Hm|].
  destruct (key_values_np prof p t kidx r Hk Hl Hr) as [kr [k [-> Ek]]]. cbn [rbind]. rewrite Ek. cbn [rbind].
  destruct (keyed_mem m k); [exact I|]. apply IH.
  apply keyed_insert_snd; [split; assumption | exact Hm].
Qed.

Lemma check_new_keys_np (n : nat) kidx m : Forall (fun i => (i < n)%nat) kidx ->
  forall rows seen, Forall (fun r : list value => length r = n) rows -> check_new_keys kidx m seen rows <> Panic.
Proof.
  intros Hk rows. induction rows as [|r rows IH]; intros seen H; cbn [check_new_keys]; [discriminate|].
  inversion H as [|? ? Hr Hrows]; subst.
  destruct (select_nth_total r kidx) as [k [-> _]]; [assumption|]. cbn [rbind].
  destruct (keyed_mem m k); [discriminate|].
  destruct (existsb (key_eqb k) seen); [discriminate|]. apply IH; assumption.
Qed.

Lemma create_refs_np prof : forall vals p, plen p + nlen vals < 65535 ->
  np (create_refs prof p vals)
     (fun x => plen (fst x) <= plen p + nlen vals /\ length (snd x) = length vals /\ Forall ref_ok (snd x)).
Proof.
  induction vals as [|v vals IH]; intros p Hn; cbn [create_refs].
  - cbn [np fst snd]. repeat split; [unfold nlen; cbn [length]; lia | constructor].
  - rewrite nlen_cons' in Hn.
    eapply np_bind; [apply vref_create_np; lia|]. intros [p1 r] [H1 Hr]. cbn [fst snd] in H1, Hr.
    eapply np_bind; [apply IH; lia|]. intros [p2 rs] [H2 [Hl Hrs]]. cbn [fst snd] in H2, Hl, Hrs.
    cbn [np fst snd]. rewrite nlen_cons'. repeat split; [lia | cbn [length]; congruence | constructor; assumption].
Qed.

Lemma nlen_app' {A} (a b : list A) : nlen (a ++ b) = nlen a + nlen b.
Proof. unfold nlen. rewrite app_length. lia. Qed.

Lemma insert_new_np prof (t : table) kidx : Forall (fun i => (i < length (t_cols t))%nat) kidx ->
  forall rows p m, Forall (fun r : list value => length r = length (t_cols t)) rows ->
  rows_shaped t (map snd m) -> plen p + nlen (List.concat rows) < 65535 ->
  np (insert_new prof p kidx m rows) (fun x => rows_shaped t (map snd (snd x))).
Proof.
  intros Hk rows. induction rows as [|r rows IH]; intros p m H Hm Hn; cbn [insert_new]; [exact Hm|].
  inversion H as [|? ? Hr Hrows]; subst.
  cbn [List.concat] in Hn. rewrite nlen_app' in Hn.
  destruct (select_nth_total r kidx) as [k [-> _]]; [rewrite Hr; assumption|]. cbn [rbind].
  eapply np_bind; [apply create_refs_np; lia|]. intros [p1 refs] [H1 [Hl Hrefs]]. cbn [fst snd] in H1, Hl, Hrefs.
  apply IH; [assumption | | lia].
  apply keyed_insert_snd; [split; [congruence | assumption] | exact Hm].
Qed.

Lemma concat_map_map_len {A B} (f : A -> B) : forall rows : list (list A),
  nlen (List.concat (map (map f) rows)) = nlen (List.concat rows).
Proof.
  induction rows as [|r rows IH]; cbn [map List.concat]; [reflexivity|].
  rewrite !nlen_app', IH. unfold nlen. rewrite map_length. reflexivity.
Qed.

Theorem insert_total_any : forall prof c p ts tn rows,
  bytes_ok c -> room p (nlen (List.concat rows)) -> exec_insert prof c p ts tn rows <> Panic.
Proof.
  intros prof c p ts tn rows Hc Hroom. unfold room in Hroom. unfold exec_insert.
  apply rbind_np; [apply of_opt_np | intros t _].
  eapply np_bind_np; [apply validate_new_rows_np | intros u Hlen; cbv beta in Hlen].
  cbv zeta.
  eapply np_bind_np; [apply load_rows_np; assumption | intros old Hold].
  eapply np_bind_np; [apply (load_keyed_np prof p t); [apply pk_indices_lt | exact Hold | constructor] | intros m Hm].
  assert (Hlen' : Forall (fun r : list value => length r = length (t_cols t)) (map (map normalize_value) rows)).
  { apply Forall_forall. intros r Hin. apply in_map_iff in Hin as [r0 [<- Hin]]. rewrite map_length.
    rewrite Forall_forall in Hlen. apply Hlen; assumption. }
  apply rbind_np; [eapply check_new_keys_np; [apply pk_indices_lt | exact Hlen'] | intros _ _].
  apply rbind_np.
  { destruct MAX_ROWS_INSERT as [lim|]; [|discriminate]. destruct (lim <? _); discriminate. }
  intros _ _.
  eapply np_bind_np.
  { apply (insert_new_np prof t); [apply pk_indices_lt | exact Hlen' | exact Hm |].
    rewrite concat_map_map_len. exact Hroom. }
  intros [p' m'] Hm'. cbn [snd] in Hm'.
  apply rbind_np; [apply store_rows_np; assumption | intros; discriminate].
Qed.

(* ====================================================================================== *)
(* UPDATE below the pool's capacity                                                        *)
(* ====================================================================================== *)
Definition upd_known (t : table) (u : str * value) : Prop :=
  exists i, col_index t (fst u) = Some i /\ (i < length (t_cols t))%nat.

Lemma validate_updates_np t : forall ups, np (validate_updates t ups) (fun _ => Forall (upd_known t) ups).
Proof.
  induction ups as [|[n v] ups IH]; cbn [validate_updates]; [constructor|].
  destruct (col_index t n) as [i|] eqn:E; [|exact I].
  assert (Hi : (i < length (t_cols t))%nat).
  { unfold col_index in E. apply index_of_col_range in E. lia. }
  destruct (nth_opt_ex (t_cols t) i Hi) as [c [-> _]]. cbn [unwrap rbind].
  destruct (is_valid_value_total c v) as [b ->]. cbn [rbind]. destruct b; [|exact I].
  eapply np_weaken; [exact IH|]. cbv beta. intros _ H. constructor; [|assumption].
  exists i. cbn [fst]. split; assumption.
Qed.

Lemma matches_of_np prof p t cond : cond_ok t cond = true ->
  forall rows, rows_shaped t rows -> matches_of prof p t cond rows <> Panic.
Proof.
  intros Hc rows H. induction H as [|r rows [Hl Hr] _ IH]; cbn [matches_of]; [discriminate|].
  destruct (cond_holds_total prof p t cond r Hl Hr Hc) as [b ->]. cbn [rbind].
  apply rbind_np; [exact IH | intros; discriminate].
Qed.

Lemma nk_go_np prof p t ups r m : Forall ref_ok r ->
  forall idx, Forall (fun i => (i < length r)%nat) idx -> UpdateRefine.nk_go prof p t ups r m idx <> Panic.
Proof.
  intros Hr idx H. induction H as [|i idx Hi _ IH].
  - unfold UpdateRefine.nk_go. discriminate.
  - rewrite UpdateRefine.nk_go_cons. apply rbind_np.
    + destruct (if m then last_assignment t ups i None else None) as [v|]; [discriminate|].
      destruct (nth_opt_ex r i Hi) as [cell [-> Hin]]. cbn [unwrap rbind].
      rewrite Forall_forall in Hr.
      destruct (to_value_total prof p cell (Hr _ Hin)) as [x ->]. discriminate.
    + intros v _. apply rbind_np; [exact IH | intros; discriminate].
Qed.

Lemma new_keys_np prof p t ups kidx : Forall (fun i => (i < length (t_cols t))%nat) kidx ->
  forall rows, rows_shaped t rows -> forall ms seen, new_keys prof p t ups kidx rows ms seen <> Panic.
Proof.
  intros Hk rows H. induction H as [|r rows [Hl Hr] _ IH]; intros ms seen.
  - cbn [new_keys]. discriminate.
  - destruct ms as [|m ms]; [cbn [new_keys]; discriminate|].
    rewrite UpdateRefine.new_keys_cons.
    apply rbind_np; [apply nk_go_np; [assumption | rewrite Hl; assumption] | intros k _].
    destruct (existsb (key_eqb k) seen); [discriminate | apply IH].
Qed.

Lemma set_nth_Forall {A} (P : A -> Prop) l i x : Forall P l -> P x -> Forall P (set_nth l i x).
Proof.
  intros Hl Hx. apply Forall_forall. intros z Hz. apply UpdateRefine.set_nth_in in Hz as [->|Hz]; [assumption|].
  rewrite Forall_forall in Hl. apply Hl; assumption.
Qed.

Lemma apply_updates_np prof t : forall ups p r,
  Forall (upd_known t) ups -> length r = length (t_cols t) -> Forall ref_ok r -> plen p + nlen ups < 65535 ->
  np (apply_updates prof p t ups r)
     (fun x => plen (fst x) <= plen p + nlen ups /\ length (snd x) = length (t_cols t) /\ Forall ref_ok (snd x)).
Proof.
  induction ups as [|[n v] ups IH]; intros p r Hu Hl Hr Hn; cbn [apply_updates].
  - cbn [np fst snd]. repeat split; [unfold nlen; cbn [length]; lia | assumption | assumption].
  - inversion Hu as [|? ? [i [Ei Hi]] Hups]; subst. cbn [fst] in Ei. rewrite nlen_cons' in Hn.
    rewrite Ei. cbn [unwrap rbind].
    destruct (nth_opt_ex r i) as [old [-> Hin]]; [rewrite Hl; assumption|]. cbn [unwrap rbind].
    assert (Hold : ref_ok old) by (rewrite Forall_forall in Hr; apply Hr; assumption).
    eapply np_bind; [apply vref_remove_np; assumption|]. intros p1 H1. cbv beta in H1.
    eapply np_bind; [apply vref_create_np; lia|]. intros [p2 nv] [H2 Hnv]. cbn [fst snd] in H2, Hnv.
    eapply np_weaken.
    + apply IH; [assumption | rewrite UpdateRefine.set_nth_length; assumption
                 | apply set_nth_Forall; assumption | lia].
    + cbv beta. intros [p3 r3] [H3 [Hl3 Hr3]]. cbn [fst snd] in *. rewrite nlen_cons'.
      repeat split; [lia | assumption | assumption].
Qed.

Lemma update_loop_np prof t ups : Forall (upd_known t) ups ->
  forall rows, rows_shaped t rows -> forall ms p, plen p + nlen rows * nlen ups < 65535 ->
  np (update_loop prof p t ups rows ms) (fun x => plen (fst x) <= plen p + nlen rows * nlen ups /\ rows_shaped t (snd x)).
Proof.
  intros Hu rows H. induction H as [|r rows [Hl Hr] _ IH]; intros ms p Hn.
  - cbn [update_loop np fst snd]. split; [lia | constructor].
  - destruct ms as [|m ms]; [cbn [update_loop np fst snd]; split; [lia | constructor]|].
    cbn [update_loop].
    rewrite nlen_cons', N.mul_add_distr_r, N.mul_1_l in Hn |- *.
    assert (H1 : np (if m then apply_updates prof p t ups r else Ok (p, r))
                    (fun x => plen (fst x) <= plen p + nlen ups /\ length (snd x) = length (t_cols t) /\ Forall ref_ok (snd x))).
    { destruct m; [apply apply_updates_np; try assumption; lia|].
      cbn [np fst snd]. repeat split; [lia | assumption | assumption]. }
    eapply np_bind; [exact H1|]. intros [p1 r'] [Hp1 [Hl' Hr']]. cbn [fst snd] in Hp1, Hl', Hr'.
    eapply np_bind; [apply IH; lia|]. intros [p2 rest] [Hp2 Hrest]. cbn [fst snd] in Hp2, Hrest.
    cbn [np fst snd]. split; [lia|]. constructor; [split; assumption | assumption].
Qed.

Lemma sort_rows_np prof p (t : table) kidx :
  Forall (fun i => (i < length (t_cols t))%nat) kidx ->
  forall rows, rows_shaped t rows -> forall m, rows_shaped t (map snd m) ->
  np (sort_rows prof p kidx rows m) (fun m' => rows_shaped t (map snd m')).
Proof.
  intros Hk rows H. induction H as [|r rows [Hl Hr] _ IH]; intros m Hm; cbn [sort_rows]; [exact Hm|].
  destruct (key_values_np prof p t kidx r Hk Hl Hr) as [kr [k [-> Ek]]]. cbn [rbind]. rewrite Ek. cbn [rbind].
  apply IH. apply keyed_insert_snd; [split; assumption | exact Hm].
Qed.

Theorem update_total_any : forall prof c p ts tn ups cond rows t,
  bytes_ok c -> find_table ts tn = Some t -> load_rows c t = Ok rows ->
  room p (nlen rows * nlen ups) -> exec_update prof c p ts tn ups cond <> Panic.
Proof.
  intros prof c p ts tn ups cond rows t Hc Hf Hl Hroom. unfold room in Hroom. unfold exec_update.
  rewrite Hf. cbn [of_opt rbind].
  eapply np_bind_np; [apply validate_updates_np | intros u Hups; cbv beta in Hups].
  destruct (cond_ok t cond) eqn:Ec; cbn [negb]; [|discriminate].
  rewrite Hl. cbn [rbind].
  pose proof (load_rows_shape c t rows Hc Hl) as Hrows.
  apply rbind_np; [apply matches_of_np; assumption | intros ms _].
  cbv zeta.
  apply rbind_np.
  { destruct (existsb _ ups); [|discriminate]. apply new_keys_np; [apply pk_indices_lt | assumption]. }
  intros _ _.
  eapply np_bind_np; [apply update_loop_np; [exact Hups | exact Hrows | exact Hroom] | intros [p' rows'] [_ Hr']].
  cbn [snd] in Hr'.
  eapply np_bind_np with (P := rows_shaped t).
  { destruct (existsb _ ups); [|exact Hr'].
    eapply np_bind; [apply (sort_rows_np prof p' t); [apply pk_indices_lt | exact Hr' | constructor]|].
    intros m Hm. exact Hm. }
  intros rows'' Hr''.
  apply rbind_np; [apply store_rows_np; assumption | intros; discriminate].
Qed.

Print Assumptions failure_flags_now.
Print Assumptions ps_read_total.
Print Assumptions summary_read_total.
Print Assumptions open_total.
Print Assumptions delete_total_any.
Print Assumptions pkg_delete_total_any.
Print Assumptions insert_total_any.
Print Assumptions update_total_any.
