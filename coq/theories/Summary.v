(* Summary.v -- model of src/internal/summary.rs over the property-set model. *)
From MsiModel Require Import Base CodePage Timestamp Language Category Propset.
From MsiGen Require Import GenConsts.
Open Scope N_scope.

Definition summary_new (prof : profile) : res propset :=
  ps_set_codepage prof (mkps SUMMARY_OS SUMMARY_OS_VERSION (repeat 0 16) FMTID cp_utf8 []) cp_utf8.

Definition summary_read (b : bytes) : res propset :=
  ps <- ps_read b ;;
  if list_eqb N.eqb (ps_fmtid ps) FMTID then Ok ps else Err.

Definition get_str (ps : propset) (k : N) : option str :=
  match ps_lookup k (ps_props ps) with Some (PStr s) => Some s | _ => None end.

(* split at the first ';' *)
Fixpoint split_once (c : N) (s : str) : option (str * str) :=
  match s with
  | [] => None
  | x :: r => if x =? c then Some ([], r)
              else match split_once c r with Some (a, b) => Some (x :: a, b) | None => None end
  end.

Definition sum_arch (ps : propset) : option str :=
  match get_str ps PROPERTY_TEMPLATE with
  | Some t => let a := match split_once 59 t with Some (a, _) => a | None => t end in
              match a with [] => None | _ => Some a end
  | None => None
  end.
Definition sum_set_arch (prof : profile) (ps : propset) (arch : str) : propset :=
  let langs := match get_str ps PROPERTY_TEMPLATE with
               | Some t => match split_once 59 t with Some (_, l) => l | None => [] end
               | None => []
               end in
  ps_set prof ps PROPERTY_TEMPLATE (PStr (arch ++ 59 :: langs)).

(* languages(): codes after the ';', comma separated, unparsable ones dropped *)
Definition parse_u16_value (s : str) : option N :=
  if parse_u16 s then
    Some (Z.to_N (digits_value (match s with 43 :: r => r | _ => s end)))
  else None.
Definition sum_languages (ps : propset) : list N :=
  match get_str ps PROPERTY_TEMPLATE with
  | Some t =>
      match split_once 59 t with
      | Some (_, l) => flat_map (fun p => match parse_u16_value p with Some c => [c] | None => [] end) (split_on 44 l)
      | None => []
      end
  | None => []
  end.
Definition sum_set_languages (prof : profile) (ps : propset) (codes : list N) : propset :=
  let arch := match get_str ps PROPERTY_TEMPLATE with
              | Some t => match split_once 59 t with Some (a, _) => a | None => t end
              | None => []
              end in
  ps_set prof ps PROPERTY_TEMPLATE (PStr (arch ++ 59 :: join_sep 44 (map decimal codes))).

(* uuid(): trim '{' at the start and '}' at the end, then Uuid::parse_str *)
Fixpoint trim_start (c : N) (s : str) : str :=
  match s with x :: r => if x =? c then trim_start c r else s | [] => [] end.
Definition trim_end (c : N) (s : str) : str := rev (trim_start c (rev s)).
Definition hexval (c : N) : option N :=
  if (48 <=? c) && (c <=? 57) then Some (c - 48)
  else if (65 <=? c) && (c <=? 70) then Some (c - 55)
  else if (97 <=? c) && (c <=? 102) then Some (c - 87)
  else None.
Fixpoint hex_pairs (s : str) : option bytes :=
  match s with
  | [] => Some []
  | a :: b :: r => match hexval a, hexval b, hex_pairs r with
                   | Some x, Some y, Some t => Some (16 * x + y :: t)
                   | _, _, _ => None
                   end
  | _ => None
  end.
(* Uuid::parse_str: 32 hex digits, or 36 hyphenated, or 38 braced, or urn:uuid: + 36 *)
Definition uuid_parse (s : str) : option bytes :=
  let b := utf8_enc s in
  let hyph (t : bytes) := if uuid_hyphenated t then hex_pairs (filter (fun c => negb (c =? 45)) t) else None in
  match length b with
  | 32%nat => hex_pairs b
  | 36%nat => hyph b
  | 38%nat => match b with
              | 123 :: r => match rev r with 125 :: m => hyph (rev m) | _ => None end
              | _ => None
              end
  | 45%nat => if list_eqb N.eqb (firstn 9 b) [117; 114; 110; 58; 117; 117; 105; 100; 58] then hyph (skipn 9 b) else None
  | _ => None
  end.
Definition sum_uuid (ps : propset) : option bytes :=
  match get_str ps PROPERTY_UUID with
  | Some s => uuid_parse (trim_end 125 (trim_start 123 s))
  | None => None
  end.
