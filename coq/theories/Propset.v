(* Propset.v -- model of src/internal/propset.rs and src/internal/summary.rs. *)
From MsiModel Require Import Base CodePage Timestamp Language Category.
From MsiGen Require Import GenConsts.
Open Scope N_scope.

Inductive propval :=
| PEmpty | PNull | PI1 (z : Z) | PI2 (z : Z) | PI4 (z : Z) | PStr (s : str) | PTime (ticks : N).

Record propset := mkps {
  ps_os : N; ps_os_version : N; ps_clsid : bytes; ps_fmtid : bytes;
  ps_cp : codepage;
  ps_props : list (N * propval);     (* BTreeMap<u32, _>: ascending by id *)
}.

Fixpoint ps_insert (k : N) (v : propval) (l : list (N * propval)) : list (N * propval) :=
  match l with
  | [] => [(k, v)]
  | (k', v') :: r =>
      if k <? k' then (k, v) :: l
      else if k =? k' then (k, v) :: r
      else (k', v') :: ps_insert k v r
  end.
Fixpoint ps_lookup (k : N) (l : list (N * propval)) : option propval :=
  match l with
  | [] => None
  | (k', v) :: r => if k =? k' then Some v else ps_lookup k r
  end.
Definition ps_delete (k : N) (l : list (N * propval)) : list (N * propval) :=
  filter (fun p => negb (fst p =? k)) l.

(* PropertySet::set: the code page follows an I2 code-page property *)
Definition ps_set (prof : profile) (ps : propset) (k : N) (v : propval) : propset :=
  let cp' :=
    if k =? PROPERTY_CODEPAGE then
      match v with
      | PI2 id =>
          let id' := if PROPSET_SET_CODEPAGE_AS_U16 then (id mod 65536)%Z else id in
          match cp_from_id id' with Some c => c | None => ps_cp ps end
      | _ => ps_cp ps
      end
    else ps_cp ps in
  mkps (ps_os ps) (ps_os_version ps) (ps_clsid ps) (ps_fmtid ps) cp' (ps_insert k v (ps_props ps)).
Definition ps_remove (ps : propset) (k : N) : propset :=
  mkps (ps_os ps) (ps_os_version ps) (ps_clsid ps) (ps_fmtid ps) (ps_cp ps) (ps_delete k (ps_props ps)).

(* set_codepage: `codepage.id() as i16`, then debug_assert_eq!(self.codepage, codepage) *)
Definition ps_set_codepage (prof : profile) (ps : propset) (cp : codepage) : res propset :=
  let ps' := ps_set prof ps PROPERTY_CODEPAGE (PI2 (wrap16 (Z.of_N (cp_id cp)))) in
  match prof with
  | Debug => if str_eqb (ps_cp ps') cp then Ok ps' else Panic
  | Release => Ok ps'
  end.

(* ---- writing ---------------------------------------------------------------------------- *)
Definition pad4 (n : N) : N := ((n + 3) / 4) * 4.
Definition zeros (n : N) : bytes := repeat 0 (N.to_nat n).

Definition write_value (cp : codepage) (v : propval) : option bytes :=
  match v with
  | PEmpty => Some (put32 0)
  | PNull => Some (put32 1)
  | PI1 z => Some (put32 16 ++ [Z.to_N (z mod 256); 0; 0; 0])
  | PI2 z => Some (put32 2 ++ put16 (Z.to_N (z mod 65536)) ++ [0; 0])
  | PI4 z => Some (put32 3 ++ put32 (Z.to_N (z mod 4294967296)))
  | PStr s =>
      match cp_encode cp s with
      | Some b =>
          let len := nlen b + 1 in
          Some (put32 30 ++ put32 (len mod 4294967296) ++ b ++ [0] ++ zeros (pad4 len - len))
      | None => None
      end
  | PTime t => Some (put32 64 ++ put64 t)
  end.

(* size_including_padding: from the UTF-8 length of the string, not the encoded one *)
Definition declared_size (v : propval) : N :=
  match v with
  | PEmpty | PNull => 4
  | PI1 _ | PI2 _ | PI4 _ => 8
  | PStr s => ((12 + utf8_len s) / 4) * 4
  | PTime _ => 12
  end.

Definition min_version (v : propval) : N := match v with PI1 _ => 1 | _ => 0 end.

Fixpoint omap {A B} (f : A -> option B) (l : list A) : option (list B) :=
  match l with
  | [] => Some []
  | a :: r => match f a, omap f r with Some b, Some t => Some (b :: t) | _, _ => None end
  end.

Fixpoint offsets_from (start : N) (sizes : list N) : list N :=
  match sizes with [] => [] | s :: r => start :: offsets_from (start + s) r end.

Definition ps_write (ps : propset) : option bytes :=
  match omap (fun p => write_value (ps_cp ps) (snd p)) (ps_props ps) with
  | None => None
  | Some encoded =>
      let n := nlen (ps_props ps) in
      let version := fold_right (fun p m => N.max (min_version (snd p)) m) 0 (ps_props ps) in
      let sizes := if PROPSET_OFFSETS_FROM_ENCODED then map nlen encoded
                   else map (fun p => declared_size (snd p)) (ps_props ps) in
      let start := 8 + 8 * n in
      let offs := offsets_from start sizes in
      let section_size := fold_left N.add sizes start in
      Some (put16 BYTE_ORDER_MARK ++ put16 version ++ put16 (ps_os_version ps) ++ put16 (ps_os ps) ++
            ps_clsid ps ++ put32 1 ++ ps_fmtid ps ++ put32 48 ++
            put32 (section_size mod 4294967296) ++ put32 n ++
            flat_map (fun po => put32 (fst (fst po)) ++ put32 (snd po mod 4294967296)) (combine (ps_props ps) offs) ++
            concat encoded)
  end.

(* ---- reading ---------------------------------------------------------------------------- *)
Definition seek (b : bytes) (off : N) : bytes := skipn_N off b.

(* PropertyValue::read at the current position *)
Definition read_value (cp : codepage) (b : bytes) : res propval :=
  match get32 b with
  | None => Err
  | Some (ty, r) =>
      if ty =? 0 then Ok PEmpty
      else if ty =? 1 then Ok PNull
      else if ty =? 2 then match get16 r with Some (w, _) => Ok (PI2 (of_u16 w)) | None => Err end
      else if ty =? 3 then match get32 r with Some (w, _) => Ok (PI4 (of_u32 w)) | None => Err end
      else if ty =? 16 then match get8 r with Some (w, _) => Ok (PI1 (if w <? 128 then Z.of_N w else Z.of_N w - 256)) | None => Err end
      else if ty =? 30 then
        match get32 r with
        | None => Err
        | Some (len, r2) =>
            let n := if len =? 0 then 0 else len - 1 in
            match take_bytes_N n r2 with
            | None => Err
            | Some (body, r3) =>
                match get8 r3 with
                | Some (0, _) =>
                    match cp_decode cp body with Some s => Ok (PStr s) | None => Err end
                | _ => Err
                end
            end
        end
      else if ty =? 64 then match get64 r with Some (t, _) => Ok (PTime t) | None => Err end
      else Err
  end.

Fixpoint read_offsets (n : nat) (b : bytes) (acc : list (N * N)) : res (list (N * N)) :=
  match n with
  | O => Ok acc
  | S n' =>
      match get32 b with
      | None => Err
      | Some (name, r) =>
          match get32 r with
          | None => Err
          | Some (off, r') =>
              if existsb (fun p => fst p =? name) acc then Err
              else read_offsets n' r' (acc ++ [(name, off)])
          end
      end
  end.

Fixpoint lookup_off (k : N) (l : list (N * N)) : option N :=
  match l with
  | [] => None
  | (k', o) :: r => if k =? k' then Some o else lookup_off k r
  end.

Fixpoint sort_offsets (l : list (N * N)) : list (N * N) :=
  match l with
  | [] => []
  | (k, o) :: r =>
      (fix ins (x : N * N) (s : list (N * N)) : list (N * N) :=
         match s with
         | [] => [x]
         | y :: t => if fst x <? fst y then x :: s else y :: ins x t
         end) (k, o) (sort_offsets r)
  end.

Fixpoint read_values (cp : codepage) (version : N) (b : bytes) (sec : N) (l : list (N * N)) : res (list (N * propval)) :=
  match l with
  | [] => Ok []
  | (name, off) :: r =>
      v <- read_value cp (seek b (sec + off)) ;;
      if version <? min_version v then Err
      else t <- read_values cp version b sec r ;; Ok ((name, v) :: t)
  end.

Definition ps_read (b : bytes) : res propset :=
  match get16 b with
  | None => Err
  | Some (bom, r1) =>
      if negb (bom =? BYTE_ORDER_MARK) then Err else
      match get16 r1 with
      | None => Err
      | Some (version, r2) =>
          if 1 <? version then Err else
          match get16 r2 with
          | None => Err
          | Some (osv, r3) =>
              match get16 r3 with
              | None => Err
              | Some (os, r4) =>
                  if 2 <? os then Err else
                  match take_bytes 16 r4 with
                  | None => Err
                  | Some (clsid, r5) =>
                      match get32 r5 with
                      | None => Err
                      | Some (reserved, r6) =>
                          if reserved <? 1 then Err else
                          match take_bytes 16 r6 with
                          | None => Err
                          | Some (fmtid, r7) =>
                              match get32 r7 with
                              | None => Err
                              | Some (sec, _) =>
                                  let s := seek b sec in
                                  match get32 s with
                                  | None => Err
                                  | Some (_, s1) =>
                                      match get32 s1 with
                                      | None => Err
                                      | Some (nprops, s2) =>
                                          (* a count beyond the data fails on a short read *)
                                          offs <- (if nlen s2 / 8 <? nprops then Err
                                                   else read_offsets (N.to_nat nprops) s2 []) ;;
                                          cp <- match lookup_off PROPERTY_CODEPAGE offs with
                                                | Some off =>
                                                    v <- read_value cp_utf8 (seek b (sec + off)) ;;
                                                    match v with
                                                    | PI2 id =>
                                                        match cp_from_id (id mod 65536)%Z with
                                                        | Some c => Ok c | None => Err end
                                                    | _ => Err
                                                    end
                                                | None => Ok cp_utf8
                                                end ;;
                                          vals <- read_values cp version b sec (sort_offsets offs) ;;
                                          Ok (mkps os osv clsid fmtid cp vals)
                                      end
                                  end
                              end
                          end
                      end
                  end
              end
          end
      end
  end.
