(* InsertRefine.v -- INSERT re-establishes the invariant of the table store and refines the relational model. *)
From Coq Require Import ZifyBool ZifyNat ZifyN Lia Sorting.Sorted Permutation.
From MsiModel Require Import Base Value Expr Category Column CodePage Pool Table Container StreamName Query
  CategoryProofs PoolProofs TableProofs QueryProofs DbInv.
From MsiGen Require Import GenConsts.
Open Scope N_scope.

Ltac Zify.zify_post_hook ::= Z.div_mod_to_equations.
Arguments N.add : simpl never.
Arguments N.mul : simpl never.
Arguments N.div : simpl never.
Arguments N.modulo : simpl never.
Arguments N.sub : simpl never.

(* ====================================================================== *)
(* extra side conditions                                                   *)
(* ====================================================================== *)
(* the pool is not longer than its reference width can address *)
Definition pool_fits (p : pool) : Prop :=
  nlen (p_strings p) <= (if p_long p then MAX_STRING_REF else 65535).
Definition Inv' (d : db) : Prop := Inv d /\ pool_fits (d_pool d).

(* what a Rust `Value` can hold: an i32, or a String (scalar values) shorter than 4 GiB *)
Definition value_storable (v : value) : Prop :=
  value_ok v = true /\ match v with VStr s => utf8_len s < 4294967296 | _ => True end.

(* ====================================================================== *)
(* container                                                               *)
(* ====================================================================== *)
Lemma name_eqb_key a b : name_eqb a b = true <-> name_key a = name_key b.
Proof. unfold name_eqb. apply str_eqb_spec. Qed.
Lemma name_eqb_refl a : name_eqb a a = true.
Proof. apply name_eqb_key. reflexivity. Qed.
Lemma name_eqb_false a b : name_eqb a b = false <-> name_key a <> name_key b.
Proof.
  rewrite <- name_eqb_key. destruct (name_eqb a b); split; intro H; congruence.
Qed.

Lemma ct_find_put_other l n b s : name_eqb s n = false -> ct_find (ct_put l n b) s = ct_find l s.
Proof.
  intro H. apply name_eqb_false in H.
  induction l as [|[m x] l IH]; cbn [ct_put ct_find].
  - destruct (name_eqb n s) eqn:E; [|reflexivity]. apply name_eqb_key in E. congruence.
  - destruct (name_eqb m n) eqn:E; cbn [ct_find].
    + apply name_eqb_key in E.
      destruct (name_eqb m s) eqn:E2; [|reflexivity]. apply name_eqb_key in E2. congruence.
    + rewrite IH. reflexivity.
Qed.
Lemma ct_find_put_same l n b s : name_eqb s n = true -> ct_find (ct_put l n b) s = Some b.
Proof.
  intro H. apply name_eqb_key in H.
  induction l as [|[m x] l IH]; cbn [ct_put ct_find].
  - replace (name_eqb n s) with true; [reflexivity|]. symmetry. apply name_eqb_key. congruence.
  - destruct (name_eqb m n) eqn:E; cbn [ct_find].
    + apply name_eqb_key in E. replace (name_eqb m s) with true; [reflexivity|].
      symmetry. apply name_eqb_key. congruence.
    + apply name_eqb_false in E.
      replace (name_eqb m s) with false; [exact IH|]. symmetry. apply name_eqb_false. congruence.
Qed.

Lemma load_rows_write_other c n b t :
  name_eqb (stream_name_of t) n = false -> load_rows (ct_write c n b) t = load_rows c t.
Proof. intro H. unfold load_rows, ct_write. cbn [ct_entries]. rewrite ct_find_put_other by assumption. reflexivity. Qed.
Lemma load_rows_write_same c n b t :
  name_eqb (stream_name_of t) n = true -> load_rows (ct_write c n b) t = read_rows t b.
Proof. intro H. unfold load_rows, ct_write. cbn [ct_entries]. rewrite ct_find_put_same by assumption. reflexivity. Qed.

Lemma NoDup_map_inj {A B} (f : A -> B) l a b :
  NoDup (map f l) -> In a l -> In b l -> f a = f b -> a = b.
Proof.
  induction l as [|x l IH]; cbn [map]; intros Hn Ha Hb E; [destruct Ha|].
  inversion Hn as [|? ? Hx Hn']; subst.
  destruct Ha as [->|Ha], Hb as [->|Hb]; auto.
  - exfalso. apply Hx. rewrite E. apply in_map. assumption.
  - exfalso. apply Hx. rewrite <- E. apply in_map. assumption.
Qed.

(* ====================================================================== *)
(* occurrences                                                             *)
(* ====================================================================== *)
Lemma occ_row_cons r x xs : occ_row r (x :: xs) = (if is_ref r x then 1 else 0) + occ_row r xs.
Proof. unfold occ_row. cbn [filter]. destruct (is_ref r x); [rewrite nlen_cons|]; lia. Qed.
Lemma occ_cons r row rows : occ r (row :: rows) = occ_row r row + occ r rows.
Proof. reflexivity. Qed.
Lemma occ_app r a b : occ r (a ++ b) = occ r a + occ r b.
Proof. induction a as [|x a IH]; cbn [app]; [unfold occ; cbn [fold_right]; lia|]. rewrite !occ_cons, IH. lia. Qed.
Lemma occ_perm r a b : Permutation a b -> occ r a = occ r b.
Proof. induction 1; rewrite ?occ_cons in *; lia. Qed.
Lemma occ_row_pos r row : In (RStr r) row -> 0 < occ_row r row.
Proof.
  induction row as [|x row IH]; [intros []|]; intros [->|H]; rewrite occ_row_cons.
  - cbn [is_ref]. rewrite N.eqb_refl. lia.
  - specialize (IH H). lia.
Qed.
Lemma occ_in r row rows : In row rows -> occ_row r row <= occ r rows.
Proof.
  induction rows as [|x rows IH]; [intros []|]; intros [->|H]; rewrite occ_cons; [lia|]. specialize (IH H). lia.
Qed.
Lemma all_rows_in c ts e r : In e ts -> occ r (rows_of c (snd e)) <= occ r (all_rows c ts).
Proof.
  induction ts as [|x ts IH]; [intros []|]; intros [->|H]; cbn [all_rows]; rewrite occ_app; [lia|]. specialize (IH H). lia.
Qed.

Definition skey (e : str * table) : str := name_key (stream_name_of (snd e)).

(* replacing the stream of exactly one table *)
Lemma all_rows_replace_notin c c' t ts :
  (forall e, In e ts -> skey e <> name_key (stream_name_of t) -> rows_of c' (snd e) = rows_of c (snd e)) ->
  ~ In (name_key (stream_name_of t)) (map skey ts) ->
  all_rows c' ts = all_rows c ts.
Proof.
  induction ts as [|x ts IH]; intros Hf Hn; [reflexivity|]. cbn [all_rows map] in *.
  rewrite Hf; [|left; reflexivity|intro E; apply Hn; left; exact E].
  rewrite IH; [reflexivity| |]; intuition.
Qed.
Lemma all_rows_replace c c' tn t ts r :
  NoDup (map skey ts) -> In (tn, t) ts ->
  (forall e, In e ts -> skey e <> name_key (stream_name_of t) -> rows_of c' (snd e) = rows_of c (snd e)) ->
  occ r (all_rows c' ts) + occ r (rows_of c t) = occ r (all_rows c ts) + occ r (rows_of c' t).
Proof.
  induction ts as [|x ts IH]; intros Hn Hin Hf; [destruct Hin|].
  cbn [map] in Hn. inversion Hn as [|? ? Hx Hn']; subst.
  cbn [all_rows]. rewrite !occ_app.
  destruct Hin as [->|Hin].
  - cbn [snd]. rewrite (all_rows_replace_notin c c' t ts); [lia| |exact Hx].
    intros e He. apply Hf. right. assumption.
  - assert (Hne : skey x <> name_key (stream_name_of t)).
    { intro E. apply Hx. rewrite E. change (name_key (stream_name_of t)) with (skey (tn, t)). apply in_map. assumption. }
    rewrite (Hf x (or_introl eq_refl) Hne).
    assert (IH' := IH Hn' Hin (fun e He => Hf e (or_intror He))). lia.
Qed.

(* ====================================================================== *)
(* decoding, relationally; stability under pool growth                     *)
(* ====================================================================== *)
Definition cell_dec (p : pool) (c : vref) (v : value) : Prop :=
  match c with
  | RNull => v = VNull
  | RInt z => v = VInt z
  | RStr r => exists s, v = VStr s /\ live p r s /\ r <= MAX_STRING_REF
  end.
Definition dec (p : pool) (row : list vref) (vs : list value) : Prop := Forall2 (cell_dec p) row vs.
Definition pool_le (p p' : pool) : Prop := forall r s, live p r s -> live p' r s.

Lemma pool_le_refl p : pool_le p p.
Proof. intros r s H; exact H. Qed.
Lemma pool_le_trans p q r : pool_le p q -> pool_le q r -> pool_le p r.
Proof. intros H1 H2 x s H. auto. Qed.

Lemma cell_dec_le p p' c v : pool_le p p' -> cell_dec p c v -> cell_dec p' c v.
Proof.
  intros Hle. destruct c; cbn [cell_dec]; auto.
  intros (s & E & Hl & Hm). exists s. auto.
Qed.
Lemma dec_le p p' row vs : pool_le p p' -> dec p row vs -> dec p' row vs.
Proof. intros Hle H. induction H; constructor; eauto using cell_dec_le. Qed.

Lemma cell_dec_value prof p c v : cell_dec p c v -> to_value prof p c = Ok v.
Proof.
  destruct c; cbn [cell_dec to_value]; try (intros ->; reflexivity).
  intros (s & -> & Hl & Hm). rewrite (get_live prof _ _ _ Hl Hm). reflexivity.
Qed.
Lemma dec_values prof p row vs : dec p row vs -> row_to_values prof p row = Ok vs.
Proof.
  induction 1 as [|c v row vs Hc _ IH]; cbn [row_to_values]; [reflexivity|].
  rewrite (cell_dec_value prof _ _ _ Hc). cbn [rbind]. rewrite IH. reflexivity.
Qed.
Lemma dec_rows_values prof p rows vals :
  Forall2 (dec p) rows vals -> rmapM (row_to_values prof p) rows = Ok vals.
Proof.
  induction 1 as [|r v rows vals Hr _ IH]; cbn [rmapM]; [reflexivity|].
  rewrite (dec_values prof _ _ _ Hr). cbn [rbind]. rewrite IH. reflexivity.
Qed.

Lemma refcount_live p r : 0 < r -> 0 < refcount p r -> exists s, live p r s.
Proof.
  unfold refcount, live. intros Hr H.
  destruct (nth_opt (p_strings p) (N.to_nat (r - 1))) as [[s rc]|]; [|lia].
  exists s. split; [assumption|]. exists rc. auto.
Qed.

Lemma cell_ok_max t long r : cell_ok t long (RStr r) -> 0 < r /\ r <= MAX_STRING_REF.
Proof.
  destruct t; cbn [cell_ok]; try tauto. intros [H0 H1]. split; [assumption|].
  destruct long; [assumption|]. unfold MAX_STRING_REF. lia.
Qed.

(* a row whose references are all live decodes *)
Lemma row_dec_exists p long : forall cols row,
  Forall2 (fun c v => cell_ok (c_type c) long v) cols row ->
  (forall r, In (RStr r) row -> 0 < refcount p r) ->
  exists vs, dec p row vs.
Proof.
  induction 1 as [|c x cols row Hc _ IH]; intros Hl.
  - exists []. constructor.
  - destruct IH as [vs Hvs]; [intros r Hr; apply Hl; right; assumption|].
    destruct x as [|z|r].
    + exists (VNull :: vs). constructor; [reflexivity|assumption].
    + exists (VInt z :: vs). constructor; [reflexivity|assumption].
    + apply cell_ok_max in Hc as [H0 H1].
      destruct (refcount_live p r H0 (Hl r (or_introl eq_refl))) as [s Hs].
      exists (VStr s :: vs). constructor; [|assumption]. exists s. auto.
Qed.

(* under the invariant every stored row decodes *)
Lemma rows_dec_exists d e rows :
  Inv d -> In e (d_tabs d) -> load_rows (d_cont d) (snd e) = Ok rows -> Forall (row_ok (snd e)) rows ->
  exists vals, Forall2 (dec (d_pool d)) rows vals.
Proof.
  intros (Hwf & Hnd & Htab & Hacc) He Hload Hok.
  assert (Hro : rows_of (d_cont d) (snd e) = rows) by (unfold rows_of; rewrite Hload; reflexivity).
  assert (Hlive : forall row r, In row rows -> In (RStr r) row -> 0 < refcount (d_pool d) r).
  { intros row r Hrow Hr.
    assert (H0 : 0 < r).
    { rewrite Forall_forall in Hok. specialize (Hok _ Hrow). unfold row_ok in Hok.
      clear - Hok Hr. induction Hok as [|c x cols row' Hc _ IH]; [destruct Hr|].
      destruct Hr as [->|Hr]; [apply cell_ok_max in Hc; tauto|auto]. }
    rewrite (Hacc r H0).
    pose proof (all_rows_in (d_cont d) (d_tabs d) e r He) as H1. rewrite Hro in H1.
    pose proof (occ_in r row rows Hrow) as H2. pose proof (occ_row_pos r row Hr) as H3. lia. }
  clear Hload Hro. induction Hok as [|row rows Hr _ IH].
  - exists []. constructor.
  - destruct IH as [vals Hv]; [intros row' r H1 H2; eapply Hlive; [right; exact H1|exact H2]|].
    destruct (row_dec_exists (d_pool d) (t_long (snd e)) _ _ Hr) as [vs Hvs].
    { intros r H. eapply Hlive; [left; reflexivity|exact H]. }
    exists (vs :: vals). constructor; assumption.
Qed.

(* ====================================================================== *)
(* incref: length of the pool                                              *)
(* ====================================================================== *)
Lemma upd_length {A} (l : list A) k e e' l' : upd l k e e' l' -> length l' = length l.
Proof. induction 1; cbn [length]; congruence. Qed.

Lemma nth_opt_some_lt {A} (l : list A) j x : nth_opt l j = Some x -> (j < length l)%nat.
Proof.
  intro H. destruct (Nat.lt_ge_cases j (length l)) as [Hlt|Hge]; [assumption|].
  rewrite (nth_opt_none l j Hge) in H. discriminate.
Qed.
Lemma live_le_len p r s : live p r s -> r <= nlen (p_strings p).
Proof.
  intros [Hr [rc [Hn _]]]. apply nth_opt_some_lt in Hn. unfold nlen. lia.
Qed.

Lemma incref_fits prof p s p' r :
  pool_wf p -> pool_fits p -> pool_incref prof p s = Ok (p', r) -> pool_fits p'.
Proof.
  intros Hwf Hf H. destruct p as [cp l long m].
  unfold pool_wf, pool_fits, pool_incref in *. cbn [p_strings p_cp p_long p_mod] in *.
  destruct (incref_scan prof l s 1) as [[[l' i]|]| |] eqn:Es; cbn [rbind] in H; try discriminate.
  - inversion H; subst; clear H. cbn [p_strings p_long].
    destruct (incref_scan_some _ _ _ _ _ _ Hwf Es) as [k [t [rc [Hi [Hu Hc]]]]].
    apply upd_length in Hu. unfold nlen in *. rewrite Hu. assumption.
  - destruct ((65535 <=? nlen l) && negb long) eqn:E1; [discriminate|].
    destruct (MAX_STRING_REF <=? nlen l) eqn:E2; [discriminate|].
    inversion H; subst; clear H. cbn [p_strings p_long].
    rewrite nlen_app. change (nlen [(s, 1)]) with 1.
    apply N.leb_gt in E2. destruct long; [lia|].
    rewrite andb_true_r in E1. apply N.leb_gt in E1. lia.
Qed.

(* ====================================================================== *)
(* vref_create / create_refs                                               *)
(* ====================================================================== *)
(* the value fits the cell type of the column (a consequence of is_valid_value and of value_ok) *)
Definition cell_fit (c : column) (v : value) : Prop :=
  match v with
  | VNull => True
  | VInt z => match c_type c with
              | Int16 => (-32768 < z <= 32767)%Z
              | Int32 => (-2147483648 < z <= 2147483647)%Z
              | Str _ => False
              end
  | VStr _ => match c_type c with Str _ => True | _ => False end
  end.
Definition newcell_ok (c : column) (v : value) : Prop :=
  cell_fit c v /\ value_storable v /\ v <> VStr [].

Lemma vref_create_spec prof p v p1 x col :
  pool_wf p -> pool_fits p -> newcell_ok col v ->
  vref_create prof p v = Ok (p1, x) ->
  pool_wf p1 /\ pool_fits p1 /\ p_long p1 = p_long p /\ pool_le p p1 /\
  cell_dec p1 x v /\ cell_ok (c_type col) (p_long p) x /\
  (forall r, 0 < r -> refcount p1 r = refcount p r + (if is_ref r x then 1 else 0)).
Proof.
  intros Hwf Hfit (Hcf & (Hvo & Hlen) & Hne) H.
  destruct v as [|z|s]; cbn [vref_create] in H.
  - inversion H; subst. do 4 (split; [auto using pool_le_refl|]). split; [reflexivity|]. split.
    + destruct (c_type col); exact I.
    + intros; cbn [is_ref]; lia.
  - inversion H; subst. do 4 (split; [auto using pool_le_refl|]). split; [reflexivity|]. split.
    + cbn [cell_fit] in Hcf. destruct (c_type col); cbn [cell_ok]; tauto.
    + intros; cbn [is_ref]; lia.
  - destruct s as [|ch s]; [congruence|].
    destruct (pool_incref prof p (ch :: s)) as [[p' r]| |] eqn:Ei; cbn [rbind] in H; try discriminate.
    inversion H; subst; clear H. cbn [value_ok] in Hvo.
    pose proof (incref_fits _ _ _ _ _ Hwf Hfit Ei) as Hfit'.
    destruct (incref_spec prof p (ch :: s) p1 r Hwf ltac:(discriminate) Hvo Hlen Ei)
      as (W & L & _ & Rr & Fr & Le & _ & Lg & _).
    pose proof (live_le_len _ _ _ L) as Hrl.
    assert (Hr0 : 0 < r) by (destruct L; assumption).
    assert (Hrange : r <= (if p_long p then MAX_STRING_REF else 65535)).
    { unfold pool_fits in Hfit'. rewrite Lg in Hfit'. lia. }
    do 4 (split; [assumption|]). split; [|split].
    + cbn [cell_dec]. exists (ch :: s). split; [reflexivity|]. split; [assumption|].
      destruct (p_long p); [assumption|unfold MAX_STRING_REF; lia].
    + cbn [cell_fit] in Hcf. destruct (c_type col); cbn [cell_ok]; tauto.
    + intros r' Hr'. cbn [is_ref]. destruct (r =? r') eqn:E.
      * apply N.eqb_eq in E. subst r'. exact Rr.
      * apply N.eqb_neq in E. rewrite Fr; [lia|congruence|left; lia].
Qed.

Lemma create_refs_spec prof : forall vals cols p p2 refs,
  pool_wf p -> pool_fits p -> Forall2 newcell_ok cols vals ->
  create_refs prof p vals = Ok (p2, refs) ->
  pool_wf p2 /\ pool_fits p2 /\ p_long p2 = p_long p /\ pool_le p p2 /\
  dec p2 refs vals /\ Forall2 (fun c x => cell_ok (c_type c) (p_long p) x) cols refs /\
  (forall r, 0 < r -> refcount p2 r = refcount p r + occ_row r refs).
Proof.
  induction vals as [|v vals IH]; intros cols p p2 refs Hwf Hfit HF H; cbn [create_refs] in H.
  - inversion H; subst. inversion HF; subst. do 4 (split; [auto using pool_le_refl|]).
    split; [constructor|]. split; [constructor|].
    intros. unfold occ_row. cbn [filter]. unfold nlen. cbn [length]. lia.
  - inversion HF as [|c ? cs ? Hc HF']; subst.
    destruct (vref_create prof p v) as [[p1 x]| |] eqn:Ev; cbn [rbind] in H; try discriminate.
    destruct (create_refs prof p1 vals) as [[p2' xs]| |] eqn:Ec; cbn [rbind] in H; try discriminate.
    inversion H; subst; clear H.
    destruct (vref_create_spec _ _ _ _ _ _ Hwf Hfit Hc Ev) as (W1 & F1 & L1 & Le1 & D1 & O1 & R1).
    destruct (IH _ _ _ _ W1 F1 HF' Ec) as (W2 & F2 & L2 & Le2 & D2 & O2 & R2).
    split; [assumption|]. split; [assumption|]. split; [|split; [|split; [|split]]].
    + congruence.
    + eapply pool_le_trans; eassumption.
    + constructor; [eapply cell_dec_le; eassumption|assumption].
    + constructor; [assumption|]. rewrite <- L1. assumption.
    + intros r Hr. rewrite occ_row_cons, (R2 r Hr), (R1 r Hr). lia.
Qed.

(* ====================================================================== *)
(* the keyed map together with the decoded rows                            *)
(* ====================================================================== *)
Definition krel (t : table) (p : pool) (kr : list value * list vref) (v : list value) : Prop :=
  dec p (snd kr) v /\ fst kr = key_of t v /\ row_ok t (snd kr).

Lemma krel_le t p p' kr v : pool_le p p' -> krel t p kr v -> krel t p' kr v.
Proof. intros Hle (H1 & H2 & H3). split; [eapply dec_le; eassumption|auto]. Qed.
Lemma krel_le_all t p p' m vs : pool_le p p' -> Forall2 (krel t p) m vs -> Forall2 (krel t p') m vs.
Proof. intros Hle H. induction H; constructor; eauto using krel_le. Qed.

Lemma keyed_insert_F2 {B} (R : list value * list vref -> B -> Prop) : forall m vs k row v,
  Forall2 R m vs -> R (k, row) v -> ~ In k (map fst m) ->
  exists vs', Forall2 R (keyed_insert m k row) vs' /\ Permutation vs' (v :: vs).
Proof.
  induction 1 as [|[k' r'] v' m vs Hh Ht IH]; intros HR Hn; cbn [keyed_insert].
  - exists [v]. split; [constructor; [assumption|constructor]|reflexivity].
  - cbn [map fst In] in Hn. destruct (key_cmp k k') eqn:E.
    + apply key_cmp_eq in E. subst. tauto.
    + exists (v :: v' :: vs). split; [|reflexivity]. constructor; [assumption|]. constructor; assumption.
    + destruct (IH HR ltac:(tauto)) as [vs' [H1 H2]].
      exists (v' :: vs'). split; [constructor; assumption|].
      rewrite H2. apply perm_swap.
Qed.

Lemma select_nth_project {A} (r : list A) : forall idx k, select_nth r idx = Ok k ->
  k = flat_map (fun i => match nth_opt r i with Some v => [v] | None => [] end) idx.
Proof.
  induction idx as [|i idx IH]; intros k H; cbn [select_nth] in H.
  - inversion H. reflexivity.
  - destruct (nth_opt r i) as [x|] eqn:En; cbn [unwrap rbind] in H; try discriminate.
    destruct (select_nth r idx) as [xs| |]; cbn [rbind] in H; try discriminate.
    inversion H; subst. cbn [flat_map]. rewrite En. cbn [app]. f_equal. apply IH. reflexivity.
Qed.

Lemma load_keyed_acc prof t p : forall rows vals m0 vs0 m,
  Forall2 (dec p) rows vals -> Forall (row_ok t) rows ->
  Forall2 (krel t p) m0 vs0 ->
  load_keyed prof p (pk_indices t) rows m0 = Ok m ->
  exists vs, Forall2 (krel t p) m vs /\ Permutation vs (vs0 ++ vals).
Proof.
  induction rows as [|r rows IH]; intros vals m0 vs0 m Hd Hok Hm H; cbn [load_keyed] in H.
  - inversion H; subst. inversion Hd; subst. exists vs0. rewrite app_nil_r. split; [assumption|reflexivity].
  - inversion Hd as [|? v ? vals' Hr Hd']; subst. inversion Hok as [|? ? Hrok Hok']; subst.
    destruct (select_nth r (pk_indices t)) as [kr| |] eqn:Es; cbn [rbind] in H; try discriminate.
    pose proof (dec_values prof _ _ _ Hr) as Hv.
    rewrite (select_nth_values _ _ _ _ Hv _ _ Es) in H. cbn [rbind] in H.
    destruct (keyed_mem m0 (project (pk_indices t) v)) eqn:Em; try discriminate.
    destruct (keyed_insert_F2 (krel t p) m0 vs0 (project (pk_indices t) v) r v Hm) as [vs1 [F1 P1]].
    { split; [exact Hr|]. split; [reflexivity|exact Hrok]. }
    { apply not_mem_not_in. exact Em. }
    destruct (IH _ _ _ _ Hd' Hok' F1 H) as [vs [F P]].
    exists vs. split; [assumption|]. rewrite P, P1. cbn [app]. apply Permutation_middle.
Qed.

(* a new row: normalised, of the table's arity, every cell fitting its column *)
Definition newrow_ok (t : table) (r : list value) : Prop := Forall2 newcell_ok (t_cols t) r.

Lemma insert_new_acc prof t m0 : forall rows seen p m2 vs2 p' m',
  (forall k, In k (map fst m2) -> In k (map fst m0) \/ In k seen) ->
  check_new_keys (pk_indices t) m0 seen rows = Ok tt ->
  insert_new prof p (pk_indices t) m2 rows = Ok (p', m') ->
  pool_wf p -> pool_fits p -> p_long p = t_long t ->
  Forall2 (krel t p) m2 vs2 -> Forall (newrow_ok t) rows ->
  pool_wf p' /\ pool_fits p' /\ p_long p' = p_long p /\ pool_le p p' /\
  (exists vs', Forall2 (krel t p') m' vs' /\ Permutation vs' (vs2 ++ rows)) /\
  (forall r, 0 < r -> refcount p' r + occ r (map snd m2) = refcount p r + occ r (map snd m')).
Proof.
  induction rows as [|row rows IH]; intros seen p m2 vs2 p' m' Hinv Hc Hi Hwf Hfit Hlong Hm Hrows;
    cbn [check_new_keys insert_new] in Hc, Hi.
  - inversion Hi; subst. do 3 (split; [auto|]). split; [apply pool_le_refl|]. split; [|auto].
    exists vs2. rewrite app_nil_r. split; [assumption|reflexivity].
  - inversion Hrows as [|? ? Hrow Hrows']; subst.
    destruct (select_nth row (pk_indices t)) as [k| |] eqn:Es; cbn [rbind] in Hc, Hi; try discriminate.
    destruct (create_refs prof p row) as [[p1 refs]| |] eqn:Ecr; cbn [rbind] in Hi; try discriminate.
    destruct (keyed_mem m0 k) eqn:Em; try discriminate.
    destruct (existsb (key_eqb k) seen) eqn:Ese; try discriminate.
    assert (Hn : ~ In k (map fst m2)).
    { intro Hin. apply Hinv in Hin as [Hin|Hin].
      - apply keyed_mem_iff in Hin. congruence.
      - assert (existsb (key_eqb k) seen = true); [|congruence].
        apply existsb_exists. exists k. split; [assumption | apply key_eqb_spec; reflexivity]. }
    destruct (create_refs_spec prof _ _ _ _ _ Hwf Hfit Hrow Ecr) as (W1 & F1 & L1 & Le1 & D1 & O1 & R1).
    assert (Hk : k = key_of t row) by (apply select_nth_project in Es; exact Es).
    destruct (keyed_insert_F2 (krel t p1) m2 vs2 k refs row (krel_le_all _ _ _ _ _ Le1 Hm)) as [vs1 [Fm1 P1]].
    { split; [exact D1|]. split; [exact Hk|]. unfold row_ok. rewrite <- Hlong. exact O1. }
    { exact Hn. }
    pose proof (keyed_insert_perm' m2 k refs Hn) as Hp.
    destruct (IH (k :: seen) p1 (keyed_insert m2 k refs) vs1 p' m') as (W2 & F2 & L2 & Le2 & [vs' [Fm2 P2]] & R2);
      try assumption.
    + intros k0 Hk0. apply (Permutation_in _ (Permutation_map fst Hp)) in Hk0. cbn [map fst In] in Hk0.
      destruct Hk0 as [<-|Hk0]; [right; left; reflexivity|].
      destruct (Hinv _ Hk0); [left | right; right]; assumption.
    + congruence.
    + split; [assumption|]. split; [assumption|]. split; [congruence|].
      split; [eapply pool_le_trans; eassumption|]. split.
      * exists vs'. split; [assumption|]. rewrite P2, P1. cbn [app]. apply Permutation_middle.
      * intros r Hr. specialize (R2 r Hr). specialize (R1 r Hr).
        rewrite (occ_perm r _ _ (Permutation_map snd Hp)) in R2. cbn [map snd] in R2.
        rewrite occ_cons in R2. lia.
Qed.

(* ====================================================================== *)
(* what validate_new_rows establishes                                      *)
(* ====================================================================== *)
Lemma all_valid_F2 : forall cols r, length r = length cols -> all_valid cols r = Ok true ->
  Forall2 (fun c v => is_valid_value c v = Ok true) cols r.
Proof.
  induction cols as [|c cols IH]; intros [|v r] Hl H; cbn [length] in Hl; try discriminate; [constructor|].
  cbn [all_valid] in H. destruct (is_valid_value c v) as [b| |] eqn:E; cbn [rbind] in H; try discriminate.
  destruct b; [|discriminate]. constructor; [assumption|]. apply IH; [lia|assumption].
Qed.

Lemma validate_new_rows_ok t : forall rows, validate_new_rows t rows = Ok tt ->
  Forall (fun r => Forall2 (fun c v => is_valid_value c v = Ok true) (t_cols t) r) rows.
Proof.
  induction rows as [|r rows IH]; intro H; [constructor|]. cbn [validate_new_rows] in H.
  destruct (Nat.eqb (length r) (length (t_cols t))) eqn:El; cbn [negb] in H; [|discriminate].
  apply Nat.eqb_eq in El.
  destruct (all_valid (t_cols t) r) as [b| |] eqn:Ea; cbn [rbind] in H; try discriminate.
  destruct b; [|discriminate]. constructor; [apply all_valid_F2; assumption|auto].
Qed.

Lemma valid_newcell c v : is_valid_value c v = Ok true -> value_storable v -> newcell_ok c (normalize_value v).
Proof.
  intros Hv [Hok Hlen]. destruct v as [|z|s]; cbn [normalize_value].
  - split; [exact I|]. split; [split; [reflexivity|exact I]|discriminate].
  - split; [|split; [split; [assumption|exact I]|discriminate]].
    cbn [cell_fit]. cbn [is_valid_value] in Hv. cbn [value_ok] in Hok. unfold in_i32, i32_min, i32_max in Hok.
    destruct (match c_range c with Some (lo, hi) => (z <? lo)%Z || (hi <? z)%Z | None => false end); [discriminate|].
    destruct (c_type c); inversion Hv; lia.
  - destruct s as [|ch s].
    + split; [exact I|]. split; [split; [reflexivity|exact I]|discriminate].
    + split; [|split; [split; assumption|discriminate]].
      cbn [cell_fit]. cbn [is_valid_value] in Hv. destruct (c_type c); try discriminate. exact I.
Qed.

Lemma valid_cell_valid c v : is_valid_value c v = Ok true -> cell_valid c (normalize_value v).
Proof.
  intro H. destruct v as [|z|[|ch s]]; cbn [normalize_value]; try (left; assumption).
  right. split; [reflexivity|assumption].
Qed.

Lemma new_rows_ok t rows :
  validate_new_rows t rows = Ok tt -> Forall (Forall value_storable) rows ->
  Forall (newrow_ok t) (map (map normalize_value) rows) /\ rows_valid t (map (map normalize_value) rows).
Proof.
  intros Hv Hst. apply validate_new_rows_ok in Hv.
  induction Hv as [|r rows Hr _ IH]; [split; constructor|].
  inversion Hst as [|? ? Hs Hst']; subst. destruct (IH Hst') as [IH1 IH2].
  cbn [map]. split; (constructor; [|assumption]).
  - unfold newrow_ok. clear - Hr Hs. induction Hr as [|c v cols r Hc _ IHr]; cbn [map]; constructor.
    + inversion Hs; subst. apply valid_newcell; assumption.
    + inversion Hs; subst. apply IHr. assumption.
  - clear - Hr. induction Hr; cbn [map]; constructor; auto using valid_cell_valid.
Qed.

(* ====================================================================== *)
(* small list facts                                                        *)
(* ====================================================================== *)
Lemma krel_dec t p m vs : Forall2 (krel t p) m vs -> Forall2 (dec p) (map snd m) vs.
Proof. induction 1 as [|kr v m vs (H1 & _ & _) _ IH]; cbn [map]; constructor; assumption. Qed.
Lemma krel_row_ok t p m vs : Forall2 (krel t p) m vs -> Forall (row_ok t) (map snd m).
Proof. induction 1 as [|kr v m vs (_ & _ & H3) _ IH]; cbn [map]; constructor; assumption. Qed.
Lemma krel_keys t p m vs : Forall2 (krel t p) m vs -> map (key_of t) vs = map fst m.
Proof. induction 1 as [|kr v m vs (_ & H2 & _) _ IH]; cbn [map]; [reflexivity|]. rewrite IH, H2. reflexivity. Qed.

Lemma keyed_sorted_keys m : keyed_sorted m -> StronglySorted key_lt (map fst m).
Proof.
  unfold keyed_sorted. induction 1 as [|a m Hs IH Hf]; cbn [map]; constructor; [assumption|].
  clear - Hf. induction Hf; cbn [map]; constructor; assumption.
Qed.

(* ====================================================================== *)
(* INSERT refines the relational model and keeps the invariant             *)
(* ====================================================================== *)
Theorem insert_refines : forall prof d tn t rows c' p',
  Inv' d -> Forall (Forall value_storable) rows ->
  In (tn, t) (d_tabs d) -> find_table (d_tabs d) tn = Some t ->
  exec_insert prof (d_cont d) (d_pool d) (d_tabs d) tn rows = Ok (c', p') ->
  let d' := mkdb c' p' (d_tabs d) in
  Inv' d' /\
  (exists old new, tvals prof d t = Ok old /\ tvals prof d' t = Ok new /\
     Permutation new (old ++ map (map normalize_value) rows) /\
     sorted_by_key t new /\
     (rows_valid t old -> rows_valid t new)) /\
  (forall n' t', In (n', t') (d_tabs d) -> n' <> tn -> tvals prof d' t' = tvals prof d t') /\
  (forall s, name_eqb s (stream_name_of t) = false -> ct_find (ct_entries c') s = ct_find (ct_entries (d_cont d)) s) /\
  ct_clsid c' = ct_clsid (d_cont d).
Proof.
  intros prof d tn t rows c' p' [HInv Hfit] Hst Hin Hfind H d'.
  pose proof HInv as (Hwf & Hnd & Htab & Hacc).
  destruct d as [c p ts]. cbn [d_cont d_pool d_tabs] in *.
  change (fun e : str * table => name_key (stream_name_of (snd e))) with skey in Hnd.
  (* the target table *)
  pose proof (proj1 (Forall_forall _ _) Htab _ Hin) as (Hname & Hcols & Hlong & old_r & Hload & Hok).
  cbn [fst snd] in Hname, Hcols, Hlong, Hload, Hok.
  destruct (rows_dec_exists (mkdb c p ts) (tn, t) old_r HInv Hin Hload Hok) as [oldv Hdec].
  cbn [d_pool] in Hdec.
  (* run the statement *)
  unfold exec_insert in H. rewrite Hfind in H. cbn [of_opt rbind] in H.
  destruct (validate_new_rows t rows) as [[]| |] eqn:Ev; cbn [rbind] in H; try discriminate.
  rewrite Hload in H. cbn [rbind] in H.
  destruct (load_keyed prof p (pk_indices t) old_r []) as [m| |] eqn:Ek; cbn [rbind] in H; try discriminate.
  destruct (check_new_keys (pk_indices t) m [] (map (map normalize_value) rows)) as [[]| |] eqn:Ec;
    cbn [rbind] in H; try discriminate.
  unfold MAX_ROWS_INSERT in H.
  destruct (65536 <? nlen m + nlen (map (map normalize_value) rows)) eqn:Eb; cbn [rbind] in H; try discriminate.
  destruct (insert_new prof p (pk_indices t) m (map (map normalize_value) rows)) as [[p1 m']| |] eqn:Ei;
    cbn [rbind] in H; try discriminate.
  destruct (store_rows prof c t (map snd m')) as [c1| |] eqn:Es; cbn [rbind] in H; try discriminate.
  inversion H; subst c1 p1. clear H.
  set (nrows := map (map normalize_value) rows) in *.
  destruct (new_rows_ok t rows Ev Hst) as [Hnew Hnewvalid]. fold nrows in Hnew, Hnewvalid.
  (* the old rows, keyed *)
  destruct (load_keyed_spec _ _ _ _ _ _ keyed_sorted_nil Ek) as [Hms Hmperm]. cbn [map app] in Hmperm.
  destruct (load_keyed_acc prof t p old_r oldv [] [] m Hdec Hok (Forall2_nil _) Ek) as [vsm [Fm Pm]].
  cbn [app] in Pm.
  (* the new rows *)
  destruct (insert_new_spec _ _ _ _ _ _ _ Hms Ec Ei) as (Hms' & Hlen' & _).
  destruct (insert_new_acc prof t m nrows [] p m vsm p' m') as (W' & F' & L' & Le' & [new [Fm' P']] & R');
    try assumption; [intros k Hk; left; exact Hk|congruence|].
  assert (Hrok' : Forall (row_ok t) (map snd m')) by (eapply krel_row_ok; eassumption).
  assert (Hlim : nlen (map snd m') <= MAX_ROWS_READ).
  { rewrite nlen_map, Hlen'. apply N.ltb_ge in Eb. unfold MAX_ROWS_READ. lia. }
  destruct (rows_roundtrip prof t (map snd m') Hcols Hrok' Hlim) as [bs [Hw [_ Hrd]]].
  unfold store_rows in Es. rewrite Hw in Es. cbn [rbind] in Es. inversion Es; subst c'. clear Es.
  (* how the streams read back *)
  assert (HA : load_rows (ct_write c (stream_name_of t) bs) t = Ok (map snd m')).
  { rewrite load_rows_write_same by apply name_eqb_refl. exact Hrd. }
  assert (HB : forall e, skey e <> name_key (stream_name_of t) ->
                 load_rows (ct_write c (stream_name_of t) bs) (snd e) = load_rows c (snd e)).
  { intros e He. apply load_rows_write_other. apply name_eqb_false. exact He. }
  assert (HC : forall e, In e ts -> skey e = name_key (stream_name_of t) -> e = (tn, t)).
  { intros e He E. eapply (NoDup_map_inj skey); eauto. }
  assert (Hlong' : p_long p' = p_long p) by exact L'.
  split; [split|split; [|split; [|split]]].
  - (* Inv d' *)
    unfold d', Inv. cbn [d_cont d_pool d_tabs]. split; [exact W'|]. split; [exact Hnd|]. split.
    + apply Forall_forall. intros e He.
      pose proof (proj1 (Forall_forall _ _) Htab _ He) as (En & Ecols & Elong & erows & Eload & Eok).
      unfold table_ok. split; [exact En|]. split; [exact Ecols|]. split; [congruence|].
      destruct (name_eqb (stream_name_of (snd e)) (stream_name_of t)) eqn:Ee.
      * apply name_eqb_key in Ee. rewrite (HC e He Ee). cbn [snd]. exists (map snd m'). auto.
      * apply name_eqb_false in Ee. exists erows. rewrite (HB e Ee). auto.
    + intros r Hr.
      assert (Hrep : occ r (all_rows (ct_write c (stream_name_of t) bs) ts) + occ r (rows_of c t) =
                     occ r (all_rows c ts) + occ r (rows_of (ct_write c (stream_name_of t) bs) t)).
      { apply (all_rows_replace c (ct_write c (stream_name_of t) bs) tn t ts r Hnd Hin).
        intros e He Hne. unfold rows_of. rewrite (HB e Hne). reflexivity. }
      unfold rows_of in Hrep. rewrite HA, Hload in Hrep.
      specialize (R' r Hr). rewrite (occ_perm r _ _ Hmperm) in R'. rewrite (Hacc r Hr) in R'.
      lia.
  - exact F'.
  - (* the table as values *)
    exists oldv, new. unfold tvals, d'. cbn [d_cont d_pool].
    split; [rewrite Hload; cbn [rbind]; apply dec_rows_values; exact Hdec|].
    split; [rewrite HA; cbn [rbind]; apply dec_rows_values; eapply krel_dec; exact Fm'|].
    assert (Pn : Permutation new (oldv ++ nrows)).
    { rewrite P'. apply Permutation_app_tail. exact Pm. }
    split; [exact Pn|]. split.
    + unfold sorted_by_key. rewrite (krel_keys _ _ _ _ Fm'). apply keyed_sorted_keys. exact Hms'.
    + intros Hov. unfold rows_valid in *. eapply Permutation_Forall; [apply Permutation_sym; exact Pn|].
      apply Forall_app. split; assumption.
  - (* frame: the other tables *)
    intros n' t' Hin' Hne.
    assert (Hk : skey (n', t') <> name_key (stream_name_of t)).
    { intro E. apply HC in E; [|assumption]. congruence. }
    pose proof (proj1 (Forall_forall _ _) Htab _ Hin') as (En & Ecols & Elong & erows & Eload & Eok).
    cbn [fst snd] in *.
    destruct (rows_dec_exists (mkdb c p ts) (n', t') erows HInv Hin' Eload Eok) as [evals Edec].
    cbn [d_pool] in Edec.
    pose proof (HB (n', t') Hk) as HB'. cbn [snd] in HB'.
    unfold tvals, d'. cbn [d_cont d_pool]. rewrite HB', Eload. cbn [rbind].
    rewrite (dec_rows_values prof p _ _ Edec).
    apply dec_rows_values. clear - Edec Le'. induction Edec; constructor; eauto using dec_le.
  - intros s Hs. cbn [ct_write ct_entries]. apply ct_find_put_other. exact Hs.
  - reflexivity.
Qed.


(* ====================================================================== *)
(* acceptance: INSERT succeeds on a state satisfying the invariant          *)
(* ====================================================================== *)
(* the part of the pool invariant incref needs in order not to panic *)
Definition wf0e (e : str * N) : Prop := snd e = 0 -> fst e = [].
Definition wf0 (p : pool) : Prop := Forall wf0e (p_strings p).

Lemma pool_wf_wf0 p : pool_wf p -> wf0 p.
Proof.
  unfold pool_wf, wf0. apply Forall_impl. intros e (_ & H & _) E. apply H. exact E.
Qed.

Lemma incref_scan_shape prof s : s <> [] -> forall l idx, Forall wf0e l ->
  incref_scan prof l s idx = Ok None \/
  exists l' i, incref_scan prof l s idx = Ok (Some (l', i)) /\ Forall wf0e l' /\ length l' = length l /\
               idx <= i /\ i < idx + nlen l.
Proof.
  intros Hs. induction l as [|[t rc] l IH]; intros idx Hwf; cbn [incref_scan]; [left; reflexivity|].
  inversion Hwf as [|? ? Hw Hwf']; subst.
  destruct (rc =? 0) eqn:E0.
  - right. apply N.eqb_eq in E0. subst rc. assert (t = []) by (apply Hw; reflexivity). subst t.
    exists ((s, 1) :: l), idx. split; [destruct prof; reflexivity|].
    split; [constructor; [intro E; cbn [snd] in E; lia|assumption]|].
    split; [reflexivity|]. rewrite nlen_cons. lia.
  - destruct (str_eqb t s && (rc <? 65535)).
    + right. exists ((t, rc + 1) :: l), idx. split; [reflexivity|].
      split; [constructor; [intro E; cbn [snd] in E; lia|assumption]|].
      split; [reflexivity|]. rewrite nlen_cons. lia.
    + destruct (IH (idx + 1) Hwf') as [E|(l' & i & E & W & L & I1 & I2)]; rewrite E; cbn [rbind].
      * left. reflexivity.
      * right. exists ((t, rc) :: l'), i. split; [reflexivity|].
        split; [constructor; assumption|]. split; [cbn [length]; congruence|]. rewrite nlen_cons. lia.
Qed.

Lemma incref_total0 prof p s : wf0 p -> s <> [] -> nlen (p_strings p) < 65535 ->
  exists p' r, pool_incref prof p s = Ok (p', r) /\ wf0 p' /\
    nlen (p_strings p') <= nlen (p_strings p) + 1 /\ 0 < r /\ r <= nlen (p_strings p').
Proof.
  intros Hwf Hs Hn. destruct p as [cp l long m]. unfold wf0, pool_incref in *. cbn [p_strings p_cp p_long] in *.
  destruct (incref_scan_shape prof s Hs l 1 Hwf) as [E|(l' & i & E & W & L & I1 & I2)]; rewrite E; cbn [rbind].
  - assert (E1 : (65535 <=? nlen l) = false) by (apply N.leb_gt; assumption).
    assert (E2 : (MAX_STRING_REF <=? nlen l) = false) by (apply N.leb_gt; unfold MAX_STRING_REF; lia).
    rewrite E1, E2. cbn [andb]. eexists; eexists. split; [reflexivity|]. cbn [p_strings].
    split; [apply Forall_app; split; [assumption|constructor; [intro X; cbn [snd] in X; lia|constructor]]|].
    rewrite nlen_app. change (nlen [(s, 1)]) with 1. lia.
  - eexists; eexists. split; [reflexivity|]. cbn [p_strings]. split; [assumption|].
    unfold nlen in *. rewrite L. lia.
Qed.

(* type compatibility of a value with a column, and writability of a cell *)
Definition cell_ty (c : column) (v : value) : Prop :=
  match v with
  | VNull => True
  | VInt _ => match c_type c with Str _ => False | _ => True end
  | VStr _ => match c_type c with Str _ => True | _ => False end
  end.
Definition cell_wr (long : bool) (c : column) (x : vref) : Prop :=
  match x with
  | RNull => True
  | RInt _ => match c_type c with Str _ => False | _ => True end
  | RStr r => match c_type c with Str _ => 0 < r /\ r <= (if long then MAX_STRING_REF else 65535) | _ => False end
  end.

Lemma cell_ok_wr long c x : cell_ok (c_type c) long x -> cell_wr long c x.
Proof. destruct x; cbn [cell_wr]; destruct (c_type c); cbn [cell_ok]; tauto. Qed.

Lemma write_cell_wr prof long c x : cell_wr long c x -> exists b, write_cell prof (c_type c) long x = Ok b.
Proof.
  destruct x as [|z|r]; cbn [cell_wr]; destruct (c_type c); cbn [write_cell]; intro H;
    try contradiction; try (eexists; reflexivity).
  - rewrite write_ref_none. eexists; reflexivity.
  - destruct H as [H0 H1]. rewrite write_ref_some by assumption. eexists; reflexivity.
Qed.

Lemma vref_create_total prof long p v c :
  wf0 p -> cell_ty c v -> nlen (p_strings p) < 65535 ->
  exists p1 x, vref_create prof p v = Ok (p1, x) /\ wf0 p1 /\
    nlen (p_strings p1) <= nlen (p_strings p) + 1 /\ cell_wr long c x.
Proof.
  intros Hwf Hty Hn. destruct v as [|z|[|ch s]]; cbn [vref_create].
  - exists p, RNull. split; [reflexivity|]. split; [assumption|]. split; [lia|exact I].
  - exists p, (RInt z). split; [reflexivity|]. split; [assumption|]. split; [lia|exact Hty].
  - exists p, RNull. split; [reflexivity|]. split; [assumption|]. split; [lia|exact I].
  - destruct (incref_total0 prof p (ch :: s) Hwf ltac:(discriminate) Hn) as (p' & r & E & W & L & R0 & R1).
    rewrite E. cbn [rbind]. exists p', (RStr r). split; [reflexivity|]. split; [assumption|]. split; [assumption|].
    cbn [cell_ty] in Hty. cbn [cell_wr]. destruct (c_type c); try contradiction.
    split; [assumption|]. destruct long; unfold MAX_STRING_REF; lia.
Qed.

Lemma create_refs_total prof long : forall vals cols p,
  wf0 p -> Forall2 cell_ty cols vals -> nlen (p_strings p) + nlen vals < 65535 ->
  exists p2 refs, create_refs prof p vals = Ok (p2, refs) /\ wf0 p2 /\
    nlen (p_strings p2) <= nlen (p_strings p) + nlen vals /\ Forall2 (cell_wr long) cols refs.
Proof.
  induction vals as [|v vals IH]; intros cols p Hwf HF Hn; cbn [create_refs].
  - inversion HF; subst. exists p, []. split; [reflexivity|]. split; [assumption|]. split; [lia|constructor].
  - inversion HF as [|c ? cs ? Hc HF']; subst. rewrite nlen_cons in Hn.
    destruct (vref_create_total prof long p v c Hwf Hc ltac:(lia)) as (p1 & x & E1 & W1 & L1 & X1).
    rewrite E1. cbn [rbind].
    destruct (IH cs p1 W1 HF' ltac:(lia)) as (p2 & xs & E2 & W2 & L2 & X2).
    rewrite E2. cbn [rbind]. exists p2, (x :: xs). split; [reflexivity|]. split; [assumption|].
    split; [rewrite nlen_cons; lia|constructor; assumption].
Qed.

Lemma nth_opt_lt {A} (l : list A) : forall i, (i < length l)%nat -> exists x, nth_opt l i = Some x.
Proof.
  induction l as [|a l IH]; intros i Hi; cbn [length] in Hi; [lia|].
  destruct i; cbn [nth_opt]; [eauto|]. apply IH. lia.
Qed.
Lemma select_nth_total {A} (r : list A) : forall idx, Forall (fun i => (i < length r)%nat) idx ->
  exists k, select_nth r idx = Ok k.
Proof.
  induction 1 as [|i idx Hi _ [k IH]]; cbn [select_nth]; [eauto|].
  destruct (nth_opt_lt r i Hi) as [x ->]. cbn [unwrap rbind]. rewrite IH. cbn [rbind]. eauto.
Qed.
Lemma pk_indices_from_lt : forall cols i0,
  Forall (fun i => (i < i0 + length cols)%nat) (pk_indices_from cols i0).
Proof.
  induction cols as [|c cols IH]; intros i0; cbn [pk_indices_from]; [constructor|].
  specialize (IH (S i0)). cbn [length].
  assert (IH' : Forall (fun i => (i < i0 + S (length cols))%nat) (pk_indices_from cols (S i0))).
  { eapply Forall_impl; [|exact IH]. cbv beta. intros; lia. }
  destruct (c_pk c); [constructor; [lia|]|]; exact IH'.
Qed.
Lemma select_key_total {A} t (r : list A) : length r = length (t_cols t) ->
  exists k, select_nth r (pk_indices t) = Ok k.
Proof.
  intro Hl. apply select_nth_total. unfold pk_indices. rewrite Hl.
  exact (pk_indices_from_lt (t_cols t) 0).
Qed.

Lemma F2_length {A B} (R : A -> B -> Prop) l l' : Forall2 R l l' -> length l = length l'.
Proof. induction 1; cbn [length]; congruence. Qed.

Definition row_wr (t : table) (row : list vref) : Prop := Forall2 (cell_wr (t_long t)) (t_cols t) row.

Lemma insert_new_total prof t : forall rows p m2,
  wf0 p -> Forall (fun r => Forall2 cell_ty (t_cols t) r) rows ->
  nlen (p_strings p) + nlen (concat rows) < 65535 ->
  Forall (fun kr => row_wr t (snd kr)) m2 ->
  exists p' m', insert_new prof p (pk_indices t) m2 rows = Ok (p', m') /\ Forall (fun kr => row_wr t (snd kr)) m'.
Proof.
  induction rows as [|row rows IH]; intros p m2 Hwf HF Hn Hm; cbn [insert_new].
  - exists p, m2. auto.
  - inversion HF as [|? ? Hrow HF']; subst. cbn [concat] in Hn. rewrite nlen_app in Hn.
    destruct (select_key_total t row) as [k Ek]; [symmetry; eapply F2_length; exact Hrow|].
    rewrite Ek. cbn [rbind].
    destruct (create_refs_total prof (t_long t) row (t_cols t) p Hwf Hrow ltac:(lia)) as (p1 & refs & E & W & L & X).
    rewrite E. cbn [rbind]. apply IH; try assumption; [lia|].
    apply Forall_forall. intros x Hx. apply keyed_insert_in in Hx as [->|Hx]; [exact X|].
    rewrite Forall_forall in Hm. auto.
Qed.

(* writing rows of writable cells succeeds *)
Lemma write_column_total prof c long : forall rows,
  Forall (fun r => match r with x :: _ => cell_wr long c x | [] => False end) rows ->
  exists b, write_column prof (c_type c) long 0 rows = Ok b.
Proof.
  induction 1 as [|r rows Hr _ [bs IH]]; cbn [write_column]; [eauto|].
  destruct r as [|x r]; [contradiction|]. cbn [nth_opt unwrap rbind].
  destruct (write_cell_wr prof long c x Hr) as [b ->]. cbn [rbind]. rewrite IH. cbn [rbind]. eauto.
Qed.
Lemma write_columns_total prof long : forall cols rows,
  Forall (fun r => Forall2 (cell_wr long) cols r) rows ->
  exists bs, write_columns prof cols long 0 rows = Ok bs.
Proof.
  induction cols as [|c cs IH]; intros rows F; cbn [write_columns]; [eauto|].
  assert (F1 : Forall (fun r => match r with x :: _ => cell_wr long c x | [] => False end) rows).
  { eapply Forall_impl; [|exact F]. intros r H. inversion H; subst. assumption. }
  assert (F2 : Forall (fun r => Forall2 (cell_wr long) cs r) (map (@tl vref) rows)).
  { clear - F. induction F as [|r rs H _ IHF]; cbn [map]; constructor; [|exact IHF].
    inversion H; subst. assumption. }
  destruct (write_column_total prof c long rows F1) as [b ->]. cbn [rbind].
  rewrite write_columns_S. destruct (IH _ F2) as [bs ->]. cbn [rbind]. eauto.
Qed.

Lemma load_keyed_total prof t p : forall rows vals m0 vs0,
  Forall2 (dec p) rows vals -> Forall (row_ok t) rows -> Forall2 (krel t p) m0 vs0 ->
  NoDup (map (key_of t) (vs0 ++ vals)) ->
  exists m, load_keyed prof p (pk_indices t) rows m0 = Ok m.
Proof.
  induction rows as [|r rows IH]; intros vals m0 vs0 Hd Hok Hm Hnd; cbn [load_keyed]; [eauto|].
  inversion Hd as [|? v ? vals' Hr Hd']; subst. inversion Hok as [|? ? Hrok Hok']; subst.
  destruct (select_key_total t r) as [kr Es]; [symmetry; eapply F2_length; exact Hrok|].
  rewrite Es. cbn [rbind].
  pose proof (dec_values prof _ _ _ Hr) as Hv.
  rewrite (select_nth_values _ _ _ _ Hv _ _ Es). cbn [rbind].
  assert (Hn : ~ In (project (pk_indices t) v) (map fst m0)).
  { rewrite <- (krel_keys _ _ _ _ Hm). rewrite map_app in Hnd. cbn [map] in Hnd.
    apply NoDup_remove_2 in Hnd. intro Hin. apply Hnd. apply in_or_app. left. exact Hin. }
  replace (keyed_mem m0 (project (pk_indices t) v)) with false.
  2:{ symmetry. destruct (keyed_mem m0 (project (pk_indices t) v)) eqn:E; [|reflexivity].
      apply keyed_mem_iff in E. contradiction. }
  destruct (keyed_insert_F2 (krel t p) m0 vs0 (project (pk_indices t) v) r v Hm) as [vs1 [F1 P1]].
  { split; [exact Hr|]. split; [reflexivity|exact Hrok]. }
  { exact Hn. }
  apply (IH vals' _ vs1); try assumption.
  eapply Permutation_NoDup; [|exact Hnd]. apply Permutation_map.
  rewrite P1. cbn [app]. apply Permutation_sym, Permutation_middle.
Qed.

Lemma check_new_keys_total t m : forall rows seen,
  Forall (fun r => length r = length (t_cols t)) rows ->
  (forall k, In k (map (key_of t) rows) -> ~ In k (map fst m)) ->
  NoDup (map (key_of t) rows) ->
  (forall k, In k seen -> ~ In k (map (key_of t) rows)) ->
  check_new_keys (pk_indices t) m seen rows = Ok tt.
Proof.
  induction rows as [|row rows IH]; intros seen Hl Hm Hnd Hs; cbn [check_new_keys]; [reflexivity|].
  inversion Hl as [|? ? Hrow Hl']; subst. cbn [map] in *. inversion Hnd as [|? ? Hk Hnd']; subst.
  destruct (select_key_total t row Hrow) as [k Ek]. rewrite Ek. cbn [rbind].
  assert (Hkey : k = key_of t row) by (apply select_nth_project in Ek; exact Ek). subst k.
  replace (keyed_mem m (key_of t row)) with false.
  2:{ symmetry. destruct (keyed_mem m (key_of t row)) eqn:E; [|reflexivity].
      apply keyed_mem_iff in E. exfalso. apply (Hm (key_of t row)); [left; reflexivity|exact E]. }
  replace (existsb (key_eqb (key_of t row)) seen) with false.
  2:{ symmetry. destruct (existsb (key_eqb (key_of t row)) seen) eqn:E; [|reflexivity].
      apply existsb_exists in E as [k' [Hin E]]. apply key_eqb_spec in E. subst k'.
      exfalso. apply (Hs _ Hin). left. reflexivity. }
  apply IH; try assumption.
  - intros k Hin. apply Hm. right. exact Hin.
  - intros k [<-|Hin]; [exact Hk|]. intro Hin'. apply (Hs k Hin). right. exact Hin'.
Qed.

Lemma validate_new_rows_total t : forall rows,
  Forall (fun r => length r = length (t_cols t) /\ all_valid (t_cols t) r = Ok true) rows ->
  validate_new_rows t rows = Ok tt.
Proof.
  induction 1 as [|r rows [Hl Hv] _ IH]; cbn [validate_new_rows]; [reflexivity|].
  rewrite (proj2 (Nat.eqb_eq _ _) Hl). cbn [negb]. rewrite Hv. cbn [rbind]. exact IH.
Qed.

Lemma valid_cell_ty c v : is_valid_value c v = Ok true -> cell_ty c (normalize_value v).
Proof.
  destruct v as [|z|[|ch s]]; cbn [normalize_value cell_ty is_valid_value]; auto.
  - destruct (match c_range c with Some (lo, hi) => (z <? lo)%Z || (hi <? z)%Z | None => false end); [discriminate|].
    destruct (c_type c); try discriminate; auto.
  - destruct (c_type c); try discriminate; auto.
Qed.

Lemma NoDup_app_parts {A} (a b : list A) : NoDup (a ++ b) ->
  NoDup a /\ NoDup b /\ (forall x, In x a -> In x b -> False).
Proof.
  induction a as [|x a IH]; cbn [app]; intro H.
  - split; [constructor|]. split; [assumption|]. intros x [].
  - inversion H as [|? ? Hx H']; subst. destruct (IH H') as (Ha & Hb & Hd).
    split; [constructor; [intro Hin; apply Hx; apply in_or_app; left; exact Hin|exact Ha]|].
    split; [exact Hb|]. intros y [<-|Hy] Hyb; [apply Hx; apply in_or_app; right; exact Hyb|eauto].
Qed.

Theorem insert_accepts : forall prof d tn t rows old,
  Inv d -> In (tn, t) (d_tabs d) -> find_table (d_tabs d) tn = Some t ->
  tvals prof d t = Ok old -> sorted_by_key t old ->
  Forall (fun r => length r = length (t_cols t) /\ all_valid (t_cols t) r = Ok true) rows ->
  NoDup (map (key_of t) (old ++ map (map normalize_value) rows)) ->
  nlen old + nlen rows <= 65536 ->
  nlen (p_strings (d_pool d)) + nlen (concat rows) < 65535 ->
  exists c' p', exec_insert prof (d_cont d) (d_pool d) (d_tabs d) tn rows = Ok (c', p').
Proof.
  intros prof d tn t rows old HInv Hin Hfind Htv _ Hrows Hnd Hlim Hpool.
  pose proof HInv as (Hwf & _ & Htab & _).
  destruct d as [c p ts]. cbn [d_cont d_pool d_tabs] in *.
  pose proof (proj1 (Forall_forall _ _) Htab _ Hin) as (Hname & Hcols & Hlong & old_r & Hload & Hok).
  cbn [fst snd] in Hname, Hcols, Hlong, Hload, Hok.
  destruct (rows_dec_exists (mkdb c p ts) (tn, t) old_r HInv Hin Hload Hok) as [oldv Hdec].
  cbn [d_pool] in Hdec.
  unfold tvals in Htv. cbn [d_cont d_pool] in Htv. rewrite Hload in Htv. cbn [rbind] in Htv.
  rewrite (dec_rows_values prof p _ _ Hdec) in Htv. inversion Htv; subst oldv. clear Htv.
  set (nrows := map (map normalize_value) rows) in *.
  rewrite map_app in Hnd. destruct (NoDup_app_parts _ _ Hnd) as (Hnd1 & Hnd2 & Hdisj).
  unfold exec_insert. rewrite Hfind. cbn [of_opt rbind].
  rewrite (validate_new_rows_total t rows Hrows). cbn [rbind]. rewrite Hload. cbn [rbind]. fold nrows.
  destruct (load_keyed_total prof t p old_r old [] [] Hdec Hok (Forall2_nil _) Hnd1) as [m Ek].
  rewrite Ek. cbn [rbind].
  destruct (load_keyed_spec _ _ _ _ _ _ keyed_sorted_nil Ek) as [Hms Hmperm]. cbn [map app] in Hmperm.
  destruct (load_keyed_acc prof t p old_r old [] [] m Hdec Hok (Forall2_nil _) Ek) as [vsm [Fm Pm]].
  cbn [app] in Pm.
  assert (Hlens : Forall (fun r => length r = length (t_cols t)) nrows).
  { unfold nrows. clear - Hrows. induction Hrows as [|r rows [Hl _] _ IH]; cbn [map]; constructor; [|exact IH].
    rewrite map_length. exact Hl. }
  rewrite (check_new_keys_total t m nrows [] Hlens); [|..].
  2:{ intros k Hk Hkm. rewrite <- (krel_keys _ _ _ _ Fm) in Hkm.
      apply (Hdisj k); [|exact Hk]. eapply Permutation_in; [apply Permutation_map; exact Pm|exact Hkm]. }
  2:{ exact Hnd2. }
  2:{ intros k []. }
  cbn [rbind]. unfold MAX_ROWS_INSERT.
  assert (Hnm : nlen m = nlen old).
  { rewrite <- (nlen_map snd m), (nlen_perm _ _ Hmperm). unfold nlen. rewrite (F2_length _ _ _ Hdec). reflexivity. }
  replace (65536 <? nlen m + nlen nrows) with false.
  2:{ symmetry. apply N.ltb_ge. unfold nrows. rewrite nlen_map. lia. }
  cbn [rbind].
  assert (Hty : Forall (fun r => Forall2 cell_ty (t_cols t) r) nrows).
  { unfold nrows. clear - Hrows. induction Hrows as [|r rows [Hl Hv] _ IH]; cbn [map]; constructor; [|exact IH].
    pose proof (all_valid_F2 _ _ Hl Hv) as HF. clear - HF.
    induction HF; cbn [map]; constructor; auto using valid_cell_ty. }
  assert (Hcat : nlen (concat nrows) = nlen (concat rows)).
  { unfold nrows. rewrite <- concat_map. apply nlen_map. }
  assert (Hmw : Forall (fun kr => row_wr t (snd kr)) m).
  { clear - Fm. induction Fm as [|kr v m vs (_ & _ & H3) _ IH]; constructor; [|exact IH].
    unfold row_wr. unfold row_ok in H3. clear - H3. induction H3; constructor; auto using cell_ok_wr. }
  destruct (insert_new_total prof t nrows p m (pool_wf_wf0 _ Hwf) Hty ltac:(lia) Hmw) as (p' & m' & Ei & Hmw').
  rewrite Ei. cbn [rbind].
  unfold store_rows, write_rows.
  destruct (write_columns_total prof (t_long t) (t_cols t) (map snd m')) as [bs Hbs].
  { clear - Hmw'. induction Hmw'; cbn [map]; constructor; assumption. }
  rewrite Hbs. cbn [rbind]. eauto.
Qed.

Print Assumptions insert_refines.
Print Assumptions insert_accepts.
