(* CreateTableLemmas.v -- lemmas for CreateTableProofs.v:
   (A) INSERT cannot answer Err once its argument checks, key checks and the row limit pass
       (the remaining failures are the capacity panics of the pool), and what it leaves alone;
   (B) the table map, stream names of tables, extending the store by a table without a stream. *)
From Coq Require Import ZifyBool ZifyNat ZifyN Lia Sorting.Sorted Permutation.
From MsiModel Require Import Base Sexp Value Expr Category Column ColumnProofs CategoryProofs CodePage Pool Table Container
  StreamName StreamNameProofs Propset Summary Query Package PoolProofs TableProofs QueryProofs DbInv CatalogProofs
  PropsetCodecProofs PackageProofs StreamProofs DeleteRefine PkgInv ReopenLemmas ReopenProofs InsertRefine.
From MsiGen Require Import GenConsts GenCatalog GenStreamName.
Open Scope N_scope.
Arguments N.add : simpl never.
Arguments N.mul : simpl never.
Arguments N.sub : simpl never.

(* ====================================================================== *)
(* A.1  what INSERT leaves alone in the pool                               *)
(* ====================================================================== *)
Definition pool_keep (p p' : pool) : Prop :=
  p_cp p' = p_cp p /\ p_long p' = p_long p /\ (p' = p \/ p_mod p' = true).

Lemma pool_keep_refl p : pool_keep p p.
Proof. repeat split. left. reflexivity. Qed.
Lemma pool_keep_trans a b c : pool_keep a b -> pool_keep b c -> pool_keep a c.
Proof.
  intros (A1 & A2 & A3) (B1 & B2 & B3). split; [congruence|]. split; [congruence|].
  destruct B3 as [->|B3]; [exact A3 | right; exact B3].
Qed.

Lemma pool_incref_keep prof p s p' r : pool_incref prof p s = Ok (p', r) -> pool_keep p p'.
Proof.
  unfold pool_incref. destruct (incref_scan prof (p_strings p) s 1) as [[[l i]|]| |]; cbn [rbind]; try discriminate.
  - intros H. inversion H. subst. repeat split. right. reflexivity.
  - destruct ((65535 <=? nlen (p_strings p)) && negb (p_long p)); [discriminate|].
    destruct (MAX_STRING_REF <=? nlen (p_strings p)); [discriminate|].
    intros H. inversion H. subst. repeat split. right. reflexivity.
Qed.
Lemma vref_create_keep prof p v p' x : vref_create prof p v = Ok (p', x) -> pool_keep p p'.
Proof.
  destruct v as [|z|[|ch s]]; cbn [vref_create]; try (intros H; inversion H; apply pool_keep_refl).
  destruct (pool_incref prof p (ch :: s)) as [[p1 r]| |] eqn:E; cbn [rbind]; try discriminate.
  intros H. inversion H. subst. eapply pool_incref_keep. exact E.
Qed.
Lemma create_refs_keep prof : forall vals p p' refs, create_refs prof p vals = Ok (p', refs) -> pool_keep p p'.
Proof.
  induction vals as [|v vals IH]; intros p p' refs H; cbn [create_refs] in H.
  - inversion H. apply pool_keep_refl.
  - destruct (vref_create prof p v) as [[p1 x]| |] eqn:E1; cbn [rbind] in H; try discriminate.
    destruct (create_refs prof p1 vals) as [[p2 xs]| |] eqn:E2; cbn [rbind] in H; try discriminate.
    inversion H. subst. eapply pool_keep_trans; [eapply vref_create_keep; exact E1 | eapply IH; exact E2].
Qed.
Lemma insert_new_keep prof kidx : forall rows p m p' m', insert_new prof p kidx m rows = Ok (p', m') -> pool_keep p p'.
Proof.
  induction rows as [|r rows IH]; intros p m p' m' H; cbn [insert_new] in H.
  - inversion H. apply pool_keep_refl.
  - destruct (select_nth r kidx) as [k| |]; cbn [rbind] in H; try discriminate.
    destruct (create_refs prof p r) as [[p1 refs]| |] eqn:E1; cbn [rbind] in H; try discriminate.
    eapply pool_keep_trans; [eapply create_refs_keep; exact E1 | eapply IH; exact H].
Qed.

(* the shape of a successful INSERT: one stream of the container is rewritten, the pool only grows *)
Lemma exec_insert_shape prof c p ts tn rows c' p' : exec_insert prof c p ts tn rows = Ok (c', p') ->
  pool_keep p p' /\ exists t b, find_table ts tn = Some t /\ c' = ct_write c (stream_name_of t) b.
Proof.
  unfold exec_insert. intros H.
  destruct (find_table ts tn) as [t|]; cbn [of_opt rbind] in H; [|discriminate].
  destruct (validate_new_rows t rows) as [[]| |]; cbn [rbind] in H; try discriminate.
  destruct (load_rows c t) as [old| |]; cbn [rbind] in H; try discriminate.
  destruct (load_keyed prof p (pk_indices t) old []) as [m| |]; cbn [rbind] in H; try discriminate.
  destruct (check_new_keys (pk_indices t) m [] (map (map normalize_value) rows)) as [[]| |]; cbn [rbind] in H; try discriminate.
  destruct (match MAX_ROWS_INSERT with Some lim => if lim <? nlen m + nlen (map (map normalize_value) rows) then Err else Ok tt
            | None => Ok tt end) as [[]| |]; cbn [rbind] in H; try discriminate.
  destruct (insert_new prof p (pk_indices t) m (map (map normalize_value) rows)) as [[p1 m']| |] eqn:Ei;
    cbn [rbind] in H; try discriminate.
  unfold store_rows in H. destruct (write_rows prof t (map snd m')) as [b| |]; cbn [rbind] in H; try discriminate.
  inversion H. subst. split; [eapply insert_new_keep; exact Ei|]. exists t, b. split; reflexivity.
Qed.

(* INSERT looks at the table map only to find its target *)
Lemma exec_insert_tabs prof c p ts ts' tn rows : find_table ts' tn = find_table ts tn ->
  exec_insert prof c p ts' tn rows = exec_insert prof c p ts tn rows.
Proof. intros H. unfold exec_insert. rewrite H. reflexivity. Qed.

(* ====================================================================== *)
(* A.2  INSERT never answers Err for a capacity reason of the pool         *)
(* ====================================================================== *)
Definition rbound (long : bool) : N := if long then MAX_STRING_REF else 65535.

Lemma incref_scan_res prof s : forall l idx,
  match incref_scan prof l s idx with
  | Ok (Some (l', i)) => length l' = length l /\ idx <= i /\ i < idx + nlen l
  | Ok None => True
  | Err => False
  | Panic => True
  end.
Proof.
  induction l as [|[t rc] l IH]; intros idx; cbn [incref_scan]; [exact I|].
  destruct (rc =? 0).
  - destruct prof; [destruct t|]; try exact I; (split; [reflexivity|]; rewrite nlen_cons; lia).
  - destruct (str_eqb t s && (rc <? 65535)).
    + split; [reflexivity|]. rewrite nlen_cons. lia.
    + specialize (IH (idx + 1)). destruct (incref_scan prof l s (idx + 1)) as [[[l' i]|]| |]; cbn [rbind]; try exact I.
      * destruct IH as (A & B & C). split; [cbn [length]; congruence|]. rewrite nlen_cons. lia.
      * exact IH.
Qed.

Lemma pool_incref_res prof p s : pool_fits p ->
  match pool_incref prof p s with
  | Ok (p', r) => pool_fits p' /\ p_long p' = p_long p /\ 0 < r /\ r <= rbound (p_long p)
  | Err => False
  | Panic => True
  end.
Proof.
  intros Hf. unfold pool_incref, pool_fits in *. fold (rbound (p_long p)) in Hf.
  pose proof (incref_scan_res prof s (p_strings p) 1) as H.
  destruct (incref_scan prof (p_strings p) s 1) as [[[l i]|]| |]; cbn [rbind]; try exact I; try exact H.
  - destruct H as (A & B & C). cbn [p_strings p_long]. fold (rbound (p_long p)).
    unfold nlen in *. rewrite A. split; [exact Hf|]. split; [reflexivity|]. lia.
  - destruct ((65535 <=? nlen (p_strings p)) && negb (p_long p)) eqn:E1; [exact I|].
    destruct (MAX_STRING_REF <=? nlen (p_strings p)) eqn:E2; [exact I|].
    cbn [p_strings p_long]. fold (rbound (p_long p)). rewrite nlen_app. change (nlen [(s, 1)]) with 1.
    apply N.leb_gt in E2. unfold rbound in *. destruct (p_long p); cbn [negb] in E1.
    + split; [lia|]. split; [reflexivity|]. lia.
    + rewrite andb_true_r in E1. apply N.leb_gt in E1. split; [lia|]. split; [reflexivity|]. lia.
Qed.

Lemma vref_create_res prof p v c : pool_fits p -> cell_ty c v ->
  match vref_create prof p v with
  | Ok (p1, x) => pool_fits p1 /\ p_long p1 = p_long p /\ cell_wr (p_long p) c x
  | Err => False
  | Panic => True
  end.
Proof.
  intros Hf Hty. destruct v as [|z|[|ch s]]; cbn [vref_create].
  - split; [exact Hf|]. split; [reflexivity | exact I].
  - split; [exact Hf|]. split; [reflexivity | exact Hty].
  - split; [exact Hf|]. split; [reflexivity | exact I].
  - pose proof (pool_incref_res prof p (ch :: s) Hf) as H.
    destruct (pool_incref prof p (ch :: s)) as [[p' r]| |]; cbn [rbind]; try exact I; try exact H.
    destruct H as (A & B & C & D). split; [exact A|]. split; [exact B|].
    cbn [cell_ty] in Hty. cbn [cell_wr]. destruct (c_type c); try contradiction. split; assumption.
Qed.

Lemma create_refs_res prof : forall vals cols p, pool_fits p -> Forall2 cell_ty cols vals ->
  match create_refs prof p vals with
  | Ok (p2, refs) => pool_fits p2 /\ p_long p2 = p_long p /\ Forall2 (cell_wr (p_long p)) cols refs
  | Err => False
  | Panic => True
  end.
Proof.
  induction vals as [|v vals IH]; intros cols p Hf HF; cbn [create_refs].
  - inversion HF; subst. split; [exact Hf|]. split; [reflexivity | constructor].
  - inversion HF as [|c ? cs ? Hc HF']; subst.
    pose proof (vref_create_res prof p v c Hf Hc) as H1.
    destruct (vref_create prof p v) as [[p1 x]| |]; cbn [rbind]; try exact I; try exact H1.
    destruct H1 as (A1 & B1 & C1).
    pose proof (IH cs p1 A1 HF') as H2.
    destruct (create_refs prof p1 vals) as [[p2 xs]| |]; cbn [rbind]; try exact I; try exact H2.
    destruct H2 as (A2 & B2 & C2). split; [exact A2|]. split; [congruence|].
    constructor; [exact C1|]. rewrite <- B1. exact C2.
Qed.

Lemma insert_new_res prof t : forall rows p m2,
  pool_fits p -> p_long p = t_long t ->
  Forall (fun r => Forall2 cell_ty (t_cols t) r) rows ->
  Forall (fun kr => row_wr t (snd kr)) m2 ->
  match insert_new prof p (pk_indices t) m2 rows with
  | Ok (p', m') => pool_fits p' /\ Forall (fun kr => row_wr t (snd kr)) m'
  | Err => False
  | Panic => True
  end.
Proof.
  induction rows as [|row rows IH]; intros p m2 Hf Hl HF Hm; cbn [insert_new].
  - split; assumption.
  - inversion HF as [|? ? Hrow HF']; subst.
    destruct (select_key_total t row) as [k Ek]; [symmetry; eapply F2_length; exact Hrow|].
    rewrite Ek. cbn [rbind].
    pose proof (create_refs_res prof row (t_cols t) p Hf Hrow) as H1.
    destruct (create_refs prof p row) as [[p1 refs]| |]; cbn [rbind]; try exact I; try exact H1.
    destruct H1 as (A & B & C). apply IH; try assumption; [congruence|].
    apply Forall_forall. intros x Hx. apply keyed_insert_in in Hx as [->|Hx].
    + unfold row_wr. cbn [snd]. rewrite <- Hl. exact C.
    + rewrite Forall_forall in Hm. auto.
Qed.

Lemma validate_new_rows_inv t : forall rows, validate_new_rows t rows = Ok tt ->
  Forall (fun r => length r = length (t_cols t) /\ all_valid (t_cols t) r = Ok true) rows.
Proof.
  induction rows as [|r rows IH]; intros H; [constructor|]. cbn [validate_new_rows] in H.
  destruct (Nat.eqb (length r) (length (t_cols t))) eqn:El; cbn [negb] in H; [|discriminate].
  apply Nat.eqb_eq in El.
  destruct (all_valid (t_cols t) r) as [[|]| |] eqn:Ea; cbn [rbind] in H; try discriminate.
  constructor; [split; assumption | apply IH; exact H].
Qed.

(* validity, unique keys and the row limit are the only reasons for INSERT to answer Err *)
Theorem exec_insert_noerr : forall prof d tn t rows old,
  Inv d -> pool_fits (d_pool d) -> In (tn, t) (d_tabs d) -> find_table (d_tabs d) tn = Some t ->
  tvals prof d t = Ok old ->
  validate_new_rows t rows = Ok tt ->
  NoDup (map (key_of t) (old ++ map (map normalize_value) rows)) ->
  nlen old + nlen rows <= 65536 ->
  exec_insert prof (d_cont d) (d_pool d) (d_tabs d) tn rows <> Err.
Proof.
  intros prof d tn t rows old HInv Hfit Hin Hfind Htv Hval Hnd Hlim.
  pose proof HInv as (Hwf & _ & Htab & _).
  destruct d as [c p ts]. cbn [d_cont d_pool d_tabs] in *.
  pose proof (proj1 (Forall_forall _ _) Htab _ Hin) as (Hname & Hcols & Hlong & old_r & Hload & Hok).
  cbn [fst snd] in Hname, Hcols, Hlong, Hload, Hok.
  destruct (rows_dec_exists (mkdb c p ts) (tn, t) old_r HInv Hin Hload Hok) as [oldv Hdec].
  cbn [d_pool] in Hdec.
  unfold tvals in Htv. cbn [d_cont d_pool] in Htv. rewrite Hload in Htv. cbn [rbind] in Htv.
  rewrite (dec_rows_values prof p _ _ Hdec) in Htv. inversion Htv; subst oldv. clear Htv.
  pose proof (validate_new_rows_inv t rows Hval) as Hrows.
  set (nrows := map (map normalize_value) rows) in *.
  rewrite map_app in Hnd. destruct (NoDup_app_parts _ _ Hnd) as (Hnd1 & Hnd2 & Hdisj).
  unfold exec_insert. rewrite Hfind. cbn [of_opt rbind].
  rewrite Hval. cbn [rbind]. rewrite Hload. cbn [rbind]. fold nrows.
  destruct (load_keyed_total prof t p old_r old [] [] Hdec Hok (Forall2_nil _) Hnd1) as [m Ek].
  rewrite Ek. cbn [rbind].
  destruct (load_keyed_spec _ _ _ _ _ _ keyed_sorted_nil Ek) as [Hms Hmperm]. cbn [map app] in Hmperm.
  destruct (load_keyed_acc prof t p old_r old [] [] m Hdec Hok (Forall2_nil _) Ek) as [vsm [Fm Pm]].
  cbn [app] in Pm.
  assert (Hlens : Forall (fun r => length r = length (t_cols t)) nrows).
  { unfold nrows. clear - Hrows. induction Hrows as [|r rows [Hl _] _ IH]; cbn [map]; constructor; [|exact IH].
    rewrite map_length. exact Hl. }
  rewrite (check_new_keys_total t m nrows [] Hlens); [|..].
  2:{ intros k Hk Hkm. rewrite <- (krel_keys _ _ _ _ Fm) in Hkm.
      apply (Hdisj k); [|exact Hk]. eapply Permutation_in; [apply Permutation_map; exact Pm|exact Hkm]. }
  2:{ exact Hnd2. }
  2:{ intros k []. }
  cbn [rbind]. unfold MAX_ROWS_INSERT.
  assert (Hnm : nlen m = nlen old).
  { rewrite <- (nlen_map snd m), (nlen_perm _ _ Hmperm). unfold nlen. rewrite (F2_length _ _ _ Hdec). reflexivity. }
  replace (65536 <? nlen m + nlen nrows) with false.
  2:{ symmetry. apply N.ltb_ge. unfold nrows. rewrite nlen_map. lia. }
  cbn [rbind].
  assert (Hty : Forall (fun r => Forall2 cell_ty (t_cols t) r) nrows).
  { unfold nrows. clear - Hrows. induction Hrows as [|r rows [Hl Hv] _ IH]; cbn [map]; constructor; [|exact IH].
    pose proof (all_valid_F2 _ _ Hl Hv) as HF. clear - HF.
    induction HF; cbn [map]; constructor; auto using valid_cell_ty. }
  assert (Hmw : Forall (fun kr => row_wr t (snd kr)) m).
  { clear - Fm. induction Fm as [|kr v m vs (_ & _ & H3) _ IH]; constructor; [|exact IH].
    unfold row_wr. unfold row_ok in H3. clear - H3. induction H3; constructor; auto using cell_ok_wr. }
  pose proof (insert_new_res prof t nrows p m Hfit (eq_sym Hlong) Hty Hmw) as Hres.
  destruct (insert_new prof p (pk_indices t) m nrows) as [[p' m']| |]; cbn [rbind]; try discriminate; try contradiction.
  destruct Hres as [_ Hmw'].
  unfold store_rows, write_rows.
  destruct (write_columns_total prof (t_long t) (t_cols t) (map snd m')) as [bs Hbs].
  { clear - Hmw'. induction Hmw'; cbn [map]; constructor; assumption. }
  rewrite Hbs. cbn [rbind]. discriminate.
Qed.

(* ====================================================================== *)
(* B.1  the table map                                                      *)
(* ====================================================================== *)
Lemma find_table_none_notin l n : find_table l n = None -> forall x, In x l -> fst x <> n.
Proof.
  induction l as [|[m u] r IH]; intros H x Hx; [destruct Hx|]. cbn [find_table] in H.
  destruct (str_eqb m n) eqn:E; [discriminate|].
  destruct Hx as [<-|Hx]; [|apply IH; assumption]. cbn [fst]. intros ->. rewrite str_eqb_refl in E. discriminate.
Qed.

Lemma find_table_insert_same l n t : find_table (tables_insert l n t) n = Some t.
Proof.
  induction l as [|[m u] r IH]; cbn [tables_insert find_table]; [rewrite str_eqb_refl; reflexivity|].
  destruct (str_cmp n m) eqn:E; cbn [find_table].
  - rewrite str_eqb_refl. reflexivity.
  - rewrite str_eqb_refl. reflexivity.
  - rewrite str_eqb_neq; [exact IH|]. intros ->. rewrite str_cmp_refl in E. discriminate.
Qed.
Lemma find_table_insert_other l n t n' : n' <> n -> find_table (tables_insert l n t) n' = find_table l n'.
Proof.
  intros Hne. induction l as [|[m u] r IH]; cbn [tables_insert find_table].
  - rewrite str_eqb_neq by congruence. reflexivity.
  - destruct (str_cmp n m) eqn:E; cbn [find_table].
    + apply str_cmp_eq in E. subst m. rewrite !(str_eqb_neq n n') by congruence. reflexivity.
    + rewrite (str_eqb_neq n n') by congruence. reflexivity.
    + rewrite IH. reflexivity.
Qed.

Lemma tables_insert_perm l n t : find_table l n = None -> Permutation (tables_insert l n t) ((n, t) :: l).
Proof.
  induction l as [|[m u] r IH]; intros H; cbn [tables_insert]; [reflexivity|].
  cbn [find_table] in H. destruct (str_eqb m n) eqn:Emn; [discriminate|].
  destruct (str_cmp n m) eqn:E.
  - apply str_cmp_eq in E. subst m. rewrite str_eqb_refl in Emn. discriminate.
  - reflexivity.
  - rewrite (IH H). apply perm_swap.
Qed.

Lemma filter_tables_insert (f : str * table -> bool) l n t : find_table l n = None ->
  Permutation (filter f (tables_insert l n t)) ((if f (n, t) then [(n, t)] else []) ++ filter f l).
Proof.
  induction l as [|[m u] r IH]; intros H; cbn [tables_insert].
  - cbn [filter]. destruct (f (n, t)); reflexivity.
  - cbn [find_table] in H. destruct (str_eqb m n) eqn:Emn; [discriminate|].
    destruct (str_cmp n m) eqn:E.
    + apply str_cmp_eq in E. subst m. rewrite str_eqb_refl in Emn. discriminate.
    + cbn [filter]. destruct (f (n, t)); reflexivity.
    + cbn [filter]. destruct (f (m, u)).
      * rewrite (IH H). destruct (f (n, t)); cbn [app]; [apply perm_swap | reflexivity].
      * exact (IH H).
Qed.

Lemma perm_concat_map {A B} (g : A -> list B) l l' : Permutation l l' ->
  Permutation (List.concat (map g l)) (List.concat (map g l')).
Proof.
  induction 1 as [|x l l' _ IH|x y l|l l' l'' _ IH1 _ IH2]; cbn [map List.concat].
  - reflexivity.
  - apply Permutation_app_head. exact IH.
  - rewrite !app_assoc. apply Permutation_app_tail. apply Permutation_app_comm.
  - etransitivity; eassumption.
Qed.

Lemma sorted_in_find l e : StronglySorted tlt l -> In e l -> find_table l (fst e) = Some (snd e).
Proof. intros S H. destruct e as [n t]. apply sorted_find; assumption. Qed.

(* ====================================================================== *)
(* B.2  stream names of tables                                             *)
(* ====================================================================== *)
Lemma table_streams_distinct a b : is_valid_tname a = true -> is_valid_tname b = true -> a <> b ->
  name_eqb (sn_encode a true) (sn_encode b true) = false.
Proof.
  intros Va Vb Hne. destruct (valid_tname_safe a Va) as [Na Sa]. destruct (valid_tname_safe b Vb) as [Nb Sb].
  apply InsertRefine.name_eqb_false. rewrite (name_key_table a Sa), (name_key_table b Sb).
  intros E. apply sn_encode_injective in E as [E _]; try assumption. contradiction.
Qed.

Lemma names_streams_table n : Forall safe n -> n <> [] -> names_streams [sn_encode n true] = [].
Proof.
  intros S Hne. unfold names_streams. cbn [flat_map]. rewrite (sn_decode_encode n true S Hne).
  destruct (existsb (str_eqb (sn_encode n true)) special_names); reflexivity.
Qed.
Lemma names_streams_write_table c n b : is_valid_tname n = true ->
  names_streams (ct_names (ct_write c (sn_encode n true) b)) = names_streams (ct_names c).
Proof.
  intros V. destruct (valid_tname_safe n V) as [Hne S].
  unfold ct_names, ct_write. cbn [ct_entries].
  destruct (ct_put_names (ct_entries c) (sn_encode n true) b) as [-> | ->]; [reflexivity|].
  unfold names_streams at 1. rewrite flat_map_app. fold (names_streams (map fst (ct_entries c))).
  fold (names_streams [sn_encode n true]). rewrite (names_streams_table n S Hne), app_nil_r. reflexivity.
Qed.

(* a table whose stream does not exist reads as empty *)
Lemma load_rows_absent c t : ct_find (ct_entries c) (stream_name_of t) = None -> load_rows c t = Ok [].
Proof. intros H. unfold load_rows. rewrite H. reflexivity. Qed.
Lemma tvals_absent prof d t : ct_find (ct_entries (d_cont d)) (stream_name_of t) = None -> tvals prof d t = Ok [].
Proof. intros H. unfold tvals. rewrite (load_rows_absent _ _ H). reflexivity. Qed.
Lemma tvals_tabs prof c p ts ts' t : tvals prof (mkdb c p ts') t = tvals prof (mkdb c p ts) t.
Proof. reflexivity. Qed.

(* ====================================================================== *)
(* B.3  adding a table without a stream keeps the store invariant           *)
(* ====================================================================== *)
Lemma occ_all_rows_perm r c l l' : Permutation l l' -> occ r (all_rows c l) = occ r (all_rows c l').
Proof.
  induction 1 as [|x l l' _ IH|x y l|l l' l'' _ IH1 _ IH2]; cbn [all_rows]; rewrite ?InsertRefine.occ_app in *; lia.
Qed.

Lemma inv_extend c p ts n t :
  Inv (mkdb c p ts) -> find_table ts n = None ->
  t_name t = n -> t_cols t <> [] -> t_long t = p_long p ->
  ct_find (ct_entries c) (stream_name_of t) = None ->
  ~ In (name_key (stream_name_of t)) (map (fun e => name_key (stream_name_of (snd e))) ts) ->
  Inv (mkdb c p (tables_insert ts n t)).
Proof.
  intros (Hwf & Hnd & Htab & Hacc) Hnone Hname Hcols Hlong Habs Hkey.
  cbn [d_cont d_pool d_tabs] in *.
  pose proof (tables_insert_perm ts n t Hnone) as HP.
  assert (Hro : rows_of c t = []).
  { unfold rows_of. rewrite (load_rows_absent c t Habs). reflexivity. }
  unfold Inv. cbn [d_cont d_pool d_tabs]. split; [exact Hwf|]. split; [|split].
  - eapply Permutation_NoDup; [apply Permutation_map; apply Permutation_sym; exact HP|].
    cbn [map snd]. constructor; assumption.
  - eapply Permutation_Forall; [apply Permutation_sym; exact HP|]. constructor; [|exact Htab].
    unfold table_ok. cbn [fst snd]. split; [exact Hname|]. split; [exact Hcols|]. split; [exact Hlong|].
    exists []. split; [apply load_rows_absent; exact Habs | constructor].
  - intros r Hr. rewrite (Hacc r Hr). rewrite (occ_all_rows_perm r c _ _ HP).
    cbn [all_rows snd]. rewrite Hro. reflexivity.
Qed.
