(* Sexp.v -- the wire format shared by the model driver and the Rust driver.
   One command per line, one observation per line, both s-expressions:
     sx ::= integer | symbol | ( sx* )
   Strings and byte strings travel as lists of integers. *)
From MsiModel Require Import Base.
From Coq Require Export Strings.String.
Notation length := List.length.
Notation "x ++ y" := (List.app x y) : list_scope.
Delimit Scope string_scope with string.

(* ASCII string literal -> list of code points *)
Fixpoint str_of_string (s : string) : list N :=
  match s with
  | EmptyString => []
  | String a r => N.of_nat (Ascii.nat_of_ascii a) :: str_of_string r
  end.

Inductive sx : Type :=
| SI (z : Z)
| SY (s : string)
| SL (l : list sx).

Definition sx_N (n : N) : sx := SI (Z.of_N n).
Definition sx_bool (b : bool) : sx := SI (if b then 1 else 0)%Z.
Definition sx_str (s : list N) : sx := SL (map sx_N s).
Definition sx_list {A} (f : A -> sx) (l : list A) : sx := SL (map f l).
Definition sx_opt {A} (f : A -> sx) (o : option A) : sx :=
  match o with Some a => SL [f a] | None => SL [] end.
Definition sx_res {A} (f : A -> sx) (r : res A) : sx :=
  match r with
  | Ok a => SL [SY "ok"%string; f a]
  | Err => SY "err"%string
  | Panic => SY "panic"%string
  end.
Definition sx_unit (_ : unit) : sx := SL [].

Definition as_Z (s : sx) : option Z := match s with SI z => Some z | _ => None end.
Definition as_N (s : sx) : option N :=
  match s with SI z => if (z <? 0)%Z then None else Some (Z.to_N z) | _ => None end.
Definition as_bool (s : sx) : option bool :=
  match s with SI z => Some (negb (z =? 0)%Z) | _ => None end.
Definition as_list (s : sx) : option (list sx) := match s with SL l => Some l | _ => None end.
Definition as_sym (s : sx) : option string := match s with SY y => Some y | _ => None end.

Fixpoint omapM {A B} (f : A -> option B) (l : list A) : option (list B) :=
  match l with
  | [] => Some []
  | a :: l' => match f a, omapM f l' with
               | Some b, Some bs => Some (b :: bs)
               | _, _ => None
               end
  end.
Definition as_str (s : sx) : option (list N) :=
  match s with SL l => omapM as_N l | _ => None end.
Definition as_listof {A} (f : sx -> option A) (s : sx) : option (list A) :=
  match s with SL l => omapM f l | _ => None end.
Definition as_opt {A} (f : sx -> option A) (s : sx) : option (option A) :=
  match s with
  | SL [] => Some None
  | SL [x] => match f x with Some a => Some (Some a) | None => None end
  | _ => None
  end.

Definition bad_cmd : sx := SY "badcmd"%string.
