(* QueryText.v -- C19 (queries): the five query kinds, their printed form as
   tokens (print_query) and as characters (query_text).  Both transcribe the
   fmt::Display implementations of Select / Join / Insert / Update / Delete in
   src/internal/query.rs (and Select::format_for_join); expressions go through
   Expr.print / ExprText.expr_text, values through ExprText.value_text, names are
   written verbatim.

   Tokens.  One token per lexical rule of examples/msiquery.pest: expression
   tokens (identifiers, literals, parentheses, operators) are embedded with QE,
   the query keywords are QK, the comma is QComma.  `*` after SELECT is the same
   lexical token as the multiplication sign (OpStar), and the `=` of an
   assignment is the same token as the comparison (OpEq); they are therefore the
   embedded expression tokens QStar / QAssign below, not tokens of their own. *)
From MsiModel Require Import Base Value Expr ExprText Query Sexp.
Open Scope N_scope.

(* ---- queries -------------------------------------------------------------------- *)
Inductive query :=
| QSelect (s : sel)
| QInsert (tn : str) (rows : list (list value))
| QUpdate (tn : str) (ups : list (str * value)) (cond : option ast)
| QDelete (tn : str) (cond : option ast).

(* ---- tokens --------------------------------------------------------------------- *)
Inductive kw :=
| KSelect | KFrom | KWhere | KInsert | KInto | KValues | KUpdate | KSet | KDelete
| KInner | KLeft | KJoin | KOn.
Inductive qtok := QE (t : tok) | QK (k : kw) | QComma.

Definition QStar : qtok := QE (TB (BBin OMul)).     (* OpStar *)
Definition QAssign : qtok := QE (TB (BBin OEq)).    (* OpEq *)
Definition QLP : qtok := QE TLP.
Definition QRP : qtok := QE TRP.
Definition QId (s : str) : qtok := QE (TId s).
Definition QLit (v : value) : qtok := QE (TLit v).

(* the comma-flag loops of the Display impls: the first item bare, every later
   item preceded by the separator *)
Definition commas {A} (sep : list A) (items : list (list A)) : list A :=
  match items with
  | [] => []
  | x :: r => x ++ flat_map (fun y => sep ++ y) r
  end.

(* ---- the printer, as tokens ----------------------------------------------------- *)
(* Select::format_for_join: a bare table select prints as the table name alone *)
Definition bare (s : sel) : option str :=
  match s with
  | Sel (JTable n) [] None => Some n
  | _ => None
  end.
Definition fmt_for_join (psel : sel -> list qtok) (s : sel) : list qtok :=
  match bare s with
  | Some n => [QId n]
  | None => QLP :: psel s ++ [QRP]
  end.
Definition print_cols (cols : list str) : list qtok :=
  match cols with
  | [] => [QStar]
  | _ => commas [QComma] (map (fun c => [QId c]) cols)
  end.
Definition print_cond (cond : option ast) : list qtok :=
  match cond with
  | Some e => QK KWhere :: map QE (print 0 e)
  | None => []
  end.

Fixpoint print_sel (s : sel) : list qtok :=
  match s with
  | Sel from cols cond =>
      QK KSelect :: print_cols cols ++ QK KFrom :: print_join from ++ print_cond cond
  end
with print_join (j : join) : list qtok :=
  match j with
  | JTable n => [QId n]
  | JInner a b on =>
      fmt_for_join print_sel a ++ QK KInner :: QK KJoin :: fmt_for_join print_sel b
        ++ QK KOn :: map QE (print 0 on)
  | JLeft a b on =>
      fmt_for_join print_sel a ++ QK KLeft :: QK KJoin :: fmt_for_join print_sel b
        ++ QK KOn :: map QE (print 0 on)
  end.

Definition print_row (row : list value) : list qtok :=
  QLP :: commas [QComma] (map (fun v => [QLit v]) row) ++ [QRP].
Definition print_rows (rows : list (list value)) : list qtok :=
  match rows with
  | [] => []
  | _ => QK KValues :: commas [QComma] (map print_row rows)
  end.
Definition print_assign (a : str * value) : list qtok := [QId (fst a); QAssign; QLit (snd a)].

Definition print_query (q : query) : list qtok :=
  match q with
  | QSelect s => print_sel s
  | QInsert tn rows => QK KInsert :: QK KInto :: QId tn :: print_rows rows
  | QUpdate tn ups cond =>
      QK KUpdate :: QId tn :: QK KSet :: commas [QComma] (map print_assign ups) ++ print_cond cond
  | QDelete tn cond => QK KDelete :: QK KFrom :: QId tn :: print_cond cond
  end.

(* ---- the printer, as characters -------------------------------------------------- *)
Definition S_ (s : string) : str := str_of_string s.

Definition cond_text (cond : option ast) : str :=
  match cond with
  | Some e => S_ " WHERE " ++ expr_text e
  | None => []
  end.
Definition cols_text (cols : list str) : str :=
  match cols with
  | [] => S_ "*"
  | _ => commas (S_ ", ") cols
  end.
Definition fmt_for_join_text (tsel : sel -> str) (s : sel) : str :=
  match bare s with
  | Some n => n
  | None => S_ "(" ++ tsel s ++ S_ ")"
  end.

Fixpoint sel_text (s : sel) : str :=
  match s with
  | Sel from cols cond =>
      S_ "SELECT " ++ cols_text cols ++ S_ " FROM " ++ join_text from ++ cond_text cond
  end
with join_text (j : join) : str :=
  match j with
  | JTable n => n
  | JInner a b on =>
      fmt_for_join_text sel_text a ++ S_ " INNER JOIN " ++ fmt_for_join_text sel_text b
        ++ S_ " ON " ++ expr_text on
  | JLeft a b on =>
      fmt_for_join_text sel_text a ++ S_ " LEFT JOIN " ++ fmt_for_join_text sel_text b
        ++ S_ " ON " ++ expr_text on
  end.

Definition row_text (row : list value) : str :=
  S_ "(" ++ commas (S_ ", ") (map value_text row) ++ S_ ")".
Definition rows_text (rows : list (list value)) : str :=
  match rows with
  | [] => []
  | _ => S_ " VALUES " ++ commas (S_ ", ") (map row_text rows)
  end.
Definition assign_text (a : str * value) : str := fst a ++ S_ " = " ++ value_text (snd a).

Definition query_text (q : query) : str :=
  match q with
  | QSelect s => sel_text s
  | QInsert tn rows => S_ "INSERT INTO " ++ tn ++ rows_text rows
  | QUpdate tn ups cond =>
      S_ "UPDATE " ++ tn ++ S_ " SET " ++ commas (S_ ", ") (map assign_text ups) ++ cond_text cond
  | QDelete tn cond => S_ "DELETE FROM " ++ tn ++ cond_text cond
  end.

(* ---- the characters are the rendering of the tokens -------------------------------- *)
(* Spacing rule.  Every token carries its own spaces, exactly as the pieces the
   Rust code writes: binary operators and the assignment `=` are " op " (the
   TEXT_ constants), NOT is "NOT ", a comma is ", ", parentheses, identifiers and
   literals carry none, and each keyword is written with the spaces below.  The
   single exception: `*` directly after SELECT is written bare ("SELECT *"),
   whereas the same lexical token as a multiplication sign is " * ". *)
Definition kw_text (k : kw) : str :=
  match k with
  | KSelect => S_ "SELECT "
  | KFrom => S_ " FROM "
  | KWhere => S_ " WHERE "
  | KInsert => S_ "INSERT "
  | KInto => S_ "INTO "
  | KValues => S_ " VALUES "
  | KUpdate => S_ "UPDATE "
  | KSet => S_ " SET "
  | KDelete => S_ "DELETE"
  | KInner => S_ " INNER "
  | KLeft => S_ " LEFT "
  | KJoin => S_ "JOIN "
  | KOn => S_ " ON "
  end.
Definition qtok_text (t : qtok) : str :=
  match t with
  | QE t => tok_text t
  | QK k => kw_text k
  | QComma => S_ ", "
  end.
Fixpoint qrender (ts : list qtok) : str :=
  match ts with
  | [] => []
  | t :: r =>
      qtok_text t ++
      match t, r with
      | QK KSelect, QE (TB (BBin OMul)) :: r' => S_ "*" ++ qrender r'
      | _, _ => qrender r
      end
  end.

Definition nostar (ts : list qtok) : Prop :=
  match ts with QE (TB (BBin OMul)) :: _ => False | _ => True end.

Lemma qrender_cons t r : nostar r -> qrender (t :: r) = qtok_text t ++ qrender r.
Proof.
  intros H. cbn [qrender]. destruct t as [t|k|]; try reflexivity.
  destruct k; try reflexivity.
  destruct r as [|[[]| |] r']; try reflexivity.
  destruct b as [| |[]]; try reflexivity. destruct H.
Qed.
Lemma qrender_cons_ns t r : t <> QK KSelect -> qrender (t :: r) = qtok_text t ++ qrender r.
Proof.
  intros H. cbn [qrender]. destruct t as [t|k|]; try reflexivity.
  destruct k; try reflexivity. congruence.
Qed.

Lemma qrender_app a b : nostar b -> qrender (a ++ b) = qrender a ++ qrender b.
Proof.
  intros Hb. remember (length a) as n eqn:Hn. revert a Hn.
  induction n as [n IH] using lt_wf_ind. intros a Hn.
  destruct a as [|t a]; [reflexivity|].
  assert (Hrec : qrender (a ++ b) = qrender a ++ qrender b).
  { apply (IH (length a)); [subst n; simpl; apply Nat.lt_succ_diag_r | reflexivity]. }
  destruct a as [|t' a'].
  - simpl app. rewrite (qrender_cons t b Hb).
    destruct t as [?|[]|]; cbn [qrender]; rewrite app_nil_r; reflexivity.
  - change ((t :: t' :: a') ++ b) with (t :: t' :: (a' ++ b)).
    assert (Hrec' : qrender (a' ++ b) = qrender a' ++ qrender b).
    { apply (IH (length a')); [subst n; simpl; lia | reflexivity]. }
    cbn [qrender]. cbn [qrender] in Hrec. change ((t' :: a') ++ b) with (t' :: (a' ++ b)) in Hrec.
    cbn [qrender] in Hrec.
    destruct t as [t|k|]; try (rewrite Hrec, <- !app_assoc; reflexivity).
    destruct k; try (rewrite Hrec, <- !app_assoc; reflexivity).
    destruct t' as [[]| |]; try (rewrite Hrec, <- !app_assoc; reflexivity).
    destruct b0 as [| |[]]; try (rewrite Hrec, <- !app_assoc; reflexivity).
    rewrite Hrec', <- !app_assoc. reflexivity.
Qed.

Lemma qrender_map_QE ts : qrender (map QE ts) = render ts.
Proof.
  induction ts as [|t r IH]; [reflexivity|].
  cbn [map]. rewrite qrender_cons_ns by discriminate. rewrite IH. reflexivity.
Qed.

(* the first token of a printed expression is never a binary operator *)
Lemma print_head p e : exists t r, print p e = t :: r /\ (forall b, t <> TB b).
Proof.
  revert p. induction e as [v|n|u a IHa|op a IHa b IHb|a IHa b IHb|a IHa b IHb]; intros p; cbn [print].
  - eexists _, _. split; [reflexivity|]. discriminate.
  - eexists _, _. split; [reflexivity|]. discriminate.
  - unfold parens. destruct (match u with BoolNot => _ | _ => false end).
    + eexists _, _. split; [reflexivity|]. discriminate.
    + eexists _, _. split; [reflexivity|]. discriminate.
  - unfold parens. destruct (binop_prec op <? p).
    + eexists _, _. split; [reflexivity|]. discriminate.
    + destruct (IHa (binop_prec op)) as (t & r & E & H). rewrite E. eexists _, _. split; [reflexivity|exact H].
  - unfold parens. destruct (_ <? p).
    + eexists _, _. split; [reflexivity|]. discriminate.
    + destruct (IHa GenExpr.PREC_AND) as (t & r & E & H). rewrite E. eexists _, _. split; [reflexivity|exact H].
  - unfold parens. destruct (_ <? p).
    + eexists _, _. split; [reflexivity|]. discriminate.
    + destruct (IHa GenExpr.PREC_OR) as (t & r & E & H). rewrite E. eexists _, _. split; [reflexivity|exact H].
Qed.

Lemma nostar_expr p e rest : nostar (map QE (print p e) ++ rest).
Proof.
  destruct (print_head p e) as (t & r & E & H). rewrite E. cbn [map app].
  destruct t; try exact I. destruct (H b eq_refl).
Qed.

Lemma render_cond cond : qrender (print_cond cond) = cond_text cond.
Proof.
  destruct cond as [e|]; [|reflexivity]. unfold print_cond, cond_text.
  rewrite qrender_cons by (rewrite <- (app_nil_r (map QE _)); apply nostar_expr).
  rewrite qrender_map_QE. reflexivity.
Qed.
Lemma nostar_cond cond rest : nostar rest -> nostar (print_cond cond ++ rest).
Proof. destruct cond; intros H; [exact I | exact H]. Qed.

(* rendering a comma-separated list whose items never start with `*` *)
Lemma render_commas {A} (ptok : A -> list qtok) (ptext : A -> str) (l : list A) :
  (forall x, nostar (ptok x)) -> (forall x, ptok x <> []) ->
  (forall x, qrender (ptok x) = ptext x) ->
  qrender (commas [QComma] (map ptok l)) = commas (S_ ", ") (map ptext l).
Proof.
  intros Hns Hne Hr. destruct l as [|x l]; [reflexivity|]. cbn [map commas].
  assert (Hrest : qrender (flat_map (fun y => [QComma] ++ y) (map ptok l))
                  = flat_map (fun y => S_ ", " ++ y) (map ptext l)
                  /\ nostar (flat_map (fun y => [QComma] ++ y) (map ptok l))).
  { induction l as [|y l [IH1 IH2]]; [split; [reflexivity|exact I]|].
    split; [|exact I]. cbn [map flat_map].
    match goal with |- qrender (([QComma] ++ ?a) ++ ?F) = _ => change (([QComma] ++ a) ++ F) with (QComma :: (a ++ F)) end.
    rewrite qrender_cons_ns by discriminate.
    rewrite qrender_app by exact IH2. rewrite Hr, IH1. reflexivity. }
  destruct Hrest as [H1 H2]. rewrite qrender_app by exact H2. rewrite Hr, H1. reflexivity.
Qed.

Lemma render_row row : qrender (print_row row) = row_text row.
Proof.
  unfold print_row, row_text, QLP. rewrite qrender_cons_ns by discriminate.
  assert (Hc : nostar (commas [QComma] (map (fun v => [QLit v]) row) ++ [QRP])).
  { destruct row; exact I. }
  rewrite qrender_app by exact I.
  rewrite (render_commas (fun v => [QLit v]) value_text).
  - reflexivity.
  - intros; exact I.
  - discriminate.
  - intros v. cbn. rewrite app_nil_r. reflexivity.
Qed.

Lemma nostar_fmt psel s rest : nostar (fmt_for_join psel s ++ rest).
Proof. unfold fmt_for_join. destruct (bare s); exact I. Qed.

Scheme sel_join_ind := Induction for sel Sort Prop
  with join_sel_ind := Induction for join Sort Prop.

Lemma render_sel_join :
  (forall s, qrender (print_sel s) = sel_text s) /\ (forall j, qrender (print_join j) = join_text j).
Proof.
  assert (Hfmt : forall s, qrender (print_sel s) = sel_text s ->
            qrender (fmt_for_join print_sel s) = fmt_for_join_text sel_text s).
  { intros s H. unfold fmt_for_join, fmt_for_join_text. destruct (bare s).
    - cbn. apply app_nil_r.
    - unfold QLP. rewrite qrender_cons_ns by discriminate.
      rewrite qrender_app by exact I. rewrite H. reflexivity. }
  assert (Hjoin : forall k ktext a b on, kw_text k = ktext -> k <> KSelect ->
            qrender (print_sel a) = sel_text a -> qrender (print_sel b) = sel_text b ->
            qrender (fmt_for_join print_sel a ++ QK k :: QK KJoin :: fmt_for_join print_sel b
                       ++ QK KOn :: map QE (print 0 on))
            = fmt_for_join_text sel_text a ++ (ktext ++ S_ "JOIN ") ++ fmt_for_join_text sel_text b
                ++ S_ " ON " ++ expr_text on).
  { intros k ktext a b on Hk Hks Ha Hb.
    rewrite qrender_app by exact I. rewrite (Hfmt a Ha).
    rewrite qrender_cons_ns by congruence.
    rewrite qrender_cons_ns by discriminate.
    rewrite qrender_app by exact I. rewrite (Hfmt b Hb).
    rewrite qrender_cons_ns by discriminate. rewrite qrender_map_QE.
    cbn [qtok_text]. rewrite Hk, <- !app_assoc. reflexivity. }
  set (P := fun s => qrender (print_sel s) = sel_text s).
  set (Q := fun j => qrender (print_join j) = join_text j).
  assert (H1 : forall from, Q from -> forall cols cond, P (Sel from cols cond)).
  { unfold P, Q. intros from Hfrom cols cond. cbn [print_sel sel_text].
    assert (Htail : qrender (QK KFrom :: print_join from ++ print_cond cond)
                    = S_ " FROM " ++ join_text from ++ cond_text cond).
    { rewrite qrender_cons_ns by discriminate.
      rewrite qrender_app by (destruct cond; exact I).
      rewrite Hfrom, render_cond. reflexivity. }
    destruct cols as [|c cols].
    - cbn [print_cols cols_text app]. unfold QStar. cbn [qrender].
      cbn [qrender] in Htail. rewrite Htail. reflexivity.
    - rewrite qrender_cons by (destruct cols; exact I).
      rewrite qrender_app by exact I. rewrite Htail.
      unfold print_cols, cols_text.
      rewrite (render_commas (fun c => [QId c]) (fun c => c)).
      + rewrite map_id. reflexivity.
      + intros; exact I.
      + discriminate.
      + intros x. cbn. apply app_nil_r. }
  assert (H2 : forall n, Q (JTable n)).
  { intros n. unfold Q. cbn. apply app_nil_r. }
  assert (H3 : forall a, P a -> forall b, P b -> forall on, Q (JInner a b on)).
  { intros a Ha b Hb on. exact (Hjoin KInner _ a b on eq_refl ltac:(discriminate) Ha Hb). }
  assert (H4 : forall a, P a -> forall b, P b -> forall on, Q (JLeft a b on)).
  { intros a Ha b Hb on. exact (Hjoin KLeft _ a b on eq_refl ltac:(discriminate) Ha Hb). }
  split; [exact (sel_join_ind P Q H1 H2 H3 H4) | exact (join_sel_ind P Q H1 H2 H3 H4)].
Qed.

Theorem query_text_render q : qrender (print_query q) = query_text q.
Proof.
  destruct q as [s|tn rows|tn ups cond|tn cond]; cbn [print_query query_text].
  - apply render_sel_join.
  - unfold QId. rewrite !qrender_cons_ns by discriminate.
    cbn [qtok_text tok_text].
    assert (Hrows : qrender (print_rows rows) = rows_text rows).
    { unfold print_rows, rows_text. destruct rows as [|r rows]; [reflexivity|].
      rewrite qrender_cons_ns by discriminate.
      rewrite (render_commas print_row row_text).
      - reflexivity.
      - intros; exact I.
      - discriminate.
      - apply render_row. }
    rewrite Hrows. reflexivity.
  - unfold QId. rewrite !qrender_cons_ns by discriminate.
    rewrite qrender_app by (destruct cond; exact I).
    rewrite render_cond. rewrite (render_commas print_assign assign_text).
    + cbn [qtok_text tok_text]. rewrite <- ?app_assoc. reflexivity.
    + intros; exact I.
    + discriminate.
    + intros [c v]. cbn. rewrite app_nil_r. reflexivity.
  - unfold QId. rewrite !qrender_cons_ns by discriminate.
    rewrite render_cond. cbn [qtok_text tok_text]. reflexivity.
Qed.
