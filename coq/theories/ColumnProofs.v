(* ColumnProofs.v -- C06 (codec part): the _Columns type word round-trips every
   storable column type and flag combination. *)
From MsiModel Require Import Base Value Finite Category Column.
From MsiGen Require Import GenColumn.
Open Scope N_scope.

Lemma column_constants_pinned :
  COL_FIELD_SIZE_MASK = 255 /\ COL_LOCALIZABLE_BIT = 512 /\ COL_STRING_BIT = 2048 /\ COL_NULLABLE_BIT = 4096 /\
  COL_PRIMARY_KEY_BIT = 8192 /\ COL_VALID_BIT = 256 /\ COL_NONBINARY_BIT = 1024 /\
  COLTYPE_INT16_BITS = 2 /\ COLTYPE_INT32_BITS = 4 /\ FROM_BITFIELD_INT_SIZES = [(4, 32); (2, 16); (1, 16)].
Proof. repeat split. Qed.

Definition storable_type (t : coltype) : bool :=
  match t with Str w => w <=? 255 | _ => true end.

Definition coltype_eqb (a b : coltype) : bool :=
  match a, b with
  | Int16, Int16 | Int32, Int32 => true
  | Str x, Str y => x =? y
  | _, _ => false
  end.

(* the part of a column that travels through the type word *)
Definition mk_probe (t : coltype) (loc nul pk bin : bool) : column :=
  mkcol [] t loc nul pk None None (if bin then Some CBinary else None) [].
Definition probe_ok (t : coltype) (loc nul pk bin : bool) : bool :=
  let c := mk_probe t loc nul pk bin in
  match col_with_bits c (col_bits c) with
  | Ok c' => coltype_eqb (c_type c') t && Bool.eqb (c_loc c') loc && Bool.eqb (c_null c') nul && Bool.eqb (c_pk c') pk
             && (-32768 <? col_bits c)%Z && (col_bits c <=? 32767)%Z
  | _ => false
  end.
Definition bools := [true; false].
Definition all_flags_ok (t : coltype) : bool :=
  forallb (fun loc => forallb (fun nul => forallb (fun pk => forallb (fun bin => probe_ok t loc nul pk bin) bools) bools) bools) bools.

Lemma probe_int16 : all_flags_ok Int16 = true.  Proof. vm_compute. reflexivity. Qed.
Lemma probe_int32 : all_flags_ok Int32 = true.  Proof. vm_compute. reflexivity. Qed.
Lemma probe_str : forallb (fun w => all_flags_ok (Str w)) (nrange 256) = true.
Proof. vm_compute. reflexivity. Qed.

Lemma in_bools b : In b bools.
Proof. destruct b; simpl; auto. Qed.

Lemma probe_all t loc nul pk bin : storable_type t = true -> probe_ok t loc nul pk bin = true.
Proof.
  intros Hs.
  assert (all_flags_ok t = true) as H.
  { destruct t as [| |w]; [exact probe_int16 | exact probe_int32 |].
    simpl in Hs. apply (forall_below _ 256 probe_str). apply N.leb_le in Hs. lia. }
  unfold all_flags_ok in H. rewrite forallb_forall in H. specialize (H loc (in_bools loc)).
  rewrite forallb_forall in H. specialize (H nul (in_bools nul)).
  rewrite forallb_forall in H. specialize (H pk (in_bools pk)).
  rewrite forallb_forall in H. exact (H bin (in_bools bin)).
Qed.

(* the type word depends only on the probe of a column *)
Definition is_binary_cat (c : column) : bool :=
  match c_cat c with Some k => cat_eqb k CBinary | None => false end.
Lemma col_bits_probe c :
  col_bits c = col_bits (mk_probe (c_type c) (c_loc c) (c_null c) (c_pk c) (is_binary_cat c)).
Proof.
  unfold col_bits, mk_probe, is_binary_cat. simpl.
  destruct (c_cat c) as [k|]; simpl; [|reflexivity].
  destruct (cat_eqb k CBinary) eqn:E; simpl; [|reflexivity]. reflexivity.
Qed.

(* C06, codec: reading back the type word of any storable column gives the same type, width
   and flags, keeps every attribute that lives in _Validation, and the word fits the Int16
   catalog column *)
Theorem col_bits_roundtrip c : storable_type (c_type c) = true ->
  exists c', col_with_bits c (col_bits c) = Ok c' /\
    c_type c' = c_type c /\ c_loc c' = c_loc c /\ c_null c' = c_null c /\ c_pk c' = c_pk c /\
    c_name c' = c_name c /\ c_range c' = c_range c /\ c_fk c' = c_fk c /\ c_cat c' = c_cat c /\ c_enum c' = c_enum c /\
    (-32768 < col_bits c <= 32767)%Z.
Proof.
  intros Hs. pose proof (probe_all (c_type c) (c_loc c) (c_null c) (c_pk c) (is_binary_cat c) Hs) as P.
  unfold probe_ok in P. rewrite <- col_bits_probe in P.
  unfold col_with_bits in *. simpl c_null in P.
  destruct (ct_of_bits (col_bits c)) as [t| |]; simpl in *; try discriminate.
  repeat (apply andb_true_iff in P as [P ?]).
  eexists. split; [reflexivity|]. simpl.
  assert (t = c_type c) as ->.
  { destruct t, (c_type c); simpl in P; try discriminate; try reflexivity. apply N.eqb_eq in P. congruence. }
  repeat split; try reflexivity; try (apply Bool.eqb_prop; assumption); try lia.
Qed.

(* widths above 255 are NOT representable: the word decodes to something else *)
Example width_300_not_representable :
  rmap c_type (col_with_bits (mk_probe (Str 300) false false false false) (col_bits (mk_probe (Str 300) false false false false)))
  = Ok (Str 44).
Proof. vm_compute. reflexivity. Qed.
