(* DropTableProofs.v -- drop_table on a package state satisfying PkgInv2.PInv2:
     drop_table_cases   either one of the three argument checks fails (the package itself is returned) or the call
                        succeeds; it never panics and never fails half-way
     drop_table_ok      on success the invariant is re-established, exactly that table disappears from the table map,
                        from the container and from _Tables / _Columns / _Validation; every other table reads back
                        unchanged; summary, type and the stream interface are untouched
   The key step is del_step: pkg_delete lifted from DeleteRefine.delete_refines / delete_total to the package level
   on the "middle" invariant MInv (PInv2 without the two conjuncts that talk about the catalog contents). *)
From Coq Require Import ZifyBool ZifyNat ZifyN Lia Sorting.Sorted Permutation.
From MsiModel Require Import Base Sexp Value Expr Category Column ColumnProofs CategoryProofs CodePage Pool Table Container
  StreamName StreamNameProofs Propset Summary Query Package PoolProofs TableProofs QueryProofs SelectTotal DbInv CatalogProofs
  PropsetCodecProofs PackageProofs StreamProofs PkgInv UpdateRefine PkgInv2 DeleteRefine ReopenLemmas ReopenProofs.
From MsiGen Require Import GenConsts GenCatalog GenStreamName.
Open Scope N_scope.
Arguments N.add : simpl never.
Arguments N.mul : simpl never.
Arguments N.sub : simpl never.

(* ====================================================================== *)
(* lists                                                                   *)
(* ====================================================================== *)
Lemma filter_false {A} (l : list A) : filter (fun _ => false) l = [].
Proof. induction l as [|a l IH]; [reflexivity | exact IH]. Qed.
Lemma filter_true {A} (l : list A) : filter (fun _ => true) l = l.
Proof. induction l as [|a l IH]; [reflexivity|]. cbn [filter]. rewrite IH. reflexivity. Qed.

Lemma filter_const {A} (g : A -> bool) (b : bool) l : (forall r, In r l -> g r = b) -> filter g l = if b then l else [].
Proof.
  induction l as [|a l IH]; intros H; [destruct b; reflexivity|]. cbn [filter].
  rewrite (H a (or_introl eq_refl)), IH by (intros r Hr; apply H; right; exact Hr). destruct b; reflexivity.
Qed.

Lemma filter_comm {A} (f g : A -> bool) l : filter f (filter g l) = filter g (filter f l).
Proof.
  induction l as [|a l IH]; [reflexivity|]. cbn [filter].
  destruct (g a) eqn:Eg, (f a) eqn:Ef; cbn [filter]; rewrite ?Eg, ?Ef, IH; reflexivity.
Qed.

Lemma filter_map_comm {A B} (g : B -> bool) (f : A -> B) l : filter g (map f l) = map f (filter (fun a => g (f a)) l).
Proof.
  induction l as [|a l IH]; [reflexivity|]. cbn [map filter]. destruct (g (f a)); cbn [map]; rewrite IH; reflexivity.
Qed.

(* a filter on the rows that is constant on every block is a filter on the blocks *)
Lemma filter_blocks {A B} (g : B -> bool) (h : A -> bool) (blk : A -> list B) l :
  (forall a, In a l -> forall r, In r (blk a) -> g r = h a) ->
  filter g (List.concat (map blk l)) = List.concat (map blk (filter h l)).
Proof.
  induction l as [|a l IH]; intros H; [reflexivity|]. cbn [map List.concat filter]. rewrite filter_app.
  rewrite (filter_const g (h a) (blk a) (H a (or_introl eq_refl))).
  rewrite IH by (intros x Hx; apply H; right; exact Hx).
  destruct (h a); reflexivity.
Qed.

Lemma Permutation_filter {A} (g : A -> bool) l1 l2 : Permutation l1 l2 -> Permutation (filter g l1) (filter g l2).
Proof.
  induction 1 as [|x l1 l2 P IH|x y l|l1 l2 l3 P1 IH1 P2 IH2]; cbn [filter].
  - constructor.
  - destruct (g x); [constructor|]; exact IH.
  - destruct (g x), (g y); try apply Permutation_refl. apply perm_swap.
  - eapply Permutation_trans; eassumption.
Qed.

Lemma NoDup_map_filter {A B} (f : A -> B) (g : A -> bool) l : NoDup (map f l) -> NoDup (map f (filter g l)).
Proof.
  induction l as [|a l IH]; intros H; [constructor|]. cbn [map] in H. inversion H as [|? ? Ha Hl]; subst.
  cbn [filter]. destruct (g a); [|apply IH; exact Hl]. cbn [map]. constructor; [|apply IH; exact Hl].
  intros Hin. apply Ha. apply in_map_iff in Hin as (x & E & Hx). apply filter_In in Hx as [Hx _].
  rewrite <- E. apply in_map. exact Hx.
Qed.

Lemma Forall_filter {A} (P : A -> Prop) (g : A -> bool) l : Forall P l -> Forall P (filter g l).
Proof. intros H. rewrite Forall_forall in *. intros x Hx. apply filter_In in Hx as [Hx _]. apply H. exact Hx. Qed.

Lemma rmapM_nil_inv {A B} (f : A -> res B) l : rmapM f l = Ok [] -> l = [].
Proof.
  destruct l as [|a l]; [reflexivity|]. cbn [rmapM]. destruct (f a); cbn [rbind]; try discriminate.
  destruct (rmapM f l); cbn [rbind]; discriminate.
Qed.

(* ====================================================================== *)
(* the table map                                                           *)
(* ====================================================================== *)
Lemma find_remove_same ts tn : find_table (tables_remove ts tn) tn = None.
Proof.
  induction ts as [|[m u] r IH]; [reflexivity|]. unfold tables_remove in *. cbn [filter fst].
  destruct (str_eqb m tn) eqn:E; cbn [negb]; [exact IH|]. cbn [find_table]. rewrite E. exact IH.
Qed.
Lemma find_remove_other ts tn n : n <> tn -> find_table (tables_remove ts tn) n = find_table ts n.
Proof.
  intros Hne. induction ts as [|[m u] r IH]; [reflexivity|]. unfold tables_remove in *. cbn [filter fst].
  destruct (str_eqb m tn) eqn:E; cbn [negb find_table].
  - apply str_eqb_spec in E. subst m. rewrite (str_eqb_neq tn n) by congruence. exact IH.
  - destruct (str_eqb m n); [reflexivity | exact IH].
Qed.

(* ====================================================================== *)
(* the pool under DELETE: the only change is a decref, which sets the      *)
(* modified flag and keeps code page, width and length                     *)
(* ====================================================================== *)
Definition pool_step (p p' : pool) : Prop :=
  (p' = p \/ p_mod p' = true) /\ p_cp p' = p_cp p /\ p_long p' = p_long p /\
  length (p_strings p') = length (p_strings p).

Lemma pool_step_refl p : pool_step p p.
Proof. repeat split. left. reflexivity. Qed.
Lemma pool_step_trans a b c : pool_step a b -> pool_step b c -> pool_step a c.
Proof.
  intros (A1 & A2 & A3 & A4) (B1 & B2 & B3 & B4). split; [|split; [congruence | split; congruence]].
  destruct B1 as [->|B1]; [exact A1 | right; exact B1].
Qed.

Lemma decref_pool_step prof p r p' : pool_decref prof p r = Ok p' -> pool_step p p'.
Proof.
  unfold pool_decref. rewrite decref_at_N_eq. intros H.
  destruct (match prof with Debug => _ | Release => _ end) as [[]| |]; cbn [rbind] in H; try discriminate.
  destruct (r =? 0); [discriminate|].
  destruct (decref_at (p_strings p) (N.to_nat (r - 1))) as [l|] eqn:E;
    [|destruct POOL_DECREF_PANICS; [discriminate|inversion H; subst; split; [left; reflexivity|repeat split]]].
  inversion H; subst. cbn [p_strings p_long p_cp p_mod]. apply decref_at_length in E.
  split; [right; reflexivity|]. repeat split. exact E.
Qed.

Lemma remove_refs_pool_step prof : forall row p p', remove_refs prof p row = Ok p' -> pool_step p p'.
Proof.
  induction row as [|v vs IH]; intros p p' H; cbn [remove_refs] in H.
  - inversion H. apply pool_step_refl.
  - destruct (vref_remove prof p v) as [p1| |] eqn:E; cbn [rbind] in H; try discriminate.
    eapply pool_step_trans; [|eapply IH; exact H].
    destruct v; cbn [vref_remove] in E; try (inversion E; apply pool_step_refl).
    eapply decref_pool_step; exact E.
Qed.

Lemma delete_loop_pool_step prof t cond : forall rows p p' kept,
  delete_loop prof p t cond rows = Ok (p', kept) -> pool_step p p'.
Proof.
  induction rows as [|row rs IH]; intros p p' kept H; cbn [delete_loop] in H.
  - inversion H. apply pool_step_refl.
  - destruct (cond_holds prof p t cond row) as [d| |]; cbn [rbind] in H; try discriminate.
    destruct d.
    + destruct (remove_refs prof p row) as [p1| |] eqn:E; cbn [rbind] in H; try discriminate.
      eapply pool_step_trans; [eapply remove_refs_pool_step; exact E | eapply IH; exact H].
    + destruct (delete_loop prof p t cond rs) as [[p2 k]| |] eqn:E; cbn [rbind] in H; try discriminate.
      inversion H; subst. eapply IH; exact E.
Qed.

(* what exec_delete does to the container and the pool *)
Lemma exec_delete_shape prof c p ts tn cond c' p' :
  exec_delete prof c p ts tn cond = Ok (c', p') ->
  exists t bs, find_table ts tn = Some t /\ c' = ct_write c (stream_name_of t) bs /\ pool_step p p'.
Proof.
  unfold exec_delete. intros H.
  destruct (find_table ts tn) as [t|]; cbn [of_opt rbind] in H; [|discriminate].
  destruct (negb (cond_ok t cond)); [discriminate|].
  destruct (load_rows c t) as [rows| |]; cbn [rbind] in H; try discriminate.
  destruct (delete_loop prof p t cond rows) as [[p1 kept]| |] eqn:E; cbn [rbind] in H; try discriminate.
  unfold store_rows in H. destruct (write_rows prof t kept) as [bs| |]; cbn [rbind] in H; try discriminate.
  inversion H; subst. exists t, bs. split; [reflexivity|]. split; [reflexivity|].
  eapply delete_loop_pool_step; exact E.
Qed.

(* ====================================================================== *)
(* the stream listing ignores table streams                                *)
(* ====================================================================== *)
Lemma names_streams_app a b : names_streams (a ++ b) = names_streams a ++ names_streams b.
Proof. unfold names_streams. apply flat_map_app. Qed.

Lemma names_streams_table_entry (m : str) : (exists r, m = TABLE_PREFIX :: r) -> names_streams [m] = [].
Proof.
  intros (r & ->). unfold names_streams. cbn [flat_map]. rewrite app_nil_r.
  destruct (existsb _ special_names); [reflexivity|].
  unfold sn_decode. rewrite N.eqb_refl. reflexivity.
Qed.

Lemma table_stream_prefixed t : exists r, stream_name_of t = TABLE_PREFIX :: r.
Proof. unfold stream_name_of, sn_encode. cbn [app]. eexists. reflexivity. Qed.

Lemma names_streams_write c t bs :
  names_streams (ct_names (ct_write c (stream_name_of t) bs)) = names_streams (ct_names c).
Proof.
  unfold ct_names, ct_write. cbn [ct_entries].
  destruct (ct_put_names (ct_entries c) (stream_name_of t) bs) as [-> | ->]; [reflexivity|].
  rewrite names_streams_app, (names_streams_table_entry _ (table_stream_prefixed t)), app_nil_r. reflexivity.
Qed.

Lemma upper_ascii_prefix c : upper_ascii c = TABLE_PREFIX -> c = TABLE_PREFIX.
Proof.
  unfold upper_ascii. assert (E : TABLE_PREFIX = 18496) by reflexivity. rewrite E.
  destruct ((97 <=? c) && (c <=? 122)) eqn:B; intros H; lia.
Qed.

Lemma name_eqb_table_prefixed m t : name_eqb m (stream_name_of t) = true -> exists r, m = TABLE_PREFIX :: r.
Proof.
  intros H. apply StreamProofs.name_eqb_true_iff in H. destruct (table_stream_prefixed t) as (r & E). rewrite E in H.
  unfold name_key in H. destruct m as [|c m]; cbn [map] in H; [discriminate|].
  injection H as H1 _. change (upper_ascii TABLE_PREFIX) with TABLE_PREFIX in H1.
  apply upper_ascii_prefix in H1. subst c. eexists. reflexivity.
Qed.

Lemma names_streams_remove l t :
  names_streams (map fst (filter (fun e : str * bytes => negb (name_eqb (fst e) (stream_name_of t))) l)) =
  names_streams (map fst l).
Proof.
  induction l as [|[m x] l IH]; [reflexivity|]. cbn [filter fst map].
  change (m :: map fst l) with ([m] ++ map fst l). rewrite names_streams_app.
  destruct (name_eqb m (stream_name_of t)) eqn:E; cbn [negb].
  - rewrite IH, (names_streams_table_entry m (name_eqb_table_prefixed _ _ E)). reflexivity.
  - cbn [map fst]. change (m :: ?r) with ([m] ++ r). rewrite names_streams_app, IH. reflexivity.
Qed.

(* ====================================================================== *)
(* the invariant between the steps of drop_table: PInv2 without the        *)
(* catalog contents (catalog_ok) and the per-table order (tables_sorted_valid) *)
(* ====================================================================== *)
Definition MInv (k : pkg) : Prop :=
  Inv (the_db k) /\ p_cp (k_pool k) = cp_utf8 /\ ps_ok (k_sum k) /\ ps_fmtid (k_sum k) = FMTID /\
  tabs_wf k /\ disk_ok k /\ flags_ok k /\ pool_len_ok (the_db k).

Lemma PInv2_MInv prof k : PInv2 prof k -> MInv k.
Proof. intros [(A & B & C & D & E & _ & _ & F & G) H]. unfold MInv. tauto. Qed.

(* what no step of drop_table touches *)
Definition kframe (k k' : pkg) : Prop :=
  k_tabs k' = k_tabs k /\ k_type k' = k_type k /\ k_sum k' = k_sum k /\ k_sum_mod k' = k_sum_mod k /\
  p_long (k_pool k') = p_long (k_pool k) /\
  names_streams (ct_names (k_cont k')) = names_streams (ct_names (k_cont k)).

Lemma kframe_trans a b c : kframe a b -> kframe b c -> kframe a c.
Proof. intros (A1 & A2 & A3 & A4 & A5 & A6) (B1 & B2 & B3 & B4 & B5 & B6). repeat split; congruence. Qed.

Lemma tabs_wf_frame k k' : k_tabs k' = k_tabs k -> p_long (k_pool k') = p_long (k_pool k) -> tabs_wf k -> tabs_wf k'.
Proof. intros E1 E2 H. unfold tabs_wf, user_tabs in *. rewrite E1, E2. exact H. Qed.

Lemma table_special3 k e : tabs_wf k -> In e (k_tabs k) -> special3 (stream_name_of (snd e)).
Proof.
  intros (_ & _ & _ & _ & F1 & _) He. rewrite Forall_forall in F1.
  destruct (F1 e He) as (V & R & Esnd). rewrite Esnd. unfold stream_name_of. cbn [t_name].
  apply table_stream_special3; assumption.
Qed.

Lemma Inv_tname d n t : Inv d -> In (n, t) (d_tabs d) -> t_name t = n.
Proof. intros (_ & _ & F & _) Hin. rewrite Forall_forall in F. apply (F _ Hin). Qed.

Lemma Inv_skey_neq d e1 e2 : Inv d -> In e1 (d_tabs d) -> In e2 (d_tabs d) -> fst e1 <> fst e2 ->
  name_eqb (stream_name_of (snd e1)) (stream_name_of (snd e2)) = false.
Proof.
  intros (_ & Hnd & _) H1 H2 Hne. apply StreamProofs.name_eqb_false_iff. intros E. apply Hne.
  rewrite (DeleteRefine.NoDup_map_inj (fun e => name_key (stream_name_of (snd e))) _ e1 e2 Hnd H1 H2 E). reflexivity.
Qed.

(* ====================================================================== *)
(* one DELETE at package level                                             *)
(* ====================================================================== *)
Lemma del_step prof k tn t cond :
  MInv k -> find_table (k_tabs k) tn = Some t -> cond_ok t cond = true ->
  exists k', pkg_delete prof k tn cond = (k', Ok tt) /\ MInv k' /\ kframe k k' /\
    (forall old, tvals prof (the_db k) t = Ok old ->
       tvals prof (the_db k') t = Ok (filter (fun r => negb (holds_v t cond r)) old)) /\
    (forall e, In e (k_tabs k) -> fst e <> tn -> tvals prof (the_db k') (snd e) = tvals prof (the_db k) (snd e)) /\
    (forall s, name_eqb s (stream_name_of t) = false ->
       ct_find (ct_entries (k_cont k')) s = ct_find (ct_entries (k_cont k)) s) /\
    ct_exists (k_cont k') (stream_name_of t) = true.
Proof.
  intros (HInv & Hcp & Hps & Hfmt & Htw & Hdisk & Hflags & Hlen) Hfind Hc.
  pose proof (find_table_in _ _ _ Hfind) as Hin.
  destruct (delete_total prof (the_db k) tn t cond HInv Hin Hfind Hc) as (c' & p' & Hex).
  cbn [the_db d_cont d_pool d_tabs] in Hex.
  destruct (delete_refines prof (the_db k) tn t cond c' p' HInv Hin Hfind Hex) as (HInv' & (old & Hold & Hnew) & Hoth & Hfr & Hcl).
  cbn [the_db d_cont d_pool d_tabs] in HInv', Hnew, Hoth, Hfr, Hcl.
  destruct (exec_delete_shape _ _ _ _ _ _ _ _ Hex) as (t0 & bs & Hf0 & Hc' & (Hpm & Hpcp & Hplong & Hplen)).
  rewrite Hfind in Hf0. inversion Hf0; subst t0. clear Hf0.
  exists (with_cp (set_finisher k) c' p').
  assert (Hsp : special3 (stream_name_of t)) by apply (table_special3 k (tn, t) Htw Hin).
  destruct Hsp as (Ns & Np & Nd).
  split; [|split; [|split; [|split; [|split; [|split]]]]].
  - unfold pkg_delete. cbn [set_finisher k_cont k_pool k_tabs]. rewrite Hex. reflexivity.
  - unfold MInv. cbn [with_cp set_finisher k_pool k_sum k_cont k_tabs k_type k_sum_mod k_fin the_db].
    refine (conj HInv' (conj _ (conj Hps (conj Hfmt (conj _ (conj _ (conj _ _))))))).
    + rewrite Hpcp. exact Hcp.
    + apply (tabs_wf_frame k); [reflexivity | exact Hplong | exact Htw].
    + destruct Hdisk as (Dcl & Dp & Ds). unfold disk_ok. cbn [with_cp set_finisher k_cont k_type k_pool k_sum_mod k_sum].
      split; [rewrite Hcl; exact Dcl|]. split.
      * intros Hm. destruct Hpm as [->|Hpm]; [|congruence]. destruct (Dp Hm) as (A & B & C).
        rewrite !Hfr by (rewrite StreamProofs.name_eqb_sym; assumption). repeat split; assumption.
      * intros Hm. destruct (Ds Hm) as (A & B).
        rewrite Hfr by (rewrite StreamProofs.name_eqb_sym; assumption). split; assumption.
    + apply fin_flags_ok. reflexivity.
    + unfold pool_len_ok in *. cbn [d_pool the_db with_cp set_finisher k_pool] in *. unfold nlen in *. rewrite Hplen, Hplong. exact Hlen.
  - unfold kframe. cbn [with_cp set_finisher k_pool k_sum k_cont k_tabs k_type k_sum_mod].
    repeat split; try reflexivity; [exact Hplong|]. rewrite Hc'. apply names_streams_write.
  - intros old' Ho. rewrite Hold in Ho. inversion Ho; subst old'. exact Hnew.
  - intros [n' t'] He Hne. cbn [fst snd] in *. apply (Hoth n' t' He Hne).
  - intros s Hs. cbn [with_cp k_cont]. apply Hfr. exact Hs.
  - cbn [with_cp k_cont]. rewrite Hc'. unfold ct_exists. rewrite find_write, StreamProofs.name_eqb_refl. reflexivity.
Qed.

(* ====================================================================== *)
(* removing the stream of a table that holds no rows                       *)
(* ====================================================================== *)
Lemma tvals_nil prof d t : tvals prof d t = Ok [] -> load_rows (d_cont d) t = Ok [].
Proof.
  unfold tvals. destruct (load_rows (d_cont d) t) as [rows| |]; cbn [rbind]; try discriminate.
  intros H. apply rmapM_nil_inv in H. subst rows. reflexivity.
Qed.

Lemma load_rows_removed c n c1 t' : ct_remove c n = Ok c1 ->
  load_rows c1 t' = if name_eqb n (stream_name_of t') then Ok [] else load_rows c t'.
Proof.
  intros H. unfold load_rows. rewrite (find_remove _ _ _ (stream_name_of t') H).
  destruct (name_eqb n (stream_name_of t')); reflexivity.
Qed.

Lemma rm_step prof k tn t c1 :
  MInv k -> find_table (k_tabs k) tn = Some t -> tvals prof (the_db k) t = Ok [] ->
  ct_remove (k_cont k) (stream_name_of t) = Ok c1 ->
  let k1 := with_cont k c1 in
  MInv k1 /\ kframe k k1 /\ tvals prof (the_db k1) t = Ok [] /\
  (forall e, In e (k_tabs k) -> fst e <> tn -> tvals prof (the_db k1) (snd e) = tvals prof (the_db k) (snd e)) /\
  (forall s, name_eqb s (stream_name_of t) = false ->
     ct_find (ct_entries (k_cont k1)) s = ct_find (ct_entries (k_cont k)) s) /\
  ct_find (ct_entries (k_cont k1)) (stream_name_of t) = None.
Proof.
  intros (HInv & Hcp & Hps & Hfmt & Htw & Hdisk & Hflags & Hlen) Hfind Hnil Hrm. cbv zeta.
  pose proof (find_table_in _ _ _ Hfind) as Hin.
  pose proof (tvals_nil _ _ _ Hnil) as Hl0. cbn [the_db d_cont] in Hl0.
  assert (Hsp : special3 (stream_name_of t)) by apply (table_special3 k (tn, t) Htw Hin).
  destruct Hsp as (Ns & Np & Nd).
  assert (Hfr : forall s, name_eqb s (stream_name_of t) = false ->
                 ct_find (ct_entries c1) s = ct_find (ct_entries (k_cont k)) s).
  { intros s Hs. rewrite (find_remove _ _ _ s Hrm), StreamProofs.name_eqb_sym, Hs. reflexivity. }
  assert (Hoth : forall e, In e (k_tabs k) -> fst e <> tn ->
                   name_eqb (stream_name_of t) (stream_name_of (snd e)) = false).
  { intros e He Hne. apply (Inv_skey_neq (the_db k) (tn, t) e HInv Hin He). cbn [fst]. congruence. }
  assert (Hrows : forall e, In e (k_tabs k) -> rows_of c1 (snd e) = rows_of (k_cont k) (snd e)).
  { intros e He. unfold rows_of. rewrite (load_rows_removed _ _ _ (snd e) Hrm).
    destruct (name_eqb (stream_name_of t) (stream_name_of (snd e))) eqn:E; [|reflexivity].
    destruct (list_eq_dec N.eq_dec (fst e) tn) as [Et|Et]; [|rewrite (Hoth e He Et) in E; discriminate].
    destruct HInv as (_ & Hnd & _). apply StreamProofs.name_eqb_true_iff in E.
    pose proof (DeleteRefine.NoDup_map_inj (fun e => name_key (stream_name_of (snd e))) _ (tn, t) e Hnd Hin He E) as Ee.
    subst e. cbn [snd]. rewrite Hl0. reflexivity. }
  split; [|split; [|split; [|split; [|split]]]].
  - unfold MInv. cbn [with_cont with_cp k_pool k_sum k_cont k_tabs k_type k_sum_mod k_fin the_db].
    refine (conj _ (conj Hcp (conj Hps (conj Hfmt (conj _ (conj _ (conj Hflags Hlen))))))).
    + destruct HInv as (Hwf & Hnd & Htok & Hacc). unfold Inv, the_db in *. cbn [d_pool d_tabs d_cont with_cont with_cp k_cont k_pool k_tabs] in *.
      refine (conj Hwf (conj Hnd (conj _ _))); unfold table_ok.
      * rewrite Forall_forall in *. intros e He. destruct (Htok e He) as (A & B & C & rows & D & E).
        refine (conj A (conj B (conj C _))). rewrite (load_rows_removed _ _ _ (snd e) Hrm).
        destruct (name_eqb (stream_name_of t) (stream_name_of (snd e))).
        -- exists []. split; [reflexivity | constructor].
        -- exists rows. split; assumption.
      * intros r Hr. rewrite (Hacc r Hr). f_equal. symmetry. apply all_rows_ext. exact Hrows.
    + apply (tabs_wf_frame k); [reflexivity | reflexivity | exact Htw].
    + destruct Hdisk as (Dcl & Dp & Ds). unfold disk_ok. cbn [with_cont with_cp k_cont k_type k_pool k_sum_mod k_sum].
      split; [|split].
      * rewrite <- Dcl. unfold ct_remove in Hrm. destruct (ct_exists (k_cont k) (stream_name_of t)); [|discriminate].
        inversion Hrm. reflexivity.
      * intros Hm. destruct (Dp Hm) as (A & B & C).
        rewrite !Hfr by (rewrite StreamProofs.name_eqb_sym; assumption). repeat split; assumption.
      * intros Hm. destruct (Ds Hm) as (A & B).
        rewrite Hfr by (rewrite StreamProofs.name_eqb_sym; assumption). split; assumption.
  - unfold kframe. cbn [with_cont with_cp k_pool k_sum k_cont k_tabs k_type k_sum_mod].
    repeat split; try reflexivity. unfold ct_names. rewrite (ct_remove_entries _ _ _ Hrm). apply names_streams_remove.
  - unfold tvals. cbn [the_db with_cont with_cp k_cont k_pool d_cont d_pool].
    rewrite (load_rows_removed _ _ _ t Hrm), StreamProofs.name_eqb_refl. reflexivity.
  - intros e He Hne. unfold the_db. cbn [with_cont with_cp k_cont k_pool k_tabs].
    apply tvals_frame; [reflexivity|]. apply Hfr. rewrite StreamProofs.name_eqb_sym. apply Hoth; assumption.
  - intros s Hs. cbn [with_cont with_cp k_cont]. apply Hfr. exact Hs.
  - cbn [with_cont with_cp k_cont]. rewrite (find_remove _ _ _ _ Hrm), StreamProofs.name_eqb_refl. reflexivity.
Qed.

(* ====================================================================== *)
(* the conditions drop_table builds                                        *)
(* ====================================================================== *)
Lemma value_eqb_str a b : value_eqb (VStr a) (VStr b) = str_eqb a b.
Proof.
  destruct (str_eqb a b) eqn:E.
  - apply str_eqb_spec in E. subst. apply value_eqb_spec. reflexivity.
  - destruct (value_eqb (VStr a) (VStr b)) eqn:E2; [|reflexivity].
    apply value_eqb_spec in E2. inversion E2; subst. rewrite str_eqb_refl in E. discriminate.
Qed.

Lemma to_from_bool b : to_bool (from_bool b) = b.
Proof. destruct b; reflexivity. Qed.

(* the condition  col = 'tn'  on a row whose first cell belongs to column col *)
Lemma holds_first t col names tn v rest : map c_name (t_cols t) = col :: names ->
  holds_v t (table_eq_cond col tn) (v :: rest) = value_eqb v (VStr tn).
Proof.
  intros E. unfold holds_v, table_eq_cond, mk_binop, row_env. rewrite E. cbn [combine eval lookup].
  rewrite str_eqb_refl. cbn [unwrap rbind binop_eval]. apply to_from_bool.
Qed.

Lemma first_col_tables long : exists names, map c_name (t_cols (tables_table long)) = s_Name :: names.
Proof. eexists. vm_compute. reflexivity. Qed.
Lemma first_col_columns long : exists names, map c_name (t_cols (columns_table long)) = s_Table :: names.
Proof. eexists. vm_compute. reflexivity. Qed.
Lemma first_col_validation long : exists names, map c_name (t_cols (validation_table long)) = s_Table :: names.
Proof. eexists. vm_compute. reflexivity. Qed.

Lemma cond_ok_tables long tn : cond_ok (tables_table long) (table_eq_cond s_Name tn) = true.
Proof. vm_compute. reflexivity. Qed.
Lemma cond_ok_columns long tn : cond_ok (columns_table long) (table_eq_cond s_Table tn) = true.
Proof. vm_compute. reflexivity. Qed.
Lemma cond_ok_validation long tn : cond_ok (validation_table long) (table_eq_cond s_Table tn) = true.
Proof. vm_compute. reflexivity. Qed.

(* the rows a catalog DELETE keeps *)
Definition gsel (t : table) (col tn : str) (r : list value) : bool := negb (holds_v t (table_eq_cond col tn) r).

Lemma gsel_first t col names tn n rest : map c_name (t_cols t) = col :: names ->
  gsel t col tn (VStr n :: rest) = negb (str_eqb n tn).
Proof. intros E. unfold gsel. rewrite (holds_first t col names tn _ _ E), value_eqb_str. reflexivity. Qed.

Lemma not_reserved tn : is_reserved tn = false ->
  tn <> COLUMNS_TABLE_NAME /\ tn <> TABLES_TABLE_NAME /\ tn <> VALIDATION_TABLE_NAME.
Proof.
  unfold is_reserved, RESERVED_TABLE_NAMES. cbn [existsb]. intros H.
  apply orb_false_iff in H as [H1 H]. apply orb_false_iff in H as [H2 H]. apply orb_false_iff in H as [H3 _].
  repeat split; intros ->; rewrite str_eqb_refl in *; discriminate.
Qed.

Lemma catalog_names_distinct :
  VALIDATION_TABLE_NAME <> COLUMNS_TABLE_NAME /\ VALIDATION_TABLE_NAME <> TABLES_TABLE_NAME /\
  COLUMNS_TABLE_NAME <> TABLES_TABLE_NAME.
Proof. repeat split; discriminate. Qed.

(* ====================================================================== *)
(* the five steps of drop_table                                            *)
(* ====================================================================== *)
Lemma drop_chain prof k tn t :
  MInv k -> is_reserved tn = false -> find_table (k_tabs k) tn = Some t ->
  let long := p_long (k_pool k) in
  exists k4, pkg_drop_table prof k tn = (with_tabs k4 (tables_remove (k_tabs k4) tn), Ok tt) /\
    MInv k4 /\ kframe k k4 /\
    tvals prof (the_db k4) t = Ok [] /\
    ct_find (ct_entries (k_cont k4)) (stream_name_of t) = None /\
    (forall e, In e (k_tabs k) -> fst e <> tn -> fst e <> VALIDATION_TABLE_NAME -> fst e <> COLUMNS_TABLE_NAME ->
       fst e <> TABLES_TABLE_NAME -> tvals prof (the_db k4) (snd e) = tvals prof (the_db k) (snd e)) /\
    (forall old, tvals prof (the_db k) (validation_table long) = Ok old ->
       tvals prof (the_db k4) (validation_table long) = Ok (filter (gsel (validation_table long) s_Table tn) old)) /\
    (forall old, tvals prof (the_db k) (columns_table long) = Ok old ->
       tvals prof (the_db k4) (columns_table long) = Ok (filter (gsel (columns_table long) s_Table tn) old)) /\
    (forall old, tvals prof (the_db k) (tables_table long) = Ok old ->
       tvals prof (the_db k4) (tables_table long) = Ok (filter (gsel (tables_table long) s_Name tn) old)) /\
    (forall s, name_eqb s (stream_name_of t) = false -> name_eqb s (stream_name_of (validation_table long)) = false ->
       name_eqb s (stream_name_of (columns_table long)) = false ->
       name_eqb s (stream_name_of (tables_table long)) = false ->
       ct_find (ct_entries (k_cont k4)) s = ct_find (ct_entries (k_cont k)) s).
Proof.
  intros HM Hres Hfind long.
  pose proof HM as (HInv & _ & _ & _ & Htw & _).
  pose proof Htw as (HS & HfT & HfC & HfV & F1 & _). fold long in HfT, HfC, HfV.
  pose proof (find_table_in _ _ _ Hfind) as Hin.
  assert (Hval : is_valid_tname tn = true).
  { rewrite Forall_forall in F1. apply (F1 _ Hin). }
  destruct (not_reserved tn Hres) as (NC & NT & NV).
  destruct catalog_names_distinct as (VC & VT & CT).
  pose proof (find_table_in _ _ _ HfT) as HinT. pose proof (find_table_in _ _ _ HfC) as HinC.
  pose proof (find_table_in _ _ _ HfV) as HinV.
  (* step 0: all rows of the table *)
  destruct (del_step prof k tn t None HM Hfind eq_refl) as (k0 & E0 & M0 & F0 & T0 & O0 & S0 & X0).
  pose proof F0 as (Ets0 & _).
  assert (Hnil0 : tvals prof (the_db k0) t = Ok []).
  { destruct HInv as (_ & _ & Htok & _). rewrite Forall_forall in Htok.
    destruct (Htok _ Hin) as (_ & _ & _ & rows & Hl & Hrok). cbn [snd the_db d_cont] in Hl, Hrok.
    destruct (rmapM_total prof (k_pool k) rows (shaped_refs t rows (rows_ok_shaped _ _ Hrok))) as (vals & Hv).
    assert (Hold : tvals prof (the_db k) t = Ok vals).
    { unfold tvals. cbn [the_db d_cont d_pool]. rewrite Hl. exact Hv. }
    rewrite (T0 _ Hold). cbn [holds_v negb]. rewrite filter_false. reflexivity. }
  (* step 1: the stream *)
  set (c1 := mkct (ct_clsid (k_cont k0))
               (filter (fun e => negb (name_eqb (fst e) (stream_name_of t))) (ct_entries (k_cont k0)))).
  assert (Erm : ct_remove (k_cont k0) (stream_name_of t) = Ok c1).
  { unfold ct_remove. rewrite X0. reflexivity. }
  assert (Hfind0 : find_table (k_tabs k0) tn = Some t) by (rewrite Ets0; exact Hfind).
  destruct (rm_step prof k0 tn t c1 M0 Hfind0 Hnil0 Erm) as (M1 & F1' & Hnil1 & O1 & S1 & X1).
  set (k1 := with_cont k0 c1) in *.
  pose proof (kframe_trans _ _ _ F0 F1') as F01. pose proof F01 as (Ets1 & _ & _ & _ & El1 & _).
  (* step 2: _Validation *)
  assert (HfV1 : find_table (k_tabs k1) VALIDATION_TABLE_NAME = Some (validation_table long)) by (rewrite Ets1; exact HfV).
  destruct (del_step prof k1 VALIDATION_TABLE_NAME (validation_table long) (table_eq_cond s_Table tn) M1 HfV1
              (cond_ok_validation long tn)) as (k2 & E2 & M2 & F2 & T2 & O2 & S2 & _).
  pose proof (kframe_trans _ _ _ F01 F2) as F02. pose proof F02 as (Ets2 & _).
  (* step 3: _Columns *)
  assert (HfC2 : find_table (k_tabs k2) COLUMNS_TABLE_NAME = Some (columns_table long)) by (rewrite Ets2; exact HfC).
  destruct (del_step prof k2 COLUMNS_TABLE_NAME (columns_table long) (table_eq_cond s_Table tn) M2 HfC2
              (cond_ok_columns long tn)) as (k3 & E3 & M3 & F3 & T3 & O3 & S3 & _).
  pose proof (kframe_trans _ _ _ F02 F3) as F03. pose proof F03 as (Ets3 & _).
  (* step 4: _Tables *)
  assert (HfT3 : find_table (k_tabs k3) TABLES_TABLE_NAME = Some (tables_table long)) by (rewrite Ets3; exact HfT).
  destruct (del_step prof k3 TABLES_TABLE_NAME (tables_table long) (table_eq_cond s_Name tn) M3 HfT3
              (cond_ok_tables long tn)) as (k4 & E4 & M4 & F4 & T4 & O4 & S4 & _).
  pose proof (kframe_trans _ _ _ F03 F4) as F04.
  (* how a table that one step leaves alone reads after it *)
  assert (Q0 : forall n u, In (n, u) (k_tabs k) -> n <> tn -> tvals prof (the_db k1) u = tvals prof (the_db k) u).
  { intros n u He Hne. transitivity (tvals prof (the_db k0) u).
    - apply (O1 (n, u)); [rewrite Ets0; exact He | exact Hne].
    - apply (O0 (n, u)); assumption. }
  assert (Q2 : forall n u, In (n, u) (k_tabs k) -> n <> VALIDATION_TABLE_NAME ->
                 tvals prof (the_db k2) u = tvals prof (the_db k1) u).
  { intros n u He Hne. apply (O2 (n, u)); [rewrite Ets1; exact He | exact Hne]. }
  assert (Q3 : forall n u, In (n, u) (k_tabs k) -> n <> COLUMNS_TABLE_NAME ->
                 tvals prof (the_db k3) u = tvals prof (the_db k2) u).
  { intros n u He Hne. apply (O3 (n, u)); [rewrite Ets2; exact He | exact Hne]. }
  assert (Q4 : forall n u, In (n, u) (k_tabs k) -> n <> TABLES_TABLE_NAME ->
                 tvals prof (the_db k4) u = tvals prof (the_db k3) u).
  { intros n u He Hne. apply (O4 (n, u)); [rewrite Ets3; exact He | exact Hne]. }
  exists k4. split; [|split; [exact M4 | split; [exact F04|]]].
  { unfold pkg_drop_table. rewrite Hres, Hval. cbn [negb]. rewrite Hfind, E0, X0, Erm. cbv zeta.
    fold k1. rewrite HfV1, E2, E3, E4. reflexivity. }
  split.
  { rewrite (Q4 tn t), (Q3 tn t), (Q2 tn t); assumption. }
  split.
  { rewrite S4, S3, S2; [exact X1| | |].
    - apply (Inv_skey_neq (the_db k) (tn, t) (VALIDATION_TABLE_NAME, validation_table long)); cbn [fst]; assumption.
    - apply (Inv_skey_neq (the_db k) (tn, t) (COLUMNS_TABLE_NAME, columns_table long)); cbn [fst]; assumption.
    - apply (Inv_skey_neq (the_db k) (tn, t) (TABLES_TABLE_NAME, tables_table long)); cbn [fst]; assumption. }
  split.
  { intros [n u] He N1 N2 N3 N4. cbn [fst snd] in *.
    rewrite (Q4 n u), (Q3 n u), (Q2 n u), (Q0 n u); try assumption. reflexivity. }
  split.
  { intros old Ho.
    rewrite (Q4 _ _ HinV), (Q3 _ _ HinV) by assumption.
    apply T2. rewrite <- Ho. apply (Q0 _ _ HinV). congruence. }
  split.
  { intros old Ho.
    rewrite (Q4 _ _ HinC) by assumption.
    apply T3. rewrite <- Ho. rewrite (Q2 _ _ HinC) by congruence. apply (Q0 _ _ HinC). congruence. }
  split.
  { intros old Ho. apply T4. rewrite <- Ho.
    rewrite (Q3 _ _ HinT) by congruence. rewrite (Q2 _ _ HinT) by congruence. apply (Q0 _ _ HinT). congruence. }
  intros s H1 H2 H3 H4. rewrite S4, S3, S2, S1, S0; try assumption. reflexivity.
Qed.

(* ====================================================================== *)
(* drop_table_cases                                                        *)
(* ====================================================================== *)
Theorem drop_table_cases : forall prof k tn,
  PInv2 prof k ->
  (pkg_drop_table prof k tn = (k, Err) /\
     (is_reserved tn = true \/ is_valid_tname tn = false \/ find_table (k_tabs k) tn = None)) \/
  (exists k', pkg_drop_table prof k tn = (k', Ok tt)).
Proof.
  intros prof k tn HP.
  destruct (is_reserved tn) eqn:Hres.
  { left. split; [apply drop_table_arg_errors; left; exact Hres | left; reflexivity]. }
  destruct (find_table (k_tabs k) tn) as [t|] eqn:Hfind.
  2:{ left. split; [apply drop_table_arg_errors; right; right; exact Hfind | right; right; reflexivity]. }
  right. destruct (drop_chain prof k tn t (PInv2_MInv prof k HP) Hres Hfind) as (k4 & E & _).
  eexists. exact E.
Qed.

(* ====================================================================== *)
(* taking an entry without rows out of the table map                       *)
(* ====================================================================== *)
Lemma all_rows_remove c tn : forall ts,
  (forall e, In e ts -> fst e = tn -> rows_of c (snd e) = []) ->
  all_rows c (tables_remove ts tn) = all_rows c ts.
Proof.
  induction ts as [|e ts IH]; intros H; [reflexivity|]. unfold tables_remove in *. cbn [filter all_rows].
  destruct (str_eqb (fst e) tn) eqn:E; cbn [negb all_rows].
  - apply str_eqb_spec in E. rewrite (H e (or_introl eq_refl) E). cbn [app].
    apply IH. intros x Hx. apply H. right. exact Hx.
  - f_equal. apply IH. intros x Hx. apply H. right. exact Hx.
Qed.

Lemma Inv_remove c p ts tn :
  Inv (mkdb c p ts) -> (forall e, In e ts -> fst e = tn -> rows_of c (snd e) = []) ->
  Inv (mkdb c p (tables_remove ts tn)).
Proof.
  intros (Hwf & Hnd & Htok & Hacc) H. unfold Inv in *. cbn [d_pool d_tabs d_cont] in *.
  refine (conj Hwf (conj _ (conj _ _))).
  - apply NoDup_map_filter. exact Hnd.
  - apply Forall_filter. exact Htok.
  - intros r Hr. rewrite (Hacc r Hr), (all_rows_remove c tn ts H). reflexivity.
Qed.

Lemma sorted_by_key_filter t (g : list value -> bool) vals : sorted_by_key t vals -> sorted_by_key t (filter g vals).
Proof.
  unfold sorted_by_key. intros H. apply SS_unmap in H.
  apply (SS_map_in (fun a b => key_lt (key_of t a) (key_of t b)) key_lt (key_of t)); [auto|].
  apply SS_filter. exact H.
Qed.
Lemma rows_valid_filter t (g : list value -> bool) vals : rows_valid t vals -> rows_valid t (filter g vals).
Proof. apply Forall_filter. Qed.

(* ====================================================================== *)
(* the rows that describe a table start with its name                      *)
(* ====================================================================== *)
Definition keep (tn : str) (e : str * table) : bool := negb (str_eqb (fst e) tn).

Lemma columns_block_first n cols r : n <> [] -> In r (stored (columns_rows n cols)) -> exists rest, r = VStr n :: rest.
Proof.
  intros Hn Hr. rewrite stored_columns_rows in Hr. apply in_map_iff in Hr as (ic & <- & _).
  unfold crow. cbn [map]. rewrite (norm_str n Hn). eexists. reflexivity.
Qed.
Lemma validation_block_first n cols r : n <> [] -> In r (stored (validation_rows n cols)) -> exists rest, r = VStr n :: rest.
Proof.
  intros Hn Hr. rewrite stored_validation_rows in Hr. apply in_map_iff in Hr as (c & <- & _).
  unfold nvrow, vrow. cbn [map]. rewrite (norm_str n Hn). eexists. reflexivity.
Qed.

Lemma user_tabs_remove k ts' tn : ts' = tables_remove (k_tabs k) tn ->
  user_tabs (with_tabs k ts') = filter (keep tn) (user_tabs k).
Proof. intros ->. unfold user_tabs, tables_remove, keep. cbn [with_tabs k_tabs]. apply filter_comm. Qed.

(* ====================================================================== *)
(* drop_table_ok                                                           *)
(* ====================================================================== *)
Theorem drop_table_ok : forall prof k tn k',
  PInv2 prof k -> pkg_drop_table prof k tn = (k', Ok tt) ->
  PInv2 prof k' /\
  find_table (k_tabs k') tn = None /\
  (forall n, n <> tn -> find_table (k_tabs k') n = find_table (k_tabs k) n) /\
  (forall e, In e (k_tabs k) -> is_core (fst e) = false -> fst e <> VALIDATION_TABLE_NAME -> fst e <> tn ->
     tvals prof (the_db k') (snd e) = tvals prof (the_db k) (snd e)) /\
  ct_find (ct_entries (k_cont k')) (sn_encode tn true) = None /\
  k_type k' = k_type k /\ k_sum k' = k_sum k /\ pkg_streams k' = pkg_streams k /\
  (forall n, sn_is_valid n false = true ->
     ct_find (ct_entries (k_cont k')) (sn_encode n false) = ct_find (ct_entries (k_cont k)) (sn_encode n false)).
Proof.
  intros prof k tn k' HP Hdrop.
  assert (Hres : is_reserved tn = false).
  { destruct (is_reserved tn) eqn:E; [|reflexivity].
    rewrite (drop_table_arg_errors prof k tn) in Hdrop by (left; exact E). discriminate. }
  destruct (find_table (k_tabs k) tn) as [t|] eqn:Hfind.
  2:{ rewrite (drop_table_arg_errors prof k tn) in Hdrop by (right; right; exact Hfind). discriminate. }
  pose proof (PInv2_MInv prof k HP) as HM.
  destruct (drop_chain prof k tn t HM Hres Hfind) as (k4 & E & M4 & F4 & Hnil & Hnone & Hoth & HV & HC & HT & Hfr).
  rewrite E in Hdrop. injection Hdrop as Ek'. symmetry in Ek'. clear E.
  destruct F4 as (Ets & Ety & Esum & Esm & Elong & Enames).
  destruct HP as [(HInv & Hcp & Hps & Hfmt & Htw & Hcat & Hsv & Hdisk & Hflags) Hlen].
  destruct M4 as (HInv4 & Hcp4 & Hps4 & Hfmt4 & _ & Hdisk4 & Hflags4 & Hlen4).
  destruct (user_facts k Htw) as (HUs & HU).
  pose proof Htw as (HS & HfT & HfC & HfV & F1 & F2).
  destruct (not_reserved tn Hres) as (NC & NT & NV).
  set (ts := k_tabs k) in *. set (long := p_long (k_pool k)) in *. set (U := user_tabs k) in *.
  pose proof (find_table_in _ _ _ Hfind) as Hin.
  assert (Htn : stream_name_of t = sn_encode tn true).
  { unfold stream_name_of. rewrite (Inv_tname (the_db k) tn t HInv Hin). reflexivity. }
  assert (HUne : forall e, In e U -> fst e <> []). { intros e He. apply (HU e He). }
  (* the final state, field by field *)
  assert (Ktabs : k_tabs k' = tables_remove ts tn) by (subst k'; cbn [with_tabs k_tabs]; rewrite Ets; reflexivity).
  assert (Kpool : k_pool k' = k_pool k4) by (subst k'; reflexivity).
  assert (Kcont : k_cont k' = k_cont k4) by (subst k'; reflexivity).
  assert (Ktype : k_type k' = k_type k4) by (subst k'; reflexivity).
  assert (Ksum : k_sum k' = k_sum k4) by (subst k'; reflexivity).
  assert (Ksm : k_sum_mod k' = k_sum_mod k4) by (subst k'; reflexivity).
  assert (Kfin : k_fin k' = k_fin k4) by (subst k'; reflexivity).
  assert (Ktv : forall X, tvals prof (the_db k') X = tvals prof (the_db k4) X) by (subst k'; reflexivity).
  assert (EU' : user_tabs k' = filter (keep tn) U).
  { subst k'. rewrite (user_tabs_remove k4 _ tn eq_refl). unfold U, user_tabs. rewrite Ets. reflexivity. }
  assert (Hrows0 : forall e, In e ts -> fst e = tn -> rows_of (k_cont k4) (snd e) = []).
  { intros [n u] He En. cbn [fst snd] in *. subst n.
    pose proof (sorted_find _ _ _ HS He) as Hf. rewrite Hfind in Hf. inversion Hf; subst u.
    pose proof (tvals_nil _ _ _ Hnil) as Hl. cbn [the_db d_cont] in Hl. unfold rows_of. rewrite Hl. reflexivity. }
  destruct (first_col_tables long) as (namesT & EnT).
  destruct (first_col_columns long) as (namesC & EnC).
  destruct (first_col_validation long) as (namesV & EnV).
  split; [split|].
  - (* PInv *)
    refine (conj _ (conj _ (conj _ (conj _ (conj _ (conj _ (conj _ (conj _ _)))))))).
    + unfold the_db. rewrite Kcont, Kpool, Ktabs. apply Inv_remove; [|exact Hrows0].
      unfold the_db in HInv4. rewrite Ets in HInv4. exact HInv4.
    + rewrite Kpool. exact Hcp4.
    + rewrite Ksum. exact Hps4.
    + rewrite Ksum. exact Hfmt4.
    + (* tabs_wf *)
      unfold tabs_wf. cbv zeta. rewrite EU', Ktabs, Kpool, Elong. fold long. unfold tables_remove.
      refine (conj _ (conj _ (conj _ (conj _ (conj _ _))))).
      * apply SS_filter. exact HS.
      * fold (tables_remove ts tn). rewrite find_remove_other by congruence. exact HfT.
      * fold (tables_remove ts tn). rewrite find_remove_other by congruence. exact HfC.
      * fold (tables_remove ts tn). rewrite find_remove_other by congruence. exact HfV.
      * apply Forall_filter. exact F1.
      * apply Forall_filter. exact F2.
    + (* catalog_ok *)
      destruct Hcat as (trows & crows & vrows & Ht & Pt & Hc & Pc & Hv & Pv).
      unfold catalog_ok. cbv zeta. rewrite EU', Kpool, Elong, !Ktv. fold long.
      exists (filter (gsel (tables_table long) s_Name tn) trows),
             (filter (gsel (columns_table long) s_Table tn) crows),
             (filter (gsel (validation_table long) s_Table tn) vrows).
      split; [apply HT; exact Ht|]. split.
      { eapply Permutation_trans; [apply Permutation_filter; exact Pt|]. rewrite filter_map_comm.
        rewrite (filter_ext_in _ (keep tn) U); [apply Permutation_refl|].
        intros e He. apply (gsel_first _ _ namesT tn (fst e) [] EnT). }
      split; [apply HC; exact Hc|]. split.
      { eapply Permutation_trans; [apply Permutation_filter; exact Pc|].
        rewrite (filter_blocks _ (keep tn)); [apply Permutation_refl|].
        intros e He r Hr. destruct (columns_block_first _ _ _ (HUne e He) Hr) as (rest & ->).
        apply (gsel_first _ _ namesC tn (fst e) rest EnC). }
      split; [apply HV; exact Hv|].
      { eapply Permutation_trans; [apply Permutation_filter; exact Pv|].
        rewrite (filter_blocks _ (keep tn)); [apply Permutation_refl|].
        intros e He r Hr. destruct (validation_block_first _ _ _ (HUne e He) Hr) as (rest & ->).
        apply (gsel_first _ _ namesV tn (fst e) rest EnV). }
    + (* tables_sorted_valid *)
      unfold tables_sorted_valid in *. rewrite Ktabs. unfold tables_remove. apply Forall_forall.
      intros e He. apply filter_In in He as [He Hk]. rewrite Ktv.
      rewrite Forall_forall in Hsv. destruct (Hsv e He) as (old & Ho & Hso & Hva).
      assert (Hne : fst e <> tn). { intros Eq. rewrite Eq, str_eqb_refl in Hk. discriminate. }
      assert (Hfe : find_table ts (fst e) = Some (snd e)).
      { apply sorted_find; [exact HS | destruct e; exact He]. }
      assert (G : exists g, tvals prof (the_db k4) (snd e) = Ok (filter g old)).
      { destruct (list_eq_dec N.eq_dec (fst e) VALIDATION_TABLE_NAME) as [EV|NV'].
        { rewrite EV in Hfe. rewrite HfV in Hfe. injection Hfe as Es. rewrite <- Es in *.
          eexists. apply HV. exact Ho. }
        destruct (list_eq_dec N.eq_dec (fst e) COLUMNS_TABLE_NAME) as [EC|NC'].
        { rewrite EC in Hfe. rewrite HfC in Hfe. injection Hfe as Es. rewrite <- Es in *.
          eexists. apply HC. exact Ho. }
        destruct (list_eq_dec N.eq_dec (fst e) TABLES_TABLE_NAME) as [ET|NT'].
        { rewrite ET in Hfe. rewrite HfT in Hfe. injection Hfe as Es. rewrite <- Es in *.
          eexists. apply HT. exact Ho. }
        exists (fun _ => true). rewrite filter_true, <- Ho. apply Hoth; assumption. }
      destruct G as (g & Hg). exists (filter g old). split; [exact Hg|].
      split; [apply sorted_by_key_filter | apply rows_valid_filter]; assumption.
    + unfold disk_ok. rewrite Kcont, Kpool, Ktype, Ksm, Ksum. exact Hdisk4.
    + unfold flags_ok. rewrite Kfin, Ksm, Kpool. exact Hflags4.
  - unfold pool_len_ok, the_db in *. cbn [d_pool] in *. rewrite Kpool. exact Hlen4.
  - split; [rewrite Ktabs; apply find_remove_same|].
    split; [intros n Hn; rewrite Ktabs; apply find_remove_other; exact Hn|].
    split.
    { intros e He Hcore N1 N2. rewrite Ktv. unfold is_core in Hcore. apply orb_false_iff in Hcore as [H1 H2].
      apply Hoth; try assumption; intros Eq; rewrite Eq, str_eqb_refl in *; discriminate. }
    split; [rewrite Kcont, <- Htn; exact Hnone|].
    split; [congruence|]. split; [congruence|].
    split; [rewrite !pkg_streams_eq, Kcont; exact Enames|].
    intros n V. rewrite Kcont. apply Hfr; unfold stream_name_of; apply stream_not_table; exact V.
Qed.

Print Assumptions drop_table_cases.
Print Assumptions drop_table_ok.
