(* ChainOps.v -- two consequences of the package model that the seeded rounds asked for in one place.
   (T1) a change made through summary_info_mut() reaches the next save: whatever state the package is in -- no invariant
        is assumed, so this covers the state a failed save leaves behind (k_sum_mod = true, k_fin = false) -- after a
        successful pkg_summary_mut the next successful flush writes the encoding of the summary AS LAST CHANGED to the
        summary stream, and the later pool writes of the same save do not disturb it.
   (T2/T3) DELETE / UPDATE with a chain of with() restrictions act on exactly the rows for which EVERY restriction,
        judged on its own, holds.  holds_v maps an evaluation error or panic to `false`, and And short-circuits, so the
        chain law needs NO side condition: a row on which some restriction cannot be evaluated fails the chain and
        fails that restriction.  (WithChain.with_chain is the res-valued form, which does need every verdict defined;
        holds_v_sat below is the bridge between the two.) *)
From Coq Require Import Permutation.
From MsiModel Require Import Base Value Expr Category Column CodePage Pool Table Container StreamName Propset Summary Query Package QueryProofs DbInv
  PkgInv PkgInv2 UpdateRefine DmlPkgProofs WithChain.
From MsiGen Require Import GenConsts GenCatalog GenStreamName.

(* ====================================================================== *)
(* T1                                                                      *)
(* ====================================================================== *)
(* the two pool streams are not the summary stream under the container's (case-insensitive) name comparison *)
Lemma summary_not_pool_stream : name_eqb SUMMARY_INFO_STREAM_NAME (sn_encode STRING_POOL_TABLE_NAME true) = false.
Proof. vm_compute. reflexivity. Qed.
Lemma summary_not_data_stream : name_eqb SUMMARY_INFO_STREAM_NAME (sn_encode STRING_DATA_TABLE_NAME true) = false.
Proof. vm_compute. reflexivity. Qed.

Lemma ct_read_write_same c n b : ct_read (ct_write c n b) n = Ok b.
Proof. unfold ct_read, ct_write. cbn [ct_entries]. rewrite DeleteRefine.ct_find_put_same. reflexivity. Qed.
Lemma ct_read_write_other c n b s : name_eqb s n = false -> ct_read (ct_write c n b) s = ct_read c s.
Proof. intro H. unfold ct_read, ct_write. cbn [ct_entries]. rewrite DeleteRefine.ct_find_put_other by exact H. reflexivity. Qed.

Theorem summary_change_reaches_next_save : forall k f k1 k2,
  pkg_summary_mut k f = (k1, Ok tt) -> pkg_flush k1 = Some k2 ->
  exists b, ps_write (k_sum k1) = Some b /\ ct_read (k_cont k2) SUMMARY_INFO_STREAM_NAME = Ok b /\
            k_sum k2 = k_sum k1 /\ k_sum_mod k2 = false /\ k_fin k2 = false.
Proof.
  intros k f k1 k2 Hm Hf. unfold pkg_summary_mut in Hm.
  destruct (f (k_sum k)) as [s| |]; inversion Hm; subst k1; clear Hm.
  unfold pkg_flush, pkg_finish in Hf. cbn [k_cont k_type k_sum k_sum_mod k_pool k_tabs k_fin] in Hf.
  cbn [k_sum]. destruct (ps_write s) as [b|]; [|discriminate Hf]. exists b. split; [reflexivity|].
  cbn [k_cont k_type k_sum k_sum_mod k_pool k_tabs k_fin] in Hf.
  destruct (p_mod (k_pool k)).
  - destruct (write_pool (k_pool k)) as [pb|]; [|discriminate Hf].
    destruct (write_data (k_pool k)) as [db|]; [|discriminate Hf].
    inversion Hf; subst k2; clear Hf. cbn [k_cont k_sum k_sum_mod k_fin].
    split; [|repeat split].
    rewrite (ct_read_write_other _ _ _ _ summary_not_data_stream).
    rewrite (ct_read_write_other _ _ _ _ summary_not_pool_stream).
    apply ct_read_write_same.
  - inversion Hf; subst k2; clear Hf. cbn [k_cont k_sum k_sum_mod k_fin].
    split; [apply ct_read_write_same | repeat split].
Qed.

(* the failed-save state named in the header is an instance: nothing is asked of k *)
Corollary summary_change_after_failed_save : forall k f k1 k2,
  k_sum_mod k = true -> k_fin k = false ->
  pkg_summary_mut k f = (k1, Ok tt) -> pkg_flush k1 = Some k2 ->
  exists b, ps_write (k_sum k1) = Some b /\ ct_read (k_cont k2) SUMMARY_INFO_STREAM_NAME = Ok b.
Proof.
  intros k f k1 k2 _ _ Hm Hf.
  destruct (summary_change_reaches_next_save k f k1 k2 Hm Hf) as (b & Hw & Hr & _). exists b. split; assumption.
Qed.

(* ====================================================================== *)
(* T2: the chain law for holds_v, and DELETE                               *)
(* ====================================================================== *)
(* holds_v is sat on the row built from the table's column names, with Err and Panic read as "does not hold" *)
Lemma holds_v_sat t c r :
  holds_v t c r = match sat (row_env t r) c with Ok b => b | _ => false end.
Proof.
  destruct c as [e|]; cbn [holds_v sat]; [|reflexivity].
  destruct (eval (row_env t r) e); reflexivity.
Qed.

Lemma holds_v_with t c e r : holds_v t (q_with c e) r = (holds_v t c r && holds_v t (Some e) r)%bool.
Proof.
  destruct c as [x|]; cbn [q_with]; [|reflexivity].
  unfold holds_v. cbn [eval].
  destruct (eval (row_env t r) x) as [vx| |]; cbn [rbind]; try reflexivity.
  destruct (to_bool vx); cbn [andb]; [|reflexivity].
  destruct (eval (row_env t r) e) as [ve| |]; cbn [rbind]; try reflexivity.
  apply to_from_bool'.
Qed.

Lemma holds_v_withs t es : forall c r,
  holds_v t (q_withs c es) r = (holds_v t c r && forallb (fun e => holds_v t (Some e) r) es)%bool.
Proof.
  induction es as [|e es IH]; intros c r; unfold q_withs; cbn [fold_left forallb].
  - rewrite Bool.andb_true_r. reflexivity.
  - fold (q_withs (q_with c e) es). rewrite IH, holds_v_with, Bool.andb_assoc. reflexivity.
Qed.

(* no side condition: see the header *)
Theorem holds_v_chain : forall t es r,
  holds_v t (q_withs None es) r = forallb (fun e => holds_v t (Some e) r) es.
Proof. intros t es r. rewrite holds_v_withs. reflexivity. Qed.

(* where every restriction can be evaluated this is WithChain.with_chain read through holds_v_sat *)
Remark holds_v_chain_from_with_chain t es r bs :
  Forall2 (fun e b => sat (row_env t r) (Some e) = Ok b) es bs ->
  holds_v t (q_withs None es) r = forallb (fun b => b) bs.
Proof.
  intro HF. rewrite holds_v_sat.
  rewrite (with_chain (row_env t r) es None true bs eq_refl HF). reflexivity.
Qed.

Theorem delete_chain : forall prof k tn t es k',
  PInv2 prof k -> user_table_name tn -> find_table (k_tabs k) tn = Some t ->
  pkg_delete prof k tn (q_withs None es) = (k', Ok tt) ->
  PInv2 prof k' /\ others_untouched prof k k' tn /\
  exists old, tvals prof (the_db k) t = Ok old /\
    tvals prof (the_db k') t = Ok (filter (fun r => negb (forallb (fun e => holds_v t (Some e) r) es)) old).
Proof.
  intros prof k tn t es k' HP Hu Hfind H.
  destruct (pkg_delete_ok prof k tn t (q_withs None es) k' HP Hu Hfind H) as (A & B & old & Ho & Hn).
  split; [exact A|]. split; [exact B|]. exists old. split; [exact Ho|].
  rewrite Hn. f_equal. apply filter_ext. intro r. rewrite holds_v_chain. reflexivity.
Qed.

(* a row with an unevaluable restriction (a column the table does not have: eval panics) is kept, by both readings *)
Example chain_unevaluable_kept : forall t r e,
  eval (row_env t r) e = Panic -> forall es1 es2,
  negb (holds_v t (q_withs None (es1 ++ e :: es2)) r) = true.
Proof.
  intros t r e He es1 es2. rewrite holds_v_chain, forallb_app. cbn [forallb].
  replace (holds_v t (Some e) r) with false by (unfold holds_v; rewrite He; reflexivity).
  rewrite Bool.andb_false_r. reflexivity.
Qed.

(* ====================================================================== *)
(* T3: UPDATE                                                              *)
(* ====================================================================== *)
Definition upd_row_chain (t : table) (ups : list (str * value)) (es : list ast) (r : list value) : list value :=
  if forallb (fun e => holds_v t (Some e) r) es then assign t ups r else r.

Lemma upd_row_chain_eq t ups es r : upd_row t ups (q_withs None es) r = upd_row_chain t ups es r.
Proof. unfold upd_row, upd_row_chain. rewrite holds_v_chain. reflexivity. Qed.

Theorem update_chain : forall prof k tn t ups es k',
  PInv2 prof k -> user_table_name tn -> find_table (k_tabs k) tn = Some t -> ups_wf ups ->
  pkg_update prof k tn ups (q_withs None es) = (k', Ok tt) ->
  PInv2 prof k' /\ others_untouched prof k k' tn /\
  exists old new, tvals prof (the_db k) t = Ok old /\ tvals prof (the_db k') t = Ok new /\
    (if touches_key t ups then Permutation new (map (upd_row_chain t ups es) old)
     else new = map (upd_row_chain t ups es) old) /\
    sorted_by_key t new /\ rows_valid t new.
Proof.
  intros prof k tn t ups es k' HP Hu Hfind Hups H.
  destruct (pkg_update_ok prof k tn t ups (q_withs None es) k' HP Hu Hfind Hups H)
    as (A & B & old & new & Ho & Hn & Hrel & Hs & Hv).
  split; [exact A|]. split; [exact B|]. exists old, new. repeat (split; [assumption|]). split; [|split; assumption].
  replace (map (upd_row_chain t ups es) old) with (map (upd_row t ups (q_withs None es)) old); [exact Hrel|].
  apply map_ext. intro r. apply upd_row_chain_eq.
Qed.

Print Assumptions summary_change_reaches_next_save.
Print Assumptions holds_v_chain.
Print Assumptions delete_chain.
Print Assumptions update_chain.
