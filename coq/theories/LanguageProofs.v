(* LanguageProofs.v -- C17: language codes and tags map consistently. *)
From MsiModel Require Import Base Sexp Finite Language.
From MsiGen Require Import GenLanguage.
Open Scope N_scope.

(* ---- the table is sorted by distinct keys, so binary search = first match -- *)
Fixpoint ascending (l : list N) : bool :=
  match l with
  | x :: ((y :: _) as r) => (x <? y) && ascending r
  | _ => true
  end.
Definition table_sortedb : bool :=
  ascending (map (fun e : lang_entry => fst (fst e)) LANGUAGES) &&
  forallb (fun e : lang_entry => ascending (map fst (snd e))) LANGUAGES.
Lemma table_sorted : table_sortedb = true.
Proof. vm_compute. reflexivity. Qed.

(* codes fit: language ids below the mask, sublanguage ids 1..63, so that
   Language::new's debug assertion holds and the shift loses nothing *)
Definition table_rangesb : bool :=
  forallb (fun e : lang_entry =>
             let '(lc, _, subs) := e in
             (0 <? lc) && (lc <=? LANG_MASK) &&
             forallb (fun s : sub_entry => (0 <? fst s) && (fst s <? 64)) subs) LANGUAGES.
Lemma table_ranges : table_rangesb = true.
Proof. vm_compute. reflexivity. Qed.

(* ---- every entry of the table, flattened to (code, tag) ------------------- *)
Definition lang_level : list (N * str) :=
  map (fun e : lang_entry => (mk_code (fst (fst e)) SUBLANG_NEUTRAL, snd (fst e))) LANGUAGES.
Definition sub_level : list (N * str) :=
  flat_map (fun e : lang_entry => map (fun s : sub_entry => (mk_code (fst (fst e)) (fst s), snd s)) (snd e)) LANGUAGES.

Lemma all_codes_distinct : nodupb (0 :: map fst (lang_level ++ sub_level)) = true.
Proof. vm_compute. reflexivity. Qed.

(* ---- structural characterisation of from_tag, for every string ----------- *)
Lemma find_sub_some tag subs sc :
  find_sub tag subs = Some sc -> In (sc, tag) subs.
Proof.
  induction subs as [|[c t] r IH]; simpl; [discriminate|].
  destruct (str_eqb t tag) eqn:E.
  - intros [= <-]. apply str_eqb_spec in E. subst. left; reflexivity.
  - intros H. right. apply IH, H.
Qed.

Inductive from_tag_result (tbl : list lang_entry) (tag first : str) (r : N) : Prop :=
| FT_none : (forall lc lt subs, In (lc, lt, subs) tbl -> lt <> first) ->
            r = mk_code LANG_NEUTRAL SUBLANG_NEUTRAL -> from_tag_result tbl tag first r
| FT_lang lc subs : In (lc, first, subs) tbl ->
            (r = mk_code lc SUBLANG_NEUTRAL \/ r = mk_code lc SUBLANG_FALLBACK) ->
            from_tag_result tbl tag first r
| FT_sub lc subs sc : In (lc, first, subs) tbl -> In (sc, tag) subs ->
            r = mk_code lc sc -> from_tag_result tbl tag first r.

Lemma from_tag_in_char tbl tag first dash :
  from_tag_result tbl tag first (from_tag_in tbl tag first dash).
Proof.
  induction tbl as [|[[lc lt] subs] r IH]; simpl.
  - apply FT_none; [intros ? ? ? []|reflexivity].
  - destruct (str_eqb lt first) eqn:E.
    + apply str_eqb_spec in E. subst lt.
      destruct dash.
      * destruct (find_sub tag subs) as [sc|] eqn:F.
        -- eapply FT_sub; [left; reflexivity | apply find_sub_some, F | reflexivity].
        -- eapply FT_lang; [left; reflexivity | right; reflexivity].
      * eapply FT_lang; [left; reflexivity | left; reflexivity].
    + assert (lt <> first) as NE
        by (intro; subst; rewrite (proj2 (str_eqb_spec first first) eq_refl) in E; discriminate).
      destruct IH as [Hn Hr | lc' subs' Hin Hr | lc' subs' sc Hin Hs Hr].
      * apply FT_none; [|exact Hr]. intros lc0 lt0 subs0 [H|H]; [congruence | eapply Hn, H].
      * eapply FT_lang; [right; exact Hin | exact Hr].
      * eapply FT_sub; [right; exact Hin | exact Hs | exact Hr].
Qed.

(* ---- C17 statements -------------------------------------------------------- *)

(* a tag whose language part is not in the table maps to the neutral language *)
Theorem c17_unknown_lang s :
  (forall lc lt subs, In (lc, lt, subs) LANGUAGES -> lt <> fst (split_dash s)) ->
  from_tag s = 0.
Proof.
  intros Hn. unfold from_tag. destruct (split_dash s) as [first dash] eqn:E. simpl in Hn.
  destruct (from_tag_in_char LANGUAGES s first dash) as [_ Hr | lc subs Hin _ | lc subs sc Hin _ _].
  - rewrite Hr. reflexivity.
  - exfalso. eapply Hn; [exact Hin | reflexivity].
  - exfalso. eapply Hn; [exact Hin | reflexivity].
Qed.

Lemma in_sub_level lc lt subs sc st :
  In (lc, lt, subs) LANGUAGES -> In (sc, st) subs -> In (mk_code lc sc, st) sub_level.
Proof.
  intros H1 H2. unfold sub_level. apply in_flat_map. exists (lc, lt, subs). split; [exact H1|].
  simpl. apply in_map_iff. exists (sc, st). split; [reflexivity | exact H2].
Qed.
Lemma in_lang_level lc lt subs :
  In (lc, lt, subs) LANGUAGES -> In (mk_code lc SUBLANG_NEUTRAL, lt) lang_level.
Proof.
  intros H. unfold lang_level. apply in_map_iff. exists (lc, lt, subs). split; [reflexivity | exact H].
Qed.

(* the fallback sublanguage for an unknown region is the neutral one
   (checked against the source on every run: GenLanguage.SUBLANG_FALLBACK) *)
Lemma fallback_is_neutral : SUBLANG_FALLBACK = SUBLANG_NEUTRAL.
Proof. reflexivity. Qed.

Lemma codes_nodup : NoDup (0 :: map fst (lang_level ++ sub_level)).
Proof. apply nodupb_NoDup, all_codes_distinct. Qed.
Lemma code_nonzero c : In c (map fst (lang_level ++ sub_level)) -> c <> 0.
Proof.
  intros H E. subst. pose proof codes_nodup as ND.
  apply NoDup_cons_iff in ND as [Hnot _]. apply Hnot, H.
Qed.
Lemma sub_codes_nodup : NoDup (map fst sub_level).
Proof.
  pose proof codes_nodup as ND. apply NoDup_cons_iff in ND as [_ ND'].
  rewrite map_app in ND'. clear - ND'.
  induction (map fst lang_level) as [|a l IH]; [exact ND'|].
  inversion ND'; subst. apply IH. assumption.
Qed.
Lemma lang_sub_disjoint c : In c (map fst lang_level) -> In c (map fst sub_level) -> False.
Proof.
  pose proof codes_nodup as ND. apply NoDup_cons_iff in ND as [_ ND'].
  rewrite map_app in ND'. apply (NoDup_app_disjoint _ _ c ND').
Qed.

(* a tag never maps to the code of a regional variant it does not spell *)
Theorem c17_no_foreign_region s lc lt subs sc st :
  In (lc, lt, subs) LANGUAGES -> In (sc, st) subs ->
  from_tag s = mk_code lc sc -> s = st.
Proof.
  intros Hl Hs Hcode.
  pose proof (in_sub_level _ _ _ _ _ Hl Hs) as Htarget.
  assert (In (mk_code lc sc) (map fst sub_level)) as Tcode
    by (apply in_map_iff; exists (mk_code lc sc, st); split; [reflexivity | exact Htarget]).
  unfold from_tag in Hcode. destruct (split_dash s) as [first dash].
  destruct (from_tag_in_char LANGUAGES s first dash) as [_ Hr | lc' subs' Hin Hr | lc' subs' sc' Hin Hsub Hr].
  - (* neutral language: code 0 *)
    exfalso. apply (code_nonzero (mk_code lc sc)).
    + rewrite map_app. apply in_or_app. right. exact Tcode.
    + rewrite <- Hcode, Hr. reflexivity.
  - (* bare language code *)
    rewrite fallback_is_neutral in Hr.
    assert (from_tag_in LANGUAGES s first dash = mk_code lc' SUBLANG_NEUTRAL) as Hr' by (destruct Hr; assumption).
    pose proof (in_lang_level _ _ _ Hin) as Hlang.
    exfalso. apply (lang_sub_disjoint (mk_code lc sc)); [|exact Tcode].
    apply in_map_iff. exists (mk_code lc' SUBLANG_NEUTRAL, first). split; [simpl; congruence | exact Hlang].
  - (* an exact regional entry: it must be the same entry *)
    pose proof (in_sub_level _ _ _ _ _ Hin Hsub) as Hsrc.
    assert ((mk_code lc' sc', s) = (mk_code lc sc, st)) as EQ.
    { apply (NoDup_map_inj fst sub_level); auto using sub_codes_nodup. simpl. congruence. }
    inversion EQ; reflexivity.
Qed.

(* ---- finite statements over the generated table ---------------------------- *)
Definition stableb (c : N) : bool := str_eqb (tag_of (from_tag (tag_of c))) (tag_of c).
Lemma stable_all : forallb stableb (nrange 65536) = true.
Proof. vm_compute. reflexivity. Qed.

(* converting a code's tag to a language and back yields the same tag *)
Theorem c17_stable c : c < 65536 -> tag_of (from_tag (tag_of c)) = tag_of c.
Proof. intros H. apply str_eqb_spec. apply (forall_below stableb 65536 stable_all c H). Qed.

Theorem c17_code_in_range s : from_tag s < 65536.
Proof.
  unfold from_tag. destruct (split_dash s) as [first dash].
  assert (forall l sb, mk_code l sb < 65536 \/ 65536 <= l) as B.
  { intros l sb. unfold mk_code. destruct (N.lt_ge_cases l 65536) as [Hl|Hl]; [left|right; exact Hl].
    pose proof (N.mod_lt (N.shiftl sb SUBLANG_SHIFT) 65536 ltac:(lia)) as Hm.
    set (m := N.shiftl sb SUBLANG_SHIFT mod 65536) in *.
    change 65536 with (2 ^ 16).
    destruct (N.eq_dec (N.lor l m) 0) as [E|NE]; [rewrite E; reflexivity|].
    apply N.log2_lt_pow2; [lia|]. rewrite N.log2_lor. apply N.max_lub_lt.
    - destruct (N.eq_dec l 0) as [->|Hl0]; [reflexivity | apply N.log2_lt_pow2; [lia | exact Hl]].
    - destruct (N.eq_dec m 0) as [->|Hm0]; [reflexivity | apply N.log2_lt_pow2; [lia | exact Hm]]. }
  assert (R : table_rangesb = true) by exact table_ranges.
  unfold table_rangesb in R. rewrite forallb_forall in R.
  destruct (from_tag_in_char LANGUAGES s first dash) as [_ Hr | lc subs Hin Hr | lc subs sc Hin Hs Hr].
  - rewrite Hr. reflexivity.
  - specialize (R _ Hin). simpl in R.
    apply andb_true_iff in R as [R _]. apply andb_true_iff in R as [_ R]. apply N.leb_le in R.
    change LANG_MASK with 1023 in R.
    destruct Hr as [-> | ->]; match goal with |- mk_code ?l ?x < _ => destruct (B l x) end; lia.
  - specialize (R _ Hin). simpl in R.
    apply andb_true_iff in R as [R _]. apply andb_true_iff in R as [_ R]. apply N.leb_le in R.
    change LANG_MASK with 1023 in R.
    rewrite Hr. match goal with |- mk_code ?l ?x < _ => destruct (B l x) end; lia.
Qed.

(* every tag in the table maps to its own code and back to itself *)
Definition entry_okb (e : N * str) : bool :=
  (from_tag (snd e) =? fst e) && str_eqb (tag_of (fst e)) (snd e).
Lemma table_entries_ok : forallb entry_okb (lang_level ++ sub_level) = true.
Proof. vm_compute. reflexivity. Qed.

Theorem c17_table_lang lc lt subs :
  In (lc, lt, subs) LANGUAGES -> from_tag lt = lc /\ tag_of lc = lt.
Proof.
  intros H. pose proof (in_lang_level _ _ _ H) as Hin.
  pose proof table_entries_ok as T. rewrite forallb_forall in T.
  specialize (T _ (in_or_app _ _ _ (or_introl Hin))). unfold entry_okb in T. simpl in T.
  apply andb_true_iff in T as [T1 T2]. apply N.eqb_eq in T1. apply str_eqb_spec in T2.
  assert (mk_code lc SUBLANG_NEUTRAL = lc) as E.
  { unfold mk_code. change (N.shiftl SUBLANG_NEUTRAL SUBLANG_SHIFT mod 65536) with 0. apply N.lor_0_r. }
  rewrite E in *. split; assumption.
Qed.

Theorem c17_table_sub lc lt subs sc st :
  In (lc, lt, subs) LANGUAGES -> In (sc, st) subs ->
  from_tag st = mk_code lc sc /\ tag_of (mk_code lc sc) = st.
Proof.
  intros H Hs. pose proof (in_sub_level _ _ _ _ _ H Hs) as Hin.
  pose proof table_entries_ok as T. rewrite forallb_forall in T.
  specialize (T _ (in_or_app _ _ _ (or_intror Hin))). unfold entry_okb in T. simpl in T.
  apply andb_true_iff in T as [T1 T2]. apply N.eqb_eq in T1. apply str_eqb_spec in T2.
  split; assumption.
Qed.

(* 'und' for an unknown language; the bare language tag for an unknown sublanguage *)
Theorem c17_und c : find_lang LANGUAGES (N.land c LANG_MASK) = None -> tag_of c = und.
Proof. unfold tag_of. intros ->. reflexivity. Qed.
Theorem c17_bare c lc lt subs :
  find_lang LANGUAGES (N.land c LANG_MASK) = Some (lc, lt, subs) ->
  find_sub_code subs (N.shiftr c SUBLANG_SHIFT) = None -> tag_of c = lt.
Proof. unfold tag_of. intros -> ->. reflexivity. Qed.

(* ---- the reference list: Windows language identifiers with undisputed tags -- *)
Definition ascii := str_of_string.
Open Scope string_scope.
Definition reference_pairs : list (N * string) :=
  [ (1033, "en-US"); (2057, "en-GB"); (1036, "fr-FR"); (3084, "fr-CA"); (1031, "de-DE");
    (1041, "ja-JP"); (2058, "es-MX"); (1040, "it-IT"); (1043, "nl-NL"); (1046, "pt-BR");
    (2070, "pt-PT"); (1049, "ru-RU"); (1042, "ko-KR"); (1053, "sv-SE"); (1030, "da-DK");
    (1035, "fi-FI"); (1044, "nb-NO"); (1045, "pl-PL"); (1029, "cs-CZ"); (1038, "hu-HU");
    (1032, "el-GR"); (1055, "tr-TR"); (1037, "he-IL"); (1025, "ar-SA"); (3081, "en-AU");
    (4105, "en-CA"); (2055, "de-CH"); (3079, "de-AT"); (4108, "fr-CH"); (2052, "zh-CN");
    (1028, "zh-TW") ]%N.
Close Scope string_scope.
Definition reference_okb (p : N * string) : bool :=
  str_eqb (tag_of (fst p)) (ascii (snd p)) && (from_tag (ascii (snd p)) =? fst p).
Theorem c17_reference : forallb reference_okb reference_pairs = true.
Proof. vm_compute. reflexivity. Qed.
