(* HistoryPages.v -- proofs of the statements of HistoryPagesSpec.v (both exactly as stated).
   pc c p = pool_set_cp p c.  Every function that threads the pool commutes with pc c (it only copies p_cp, and the
   modified flag is true on both sides after the first change / after pc c); every function that only reads the pool
   looks at p_strings alone.  Lifted to the package operations, to step and to run. *)
From Coq Require Import Lia ZArith NArith List.
From MsiModel Require Import Base Value Expr Category Column CodePage Pool Table Container Query Package PkgInv PkgInv2
  ReopenProofs Reach ReopenPagesSpec ReopenPages HistoryPagesSpec.
From MsiGen Require Import GenConsts GenCatalog.
Open Scope N_scope.

Definition pc (c : codepage) (p : pool) : pool := pool_set_cp p c.
Definition pcl {A} (c : codepage) (x : pool * A) : pool * A := (pc c (fst x), snd x).
Definition pcr {A} (c : codepage) (x : A * pool) : A * pool := (fst x, pc c (snd x)).

Lemma pc_strings c p : p_strings (pc c p) = p_strings p.
Proof. reflexivity. Qed.

(* ---- the pool ------------------------------------------------------------------------------------------------- *)
Lemma pool_get_pc prof c p r : pool_get prof (pc c p) r = pool_get prof p r.
Proof. reflexivity. Qed.

Lemma pool_incref_pc prof c p s : pool_incref prof (pc c p) s = rmap (pcl c) (pool_incref prof p s).
Proof.
  unfold pool_incref, pc, pool_set_cp. cbn [p_strings p_long p_cp].
  destruct (incref_scan prof (p_strings p) s 1) as [[[l i]|]| |]; cbn [rbind rmap]; try reflexivity.
  destruct ((65535 <=? nlen (p_strings p)) && negb (p_long p))%bool; [reflexivity|].
  destruct (MAX_STRING_REF <=? nlen (p_strings p)); reflexivity.
Qed.

Lemma pool_decref_pc prof c p r : pool_decref prof (pc c p) r = rmap (pc c) (pool_decref prof p r).
Proof.
  unfold pool_decref, pc, pool_set_cp. cbn [p_strings p_long p_cp].
  destruct (match prof with Debug => if ((0 <? r) && (r <=? MAX_STRING_REF))%bool then Ok tt else Panic | Release => Ok tt end)
    as [[]| |]; cbn [rbind rmap]; try reflexivity.
  destruct (r =? 0); [reflexivity|].
  destruct (decref_at_N (p_strings p) (r - 1)); [reflexivity|].
  destruct POOL_DECREF_PANICS; reflexivity.
Qed.

(* ---- cells and rows --------------------------------------------------------------------------------------------- *)
Lemma to_value_pc prof c p v : to_value prof (pc c p) v = to_value prof p v.
Proof. apply to_value_same. reflexivity. Qed.
Lemma row_to_values_pc prof c p r : row_to_values prof (pc c p) r = row_to_values prof p r.
Proof. apply row_to_values_same. reflexivity. Qed.

Lemma vref_create_pc prof c p v : vref_create prof (pc c p) v = rmap (pcl c) (vref_create prof p v).
Proof.
  destruct v as [|z|[|a s]]; try reflexivity. cbn [vref_create]. rewrite pool_incref_pc.
  destruct (pool_incref prof p (a :: s)) as [[p' r]| |]; reflexivity.
Qed.
Lemma vref_remove_pc prof c p v : vref_remove prof (pc c p) v = rmap (pc c) (vref_remove prof p v).
Proof. destruct v; try reflexivity. cbn [vref_remove]. apply pool_decref_pc. Qed.

Lemma cond_holds_pc prof c p t cond r : cond_holds prof (pc c p) t cond r = cond_holds prof p t cond r.
Proof. destruct cond; [|reflexivity]. cbn [cond_holds]. rewrite row_to_values_pc. reflexivity. Qed.

(* ---- INSERT ----------------------------------------------------------------------------------------------------- *)
Lemma load_keyed_pc prof c p kidx rows : forall m, load_keyed prof (pc c p) kidx rows m = load_keyed prof p kidx rows m.
Proof.
  induction rows as [|r rs IH]; intros m; [reflexivity|]. cbn [load_keyed].
  destruct (select_nth r kidx) as [kr| |]; cbn [rbind]; try reflexivity. rewrite row_to_values_pc.
  destruct (row_to_values prof p kr) as [k| |]; cbn [rbind]; try reflexivity.
  destruct (keyed_mem m k); [reflexivity|]. apply IH.
Qed.

Lemma create_refs_pc prof c vals : forall p, create_refs prof (pc c p) vals = rmap (pcl c) (create_refs prof p vals).
Proof.
  induction vals as [|v vs IH]; intros p; [reflexivity|]. cbn [create_refs]. rewrite vref_create_pc.
  destruct (vref_create prof p v) as [[p1 r]| |]; cbn [rbind rmap pcl fst snd]; try reflexivity.
  rewrite IH. destruct (create_refs prof p1 vs) as [[p2 rs]| |]; reflexivity.
Qed.

Lemma insert_new_pc prof c kidx rows : forall p m,
  insert_new prof (pc c p) kidx m rows = rmap (pcl c) (insert_new prof p kidx m rows).
Proof.
  induction rows as [|r rs IH]; intros p m; [reflexivity|]. cbn [insert_new].
  destruct (select_nth r kidx) as [k| |]; cbn [rbind rmap]; try reflexivity. rewrite create_refs_pc.
  destruct (create_refs prof p r) as [[p1 refs]| |]; cbn [rbind rmap pcl fst snd]; try reflexivity. apply IH.
Qed.

Lemma exec_insert_pc prof c ct p ts tn rows :
  exec_insert prof ct (pc c p) ts tn rows = rmap (pcr c) (exec_insert prof ct p ts tn rows).
Proof.
  unfold exec_insert. destruct (of_opt (find_table ts tn)) as [t| |]; cbn [rbind rmap]; try reflexivity.
  destruct (validate_new_rows t rows) as [[]| |]; cbn [rbind rmap]; try reflexivity.
  destruct (load_rows ct t) as [old| |]; cbn [rbind rmap]; try reflexivity.
  rewrite load_keyed_pc. destruct (load_keyed prof p (pk_indices t) old []) as [m| |]; cbn [rbind rmap]; try reflexivity.
  destruct (check_new_keys (pk_indices t) m [] (map (map normalize_value) rows)) as [[]| |]; cbn [rbind rmap]; try reflexivity.
  destruct (match MAX_ROWS_INSERT with
            | Some lim => if lim <? nlen m + nlen (map (map normalize_value) rows) then Err else Ok tt
            | None => Ok tt end) as [[]| |]; cbn [rbind rmap]; try reflexivity.
  rewrite insert_new_pc.
  destruct (insert_new prof p (pk_indices t) m (map (map normalize_value) rows)) as [[p' m']| |];
    cbn [rbind rmap pcl fst snd]; try reflexivity.
  destruct (store_rows prof ct t (map snd m')) as [c'| |]; reflexivity.
Qed.

Lemma exec_insert_check_pc prof c ct p ts tn rows :
  exec_insert_check prof ct (pc c p) ts tn rows = exec_insert_check prof ct p ts tn rows.
Proof.
  unfold exec_insert_check. destruct (of_opt (find_table ts tn)) as [t| |]; cbn [rbind]; try reflexivity.
  destruct (validate_new_rows t rows) as [[]| |]; cbn [rbind]; try reflexivity.
  destruct (load_rows ct t) as [old| |]; cbn [rbind]; try reflexivity.
  rewrite load_keyed_pc. reflexivity.
Qed.

(* ---- DELETE ----------------------------------------------------------------------------------------------------- *)
Lemma remove_refs_pc prof c r : forall p, remove_refs prof (pc c p) r = rmap (pc c) (remove_refs prof p r).
Proof.
  induction r as [|v vs IH]; intros p; [reflexivity|]. cbn [remove_refs]. rewrite vref_remove_pc.
  destruct (vref_remove prof p v) as [p1| |]; cbn [rbind rmap]; try reflexivity. apply IH.
Qed.

Lemma delete_loop_pc prof c t cond rows : forall p,
  delete_loop prof (pc c p) t cond rows = rmap (pcl c) (delete_loop prof p t cond rows).
Proof.
  induction rows as [|r rs IH]; intros p; [reflexivity|]. cbn [delete_loop]. rewrite cond_holds_pc.
  destruct (cond_holds prof p t cond r) as [[|]| |]; cbn [rbind rmap]; try reflexivity.
  - rewrite remove_refs_pc. destruct (remove_refs prof p r) as [p1| |]; cbn [rbind rmap]; try reflexivity. apply IH.
  - rewrite IH. destruct (delete_loop prof p t cond rs) as [[p2 kept]| |]; reflexivity.
Qed.

Lemma exec_delete_pc prof c ct p ts tn cond :
  exec_delete prof ct (pc c p) ts tn cond = rmap (pcr c) (exec_delete prof ct p ts tn cond).
Proof.
  unfold exec_delete. destruct (of_opt (find_table ts tn)) as [t| |]; cbn [rbind rmap]; try reflexivity.
  destruct (negb (cond_ok t cond)); [reflexivity|].
  destruct (load_rows ct t) as [rows| |]; cbn [rbind rmap]; try reflexivity.
  rewrite delete_loop_pc. destruct (delete_loop prof p t cond rows) as [[p' kept]| |]; cbn [rbind rmap pcl fst snd]; try reflexivity.
  destruct (store_rows prof ct t kept) as [c'| |]; reflexivity.
Qed.

(* ---- UPDATE ----------------------------------------------------------------------------------------------------- *)
Lemma apply_updates_pc prof c t ups : forall p r,
  apply_updates prof (pc c p) t ups r = rmap (pcl c) (apply_updates prof p t ups r).
Proof.
  induction ups as [|[n v] rest IH]; intros p r; [reflexivity|]. cbn [apply_updates].
  destruct (unwrap (col_index t n)) as [i| |]; cbn [rbind rmap]; try reflexivity.
  destruct (unwrap (nth_opt r i)) as [old| |]; cbn [rbind rmap]; try reflexivity.
  rewrite vref_remove_pc. destruct (vref_remove prof p old) as [p1| |]; cbn [rbind rmap]; try reflexivity.
  rewrite vref_create_pc. destruct (vref_create prof p1 v) as [[p2 nv]| |]; cbn [rbind rmap pcl fst snd]; try reflexivity.
  apply IH.
Qed.

Lemma matches_of_pc prof c p t cond rows : matches_of prof (pc c p) t cond rows = matches_of prof p t cond rows.
Proof.
  induction rows as [|r rs IH]; [reflexivity|]. cbn [matches_of]. rewrite cond_holds_pc, IH. reflexivity.
Qed.

Lemma new_keys_pc prof c p t ups kidx rows : forall ms seen,
  new_keys prof (pc c p) t ups kidx rows ms seen = new_keys prof p t ups kidx rows ms seen.
Proof.
  induction rows as [|r rs IH]; intros ms seen; [reflexivity|]. destruct ms as [|m ms']; [reflexivity|].
  cbn [new_keys].
  match goal with |- rbind ?a _ = rbind ?b _ => assert (E : a = b) end.
  { reflexivity. }
  rewrite E. match goal with |- rbind ?a _ = _ => destruct a as [k| |] end; cbn [rbind]; try reflexivity.
  destruct (existsb (key_eqb k) seen); [reflexivity|]. apply IH.
Qed.

Lemma update_loop_pc prof c t ups rows : forall p ms,
  update_loop prof (pc c p) t ups rows ms = rmap (pcl c) (update_loop prof p t ups rows ms).
Proof.
  induction rows as [|r rs IH]; intros p ms; [reflexivity|]. destruct ms as [|m ms']; [reflexivity|].
  cbn [update_loop].
  assert (E : (if m then apply_updates prof (pc c p) t ups r else Ok (pc c p, r)) =
              rmap (pcl c) (if m then apply_updates prof p t ups r else Ok (p, r))).
  { destruct m; [apply apply_updates_pc | reflexivity]. }
  rewrite E. destruct (if m then apply_updates prof p t ups r else Ok (p, r)) as [[p1 r']| |];
    cbn [rbind rmap pcl fst snd]; try reflexivity.
  rewrite IH. destruct (update_loop prof p1 t ups rs ms') as [[p2 rest]| |]; reflexivity.
Qed.

Lemma sort_rows_pc prof c p kidx rows : forall m, sort_rows prof (pc c p) kidx rows m = sort_rows prof p kidx rows m.
Proof.
  induction rows as [|r rs IH]; intros m; [reflexivity|]. cbn [sort_rows].
  destruct (select_nth r kidx) as [kr| |]; cbn [rbind]; try reflexivity. rewrite row_to_values_pc.
  destruct (row_to_values prof p kr) as [k| |]; cbn [rbind]; try reflexivity. apply IH.
Qed.

Lemma exec_update_pc prof c ct p ts tn ups cond :
  exec_update prof ct (pc c p) ts tn ups cond = rmap (pcr c) (exec_update prof ct p ts tn ups cond).
Proof.
  unfold exec_update. destruct (of_opt (find_table ts tn)) as [t| |]; cbn [rbind rmap]; try reflexivity.
  destruct (validate_updates t ups) as [[]| |]; cbn [rbind rmap]; try reflexivity.
  destruct (negb (cond_ok t cond)); [reflexivity|].
  destruct (load_rows ct t) as [rows| |]; cbn [rbind rmap]; try reflexivity.
  rewrite matches_of_pc. destruct (matches_of prof p t cond rows) as [ms| |]; cbn [rbind rmap]; try reflexivity.
  set (rekey := existsb _ ups). rewrite new_keys_pc.
  destruct (if rekey then new_keys prof p t ups (pk_indices t) rows ms [] else Ok tt) as [[]| |]; cbn [rbind rmap]; try reflexivity.
  rewrite update_loop_pc. destruct (update_loop prof p t ups rows ms) as [[p' rows']| |]; cbn [rbind rmap pcl fst snd]; try reflexivity.
  rewrite sort_rows_pc.
  destruct (if rekey then m <- sort_rows prof p' (pk_indices t) rows' [];; Ok (map snd m) else Ok rows') as [rows''| |];
    cbn [rbind rmap]; try reflexivity.
  destruct (store_rows prof ct t rows'') as [c'| |]; reflexivity.
Qed.

(* ---- the package operations --------------------------------------------------------------------------------------- *)
Definition sw (c : codepage) (k : pkg) : pkg := pkg_set_db_codepage k c.
Definition sw1 {A} (c : codepage) (r : pkg * A) : pkg * A := (sw c (fst r), snd r).

Lemma pkg_insert_sw prof c k t rows : pkg_insert prof (sw c k) t rows = sw1 c (pkg_insert prof k t rows).
Proof.
  unfold pkg_insert, sw, pkg_set_db_codepage, set_finisher. cbn [k_cont k_pool k_tabs k_type k_sum k_sum_mod k_fin].
  fold (pc c (k_pool k)). rewrite exec_insert_pc.
  destruct (exec_insert prof (k_cont k) (k_pool k) (k_tabs k) t rows) as [[c' p']| |]; reflexivity.
Qed.
Lemma pkg_delete_sw prof c k t cond : pkg_delete prof (sw c k) t cond = sw1 c (pkg_delete prof k t cond).
Proof.
  unfold pkg_delete, sw, pkg_set_db_codepage, set_finisher. cbn [k_cont k_pool k_tabs k_type k_sum k_sum_mod k_fin].
  fold (pc c (k_pool k)). rewrite exec_delete_pc.
  destruct (exec_delete prof (k_cont k) (k_pool k) (k_tabs k) t cond) as [[c' p']| |]; reflexivity.
Qed.
Lemma pkg_update_sw prof c k t ups cond : pkg_update prof (sw c k) t ups cond = sw1 c (pkg_update prof k t ups cond).
Proof.
  unfold pkg_update, sw, pkg_set_db_codepage, set_finisher. cbn [k_cont k_pool k_tabs k_type k_sum k_sum_mod k_fin].
  fold (pc c (k_pool k)). rewrite exec_update_pc.
  destruct (exec_update prof (k_cont k) (k_pool k) (k_tabs k) t ups cond) as [[c' p']| |]; reflexivity.
Qed.

Lemma sw_tabs c k : k_tabs (sw c k) = k_tabs k.
Proof. reflexivity. Qed.
Lemma sw_cont c k : k_cont (sw c k) = k_cont k.
Proof. reflexivity. Qed.
Lemma with_tabs_sw c k ts : with_tabs (sw c k) ts = sw c (with_tabs k ts).
Proof. reflexivity. Qed.
Lemma with_cont_sw c k ct : with_cont (sw c k) ct = sw c (with_cont k ct).
Proof. reflexivity. Qed.
Lemma set_finisher_sw c k : set_finisher (sw c k) = sw c (set_finisher k).
Proof. reflexivity. Qed.
Lemma sw_long c k : p_long (k_pool (sw c k)) = p_long (k_pool k).
Proof. reflexivity. Qed.

Lemma pkg_create_table_sw prof c k tn cols :
  pkg_create_table prof (sw c k) tn cols = sw1 c (pkg_create_table prof k tn cols).
Proof.
  unfold pkg_create_table, pkg_create_table_with. rewrite !sw_tabs.
  destruct (negb (is_valid_tname tn)); [reflexivity|].
  destruct (existsb (str_eqb tn) CREATE_TABLE_EXTRA_RESERVED); [reflexivity|].
  destruct cols as [|col0 cols']; [reflexivity|]. set (cols := col0 :: cols').
  destruct (MAX_NUM_TABLE_COLUMNS <? nlen cols); [reflexivity|].
  destruct (negb (existsb c_pk cols)); [reflexivity|].
  destruct (negb (first_dup_or_bad cols [])); [reflexivity|].
  destruct (find_table (k_tabs k) tn); [reflexivity|].
  destruct (rows_fit (find_table (k_tabs k) COLUMNS_TABLE_NAME) (columns_rows tn cols)) as [[|]| |];
  destruct (rows_fit (find_table (k_tabs k) TABLES_TABLE_NAME) [[VStr tn]]) as [[|]| |];
  destruct (vrows_fit tn (find_table (k_tabs k) VALIDATION_TABLE_NAME) (validation_rows tn cols)) as [[|]| |];
  try reflexivity.
  assert (Edry : forall n rows, catalog_dry_run prof (sw c k) n rows = catalog_dry_run prof k n rows).
  { intros n rows. unfold catalog_dry_run. rewrite sw_tabs, sw_cont.
    destruct (find_table (k_tabs k) n); [|reflexivity].
    unfold sw, pkg_set_db_codepage. cbn [k_pool]. fold (pc c (k_pool k)). apply exec_insert_check_pc. }
  rewrite !Edry. clear Edry.
  destruct (if CREATE_TABLE_DRY_RUNS then _ else _) as [ud| |]; try reflexivity.
  rewrite pkg_insert_sw.
  destruct (pkg_insert prof k COLUMNS_TABLE_NAME (columns_rows tn cols)) as [k1 r1]. cbn [sw1 fst snd].
  destruct r1 as [u1| |]; try reflexivity.
  rewrite pkg_insert_sw.
  destruct (pkg_insert prof k1 TABLES_TABLE_NAME [[VStr tn]]) as [k2 r2]. cbn [sw1 fst snd].
  destruct r2 as [u2| |]; try reflexivity.
  rewrite sw_tabs, sw_long, with_tabs_sw, sw_tabs.
  destruct (find_table _ VALIDATION_TABLE_NAME); [|reflexivity].
  apply pkg_insert_sw.
Qed.

Lemma pkg_drop_table_sw prof c k tn : pkg_drop_table prof (sw c k) tn = sw1 c (pkg_drop_table prof k tn).
Proof.
  unfold pkg_drop_table. rewrite !sw_tabs.
  destruct (is_reserved tn); [reflexivity|].
  destruct (negb (is_valid_tname tn)); [reflexivity|].
  destruct (find_table (k_tabs k) tn) as [t|]; [|reflexivity].
  rewrite pkg_delete_sw. destruct (pkg_delete prof k tn None) as [k0 r0]. cbn [sw1 fst snd].
  destruct r0 as [u0| |]; try reflexivity.
  rewrite !sw_cont.
  destruct (if ct_exists (k_cont k0) (stream_name_of t) then ct_remove (k_cont k0) (stream_name_of t) else Ok (k_cont k0))
    as [c1| |]; try reflexivity.
  rewrite with_cont_sw, sw_tabs.
  assert (E : (match find_table (k_tabs (with_cont k0 c1)) VALIDATION_TABLE_NAME with
               | Some _ => pkg_delete prof (sw c (with_cont k0 c1)) VALIDATION_TABLE_NAME (table_eq_cond s_Table tn)
               | None => (set_finisher (sw c (with_cont k0 c1)), Ok tt) end) =
              sw1 c (match find_table (k_tabs (with_cont k0 c1)) VALIDATION_TABLE_NAME with
               | Some _ => pkg_delete prof (with_cont k0 c1) VALIDATION_TABLE_NAME (table_eq_cond s_Table tn)
               | None => (set_finisher (with_cont k0 c1), Ok tt) end)).
  { destruct (find_table (k_tabs (with_cont k0 c1)) VALIDATION_TABLE_NAME); [apply pkg_delete_sw | reflexivity]. }
  rewrite E. clear E.
  destruct (match find_table (k_tabs (with_cont k0 c1)) VALIDATION_TABLE_NAME with
            | Some _ => pkg_delete prof (with_cont k0 c1) VALIDATION_TABLE_NAME (table_eq_cond s_Table tn)
            | None => (set_finisher (with_cont k0 c1), Ok tt) end) as [k2 r2]. cbn [sw1 fst snd].
  destruct r2 as [u2| |]; try reflexivity.
  rewrite pkg_delete_sw.
  destruct (pkg_delete prof k2 COLUMNS_TABLE_NAME (table_eq_cond s_Table tn)) as [k3 r3]. cbn [sw1 fst snd].
  destruct r3 as [u3| |]; try reflexivity.
  rewrite pkg_delete_sw.
  destruct (pkg_delete prof k3 TABLES_TABLE_NAME (table_eq_cond s_Name tn)) as [k4 r4]. cbn [sw1 fst snd].
  destruct r4 as [u4| |]; reflexivity.
Qed.

Lemma pkg_write_stream_sw c k n b : pkg_write_stream (sw c k) n b = sw1 c (pkg_write_stream k n b).
Proof. unfold pkg_write_stream. destruct (negb (StreamName.sn_is_valid n false)); reflexivity. Qed.
Lemma pkg_remove_stream_sw c k n : pkg_remove_stream (sw c k) n = sw1 c (pkg_remove_stream k n).
Proof.
  unfold pkg_remove_stream. destruct (negb (StreamName.sn_is_valid n false)); [reflexivity|]. rewrite sw_cont.
  destruct (ct_remove (k_cont k) (StreamName.sn_encode n false)); reflexivity.
Qed.
Lemma pkg_remove_signature_sw c k : pkg_remove_signature (sw c k) = sw c (pkg_remove_signature k).
Proof. reflexivity. Qed.
Lemma pkg_summary_mut_sw c k f : pkg_summary_mut (sw c k) f = sw1 c (pkg_summary_mut k f).
Proof. unfold pkg_summary_mut. cbn [sw pkg_set_db_codepage k_sum]. destruct (f (k_sum k)); reflexivity. Qed.

(* ---- step and run ---------------------------------------------------------------------------------------------------- *)
Lemma after_sw1 {A} c (r : pkg * res A) : after (sw1 c r) = option_map (sw c) (after r).
Proof. destruct r as [k [a| |]]; reflexivity. Qed.

Lemma step_sw prof c k o : cp_free o -> step prof (sw c k) o = option_map (sw c) (step prof k o).
Proof.
  intros H. destruct o; cbn [step]; try (exfalso; exact H).
  - rewrite pkg_insert_sw. apply after_sw1.
  - rewrite pkg_delete_sw. apply after_sw1.
  - rewrite pkg_update_sw. apply after_sw1.
  - rewrite pkg_create_table_sw. apply after_sw1.
  - rewrite pkg_drop_table_sw. apply after_sw1.
  - rewrite pkg_write_stream_sw. apply after_sw1.
  - rewrite pkg_remove_stream_sw. apply after_sw1.
  - rewrite pkg_remove_signature_sw. reflexivity.
  - rewrite pkg_summary_mut_sw. apply after_sw1.
Qed.

Theorem run_commutes : G_run_commutes.
Proof.
  intros prof c k ops H. revert k. induction H as [|o ops Ho Hops IH]; intros k; [reflexivity|].
  cbn [run]. fold (sw c k). rewrite (step_sw prof c k o Ho).
  destruct (step prof k o) as [k'|]; [|reflexivity]. cbn [option_map]. apply IH.
Qed.

Theorem history_after_switch : G_history_after_switch.
Proof.
  intros prof ty k0 c t ops k' Hc Hok Hfree Hs Hrun Hrep.
  rewrite (run_commutes prof c k0 ops Hfree) in Hrun.
  destruct (run prof k0 ops) as [ku|] eqn:Eu; [|discriminate]. cbn [option_map] in Hrun.
  injection Hrun as <-.
  assert (Hre : reachable prof ku) by (exists ty, k0, ops; repeat split; assumption).
  exact (reachable_roundtrip_pages prof ku c t Hre Hs Hrep).
Qed.

Print Assumptions run_commutes.
Print Assumptions history_after_switch.
