(* Ffi.v -- model of the read-only FFI layer (ffi/src/lib.rs), as far as panics are concerned: get_table opens the
   package, looks the table up and selects all its rows; whether a failed select is turned into a panic (expect) or an
   empty result is regenerated from the source (FFI_GET_TABLE_EXPECTS). *)
From MsiModel Require Import Base Sexp Value Expr Category Column CodePage Pool Table Container StreamName
  Propset Summary Query Package SelectTotal OpenTotal PackageProofs.
From MsiGen Require Import GenConsts.
Open Scope N_scope.

(* the number of result rows (the header row of column names counts as one), or Panic *)
Definition ffi_get_table (prof : profile) (c : container) (name : str) : res N :=
  match pkg_open prof c with
  | Ok k =>
      match find_table (k_tabs k) name with
      | None => Ok 0
      | Some _ =>
          match pkg_select prof k (Sel (JTable name) [] None) with
          | Ok (_, rows) => Ok (1 + nlen rows)
          | Err => if FFI_GET_TABLE_EXPECTS then Panic else Ok 0
          | Panic => Panic
          end
      end
  | Err => Ok 0
  | Panic => Panic
  end.

Lemma ffi_expect_removed : FFI_GET_TABLE_EXPECTS = false.
Proof. reflexivity. Qed.

(* no panic can cross the C boundary, whatever the file holds *)
Theorem ffi_get_table_total : forall prof c name, bytes_ok c -> ffi_get_table prof c name <> Panic.
Proof.
  intros prof c name Hb. unfold ffi_get_table.
  destruct (pkg_open prof c) as [k| |] eqn:Eo; try discriminate.
  - destruct (find_table (k_tabs k) name) as [t0|]; [|discriminate].
    assert (Hc : k_cont k = c) by (apply (open_clean prof c k Eo)).
    pose proof (pkg_select_total prof k (Sel (JTable name) [] None)) as Ht. rewrite Hc in Ht. specialize (Ht Hb).
    destruct (pkg_select prof k (Sel (JTable name) [] None)) as [[t1 rows]| |].
    + discriminate.
    + rewrite ffi_expect_removed. discriminate.
    + contradiction.
  - exfalso. exact (open_total prof c Hb Eo).
Qed.

(* ---- get_information: the creation time as text ------------------------------------------------------------------ *)
(* ffi/src/lib.rs renders SummaryInfo::creation_time with chrono's DateTime::to_rfc2822, which panics when the year has
   more than four digits; a summary stream can hold any 64-bit FILETIME (up to the year 60056).  Whether the call is
   guarded is regenerated from the source (FFI_INFO_TIME_UNGUARDED). *)
Definition RFC2822_LIMIT_TICKS : N := 2650467744000000000.      (* 10000-01-01T00:00:00Z in 100 ns ticks since 1601 *)
Definition ffi_info_time_with (unguarded : bool) (ticks : option N) : res unit :=
  match ticks with
  | None => Ok tt
  | Some t => if unguarded && (RFC2822_LIMIT_TICKS <=? t) then Panic else Ok tt
  end.
Definition ffi_info_time := ffi_info_time_with FFI_INFO_TIME_UNGUARDED.

Lemma ffi_info_time_guarded_now : FFI_INFO_TIME_UNGUARDED = false.
Proof. reflexivity. Qed.

(* whatever creation time the file holds, rendering it does not panic *)
Theorem ffi_info_time_total : forall ticks, ffi_info_time ticks <> Panic.
Proof.
  intros ticks. unfold ffi_info_time. rewrite ffi_info_time_guarded_now.
  destruct ticks; cbn; discriminate.
Qed.

(* the defect repaired by dea2b60: unguarded, the first instant of the year 10000 (a valid 64-bit FILETIME) panics *)
Lemma ffi_info_time_unguarded_panics :
  RFC2822_LIMIT_TICKS < 18446744073709551616 /\ ffi_info_time_with true (Some RFC2822_LIMIT_TICKS) = Panic.
Proof. split; [reflexivity | vm_compute; reflexivity]. Qed.
