(* Ffi.v -- model of the read-only FFI layer (ffi/src/lib.rs), as far as panics are concerned: get_table opens the
   package, looks the table up and selects all its rows; whether a failed select is turned into a panic (expect) or an
   empty result is regenerated from the source (FFI_GET_TABLE_EXPECTS). *)
From MsiModel Require Import Base Sexp Value Expr Category Column CodePage Pool Table Container StreamName
  Propset Summary Query Package SelectTotal OpenTotal PackageProofs.
From MsiGen Require Import GenConsts.
Open Scope N_scope.

(* the number of result rows (the header row of column names counts as one), or Panic *)
Definition ffi_get_table (prof : profile) (c : container) (name : str) : res N :=
  match pkg_open prof c with
  | Ok k =>
      match find_table (k_tabs k) name with
      | None => Ok 0
      | Some _ =>
          match pkg_select prof k (Sel (JTable name) [] None) with
          | Ok (_, rows) => Ok (1 + nlen rows)
          | Err => if FFI_GET_TABLE_EXPECTS then Panic else Ok 0
          | Panic => Panic
          end
      end
  | Err => Ok 0
  | Panic => Panic
  end.

Lemma ffi_expect_removed : FFI_GET_TABLE_EXPECTS = false.
Proof. reflexivity. Qed.

(* no panic can cross the C boundary, whatever the file holds *)
Theorem ffi_get_table_total : forall prof c name, bytes_ok c -> ffi_get_table prof c name <> Panic.
Proof.
  intros prof c name Hb. unfold ffi_get_table.
  destruct (pkg_open prof c) as [k| |] eqn:Eo; try discriminate.
  - destruct (find_table (k_tabs k) name) as [t0|]; [|discriminate].
    assert (Hc : k_cont k = c) by (apply (open_clean prof c k Eo)).
    pose proof (pkg_select_total prof k (Sel (JTable name) [] None)) as Ht. rewrite Hc in Ht. specialize (Ht Hb).
    destruct (pkg_select prof k (Sel (JTable name) [] None)) as [[t1 rows]| |].
    + discriminate.
    + rewrite ffi_expect_removed. discriminate.
    + contradiction.
  - exfalso. exact (open_total prof c Hb Eo).
Qed.
