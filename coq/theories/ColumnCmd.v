(* ColumnCmd.v -- wire encoding of columns and the category / column commands. *)
From MsiModel Require Import Base Sexp Value Category Column ExprCmd Language.
From MsiGen Require Import GenCategory.
Open Scope string_scope.

Definition coltype_sx (t : coltype) : sx :=
  match t with Int16 => SY "i16" | Int32 => SY "i32" | Str w => SL [SY "str"; sx_N w] end.
Definition sx_coltype (s : sx) : option coltype :=
  match s with
  | SY "i16" => Some Int16
  | SY "i32" => Some Int32
  | SL [SY "str"; w] => option_map Str (as_N w)
  | _ => None
  end.

Definition sx_cat (s : sx) : option category :=
  match s with SL l => match omapM as_N l with Some i => cat_of_ident i | None => None end | _ => None end.
Definition cat_sx (c : category) : sx := sx_str (cat_ident c).

Definition column_sx (c : column) : sx :=
  SL [SY "col"; sx_str (c_name c); coltype_sx (c_type c); sx_bool (c_loc c); sx_bool (c_null c); sx_bool (c_pk c);
      sx_opt (fun p => SL [SI (fst p); SI (snd p)]) (c_range c);
      sx_opt (fun p => SL [sx_str (fst p); SI (snd p)]) (c_fk c);
      sx_opt cat_sx (c_cat c);
      sx_list sx_str (c_enum c)].

Definition sx_column (s : sx) : option column :=
  match s with
  | SL [SY "col"; n; t; l; nu; pk; rg; fk; cat; en] =>
      match as_str n, sx_coltype t, as_bool l, as_bool nu, as_bool pk with
      | Some n', Some t', Some l', Some nu', Some pk' =>
          match as_opt (fun p => match p with SL [SI a; SI b] => Some (a, b) | _ => None end) rg,
                as_opt (fun p => match p with SL [a; SI b] => option_map (fun a' => (a', b)) (as_str a) | _ => None end) fk,
                as_opt sx_cat cat, as_listof as_str en with
          | Some rg', Some fk', Some cat', Some en' =>
              Some (mkcol n' t' l' nu' pk' rg' fk' cat' en')
          | _, _, _, _ => None
          end
      | _, _, _, _, _ => None
      end
  | _ => None
  end.

Open Scope string_scope.
Definition column_cmd (name : string) (args : list sx) : option sx :=
  match name, args with
  | "cat_validate", [c; s] =>
      match sx_cat c, as_str s with
      | Some c', Some s' => Some (sx_res sx_bool (validate c' s'))
      | _, _ => None
      end
  | "cat_names", [] => Some (sx_list (fun c => sx_str (cat_as_str c)) all_categories)
  | "cat_from_str", [s] => option_map (fun s' => sx_opt cat_sx (cat_from_str s')) (as_str s)
  | "col_valid", [c; v] =>
      match sx_column c, sx_value v with
      | Some c', Some v' => Some (sx_res sx_bool (is_valid_value c' v'))
      | _, _ => None
      end
  | "col_bits", [c] => option_map (fun c' => SI (col_bits c')) (sx_column c)
  | "col_of_bits", [c; SI b] =>
      option_map (fun c' => sx_res column_sx (col_with_bits c' b)) (sx_column c)
  | "col_name_valid", [s] => option_map (fun s' => sx_bool (is_valid_cname s')) (as_str s)
  | "value_of_uuid", [b] => option_map (fun b' => value_sx (VStr (uuid_value_text b'))) (as_str b)
  | "value_of_langs", [l] => option_map (fun l' => value_sx (VStr (langs_value_text l'))) (as_str l)
  | "value_of_lang", [SI c] => Some (value_sx (VStr (decimal (Z.to_N c))))
  | _, _ => None
  end.
