(* Ladder.v -- SPEC: the operator ladder of examples/msiquery.pest read as a
   precedence-climbing parser over tokens.
     1 OR < 2 AND < 3 NOT (prefix) < 4 comparison < 5 | < 6 ^ < 7 & < 8 shifts
     < 9 + - < 10 * / < 11 unary - ~ (prefix) < atoms
   Binary operators associate to the left; NOT's operand is read at the NOT
   level ("NOT a = b" is NOT (a = b)); unary minus and ~ take a unary-level
   operand.  Written from the grammar, not from the printer. *)
From MsiModel Require Import Base Value Expr.

Definition lev (b : bop) : nat :=
  match b with
  | BOr => 1 | BAnd => 2
  | BBin OEq | BBin ONe | BBin OLt | BBin OLe | BBin OGt | BBin OGe => 4
  | BBin OBitOr => 5 | BBin OBitXor => 6 | BBin OBitAnd => 7
  | BBin OShl | BBin OShr => 8
  | BBin OAdd | BBin OSub => 9
  | BBin OMul | BBin ODiv => 10
  end.
Definition NOT_LEVEL : nat := 3.
Definition UNARY_LEVEL : nat := 11.

Definition mk (b : bop) (x y : ast) : ast :=
  match b with BOr => Or x y | BAnd => And x y | BBin op => BinOp op x y end.

(* parse f m ts: an expression all of whose unparenthesised binary operators
   have level >= m, followed by the remaining tokens *)
Fixpoint parse (f : nat) (m : nat) (ts : list tok) {struct f} : option (ast * list tok) :=
  match f with
  | O => None
  | S f' =>
      match ts with
      | TUn BoolNot :: r =>
          if Nat.leb m NOT_LEVEL then
            match parse f' NOT_LEVEL r with
            | Some (x, r') => ploop f' m (UnOp BoolNot x) r'
            | None => None
            end
          else None
      | TUn u :: r =>
          match parse f' UNARY_LEVEL r with
          | Some (x, r') => ploop f' m (UnOp u x) r'
          | None => None
          end
      | TLit v :: r => ploop f' m (Lit v) r
      | TId s :: r => ploop f' m (Col s) r
      | TLP :: r =>
          match parse f' 0 r with
          | Some (x, TRP :: r') => ploop f' m x r'
          | _ => None
          end
      | _ => None
      end
  end
with ploop (f : nat) (m : nat) (lhs : ast) (ts : list tok) {struct f} : option (ast * list tok) :=
  match f with
  | O => None
  | S f' =>
      match ts with
      | TB b :: r =>
          if Nat.leb m (lev b) then
            match parse f' (S (lev b)) r with
            | Some (rhs, r') => ploop f' m (mk b lhs rhs) r'
            | None => None
            end
          else Some (lhs, ts)
      | _ => Some (lhs, ts)
      end
  end.

Definition parse_expr (ts : list tok) : option ast :=
  match parse (2 * length ts + 2) 0 ts with
  | Some (e, []) => Some e
  | _ => None
  end.
