(* Io.v -- the I/O discipline of the write paths (C15): a fallible medium with an arbitrary fault schedule, the container's
   buffered stream (cfb::Stream: an 8 KiB write-back buffer whose Drop discards the result of its final flush), and the
   four write paths of rust-msi (Table::write_rows, StringPool::write_pool / write_data, PropertySet::write) as
   "write the chunks, then flush-and-propagate or not, then drop".  Whether each path flushes is NOT written here: it is
   regenerated from the source (MsiGen.GenIo).  Everything below the stream level (sectors, FAT, directory) is abstracted
   as an append-only log of the bytes that reached the medium. *)
From MsiModel Require Import Base.
From MsiGen Require Import GenIo.
Open Scope N_scope.

(* which write calls fail: any function of the call index (one transient fault, a persistent one, any pattern) *)
Definition schedule := nat -> bool.

Record sink := mksink { landed : bytes; calls : nat }.

Definition sink_write (sch : schedule) (s : sink) (b : bytes) : sink * bool :=
  if sch (calls s) then (mksink (landed s) (S (calls s)), false)
  else (mksink (landed s ++ b) (S (calls s)), true).

(* cfb::Stream, as far as rust-msi can observe it *)
Definition CAP : nat := 8192.
Definition bs_spill (sch : schedule) (s : sink) (buf : bytes) : sink * bytes * bool :=
  match buf with
  | [] => (s, [], true)
  | _ => let '(s', ok) := sink_write sch s buf in (s', if ok then [] else buf, ok)
  end.
(* write: buffer the bytes; a full buffer is written through, and THAT write's error is what the caller sees *)
Definition bs_write (sch : schedule) (s : sink) (buf : bytes) (data : bytes) : sink * bytes * bool :=
  let buf' := buf ++ data in
  if Nat.leb CAP (length buf') then bs_spill sch s buf' else (s, buf', true).
Definition bs_flush := bs_spill.
(* Drop for Stream: flush, result ignored *)
Definition bs_drop (sch : schedule) (s : sink) (buf : bytes) : sink := fst (fst (bs_flush sch s buf)).

(* one write path: `writer.write_*(..)?` for every chunk, then `writer.flush()?` if the source has it, then the stream
   is dropped; returns the medium and whether the path reported success *)
Fixpoint write_chunks (sch : schedule) (s : sink) (buf : bytes) (chunks : list bytes) : sink * bytes * bool :=
  match chunks with
  | [] => (s, buf, true)
  | c :: r =>
      let '(s1, buf1, ok) := bs_write sch s buf c in
      if ok then write_chunks sch s1 buf1 r else (s1, buf1, false)
  end.
Definition write_path (flushes : bool) (sch : schedule) (s : sink) (chunks : list bytes) : sink * bool :=
  let '(s1, buf1, ok) := write_chunks sch s [] chunks in
  if negb ok then (bs_drop sch s1 buf1, false)
  else if flushes then
    let '(s2, buf2, ok2) := bs_flush sch s1 buf1 in (bs_drop sch s2 buf2, ok2)
  else (bs_drop sch s1 buf1, true).

(* the streams one save writes, in order: each with the flush flag of the function that writes it *)
Inductive wkind := WRows | WPool | WData | WSummary.
Definition flushes_of (k : wkind) : bool :=
  match k with
  | WRows => IO_WRITE_ROWS_FLUSHES | WPool => IO_WRITE_POOL_FLUSHES
  | WData => IO_WRITE_DATA_FLUSHES | WSummary => IO_PROPSET_WRITE_FLUSHES
  end.
(* a sequence of write paths, each propagated with `?` (Insert/Update/Delete::exec, FinishImpl::finish, Package::flush) *)
Fixpoint write_all (sch : schedule) (s : sink) (ws : list (wkind * list bytes)) : sink * bool :=
  match ws with
  | [] => (s, true)
  | (k, chunks) :: r =>
      let '(s1, ok) := write_path (flushes_of k) sch s chunks in
      if ok then write_all sch s1 r else (s1, false)
  end.
Definition all_bytes (ws : list (wkind * list bytes)) : bytes := flat_map (fun w => List.concat (snd w)) ws.
