(* CategoryProofs.v -- C07: the validators are total and accept exactly the
   documented grammars. *)
From MsiModel Require Import Base Sexp Value Finite Language Category Column.
From MsiGen Require Import GenCategory.
From Coq Require Import ZifyBool ZifyNat ZifyN.
Open Scope N_scope.
Arguments N.add : simpl never.
Arguments N.mul : simpl never.
Arguments N.div : simpl never.
Arguments N.modulo : simpl never.

(* ---- the generated tables are the ones the model was written against -------- *)
Lemma cat_all_pinned : map cat_ident all_categories = CAT_ALL_IDENTS.
Proof. reflexivity. Qed.
Lemma cat_validated_pinned :
  CAT_VALIDATED = map cat_ident [CText; CUpperCase; CLowerCase; CInteger; CDoubleInteger; CIdentifier;
                                 CProperty; CGuid; CVersion; CLanguage; CCabinet].
Proof. reflexivity. Qed.
Lemma cat_numbers_pinned : CAT_VALIDATE_NUMBERS = [0; 1; 2; 3; 4; 8; 37; 38] /\ CAT_CABINET_IN_CHARS = true /\
  CAT_PARSE_TYPES = map str_of_string ["i16"; "i32"; "u16"; "u16"]%string.
Proof. repeat split. Qed.

(* every category name parses back to its category (FromStr . as_str = id) *)
Lemma cat_roundtrip : forallb (fun c => match cat_from_str (cat_as_str c) with
                                        | Some c' => cat_eqb c c' | None => false end) all_categories = true.
Proof. vm_compute. reflexivity. Qed.
Lemma all_categories_complete c : In c all_categories.
Proof. destruct c; simpl; tauto. Qed.
Theorem cat_from_as c : exists c', cat_from_str (cat_as_str c) = Some c' /\ cat_ident c' = cat_ident c.
Proof.
  pose proof cat_roundtrip as H. rewrite forallb_forall in H.
  specialize (H c (all_categories_complete c)).
  destruct (cat_from_str (cat_as_str c)) as [c'|]; [|discriminate].
  exists c'. split; [reflexivity|]. unfold cat_eqb in H. apply str_eqb_spec in H. congruence.
Qed.

(* ---- UTF-8 facts needed for the &string[1..37] slice ------------------------ *)
Lemma enc1_len c : nlen (utf8_enc1 c) = utf8_len1 c.
Proof.
  unfold utf8_enc1, utf8_len1.
  destruct (c <? 128); [reflexivity|]. destruct (c <? 2048); [reflexivity|].
  destruct (c <? 65536); reflexivity.
Qed.
Lemma nlen_app {A} (a b : list A) : nlen (a ++ b) = nlen a + nlen b.
Proof. unfold nlen. rewrite app_length. lia. Qed.
Lemma utf8_len_enc s : nlen (utf8_enc s) = utf8_len s.
Proof.
  induction s as [|c r IH]; [reflexivity|].
  unfold utf8_enc in *. simpl flat_map. rewrite nlen_app, enc1_len. simpl utf8_len. rewrite IH. reflexivity.
Qed.
Lemma enc1_head c : exists b r, utf8_enc1 c = b :: r /\ is_continuation b = false.
Proof.
  unfold utf8_enc1, is_continuation.
  destruct (c <? 128) eqn:E1; [exists c, []; split; [reflexivity | lia]|].
  destruct (c <? 2048) eqn:E2; [eexists _, _; split; [reflexivity | lia]|].
  destruct (c <? 65536) eqn:E3; eexists _, _; (split; [reflexivity | lia]).
Qed.

Lemma nth_opt_app_r {A} (l : list A) x : nth_opt (l ++ [x]) (length l) = Some x.
Proof. induction l as [|a l IH]; [reflexivity | exact IH]. Qed.

Lemma guid_slice_ok s :
  utf8_len s = 38 -> starts_with_char 123 s = true -> ends_with_char 125 s = true ->
  exists mid, slice (utf8_enc s) 1 37 = Ok mid.
Proof.
  intros Hlen Hs He.
  destruct s as [|c r]; [discriminate|]. simpl in Hs. apply N.eqb_eq in Hs. subst c.
  assert (Hb1 : boundary (utf8_enc (123 :: r)) 1 = true).
  { unfold utf8_enc. simpl flat_map. change (utf8_enc1 123) with [123]. simpl app.
    unfold boundary. simpl nth_opt.
    destruct r as [|c2 r2].
    - simpl. reflexivity.
    - simpl flat_map. destruct (enc1_head c2) as (b & t & -> & Hb). simpl. rewrite Hb. reflexivity. }
  unfold ends_with_char in He.
  destruct (rev (123 :: r)) as [|z t] eqn:Er; [discriminate|]. apply N.eqb_eq in He. subst z.
  assert (Hs' : 123 :: r = rev t ++ [125]).
  { rewrite <- (rev_involutive (123 :: r)), Er. reflexivity. }
  assert (Henc : utf8_enc (123 :: r) = utf8_enc (rev t) ++ [125]).
  { rewrite Hs'. unfold utf8_enc. rewrite flat_map_app. reflexivity. }
  assert (Hl : length (utf8_enc (rev t)) = 37%nat).
  { pose proof (utf8_len_enc (123 :: r)) as L. rewrite Hlen, Henc, nlen_app in L.
    unfold nlen in L. simpl length in L. lia. }
  assert (Hb37 : boundary (utf8_enc (123 :: r)) 37 = true).
  { rewrite Henc. unfold boundary. rewrite <- Hl. rewrite nth_opt_app_r. reflexivity. }
  unfold slice. rewrite Hb1, Hb37.
  assert (length (utf8_enc (123 :: r)) = 38%nat) by (rewrite Henc, app_length, Hl; reflexivity).
  rewrite H. simpl. eexists. reflexivity.
Qed.

(* the validators answer for every string without panicking *)
Theorem validate_total c s : exists b, validate c s = Ok b.
Proof.
  destruct c; simpl; try (eexists; reflexivity).
  - (* Guid *)
    destruct ((utf8_len s =? 38) && starts_with_char 123 s && ends_with_char 125 s && negb (existsb is_lower s)) eqn:E.
    + apply andb_true_iff in E as [E _]. apply andb_true_iff in E as [E E3]. apply andb_true_iff in E as [E1 E2].
      apply N.eqb_eq in E1. destruct (guid_slice_ok s E1 E2 E3) as [mid ->]. simpl. eexists. reflexivity.
    + eexists. reflexivity.
  - (* Cabinet *)
    destruct (strip_prefix_char 35 s); [eexists; reflexivity|].
    destruct (rsplit_dot s). eexists. reflexivity.
Qed.

Theorem is_valid_value_total col v : exists b, is_valid_value col v = Ok b.
Proof.
  destruct v as [|n|s]; simpl.
  - eexists; reflexivity.
  - destruct (match c_range col with Some (lo, hi) => _ | None => false end); [eexists; reflexivity|].
    destruct (c_type col); eexists; reflexivity.
  - destruct (c_type col) as [| |w]; try (eexists; reflexivity).
    destruct (c_cat col) as [k|]; simpl.
    + destruct (validate_total k s) as [b ->]. simpl.
      destruct (negb b); [eexists; reflexivity|].
      destruct (negb match c_enum col with [] => true | _ => false end && negb (existsb (str_eqb s) (c_enum col)));
        eexists; reflexivity.
    + destruct (negb match c_enum col with [] => true | _ => false end && negb (existsb (str_eqb s) (c_enum col)));
        eexists; reflexivity.
Qed.

(* ======================= declarative grammars (the spec) ======================= *)
Definition ident_start (c : N) : Prop := is_alpha c = true \/ c = 95.
Definition ident_char (c : N) : Prop := is_alnum c = true \/ c = 95 \/ c = 46.
(* Identifier: [A-Za-z_][A-Za-z0-9_.]* *)
Inductive identifier : str -> Prop :=
| identifier_intro c r : ident_start c -> Forall ident_char r -> identifier (c :: r).
(* Property: optional '%' + Identifier *)
Definition property (s : str) : Prop := identifier s \/ exists r, s = 37 :: r /\ identifier r.

Definition digit_string (ds : str) : Prop := ds <> [] /\ Forall (fun c => is_digit c = true) ds.
(* optionally signed decimal within [lo, hi]; '-' only for signed types *)
Definition int_text (signed : bool) (lo hi : Z) (s : str) : Prop :=
  exists sign ds, s = sign ++ ds /\ digit_string ds /\
    (((sign = [] \/ sign = [43]) /\ (digits_value ds <= hi)%Z) \/
     (signed = true /\ sign = [45] /\ (lo <= - digits_value ds)%Z)).

Definition no_sep (sep : N) (p : str) : Prop := ~ In sep p.
(* Version: 1..4 dot-separated u16; Language: 1.. comma-separated u16 *)
Definition version (s : str) : Prop :=
  exists parts, s = join_sep 46 parts /\ (1 <= length parts <= 4)%nat /\ Forall (int_text false 0 65535) parts.
Definition language_list (s : str) : Prop :=
  exists parts, s = join_sep 44 parts /\ (1 <= length parts)%nat /\ Forall (int_text false 0 65535) parts.
(* Cabinet: '#' + Identifier, or base (1..8 characters) with optional '.' + <= 3 characters,
   split at the last dot *)
Definition cabinet (s : str) : Prop :=
  (exists r, s = 35 :: r /\ identifier r) \/
  (starts_with_char 35 s = false /\
   ((~ In 46 s /\ (1 <= length s <= 8)%nat) \/
    (exists base ext, s = base ++ 46 :: ext /\ ~ In 46 ext /\ (1 <= length base <= 8)%nat /\ (length ext <= 3)%nat))).

(* ---- identifier ---------------------------------------------------------------- *)
Lemma ident_char_b c : (is_alnum c || (c =? 95) || (c =? 46)) = true <-> ident_char c.
Proof. unfold ident_char. rewrite !orb_true_iff, !N.eqb_eq. tauto. Qed.

Lemma not_existsb_forall {A} (p : A -> bool) l :
  negb (existsb (fun x => negb (p x)) l) = true <-> Forall (fun x => p x = true) l.
Proof.
  induction l as [|a l IH]; simpl.
  - split; auto.
  - rewrite negb_orb, andb_true_iff, IH, negb_involutive. split.
    + intros [H1 H2]. constructor; assumption.
    + intros H. inversion H; subst. split; assumption.
Qed.

Theorem identifier_iff s : identifier_ok s = true <-> identifier s.
Proof.
  unfold identifier_ok. destruct s as [|c r].
  - split; [discriminate | intros H; inversion H].
  - rewrite andb_true_iff, not_existsb_forall. split.
    + intros [H1 H2]. inversion H2 as [|? ? _ Hr]; subst. constructor.
      * unfold ident_start. apply orb_true_iff in H1. rewrite N.eqb_eq in H1. exact H1.
      * eapply Forall_impl; [|exact Hr]. intros a Ha. apply ident_char_b, Ha.
    + intros H. inversion H as [? ? Hs Hr]; subst. split.
      * unfold ident_start in Hs. apply orb_true_iff. rewrite N.eqb_eq. exact Hs.
      * constructor.
        -- apply ident_char_b. unfold ident_char, ident_start, is_alnum in *.
           destruct Hs as [Hs| ->]; [left; rewrite Hs; reflexivity | right; left; reflexivity].
        -- eapply Forall_impl; [|exact Hr]. intros a Ha. apply ident_char_b, Ha.
Qed.

Theorem property_iff s : validate CProperty s = Ok true <-> property s.
Proof.
  simpl. unfold property, strip_prefix_char. split.
  - intros [= H]. destruct s as [|c r].
    + apply identifier_iff in H. left; exact H.
    + destruct (c =? 37) eqn:E.
      * apply N.eqb_eq in E. subst. right. exists r. split; [reflexivity | apply identifier_iff, H].
      * left. apply identifier_iff, H.
  - intros [H | (r & -> & H)].
    + f_equal. destruct s as [|c r]; [apply identifier_iff, H|].
      inversion H as [? ? Hs Hr]; subst.
      destruct (c =? 37) eqn:E; [|apply identifier_iff, H].
      apply N.eqb_eq in E. subst. unfold ident_start, is_alpha, is_upper, is_lower in Hs.
      destruct Hs as [Hs|Hs]; discriminate.
    + f_equal. rewrite N.eqb_refl. apply identifier_iff, H.
Qed.

(* ---- upper / lower case --------------------------------------------------------- *)
Theorem uppercase_iff s : validate CUpperCase s = Ok true <-> Forall (fun c => is_lower c = false) s.
Proof.
  simpl. split.
  - intros [= H]. induction s as [|c r IH]; [constructor|]. simpl in H.
    rewrite negb_orb, andb_true_iff in H. destruct H as [H1 H2]. constructor; [destruct (is_lower c); [discriminate | reflexivity] | apply IH, H2].
  - intros H. f_equal. induction H as [|c r Hc _ IH]; [reflexivity|]. simpl. rewrite Hc. exact IH.
Qed.
Theorem lowercase_iff s : validate CLowerCase s = Ok true <-> Forall (fun c => is_upper c = false) s.
Proof.
  simpl. split.
  - intros [= H]. induction s as [|c r IH]; [constructor|]. simpl in H.
    rewrite negb_orb, andb_true_iff in H. destruct H as [H1 H2]. constructor; [destruct (is_upper c); [discriminate | reflexivity] | apply IH, H2].
  - intros H. f_equal. induction H as [|c r Hc _ IH]; [reflexivity|]. simpl. rewrite Hc. exact IH.
Qed.

(* ---- integers --------------------------------------------------------------------- *)
Lemma forallb_Forall {A} (p : A -> bool) l : forallb p l = true <-> Forall (fun x => p x = true) l.
Proof.
  induction l as [|a l IH]; simpl; [split; auto|].
  rewrite andb_true_iff, IH. split; [intros [? ?]; constructor; auto | intros H; inversion H; auto].
Qed.

Lemma parse_digits lo hi ds (neg : bool) :
  (match ds with [] => false | _ => forallb is_digit ds &&
     (if neg then (lo <=? - digits_value ds)%Z else (digits_value ds <=? hi)%Z) end) = true <->
  digit_string ds /\ (if neg then (lo <= - digits_value ds)%Z else (digits_value ds <= hi)%Z).
Proof.
  unfold digit_string. destruct ds as [|d r].
  - split; [discriminate | intros [[H _] _]; congruence].
  - rewrite andb_true_iff, forallb_Forall. destruct neg; rewrite ?Z.leb_le; split.
    + intros [H1 H2]. split; [split; [discriminate | exact H1] | exact H2].
    + intros [[_ H1] H2]. split; assumption.
    + intros [H1 H2]. split; [split; [discriminate | exact H1] | exact H2].
    + intros [[_ H1] H2]. split; assumption.
Qed.

Theorem int_text_iff signed lo hi s : parse_int signed lo hi s = true <-> int_text signed lo hi s.
Proof.
  unfold parse_int, int_text.
  assert (Hplain : forall ds, (forall r, ds <> 43 :: r) -> (signed = true -> forall r, ds <> 45 :: r) ->
            ((match ds with [] => false | _ => forallb is_digit ds && (digits_value ds <=? hi)%Z end) = true <->
             exists sign ds0, ds = sign ++ ds0 /\ digit_string ds0 /\
               (((sign = [] \/ sign = [43]) /\ (digits_value ds0 <= hi)%Z) \/
                (signed = true /\ sign = [45] /\ (lo <= - digits_value ds0)%Z)))).
  { intros ds N43 N45. rewrite (parse_digits lo hi ds false). split.
    - intros [H1 H2]. exists [], ds. split; [reflexivity|]. split; [exact H1|]. left. split; [left; reflexivity | exact H2].
    - intros (sign & ds0 & E & Hd & [[[->| ->] Hv] | (Hs & -> & Hv)]).
      + simpl in E. subst. split; assumption.
      + exfalso. eapply N43. exact E.
      + exfalso. eapply (N45 Hs). exact E. }
  destruct s as [|c r].
  - apply (Hplain []); [intros; discriminate | intros; discriminate].
  - destruct (c =? 43) eqn:E43.
    + (* '+' *)
      apply N.eqb_eq in E43. subst c.
      rewrite (parse_digits lo hi r false). split.
      * intros [H1 H2]. exists [43], r. split; [reflexivity|]. split; [exact H1|]. left. split; [right; reflexivity | exact H2].
      * intros (sign & ds0 & E & Hd & [[[->| ->] Hv] | (Hs & -> & Hv)]).
        -- simpl in E. subst ds0. destruct Hd as [_ Hd]. inversion Hd as [|? ? Hc _]; subst. discriminate.
        -- inversion E; subst. split; assumption.
        -- discriminate.
    + destruct ((c =? 45) && signed) eqn:E45.
      * (* '-' on a signed type *)
        apply andb_true_iff in E45 as [E45 Hsg]. apply N.eqb_eq in E45. subst c signed.
        rewrite (parse_digits lo hi r true). split.
        -- intros [H1 H2]. exists [45], r. split; [reflexivity|]. split; [exact H1|]. right. auto.
        -- intros (sign & ds0 & E & Hd & [[[->| ->] Hv] | (Hs & -> & Hv)]).
           ++ simpl in E. subst ds0. destruct Hd as [_ Hd]. inversion Hd as [|? ? Hc _]; subst. discriminate.
           ++ discriminate.
           ++ inversion E; subst. split; assumption.
      * apply (Hplain (c :: r)).
        -- intros r0 [= -> _]. discriminate.
        -- intros Hs r0 [= -> _]. subst signed. discriminate.
Qed.

Theorem integer_iff s : validate CInteger s = Ok true <-> int_text true (-32768) 32767 s.
Proof. simpl. rewrite <- int_text_iff. unfold parse_i16. split; [intros [= ->]; reflexivity | intros ->; reflexivity]. Qed.
Theorem double_integer_iff s : validate CDoubleInteger s = Ok true <-> int_text true (-2147483648) 2147483647 s.
Proof. simpl. rewrite <- int_text_iff. unfold parse_i32. split; [intros [= ->]; reflexivity | intros ->; reflexivity]. Qed.

(* ---- split / join ------------------------------------------------------------------- *)
Lemma split_on_nonempty c s : split_on c s <> [].
Proof.
  destruct s as [|x r]; simpl; [discriminate|].
  destruct (split_on c r); [discriminate|]. destruct (x =? c); discriminate.
Qed.

Lemma join_split c s : join_sep c (split_on c s) = s.
Proof.
  induction s as [|x r IH]; [reflexivity|]. simpl.
  destruct (split_on c r) as [|h t] eqn:E; [exfalso; eapply split_on_nonempty; exact E|].
  destruct (x =? c) eqn:Ex.
  - apply N.eqb_eq in Ex. subst x. change (join_sep c ([] :: h :: t)) with (c :: join_sep c (h :: t)). rewrite IH. reflexivity.
  - destruct t as [|h2 t2]; simpl in *; rewrite <- IH; reflexivity.
Qed.

Lemma split_no_sep c p : ~ In c p -> split_on c p = [p].
Proof.
  induction p as [|x r IH]; intros H; [reflexivity|]. simpl.
  rewrite IH by (intros Hin; apply H; right; exact Hin).
  destruct (x =? c) eqn:E; [|reflexivity]. apply N.eqb_eq in E. exfalso. apply H. left. exact E.
Qed.

Lemma split_app c p rest : ~ In c p ->
  split_on c (p ++ c :: rest) = p :: split_on c rest.
Proof.
  induction p as [|x r IH]; intros H; simpl.
  - destruct (split_on c rest) as [|h t] eqn:E; [exfalso; eapply split_on_nonempty; exact E|].
    rewrite N.eqb_refl. reflexivity.
  - rewrite IH by (intros Hin; apply H; right; exact Hin).
    destruct (x =? c) eqn:E; [|reflexivity]. apply N.eqb_eq in E. exfalso. apply H. left. exact E.
Qed.

Lemma split_join c parts : parts <> [] -> Forall (fun p => ~ In c p) parts ->
  split_on c (join_sep c parts) = parts.
Proof.
  induction parts as [|p r IH]; intros Hne Hall; [congruence|].
  inversion Hall as [|? ? Hp Hr]; subst.
  destruct r as [|p2 r2].
  - simpl. apply split_no_sep, Hp.
  - change (join_sep c (p :: p2 :: r2)) with (p ++ c :: join_sep c (p2 :: r2)).
    rewrite split_app by exact Hp. rewrite IH; [reflexivity | discriminate | exact Hr].
Qed.

Lemma digits_no c ds : is_digit c = false -> Forall (fun x => is_digit x = true) ds -> ~ In c ds.
Proof. intros Hc Hd Hin. rewrite Forall_forall in Hd. specialize (Hd c Hin). congruence. Qed.

Lemma u16_text_no_sep sep p : is_digit sep = false -> sep <> 43 ->
  int_text false 0 65535 p -> ~ In sep p.
Proof.
  intros Hs H43 (sign & ds & -> & [_ Hd] & [[[->| ->] _] | (Hf & _)]); [| |discriminate].
  - simpl. apply digits_no; assumption.
  - simpl. intros [E|Hin]; [congruence|]. eapply digits_no; eauto.
Qed.

Lemma list_parts_iff sep s (maxn : option nat) : is_digit sep = false -> sep <> 43 ->
  ((match maxn with Some n => Nat.leb (length (split_on sep s)) n | None => true end)
     && forallb parse_u16 (split_on sep s) = true <->
   exists parts, s = join_sep sep parts /\
     (1 <= length parts)%nat /\ (match maxn with Some n => (length parts <= n)%nat | None => True end) /\
     Forall (int_text false 0 65535) parts).
Proof.
  intros Hs H43. rewrite andb_true_iff, forallb_Forall. split.
  - intros [Hn Hall]. exists (split_on sep s). split; [symmetry; apply join_split|]. split.
    + pose proof (split_on_nonempty sep s). destruct (split_on sep s); [congruence | simpl; lia].
    + split; [destruct maxn; [apply Nat.leb_le, Hn | exact I]|].
      eapply Forall_impl; [|exact Hall]. intros p Hp. apply int_text_iff. exact Hp.
  - intros (parts & -> & H1 & Hn & Hall).
    assert (split_on sep (join_sep sep parts) = parts) as E.
    { apply split_join; [destruct parts; [simpl in H1; lia | discriminate]|].
      eapply Forall_impl; [|exact Hall]. intros p Hp. eapply u16_text_no_sep; eauto. }
    rewrite E. split; [destruct maxn; [apply Nat.leb_le, Hn | reflexivity]|].
    eapply Forall_impl; [|exact Hall]. intros p Hp. apply int_text_iff. exact Hp.
Qed.

Theorem version_iff s : validate CVersion s = Ok true <-> version s.
Proof.
  simpl. unfold version.
  assert (forall l : list str, (nlen l <=? 4) = Nat.leb (length l) 4) as Hl
    by (intros l; unfold nlen; destruct (Nat.leb (length l) 4) eqn:E; [apply Nat.leb_le in E | apply Nat.leb_gt in E]; lia).
  rewrite Hl. pose proof (list_parts_iff 46 s (Some 4%nat) eq_refl ltac:(discriminate)) as H. simpl in H.
  split.
  - intros [= E]. apply H in E. destruct E as (parts & E1 & E2 & E3 & E4). exists parts. auto.
  - intros (parts & E1 & [E2 E3] & E4). f_equal. apply H. exists parts. auto.
Qed.

Theorem language_iff s : validate CLanguage s = Ok true <-> language_list s.
Proof.
  simpl. unfold language_list.
  pose proof (list_parts_iff 44 s None eq_refl ltac:(discriminate)) as H. simpl in H.
  split.
  - intros [= E]. apply H in E. destruct E as (parts & E1 & E2 & _ & E4). exists parts. auto.
  - intros (parts & E1 & E2 & E4). f_equal. apply H. exists parts. auto.
Qed.

(* ---- cabinet -------------------------------------------------------------------------- *)
Lemma rsplit_none s b : rsplit_dot s = (b, None) -> b = s /\ ~ In 46 s.
Proof.
  revert b. induction s as [|x r IH]; intros b H; simpl in H.
  - inversion H. split; [reflexivity | intros []].
  - destruct (rsplit_dot r) as [b0 [e|]]; [discriminate|].
    destruct (x =? 46) eqn:E; [discriminate|]. inversion H; subst.
    destruct (IH b0 eq_refl) as [-> Hn]. split; [reflexivity|].
    intros [Hx|Hin]; [apply N.eqb_neq in E; congruence | exact (Hn Hin)].
Qed.
Lemma rsplit_some s b e : rsplit_dot s = (b, Some e) -> s = b ++ 46 :: e /\ ~ In 46 e.
Proof.
  revert b e. induction s as [|x r IH]; intros b e H; simpl in H; [discriminate|].
  destruct (rsplit_dot r) as [b0 [e0|]] eqn:Er.
  - inversion H; subst. destruct (IH b0 e eq_refl) as [-> Hn]. split; [reflexivity | exact Hn].
  - destruct (x =? 46) eqn:E; [|discriminate]. inversion H; subst.
    apply N.eqb_eq in E. subst. destruct (rsplit_none r e Er) as [-> Hn]. split; [reflexivity | exact Hn].
Qed.
Lemma rsplit_unique s b e : s = b ++ 46 :: e -> ~ In 46 e -> rsplit_dot s = (b, Some e).
Proof.
  revert s. induction b as [|x b IH]; intros s -> Hn; simpl.
  - destruct (rsplit_dot e) as [b0 [e0|]] eqn:Er.
    + exfalso. destruct (rsplit_some _ _ _ Er) as [-> _]. apply Hn. apply in_or_app. right. left. reflexivity.
    + destruct (rsplit_none _ _ Er) as [-> _]. reflexivity.
  - rewrite (IH _ eq_refl Hn). reflexivity.
Qed.
Lemma rsplit_nodot s : ~ In 46 s -> rsplit_dot s = (s, None).
Proof.
  induction s as [|x r IH]; intros Hn; [reflexivity|]. simpl.
  rewrite IH by (intros Hin; apply Hn; right; exact Hin).
  destruct (x =? 46) eqn:E; [|reflexivity]. apply N.eqb_eq in E. exfalso. apply Hn. left. exact E.
Qed.

Theorem cabinet_iff s : validate CCabinet s = Ok true <-> cabinet s.
Proof.
  pose proof cat_numbers_pinned as (_ & Hchars & _).
  simpl. unfold cabinet, strip_prefix_char, starts_with_char, measure. rewrite Hchars.
  destruct s as [|c r].
  - simpl. split; [discriminate|].
    intros [(r & E & _) | (_ & [[_ H] | (b & e & E & _)])]; [discriminate | simpl in H; lia | destruct b; discriminate].
  - destruct (c =? 35) eqn:E35.
    + apply N.eqb_eq in E35. subst. split.
      * intros [= H]. left. exists r. split; [reflexivity | apply identifier_iff, H].
      * intros [(r0 & [= <-] & H) | (Hf & _)]; [f_equal; apply identifier_iff, H | discriminate].
    + destruct (rsplit_dot (c :: r)) as [b [e|]] eqn:Er.
      * destruct (rsplit_some _ _ _ Er) as [Es Hn]. split.
        -- intros [= H]. right. split; [reflexivity|]. right. exists b, e.
           apply andb_true_iff in H as [H H3]. apply andb_true_iff in H as [H1 H2].
           unfold nlen in *. split; [exact Es|]. split; [exact Hn|].
           destruct b; [discriminate|]. cbn [length] in *. lia.
        -- intros [(r0 & [= -> _] & _) | (_ & [[Hnd _] | (b' & e' & Es' & Hn' & Hb & He)])].
           ++ discriminate.
           ++ exfalso. apply Hnd. rewrite Es. apply in_or_app. right. left. reflexivity.
           ++ rewrite (rsplit_unique _ _ _ Es' Hn') in Er. inversion Er; subst.
              f_equal. unfold nlen. destruct b; [simpl in Hb; lia|]. cbn [length] in *.
              rewrite !andb_true_iff. repeat split; [lia | lia].
      * destruct (rsplit_none _ _ Er) as [-> Hn]. split.
        -- intros [= H]. right. split; [reflexivity|]. left. split; [exact Hn|].
           rewrite andb_true_r in H. cbn [negb andb] in H. unfold nlen in H. cbn [length] in *. lia.
        -- intros [(r0 & [= -> _] & _) | (_ & [[_ Hl] | (b' & e' & Es' & Hn' & _)])].
           ++ discriminate.
           ++ f_equal. unfold nlen. cbn [length negb andb] in *. rewrite andb_true_r. lia.
           ++ exfalso. apply Hn. rewrite Es'. apply in_or_app. right. left. reflexivity.
Qed.

(* ---- GUID ---------------------------------------------------------------------------------- *)
Definition hyphen_pos (i : nat) : bool := (Nat.eqb i 8 || Nat.eqb i 13 || Nat.eqb i 18 || Nat.eqb i 23)%bool.
Definition upper_hex (c : N) : bool := is_digit c || ((65 <=? c) && (c <=? 70)).
Fixpoint guid_chars (i : nat) (h : str) : bool :=
  match h with
  | [] => true
  | x :: r => (if hyphen_pos i then x =? 45 else upper_hex x) && guid_chars (S i) r
  end.
(* '{' 8-4-4-4-12 upper-case hex digits '}' *)
Definition guid (s : str) : Prop :=
  exists h, s = 123 :: h ++ [125] /\ length h = 36%nat /\ guid_chars 0 h = true.

Lemma enc_ascii h : Forall (fun b => b < 128) (utf8_enc h) -> utf8_enc h = h.
Proof.
  induction h as [|c r IH]; intros H; [reflexivity|].
  unfold utf8_enc in *. simpl flat_map in *.
  unfold utf8_enc1 in *. destruct (c <? 128) eqn:E1.
  - simpl in *. inversion H; subst. f_equal. apply IH. assumption.
  - exfalso. destruct (c <? 2048) eqn:E2; [|destruct (c <? 65536) eqn:E3];
      simpl in H; inversion H as [|? ? Hb _]; subst; lia.
Qed.
Lemma ascii_enc h : Forall (fun b => b < 128) h -> utf8_enc h = h.
Proof.
  induction h as [|c r IH]; intros H; [reflexivity|]. inversion H; subst.
  unfold utf8_enc in *. simpl flat_map. unfold utf8_enc1.
  destruct (c <? 128) eqn:E; [|lia]. simpl. f_equal. apply IH. assumption.
Qed.
Lemma uuid_chars_ascii i b : uuid_chars i b = true -> Forall (fun x => x < 128) b.
Proof.
  revert i; induction b as [|x r IH]; intros i H; [constructor|]. simpl in H.
  apply andb_true_iff in H as [H1 H2]. constructor; [|eapply IH; exact H2].
  destruct (Nat.eqb i 8 || Nat.eqb i 13 || Nat.eqb i 18 || Nat.eqb i 23)%bool.
  - apply N.eqb_eq in H1. lia.
  - unfold is_hex, is_digit in H1. lia.
Qed.
Lemma guid_chars_ascii i b : guid_chars i b = true -> Forall (fun x => x < 128) b.
Proof.
  revert i; induction b as [|x r IH]; intros i H; [constructor|]. simpl in H.
  apply andb_true_iff in H as [H1 H2]. constructor; [|eapply IH; exact H2].
  destruct (hyphen_pos i).
  - apply N.eqb_eq in H1. lia.
  - unfold upper_hex, is_digit in H1. lia.
Qed.
Lemma uuid_guid_chars i h : existsb is_lower h = false ->
  uuid_chars i h = guid_chars i h.
Proof.
  revert i; induction h as [|x r IH]; intros i H; [reflexivity|]. simpl in *.
  apply orb_false_iff in H as [Hx Hr]. rewrite (IH _ Hr). f_equal.
  unfold hyphen_pos. destruct (Nat.eqb i 8 || Nat.eqb i 13 || Nat.eqb i 18 || Nat.eqb i 23)%bool; [reflexivity|].
  unfold is_hex, upper_hex, is_lower, is_digit in *. lia.
Qed.
Lemma guid_chars_no_lower i h : guid_chars i h = true -> existsb is_lower h = false.
Proof.
  revert i; induction h as [|x r IH]; intros i H; [reflexivity|]. simpl in *.
  apply andb_true_iff in H as [H1 H2]. rewrite (IH _ H2), orb_false_r.
  destruct (hyphen_pos i).
  - apply N.eqb_eq in H1. subst. reflexivity.
  - unfold upper_hex, is_lower, is_digit in *. lia.
Qed.
Lemma existsb_app' {A} (p : A -> bool) a b : existsb p (a ++ b) = (existsb p a || existsb p b)%bool.
Proof. induction a as [|x a IH]; simpl; [reflexivity|]. rewrite IH, orb_assoc. reflexivity. Qed.
Lemma firstn_app_exact {A} (a b : list A) : firstn (length a) (a ++ b) = a.
Proof. induction a as [|x a IH]; simpl; [destruct b; reflexivity | rewrite IH; reflexivity]. Qed.

Lemma slice_mid x m y mid : slice (x :: m ++ [y]) 1 (S (length m)) = Ok mid -> mid = m.
Proof.
  unfold slice.
  destruct (boundary (x :: m ++ [y]) 1 && boundary (x :: m ++ [y]) (S (length m)) && Nat.leb 1 (S (length m))
            && Nat.leb (S (length m)) (length (x :: m ++ [y])))%bool; [|discriminate].
  intros [= <-]. cbn [skipn]. rewrite ?Nat.sub_0_r. apply firstn_app_exact.
Qed.

Theorem guid_iff s : validate CGuid s = Ok true <-> guid s.
Proof.
  simpl. split.
  - destruct ((utf8_len s =? 38) && starts_with_char 123 s && ends_with_char 125 s && negb (existsb is_lower s)) eqn:E;
      [|discriminate].
    apply andb_true_iff in E as [E E4]. apply andb_true_iff in E as [E E3]. apply andb_true_iff in E as [E1 E2].
    apply N.eqb_eq in E1. apply negb_true_iff in E4.
    destruct s as [|c r]; [discriminate|]. simpl in E2. apply N.eqb_eq in E2. subst c.
    unfold ends_with_char in E3. destruct (rev (123 :: r)) as [|z t] eqn:Er; [discriminate|].
    apply N.eqb_eq in E3. subst z.
    assert (Hs : 123 :: r = rev t ++ [125]) by (rewrite <- (rev_involutive (123 :: r)), Er; reflexivity).
    destruct (rev t) as [|c0 h] eqn:Et; [simpl in Hs; inversion Hs|].
    simpl in Hs. inversion Hs as [[Hc Hr]]. subst c0 r. clear Hs.
    assert (Henc : utf8_enc (123 :: h ++ [125]) = 123 :: utf8_enc h ++ [125]).
    { unfold utf8_enc. simpl flat_map. rewrite flat_map_app. reflexivity. }
    assert (Hl : length (utf8_enc h) = 36%nat).
    { pose proof (utf8_len_enc (123 :: h ++ [125])) as L. rewrite E1, Henc in L.
      unfold nlen in L. simpl length in L. rewrite app_length in L. simpl length in L. lia. }
    destruct (guid_slice_ok (123 :: h ++ [125]) E1 eq_refl) as [mid Hmid].
    { unfold ends_with_char. rewrite Er. apply N.eqb_refl. }
    rewrite Hmid. simpl. intros [= Hu].
    assert (mid = utf8_enc h) as ->.
    { rewrite Henc in Hmid. change 37%nat with (S 36) in Hmid. rewrite <- Hl in Hmid.
      apply slice_mid in Hmid. exact Hmid. }
    unfold uuid_hyphenated in Hu. apply andb_true_iff in Hu as [_ Hu].
    pose proof (enc_ascii h (uuid_chars_ascii _ _ Hu)) as Ha. rewrite Ha in *.
    exists h. split; [reflexivity|]. split; [exact Hl|].
    rewrite <- uuid_guid_chars; [exact Hu|].
    simpl in E4. rewrite existsb_app' in E4. apply orb_false_iff in E4 as [E4 _]. exact E4.
  - intros (h & -> & Hl & Hg).
    pose proof (ascii_enc h (guid_chars_ascii _ _ Hg)) as Ha.
    assert (Henc : utf8_enc (123 :: h ++ [125]) = 123 :: h ++ [125]).
    { unfold utf8_enc. simpl flat_map. rewrite flat_map_app. fold (utf8_enc h). rewrite Ha. reflexivity. }
    assert (E1 : utf8_len (123 :: h ++ [125]) = 38).
    { rewrite <- utf8_len_enc, Henc. unfold nlen. simpl length. rewrite app_length. simpl length. lia. }
    assert (E3 : ends_with_char 125 (123 :: h ++ [125]) = true).
    { unfold ends_with_char. change (123 :: h ++ [125]) with ((123 :: h) ++ [125]). rewrite rev_app_distr. reflexivity. }
    assert (E4 : existsb is_lower (123 :: h ++ [125]) = false).
    { simpl. rewrite existsb_app', (guid_chars_no_lower _ _ Hg). reflexivity. }
    rewrite E1, E3, E4. simpl starts_with_char. simpl andb.
    destruct (guid_slice_ok (123 :: h ++ [125]) E1 eq_refl E3) as [mid Hmid]. rewrite Hmid. simpl.
    assert (mid = h) as ->.
    { rewrite Henc in Hmid. change 37%nat with (S 36) in Hmid. rewrite <- Hl in Hmid.
      apply slice_mid in Hmid. exact Hmid. }
    f_equal. unfold uuid_hyphenated, nlen. rewrite Hl. simpl andb.
    rewrite uuid_guid_chars; [exact Hg | apply (guid_chars_no_lower _ _ Hg)].
Qed.

(* ======================= C07: valid = the documented meaning ======================= *)
Definition in_category (k : category) (s : str) : Prop :=
  match k with
  | CUpperCase => Forall (fun c => is_lower c = false) s
  | CLowerCase => Forall (fun c => is_upper c = false) s
  | CInteger => int_text true (-32768) 32767 s
  | CDoubleInteger => int_text true (-2147483648) 2147483647 s
  | CIdentifier => identifier s
  | CProperty => property s
  | CGuid => guid s
  | CVersion => version s
  | CLanguage => language_list s
  | CCabinet => cabinet s
  | _ => True
  end.

Theorem validate_iff k s : validate k s = Ok true <-> in_category k s.
Proof.
  destruct k; try (simpl; split; [intros _; exact I | intros _; reflexivity]).
  - apply uppercase_iff.
  - apply lowercase_iff.
  - apply integer_iff.
  - apply double_integer_iff.
  - simpl. rewrite <- identifier_iff. split; [intros [= ->]; reflexivity | intros ->; reflexivity].
  - apply property_iff.
  - apply guid_iff.
  - apply version_iff.
  - apply language_iff.
  - apply cabinet_iff.
Qed.

Definition valid_spec (col : column) (v : value) : Prop :=
  match v with
  | VNull => c_null col = true
  | VInt n =>
      (match c_type col with
       | Int16 => (-32767 <= n <= 32767)%Z
       | Int32 => (-2147483647 <= n <= 2147483647)%Z
       | Str _ => False
       end) /\
      (match c_range col with Some (lo, hi) => (lo <= n <= hi)%Z | None => True end)
  | VStr s =>
      exists w, c_type col = Str w /\ (w = 0 \/ nlen s <= w) /\
                (c_enum col = [] \/ In s (c_enum col)) /\
                (match c_cat col with Some k => in_category k s | None => True end)
  end.

Lemma existsb_str_In s l : existsb (str_eqb s) l = true <-> In s l.
Proof.
  rewrite existsb_exists. split.
  - intros (x & Hx & E). apply str_eqb_spec in E. subst. exact Hx.
  - intros H. exists s. split; [exact H | apply str_eqb_spec; reflexivity].
Qed.

Theorem valid_iff col v : value_ok v = true ->
  (is_valid_value col v = Ok true <-> valid_spec col v).
Proof.
  intros Hok. destruct v as [|n|s]; simpl.
  - split; [intros [= ->]; reflexivity | intros ->; reflexivity].
  - simpl in Hok. unfold in_i32, i32_min, i32_max in Hok.
    destruct (c_range col) as [[lo hi]|].
    + destruct ((n <? lo)%Z || (hi <? n)%Z) eqn:E.
      * split; [discriminate | intros [_ H]; lia].
      * destruct (c_type col).
        -- split; [intros [= H]; split; lia | intros [H1 H2]; f_equal; lia].
        -- split; [intros [= H]; split; lia | intros [H1 H2]; f_equal; lia].
        -- split; [discriminate | intros [[] _]].
    + destruct (c_type col).
      * split; [intros [= H]; split; [lia | exact I] | intros [H1 _]; f_equal; lia].
      * split; [intros [= H]; split; [lia | exact I] | intros [H1 _]; f_equal; lia].
      * split; [discriminate | intros [[] _]].
  - destruct (c_type col) as [| |w] eqn:Et.
    + split; [discriminate | intros (w & E & _); discriminate].
    + split; [discriminate | intros (w & E & _); discriminate].
    + assert (Hcat : forall b, (match c_cat col with Some k => validate k s | None => Ok true end) = Ok b ->
                    (b = true <-> match c_cat col with Some k => in_category k s | None => True end)).
      { intros b Hb. destruct (c_cat col) as [k|].
        - rewrite <- validate_iff, Hb. split; [intros ->; reflexivity | intros [= ->]; reflexivity].
        - inversion Hb. split; auto. }
      destruct (match c_cat col with Some k => validate k s | None => Ok true end) as [b| |] eqn:Ev.
      * specialize (Hcat b eq_refl). cbn [rbind].
        destruct b; cbn [negb].
        -- destruct (c_enum col) as [|e0 en] eqn:Een; cbn [negb andb].
           ++ split.
              ** intros [= H]. exists w. split; [reflexivity|]. split; [lia|]. split; [left; reflexivity | apply Hcat; reflexivity].
              ** intros (w' & [= <-] & Hw & _). f_equal. lia.
           ++ destruct (existsb (str_eqb s) (e0 :: en)) eqn:Ein; cbn [negb andb].
              ** apply existsb_str_In in Ein. split.
                 --- intros [= H]. exists w. split; [reflexivity|]. split; [lia|]. split; [right; exact Ein | apply Hcat; reflexivity].
                 --- intros (w' & [= <-] & Hw & _). f_equal. lia.
              ** split; [discriminate|]. intros (w' & _ & _ & [Hn|Hin] & _); [discriminate|].
                 apply existsb_str_In in Hin. congruence.
        -- split; [discriminate|]. intros (w' & _ & _ & _ & Hc). apply Hcat in Hc. discriminate.
      * cbn [rbind]. split; [discriminate|]. intros (w' & _ & _ & _ & Hc).
        destruct (c_cat col) as [k|]; [|discriminate]. destruct (validate_total k s) as [b Hb]. congruence.
      * cbn [rbind]. split; [discriminate|]. intros _.
        destruct (c_cat col) as [k|]; [|discriminate]. destruct (validate_total k s) as [b Hb]. congruence.
Qed.


(* ---- the values the library builds itself are valid -------------------------------------- *)
Lemma hex_digit_ok n : n < 16 -> upper_hex (hex_digit n) = true.
Proof. intros H. unfold upper_hex, hex_digit, is_digit. destruct (n <? 10) eqn:E; lia. Qed.
Lemma hex_byte_ok b : b < 256 -> forall x, In x (hex_byte b) -> upper_hex x = true.
Proof.
  intros Hb x [<-|[<-|[]]]; apply hex_digit_ok.
  - apply N.div_lt_upper_bound; lia.
  - apply N.mod_lt; lia.
Qed.

Theorem uuid_value_valid bs : length bs = 16%nat -> Forall (fun b => b < 256) bs ->
  validate CGuid (uuid_value_text bs) = Ok true.
Proof.
  intros Hl Hb. apply guid_iff. exists (uuid_text 0 bs). split; [reflexivity|].
  do 17 (destruct bs as [|? bs]; [try discriminate|]); [|discriminate].
  repeat match goal with H : Forall _ (_ :: _) |- _ => inversion H; clear H; subst end.
  split; [reflexivity|].
  cbn [uuid_text Nat.eqb orb app hex_byte guid_chars hyphen_pos].
  repeat match goal with
         | |- context [upper_hex (hex_digit ?e)] =>
             rewrite (hex_digit_ok e) by (first [apply N.div_lt_upper_bound; lia | apply N.mod_lt; lia])
         end.
  reflexivity.
Qed.

Lemma decimal_u16 : forallb (fun c => parse_u16 (decimal c)) (Finite.nrange 65536) = true.
Proof. vm_compute. reflexivity. Qed.

Theorem langs_value_valid codes : codes <> [] -> Forall (fun c => c < 65536) codes ->
  validate CLanguage (langs_value_text codes) = Ok true.
Proof.
  intros Hne Hc. apply language_iff. exists (map decimal codes). split; [reflexivity|]. split.
  - destruct codes; [congruence | simpl; lia].
  - apply Forall_map. eapply Forall_impl; [|exact Hc]. intros c Hlt.
    apply int_text_iff. exact (Finite.forall_below _ 65536 decimal_u16 c Hlt).
Qed.
