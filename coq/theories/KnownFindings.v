(* KnownFindings.v -- machine-checked witnesses of the recorded known findings that the model covers. *)
From MsiModel Require Import Base Sexp Value Expr Category Column CodePage Pool Table Container StreamName
  Propset Summary Query Package.
From MsiGen Require Import GenConsts GenCatalog GenStreamName.
Open Scope N_scope.

(* C01, class catalog_dml: a row inserted into _Tables through the ordinary INSERT path is accepted, and the saved
   package can no longer be opened *)
Definition bogus_row : list (list value) := [[VStr [66; 111; 103]]].
Lemma catalog_dml_breaks_reopen :
  exists k0 k1 k2,
    pkg_create Debug Installer = Ok k0 /\
    pkg_insert Debug k0 TABLES_TABLE_NAME bogus_row = (k1, Ok tt) /\
    pkg_flush k1 = Some k2 /\
    pkg_open Debug (k_cont k2) = Err.
Proof.
  destruct (pkg_create Debug Installer) as [k0| |] eqn:E0; [|vm_compute in E0; discriminate..].
  destruct (pkg_insert Debug k0 TABLES_TABLE_NAME bogus_row) as [k1 r1] eqn:E1.
  destruct (pkg_flush k1) as [k2|] eqn:E2.
  - exists k0, k1, k2. vm_compute in E0. inversion E0; subst k0. vm_compute in E1. inversion E1; subst k1 r1.
    vm_compute in E2. inversion E2; subst k2. repeat split; vm_compute; reflexivity.
  - exfalso. vm_compute in E0. inversion E0; subst k0. vm_compute in E1. inversion E1; subst k1 r1.
    vm_compute in E2. discriminate.
Qed.
