(* QueryTextProofs.v -- C19 (queries): the tokens Display writes for a query,
   read with the query rules of the grammar (QueryParse.parse_query), are the
   query that was printed. *)
From MsiModel Require Import Base Value Expr ExprText Ladder LadderProofs Query Sexp QueryText QueryParse.
From Coq Require Import ZifyBool ZifyNat ZifyN Lia.
Open Scope N_scope.

(* ---- the ladder: a fuel that always suffices ------------------------------------------ *)
(* parse needs at most 2c units of fuel to consume c tokens, ploop at most 2c+1 *)
Lemma fuel_bound f :
  (forall m ts e r, parse f m ts = Some (e, r) ->
     exists c, length ts = (c + length r)%nat /\ parse (2 * c) m ts = Some (e, r)) /\
  (forall m l ts e r, ploop f m l ts = Some (e, r) ->
     exists c, length ts = (c + length r)%nat /\ ploop (2 * c + 1) m l ts = Some (e, r)).
Proof.
  induction f as [|f [IHp IHl]].
  - split; intros; discriminate.
  - assert (Hun : forall u lvl m r0 x0 r1 e r,
              parse f lvl r0 = Some (x0, r1) -> ploop f m (UnOp u x0) r1 = Some (e, r) ->
              exists c1 c2, length r0 = (c1 + length r1)%nat /\ length r1 = (c2 + length r)%nat /\
                parse (2 * c1 + 2 * c2 + 1) lvl r0 = Some (x0, r1) /\
                ploop (2 * c1 + 2 * c2 + 1) m (UnOp u x0) r1 = Some (e, r)).
    { intros u lvl m r0 x0 r1 e r E H.
      destruct (IHp _ _ _ _ E) as (c1 & L1 & P1). destruct (IHl _ _ _ _ _ H) as (c2 & L2 & P2).
      exists c1, c2. repeat split; trivial.
      - eapply parse_mono; [|exact P1]. lia.
      - eapply ploop_mono; [|exact P2]. lia. }
    split.
    + intros m ts e r H. rewrite parse_S in H.
      destruct ts as [|t r0]; [discriminate|].
      destruct t as [v|s| | |u|b]; try discriminate.
      * destruct (IHl _ _ _ _ _ H) as (c & L & P). exists (S c). split; [simpl; lia|].
        replace (2 * S c)%nat with (S (2 * c + 1)) by lia. rewrite parse_S. exact P.
      * destruct (IHl _ _ _ _ _ H) as (c & L & P). exists (S c). split; [simpl; lia|].
        replace (2 * S c)%nat with (S (2 * c + 1)) by lia. rewrite parse_S. exact P.
      * destruct (parse f 0 r0) as [[x0 [|t0 r1]]|] eqn:E; try discriminate.
        destruct t0; try discriminate.
        destruct (IHp _ _ _ _ E) as (c1 & L1 & P1). destruct (IHl _ _ _ _ _ H) as (c2 & L2 & P2).
        exists (c1 + c2 + 2)%nat. split; [simpl in *; lia|].
        replace (2 * (c1 + c2 + 2))%nat with (S (2 * c1 + 2 * c2 + 3)) by lia. rewrite parse_S.
        rewrite (parse_mono (2 * c1) (2 * c1 + 2 * c2 + 3) _ _ _ ltac:(lia) P1).
        eapply ploop_mono; [|exact P2]. lia.
      * destruct u.
        -- destruct (parse f UNARY_LEVEL r0) as [[x0 r1]|] eqn:E; [|discriminate].
           destruct (Hun _ _ _ _ _ _ _ _ E H) as (c1 & c2 & L1 & L2 & P1 & P2).
           exists (c1 + c2 + 1)%nat. split; [simpl; lia|].
           replace (2 * (c1 + c2 + 1))%nat with (S (2 * c1 + 2 * c2 + 1)) by lia. rewrite parse_S.
           rewrite P1. exact P2.
        -- destruct (parse f UNARY_LEVEL r0) as [[x0 r1]|] eqn:E; [|discriminate].
           destruct (Hun _ _ _ _ _ _ _ _ E H) as (c1 & c2 & L1 & L2 & P1 & P2).
           exists (c1 + c2 + 1)%nat. split; [simpl; lia|].
           replace (2 * (c1 + c2 + 1))%nat with (S (2 * c1 + 2 * c2 + 1)) by lia. rewrite parse_S.
           rewrite P1. exact P2.
        -- destruct (Nat.leb m NOT_LEVEL) eqn:Em; [|discriminate].
           destruct (parse f NOT_LEVEL r0) as [[x0 r1]|] eqn:E; [|discriminate].
           destruct (Hun _ _ _ _ _ _ _ _ E H) as (c1 & c2 & L1 & L2 & P1 & P2).
           exists (c1 + c2 + 1)%nat. split; [simpl; lia|].
           replace (2 * (c1 + c2 + 1))%nat with (S (2 * c1 + 2 * c2 + 1)) by lia. rewrite parse_S.
           rewrite Em, P1. exact P2.
    + intros m l ts e r H. rewrite ploop_S in H.
      assert (Hstop : Some (l, ts) = Some (e, r) -> ploop 1 m l ts = Some (l, ts) ->
                exists c, length ts = (c + length r)%nat /\ ploop (2 * c + 1) m l ts = Some (e, r)).
      { intros H0 H1. inversion H0; subst. exists 0%nat. split; [reflexivity | exact H1]. }
      destruct ts as [|t r0]; [apply Hstop; [exact H | reflexivity]|].
      destruct t as [v|s| | |u|b]; try (apply Hstop; [exact H | reflexivity]).
      destruct (Nat.leb m (lev b)) eqn:Em;
        [|apply Hstop; [exact H | rewrite ploop_S, Em; reflexivity]].
      destruct (parse f (S (lev b)) r0) as [[rhs r1]|] eqn:E; [|discriminate].
      destruct (IHp _ _ _ _ E) as (c1 & L1 & P1). destruct (IHl _ _ _ _ _ H) as (c2 & L2 & P2).
      exists (c1 + c2 + 1)%nat. split; [simpl; lia|].
      replace (2 * (c1 + c2 + 1) + 1)%nat with (S (2 * c1 + 2 * c2 + 2)) by lia. rewrite ploop_S, Em.
      rewrite (parse_mono (2 * c1) (2 * c1 + 2 * c2 + 2) _ _ _ ltac:(lia) P1).
      eapply ploop_mono; [|exact P2]. lia.
Qed.

Lemma parse_enough f m ts x : parse f m ts = Some x -> parse (2 * length ts + 2) m ts = Some x.
Proof.
  destruct x as [e r]. intros H. destruct (proj1 (fuel_bound f) _ _ _ _ H) as (c & L & P).
  eapply parse_mono; [|exact P]. lia.
Qed.

(* ---- a printed expression followed by something that is not a binary operator -------- *)
Definition noop_t (ts : list tok) : Prop := match ts with TB _ :: _ => False | _ => True end.
Definition noop (ts : list qtok) : Prop := match ts with QE (TB _) :: _ => False | _ => True end.

Lemma expr_then e rest : noop_t rest -> exists f, parse f 0 (print 0 e ++ rest) = Some (e, rest).
Proof.
  intros H. apply (print_parse_RT e 0%N 0%nat rest (e, rest) 1%nat).
  - apply Nat.le_0_l.
  - destruct rest as [|[] ?]; try exact I. destruct H.
  - rewrite ploop_S. destruct rest as [|[] ?]; try reflexivity. destruct H.
Qed.

Lemma etoks_app ts rest : etoks (map QE ts ++ rest) = (ts ++ fst (etoks rest), snd (etoks rest)).
Proof.
  induction ts as [|t ts IH]; cbn [map app etoks].
  - destruct (etoks rest); reflexivity.
  - rewrite IH. reflexivity.
Qed.
Lemma etoks_inv rest : map QE (fst (etoks rest)) ++ snd (etoks rest) = rest.
Proof.
  induction rest as [|[t|k|] r IH]; cbn [etoks]; try reflexivity.
  destruct (etoks r) as [a b]. cbn [fst snd map app] in *. rewrite IH. reflexivity.
Qed.
Lemma etoks_noop rest : noop rest -> noop_t (fst (etoks rest)).
Proof.
  destruct rest as [|[t|k|] r]; cbn [etoks]; try (intros; exact I).
  destruct (etoks r) as [a b]. cbn [fst]. destruct t; trivial.
Qed.

Lemma parse_expr_q_print e rest : noop rest -> parse_expr_q (map QE (print 0 e) ++ rest) = Some (e, rest).
Proof.
  intros H. unfold parse_expr_q. rewrite etoks_app.
  destruct (expr_then e (fst (etoks rest)) (etoks_noop rest H)) as [f Hf].
  rewrite (parse_enough _ _ _ _ Hf). rewrite etoks_inv. reflexivity.
Qed.

(* ---- what the round trip needs of a query ------------------------------------------------- *)
(* names: table names and assigned columns are Idents, selected columns CompoundIdents *)
Fixpoint sel_names_ok (s : sel) : bool :=
  match s with
  | Sel from cols _ => join_names_ok from && forallb is_compound cols
  end
with join_names_ok (j : join) : bool :=
  match j with
  | JTable n => is_ident n
  | JInner a b _ | JLeft a b _ => sel_names_ok a && sel_names_ok b
  end.
Definition names_okb (q : query) : bool :=
  match q with
  | QSelect s => sel_names_ok s
  | QInsert tn _ => is_ident tn
  | QUpdate tn ups _ => is_ident tn && forallb (fun a => is_ident (fst a)) ups
  | QDelete tn _ => is_ident tn
  end.
Definition names_ok (q : query) : Prop := names_okb q = true.

(* shape: the grammar has no empty Row and no empty AssignmentList *)
Definition nonempty {A} (l : list A) : bool := match l with [] => false | _ => true end.
Definition shape_okb (q : query) : bool :=
  match q with
  | QInsert _ rows => forallb nonempty rows
  | QUpdate _ ups _ => nonempty ups
  | _ => true
  end.
Definition shape_ok (q : query) : Prop := shape_okb q = true.

(* ---- the comma lists -------------------------------------------------------------------------- *)
Definition nocomma (ts : list qtok) : Prop := match ts with QComma :: _ => False | _ => True end.

Ltac hide_tail :=
  match goal with
  | |- context [flat_map ?f ?l ++ ?rest] => remember (flat_map f l ++ rest) as X eqn:EX
  end.

Lemma cols_more_print cols rest : forallb is_compound cols = true -> nocomma rest ->
  p_cols_more (flat_map (fun y => [QComma] ++ y) (map (fun c => [QId c]) cols) ++ rest) = (cols, rest).
Proof.
  intros Hc Hr. induction cols as [|c cols IH].
  - cbn [map flat_map app]. destruct rest as [|[] ?]; try reflexivity. destruct Hr.
  - cbn [forallb] in Hc. apply andb_prop in Hc. destruct Hc as [Hc1 Hc2].
    cbn [map flat_map]. rewrite <- app_assoc. hide_tail. unfold QId. cbn [app p_cols_more]. rewrite Hc1.
    subst X. rewrite (IH Hc2). reflexivity.
Qed.

Lemma collist_print cols rest : forallb is_compound cols = true -> nocomma rest ->
  p_collist (print_cols cols ++ rest) = Some (cols, rest).
Proof.
  intros Hc Hr. destruct cols as [|c cols]; [reflexivity|].
  cbn [forallb] in Hc. apply andb_prop in Hc. destruct Hc as [Hc1 Hc2].
  unfold print_cols. cbn [map commas]. rewrite <- app_assoc. hide_tail. unfold QId. cbn [app p_collist].
  rewrite Hc1. subst X. rewrite (cols_more_print cols rest Hc2 Hr). reflexivity.
Qed.

Lemma lits_more_print vs rest : nocomma rest ->
  p_lits_more (flat_map (fun y => [QComma] ++ y) (map (fun v => [QLit v]) vs) ++ rest) = (vs, rest).
Proof.
  intros Hr. induction vs as [|v vs IH].
  - cbn [map flat_map app]. destruct rest as [|[] ?]; try reflexivity. destruct Hr.
  - cbn [map flat_map]. rewrite <- app_assoc. hide_tail. unfold QLit. cbn [app p_lits_more].
    subst X. rewrite IH. reflexivity.
Qed.

Lemma row_print row rest : nonempty row = true -> p_row (print_row row ++ rest) = Some (row, rest).
Proof.
  intros Hn. destruct row as [|v vs]; [discriminate|].
  unfold print_row. cbn [map commas]. rewrite <- app_comm_cons, <- !app_assoc. hide_tail.
  unfold QLP, QLit. cbn [app p_row]. subst X.
  rewrite (lits_more_print vs ([QRP] ++ rest) I). reflexivity.
Qed.

Lemma rows_more_print rows rest f : forallb nonempty rows = true -> nocomma rest -> (length rows <= f)%nat ->
  p_rows_more f (flat_map (fun y => [QComma] ++ y) (map print_row rows) ++ rest) = (rows, rest).
Proof.
  intros Hn Hr. revert f. induction rows as [|row rows IH]; intros f Hf.
  - cbn [map flat_map app]. destruct f; [reflexivity|]. cbn [p_rows_more].
    destruct rest as [|[] ?]; try reflexivity. destruct Hr.
  - cbn [forallb] in Hn. apply andb_prop in Hn. destruct Hn as [Hn1 Hn2].
    destruct f as [|f]; [simpl in Hf; lia|].
    cbn [map flat_map]. rewrite <- !app_assoc. hide_tail. cbn [app p_rows_more].
    rewrite (row_print row _ Hn1). subst X. rewrite (IH Hn2 f) by (simpl in Hf; lia). reflexivity.
Qed.

Lemma rows_tail_length rows :
  (length rows <= length (flat_map (fun y => [QComma] ++ y) (map print_row rows)))%nat.
Proof.
  induction rows as [|r rows IH]; [apply Nat.le_refl|].
  cbn [map flat_map]. rewrite !app_length. cbn [length]. lia.
Qed.

Lemma rowlist_print rows : forallb nonempty rows = true -> rows <> [] ->
  p_rowlist (commas [QComma] (map print_row rows)) = Some (rows, []).
Proof.
  intros Hn Hne. destruct rows as [|row rows]; [congruence|].
  cbn [forallb] in Hn. apply andb_prop in Hn. destruct Hn as [Hn1 Hn2].
  cbn [map commas]. unfold p_rowlist. rewrite (row_print row _ Hn1).
  pose proof (rows_more_print rows [] _ Hn2 I (rows_tail_length rows)) as H.
  rewrite app_nil_r in H. rewrite H. reflexivity.
Qed.

Lemma assigns_more_print ups rest : forallb (fun a => is_ident (fst a)) ups = true -> nocomma rest ->
  p_assigns_more (flat_map (fun y => [QComma] ++ y) (map print_assign ups) ++ rest) = (ups, rest).
Proof.
  intros Hc Hr. induction ups as [|[c v] ups IH].
  - cbn [map flat_map app]. destruct rest as [|[] ?]; try reflexivity. destruct Hr.
  - cbn [forallb fst] in Hc. apply andb_prop in Hc. destruct Hc as [Hc1 Hc2].
    cbn [map flat_map]. rewrite <- app_assoc. hide_tail.
    unfold print_assign, QId, QAssign, QLit. cbn [fst snd app p_assigns_more].
    rewrite Hc1. subst X. rewrite (IH Hc2). reflexivity.
Qed.

Lemma assignlist_print ups rest : forallb (fun a => is_ident (fst a)) ups = true -> nonempty ups = true ->
  nocomma rest ->
  p_assignlist (commas [QComma] (map print_assign ups) ++ rest) = Some (ups, rest).
Proof.
  intros Hc Hn Hr. destruct ups as [|[c v] ups]; [discriminate|].
  cbn [forallb fst] in Hc. apply andb_prop in Hc. destruct Hc as [Hc1 Hc2].
  cbn [map commas]. rewrite <- app_assoc. hide_tail.
  unfold print_assign, QId, QAssign, QLit. cbn [fst snd app p_assignlist].
  rewrite Hc1. subst X. rewrite (assigns_more_print ups rest Hc2 Hr). reflexivity.
Qed.

(* ---- WHERE ---------------------------------------------------------------------------------------- *)
Definition follow (ts : list qtok) : Prop :=            (* after a select: end of input or `)` *)
  match ts with [] => True | QE TRP :: _ => True | _ => False end.
Definition followj (ts : list qtok) : Prop :=           (* after a Table: also WHERE *)
  match ts with [] => True | QE TRP :: _ => True | QK KWhere :: _ => True | _ => False end.

Lemma follow_noop ts : follow ts -> noop ts.
Proof. destruct ts as [|[[]| |] ?]; simpl; trivial. Qed.
Lemma followj_noop ts : followj ts -> noop ts.
Proof. destruct ts as [|[[]| |] ?]; simpl; trivial. Qed.

Lemma where_print cond rest : follow rest -> p_where (print_cond cond ++ rest) = Some (cond, rest).
Proof.
  intros H. destruct cond as [e|].
  - cbn [print_cond app p_where]. rewrite (parse_expr_q_print e rest (follow_noop _ H)). reflexivity.
  - cbn [print_cond app]. destruct rest as [|[[]| |] ?]; try destruct H; reflexivity.
Qed.
Lemma followj_cond cond rest : follow rest -> followj (print_cond cond ++ rest).
Proof.
  intros H. destruct cond; [exact I|]. cbn [print_cond app].
  destruct rest as [|[[]| |] ?]; try destruct H; exact I.
Qed.

(* ---- SELECT and joins -------------------------------------------------------------------------------- *)
Fixpoint depth_sel (s : sel) : nat :=
  match s with Sel from _ _ => S (depth_join from) end
with depth_join (j : join) : nat :=
  match j with
  | JTable _ => O
  | JInner a b _ | JLeft a b _ => Nat.max (depth_sel a) (depth_sel b)
  end.

Definition P_sel (s : sel) : Prop :=
  sel_names_ok s = true -> forall f rest, (depth_sel s <= f)%nat -> follow rest ->
    p_select f (print_sel s ++ rest) = Some (s, rest).
Definition P_join (j : join) : Prop :=
  join_names_ok j = true -> forall f rest, (depth_join j <= f)%nat -> followj rest ->
    p_table (p_select f) (print_join j ++ rest) = Some (j, rest).

Lemma bare_spec s n : bare s = Some n -> s = Sel (JTable n) [] None.
Proof.
  destruct s as [[m| |] [|c cols] [e|]]; cbn [bare]; try discriminate. intros H. congruence.
Qed.

Lemma operand_print s f rest : P_sel s -> sel_names_ok s = true -> (depth_sel s <= f)%nat ->
  exists o, p_table2 (p_select f) (fmt_for_join print_sel s ++ rest) = Some (o, rest) /\ operand_sel o = s.
Proof.
  intros HP Hn Hd. unfold fmt_for_join. destruct (bare s) as [n|] eqn:Eb.
  - apply bare_spec in Eb. subst s. cbn in Hn. rewrite andb_true_r in Hn.
    exists (OpIdent n). split; [|reflexivity]. unfold QId. cbn [app p_table2]. rewrite Hn. reflexivity.
  - exists (OpSel s). split; [|reflexivity]. unfold QLP. rewrite <- app_comm_cons, <- app_assoc.
    cbn [p_table2]. rewrite (HP Hn f ([QRP] ++ rest) Hd I). reflexivity.
Qed.

Lemma table_join_print a b on f rest :
  P_sel a -> P_sel b -> sel_names_ok a && sel_names_ok b = true ->
  (Nat.max (depth_sel a) (depth_sel b) <= f)%nat -> followj rest ->
  p_table (p_select f) (print_join (JInner a b on) ++ rest) = Some (JInner a b on, rest) /\
  p_table (p_select f) (print_join (JLeft a b on) ++ rest) = Some (JLeft a b on, rest).
Proof.
  intros Ha Hb Hn Hd Hr. apply andb_prop in Hn. destruct Hn as [Hna Hnb].
  assert (Hda : (depth_sel a <= f)%nat) by lia. assert (Hdb : (depth_sel b <= f)%nat) by lia.
  assert (Htail : forall mkj oa, operand_sel oa = a ->
            p_join_tail (p_select f) mkj oa
              (fmt_for_join print_sel b ++ QK KOn :: map QE (print 0 on) ++ rest) = Some (mkj a b on, rest)).
  { intros mkj oa Hoa. unfold p_join_tail.
    destruct (operand_print b f (QK KOn :: map QE (print 0 on) ++ rest) Hb Hnb Hdb) as (ob & Eb & Hob).
    rewrite Eb. rewrite (parse_expr_q_print on rest (followj_noop _ Hr)). rewrite Hoa, Hob. reflexivity. }
  split; cbn [print_join]; repeat (rewrite <- app_assoc || rewrite <- app_comm_cons); unfold p_table.
  - destruct (operand_print a f
                (QK KInner :: QK KJoin :: fmt_for_join print_sel b ++ QK KOn :: map QE (print 0 on) ++ rest)
                Ha Hna Hda) as (oa & Ea & Hoa).
    rewrite Ea. destruct oa; apply Htail; exact Hoa.
  - destruct (operand_print a f
                (QK KLeft :: QK KJoin :: fmt_for_join print_sel b ++ QK KOn :: map QE (print 0 on) ++ rest)
                Ha Hna Hda) as (oa & Ea & Hoa).
    rewrite Ea. destruct oa; apply Htail; exact Hoa.
Qed.

Lemma sel_join_print : (forall s, P_sel s) /\ (forall j, P_join j).
Proof.
  assert (H1 : forall from, P_join from -> forall cols cond, P_sel (Sel from cols cond)).
  { intros from Hfrom cols cond Hn f rest Hd Hr.
    cbn [sel_names_ok] in Hn. apply andb_prop in Hn. destruct Hn as [Hnj Hnc].
    cbn [depth_sel] in Hd. destruct f as [|f]; [lia|].
    cbn [print_sel p_select]. repeat (rewrite <- app_assoc || rewrite <- app_comm_cons).
    unfold p_select_body.
    rewrite (collist_print cols (QK KFrom :: print_join from ++ print_cond cond ++ rest) Hnc I).
    rewrite (Hfrom Hnj f (print_cond cond ++ rest) ltac:(lia) (followj_cond cond rest Hr)).
    rewrite (where_print cond rest Hr). reflexivity. }
  assert (H2 : forall n, P_join (JTable n)).
  { intros n Hn f rest _ Hr. cbn [join_names_ok] in Hn. cbn [print_join app]. unfold QId, p_table.
    cbn [p_table2]. rewrite Hn.
    destruct rest as [|[[]|[]|] ?]; try destruct Hr; reflexivity. }
  assert (H3 : forall a, P_sel a -> forall b, P_sel b -> forall on, P_join (JInner a b on)).
  { intros a Ha b Hb on Hn f rest Hd Hr. apply (table_join_print a b on f rest Ha Hb Hn Hd Hr). }
  assert (H4 : forall a, P_sel a -> forall b, P_sel b -> forall on, P_join (JLeft a b on)).
  { intros a Ha b Hb on Hn f rest Hd Hr. apply (table_join_print a b on f rest Ha Hb Hn Hd Hr). }
  split; [exact (sel_join_ind P_sel P_join H1 H2 H3 H4) | exact (join_sel_ind P_sel P_join H1 H2 H3 H4)].
Qed.

Lemma depth_le_length :
  (forall s, (depth_sel s <= length (print_sel s))%nat) /\
  (forall j, (depth_join j <= length (print_join j))%nat).
Proof.
  set (P := fun s => (depth_sel s <= length (print_sel s))%nat).
  set (Q := fun j => (depth_join j <= length (print_join j))%nat).
  assert (Hfmt : forall s, P s -> (depth_sel s <= length (fmt_for_join print_sel s) + 1)%nat).
  { unfold P. intros s H. unfold fmt_for_join. destruct (bare s) as [n|] eqn:Eb.
    - apply bare_spec in Eb. subst s. simpl. lia.
    - simpl. rewrite app_length. simpl. lia. }
  assert (H1 : forall from, Q from -> forall cols cond, P (Sel from cols cond)).
  { unfold P, Q. intros from H cols cond. cbn [depth_sel print_sel]. simpl length.
    rewrite !app_length. simpl length. rewrite app_length. lia. }
  assert (H2 : forall n, Q (JTable n)).
  { intros n. unfold Q. simpl. lia. }
  assert (H3 : forall a, P a -> forall b, P b -> forall on, Q (JInner a b on)).
  { unfold Q. intros a Ha b Hb on. cbn [depth_join print_join]. rewrite app_length. simpl length.
    rewrite app_length. simpl length. pose proof (Hfmt a Ha). pose proof (Hfmt b Hb). lia. }
  assert (H4 : forall a, P a -> forall b, P b -> forall on, Q (JLeft a b on)).
  { unfold Q. intros a Ha b Hb on. cbn [depth_join print_join]. rewrite app_length. simpl length.
    rewrite app_length. simpl length. pose proof (Hfmt a Ha). pose proof (Hfmt b Hb). lia. }
  split; [exact (sel_join_ind P Q H1 H2 H3 H4) | exact (join_sel_ind P Q H1 H2 H3 H4)].
Qed.

(* ---- T1: the round trip ------------------------------------------------------------------------------ *)
Theorem query_roundtrip q : names_ok q -> shape_ok q -> parse_query (print_query q) = Some q.
Proof.
  unfold names_ok, shape_ok. intros Hn Hs.
  destruct q as [s|tn rows|tn ups cond|tn cond]; cbn [names_okb shape_okb] in Hn, Hs.
  - cbn [print_query].
    pose proof (proj1 sel_join_print s Hn (length (print_sel s)) [] (proj1 depth_le_length s) I) as H.
    rewrite app_nil_r in H.
    destruct s as [from cols cond]. cbn [print_sel] in *. unfold parse_query.
    rewrite H. reflexivity.
  - cbn [print_query parse_query]. unfold QId. cbn [p_ident]. rewrite Hn.
    destruct rows as [|row rows]; [reflexivity|].
    unfold print_rows. rewrite (rowlist_print (row :: rows) Hs) by discriminate. reflexivity.
  - apply andb_prop in Hn. destruct Hn as [Hn1 Hn2].
    cbn [print_query parse_query]. unfold QId at 1. cbn [p_ident]. rewrite Hn1.
    rewrite <- (app_nil_r (print_cond cond)).
    rewrite (assignlist_print ups (print_cond cond ++ []) Hn2 Hs) by (destruct cond; exact I).
    rewrite (where_print cond [] I). reflexivity.
  - cbn [print_query parse_query]. unfold QId. cbn [p_ident]. rewrite Hn.
    rewrite <- (app_nil_r (print_cond cond)). rewrite (where_print cond [] I). reflexivity.
Qed.

(* ---- the conditions are exactly what is needed ------------------------------------------------------ *)
(* Everything parse_query returns has grammatical names and shapes; hence a query
   whose printed form reads back as itself satisfies names_ok and shape_ok. *)
Lemma p_ident_ok ts s r : p_ident ts = Some (s, r) -> is_ident s = true.
Proof.
  unfold p_ident. destruct ts as [|[[]| |] ?]; try discriminate.
  destruct (is_ident s0) eqn:E; [|discriminate]. intros H. inversion H; subst. exact E.
Qed.

Lemma cols_more_ok n : forall ts l r, (length ts <= n)%nat -> p_cols_more ts = (l, r) ->
  forallb is_compound l = true.
Proof.
  induction n as [|n IH]; intros ts l r Hlen H.
  - destruct ts; [|simpl in Hlen; lia]. inversion H. reflexivity.
  - destruct ts as [|[| |] ts]; cbn [p_cols_more] in H; try (inversion H; reflexivity).
    destruct ts as [|[[]| |] ts]; try (inversion H; reflexivity).
    destruct (is_compound s) eqn:E; [|inversion H; reflexivity].
    destruct (p_cols_more ts) as [l' r'] eqn:E2. inversion H; subst.
    cbn [forallb]. rewrite E. apply (IH ts l' r); [simpl in Hlen; lia | exact E2].
Qed.
Lemma collist_ok ts l r : p_collist ts = Some (l, r) -> forallb is_compound l = true.
Proof.
  unfold p_collist. destruct ts as [|[[]| |] ts]; try discriminate.
  - destruct (is_compound s) eqn:E; [|discriminate].
    destruct (p_cols_more ts) as [l' r'] eqn:E2. intros H. inversion H; subst.
    cbn [forallb]. rewrite E. exact (cols_more_ok _ ts l' r (Nat.le_refl _) E2).
  - destruct b as [| |[]]; try discriminate. intros H. inversion H. reflexivity.
Qed.

Lemma row_ok ts row r : p_row ts = Some (row, r) -> nonempty row = true.
Proof.
  unfold p_row. destruct ts as [|[[]| |] ts]; try discriminate.
  destruct ts as [|[[]| |] ts]; try discriminate.
  destruct (p_lits_more ts) as [l [|[[]| |] r'']]; try discriminate.
  intros H. inversion H. reflexivity.
Qed.
Lemma rows_more_ok f : forall ts l r, p_rows_more f ts = (l, r) -> forallb nonempty l = true.
Proof.
  induction f as [|f IH]; intros ts l r H; cbn [p_rows_more] in H.
  - inversion H. reflexivity.
  - destruct ts as [|[| |] ts]; try (inversion H; reflexivity).
    destruct (p_row ts) as [[row r']|] eqn:E; [|inversion H; reflexivity].
    destruct (p_rows_more f r') as [l' r''] eqn:E2. inversion H; subst.
    cbn [forallb]. rewrite (row_ok _ _ _ E). exact (IH _ _ _ E2).
Qed.
Lemma rowlist_ok ts l r : p_rowlist ts = Some (l, r) -> forallb nonempty l = true.
Proof.
  unfold p_rowlist. destruct (p_row ts) as [[row r0]|] eqn:E; [|discriminate].
  destruct (p_rows_more (length r0) r0) as [l' r'] eqn:E2. intros H. inversion H; subst.
  cbn [forallb]. rewrite (row_ok _ _ _ E). exact (rows_more_ok _ _ _ _ E2).
Qed.

Lemma assigns_more_ok n : forall ts l r, (length ts <= n)%nat -> p_assigns_more ts = (l, r) ->
  forallb (fun a => is_ident (fst a)) l = true.
Proof.
  induction n as [|n IH]; intros ts l r Hlen H.
  - destruct ts; [|simpl in Hlen; lia]. inversion H. reflexivity.
  - destruct ts as [|[| |] ts]; cbn [p_assigns_more] in H; try (inversion H; reflexivity).
    destruct ts as [|[[]| |] ts]; try (inversion H; reflexivity).
    destruct ts as [|[[]| |] ts]; try (inversion H; reflexivity).
    destruct b as [| |[]]; try (inversion H; reflexivity).
    destruct ts as [|[[]| |] ts]; try (inversion H; reflexivity).
    destruct (is_ident s) eqn:E; [|inversion H; reflexivity].
    destruct (p_assigns_more ts) as [l' r'] eqn:E2. inversion H; subst.
    cbn [forallb fst]. rewrite E. apply (IH ts l' r); [simpl in Hlen; lia | exact E2].
Qed.
Lemma assignlist_ok ts l r : p_assignlist ts = Some (l, r) ->
  nonempty l = true /\ forallb (fun a => is_ident (fst a)) l = true.
Proof.
  unfold p_assignlist. destruct ts as [|[[]| |] ts]; try discriminate.
  destruct ts as [|[[]| |] ts]; try discriminate.
  destruct b as [| |[]]; try discriminate.
  destruct ts as [|[[]| |] ts]; try discriminate.
  destruct (is_ident s) eqn:E; [|discriminate].
  destruct (p_assigns_more ts) as [l' r'] eqn:E2. intros H. inversion H; subst.
  split; [reflexivity|]. cbn [forallb fst]. rewrite E.
  exact (assigns_more_ok _ ts l' r (Nat.le_refl _) E2).
Qed.

Definition psel_ok (psel : list qtok -> option (sel * list qtok)) : Prop :=
  forall ts s r, psel ts = Some (s, r) -> sel_names_ok s = true.

Lemma table2_ok psel : psel_ok psel -> forall ts o r, p_table2 psel ts = Some (o, r) ->
  sel_names_ok (operand_sel o) = true.
Proof.
  intros Hp ts o r. unfold p_table2. destruct ts as [|[[]| |] ts]; try discriminate.
  - destruct (is_ident s) eqn:E; [|discriminate]. intros H. inversion H; subst. cbn. rewrite E. reflexivity.
  - destruct (psel ts) as [[s [|[[]| |] r']]|] eqn:E; try discriminate.
    intros H. inversion H; subst. cbn [operand_sel]. exact (Hp _ _ _ E).
Qed.

Lemma join_tail_ok psel mkj : psel_ok psel ->
  (forall x y on, join_names_ok (mkj x y on) = sel_names_ok x && sel_names_ok y) ->
  forall a ts j r, sel_names_ok (operand_sel a) = true ->
    p_join_tail psel mkj a ts = Some (j, r) -> join_names_ok j = true.
Proof.
  intros Hp Hmk a ts j r Ha. unfold p_join_tail.
  destruct (p_table2 psel ts) as [[b [|[|[]|] r0]]|] eqn:E; try discriminate.
  destruct (parse_expr_q r0) as [[on r']|]; [|discriminate].
  intros H. inversion H; subst. rewrite Hmk, Ha, (table2_ok psel Hp _ _ _ E). reflexivity.
Qed.

Lemma table_ok psel : psel_ok psel -> forall ts j r, p_table psel ts = Some (j, r) ->
  join_names_ok j = true.
Proof.
  intros Hp ts j r H. unfold p_table in H.
  destruct (p_table2 psel ts) as [[a r0]|] eqn:E; [|discriminate].
  pose proof (table2_ok psel Hp _ _ _ E) as Ha.
  assert (Hleaf : forall n, a = OpIdent n -> Some (JTable n, r0) = Some (j, r) -> join_names_ok j = true).
  { intros n -> H0. inversion H0; subst. cbn in Ha. rewrite andb_true_r in Ha. exact Ha. }
  assert (Hin : forall r1, p_join_tail psel JInner a r1 = Some (j, r) -> join_names_ok j = true).
  { intros r1. apply (join_tail_ok psel JInner Hp); [reflexivity | exact Ha]. }
  assert (Hle : forall r1, p_join_tail psel JLeft a r1 = Some (j, r) -> join_names_ok j = true).
  { intros r1. apply (join_tail_ok psel JLeft Hp); [reflexivity | exact Ha]. }
  clear E Ha.
  destruct r0 as [|[t|k|] r1].
  1,2,4: destruct a; [eapply Hleaf; [reflexivity | exact H] | discriminate].
  destruct k; try (destruct a; [eapply Hleaf; [reflexivity | exact H] | discriminate]).
  - destruct r1 as [|[t|k|] r2]; try (destruct a; [eapply Hleaf; [reflexivity | exact H] | discriminate]).
    destruct k; try (destruct a; [eapply Hleaf; [reflexivity | exact H] | discriminate]).
    destruct a; exact (Hin _ H).
  - destruct r1 as [|[t|k|] r2]; try (destruct a; [eapply Hleaf; [reflexivity | exact H] | discriminate]).
    destruct k; try (destruct a; [eapply Hleaf; [reflexivity | exact H] | discriminate]).
    destruct a; exact (Hle _ H).
Qed.

Lemma select_body_ok psel : psel_ok psel -> psel_ok (p_select_body psel).
Proof.
  intros Hp ts s r H. unfold p_select_body in H.
  destruct ts as [|[|[]|] ts]; try discriminate.
  destruct (p_collist ts) as [[cols [|[|[]|] r1]]|] eqn:Ec; try discriminate.
  destruct (p_table psel r1) as [[from r2]|] eqn:Et; [|discriminate].
  destruct (p_where r2) as [[cond r3]|]; [|discriminate].
  inversion H; subst. cbn [sel_names_ok].
  rewrite (table_ok psel Hp _ _ _ Et), (collist_ok _ _ _ Ec). reflexivity.
Qed.
Lemma select_ok f : psel_ok (p_select f).
Proof.
  induction f as [|f IH]; [intros ts s r H; discriminate|].
  cbn [p_select]. apply select_body_ok, IH.
Qed.

Theorem parsed_ok ts q : parse_query ts = Some q -> names_ok q /\ shape_ok q.
Proof.
  unfold names_ok, shape_ok, parse_query. intros H.
  destruct ts as [|[|k|] ts]; try discriminate. destruct k; try discriminate.
  - destruct (p_select _ _) as [[s [|]]|] eqn:E; try discriminate.
    inversion H; subst. split; [exact (select_ok _ _ _ _ E) | reflexivity].
  - destruct ts as [|[|[]|] ts]; try discriminate.
    destruct (p_ident ts) as [[tn [|[|[]|] r1]]|] eqn:Ei; try discriminate.
    + inversion H; subst. split; [exact (p_ident_ok _ _ _ Ei) | reflexivity].
    + destruct (p_rowlist r1) as [[rows [|]]|] eqn:Er; try discriminate.
      inversion H; subst. split; [exact (p_ident_ok _ _ _ Ei) | exact (rowlist_ok _ _ _ Er)].
  - destruct (p_ident ts) as [[tn [|[|[]|] r1]]|] eqn:Ei; try discriminate.
    destruct (p_assignlist r1) as [[ups r2]|] eqn:Ea; [|discriminate].
    destruct (p_where r2) as [[cond [|]]|]; try discriminate.
    inversion H; subst. destruct (assignlist_ok _ _ _ Ea) as [Hne Hids].
    split; [|exact Hne]. cbn [names_okb]. rewrite (p_ident_ok _ _ _ Ei), Hids. reflexivity.
  - destruct ts as [|[|[]|] ts]; try discriminate.
    destruct (p_ident ts) as [[tn r1]|] eqn:Ei; [|discriminate].
    destruct (p_where r1) as [[cond [|]]|]; try discriminate.
    inversion H; subst. split; [exact (p_ident_ok _ _ _ Ei) | reflexivity].
Qed.

Theorem query_roundtrip_iff q : parse_query (print_query q) = Some q <-> names_ok q /\ shape_ok q.
Proof.
  split; [apply parsed_ok | intros [Hn Hs]; exact (query_roundtrip q Hn Hs)].
Qed.

(* ---- T2: the property, in words ----------------------------------------------------------------------- *)
Fixpoint sel_tables (s : sel) : list str :=
  match s with Sel from _ _ => join_tables from end
with join_tables (j : join) : list str :=
  match j with
  | JTable n => [n]
  | JInner a b _ | JLeft a b _ => sel_tables a ++ sel_tables b
  end.
Definition query_tables (q : query) : list str :=          (* every table named, left to right *)
  match q with
  | QSelect s => sel_tables s
  | QInsert tn _ | QUpdate tn _ _ | QDelete tn _ => [tn]
  end.
Definition query_columns (q : query) : list str :=         (* selected / assigned columns *)
  match q with
  | QSelect (Sel _ cols _) => cols
  | QUpdate _ ups _ => map fst ups
  | _ => []
  end.
Definition query_rows (q : query) : list (list value) :=   (* rows of literal values *)
  match q with QInsert _ rows => rows | _ => [] end.
Definition query_assignments (q : query) : list (str * value) :=
  match q with QUpdate _ ups _ => ups | _ => [] end.
Definition query_from (q : query) : option join :=         (* the join structure, ON expressions included *)
  match q with QSelect (Sel from _ _) => Some from | _ => None end.
Definition query_cond (q : query) : option ast :=
  match q with
  | QSelect (Sel _ _ c) | QUpdate _ _ c | QDelete _ c => c
  | QInsert _ _ => None
  end.

Corollary query_same_structure q : names_ok q -> shape_ok q ->
  exists q', parse_query (print_query q) = Some q' /\
    query_tables q' = query_tables q /\
    query_columns q' = query_columns q /\
    query_rows q' = query_rows q /\
    query_assignments q' = query_assignments q /\
    query_from q' = query_from q /\
    query_cond q' = query_cond q.
Proof.
  intros Hn Hs. exists q. split; [exact (query_roundtrip q Hn Hs)|]. repeat split.
Qed.

(* the characters Display writes are the rendering of tokens that read back as the query *)
Corollary query_text_reads_back q : names_ok q -> shape_ok q ->
  exists ts, qrender ts = query_text q /\ parse_query ts = Some q.
Proof.
  intros Hn Hs. exists (print_query q). split; [apply query_text_render | exact (query_roundtrip q Hn Hs)].
Qed.

(* ---- T3: concrete texts ---------------------------------------------------------------------------------- *)
Definition n_ (s : string) : str := str_of_string s.
Definition tbl (s : string) : sel := Sel (JTable (n_ s)) [] None.

Definition ex_star : query := QSelect (tbl "Foo").
Definition ex_join : query :=
  QSelect (Sel (JInner (tbl "Foo")
                       (Sel (JTable (n_ "Bar")) [] (Some (BinOp OGt (Col (n_ "K")) (Lit (VInt 1)))))
                       (BinOp OEq (Col (n_ "Foo.K")) (Col (n_ "Bar.K"))))
               [n_ "Bar.K"; n_ "Foo.V"]
               (Some (BinOp OEq (Col (n_ "Foo.V")) (Lit (VStr (n_ "x")))))).
Definition ex_nested : query :=
  QSelect (Sel (JLeft (Sel (JInner (tbl "A") (tbl "B") (BinOp OEq (Col (n_ "A.K")) (Col (n_ "B.K")))) [] None)
                      (tbl "C")
                      (And (BinOp OEq (Col (n_ "A.K")) (Col (n_ "C.K"))) (UnOp BoolNot (Col (n_ "C.Z")))))
               [] None).
Definition ex_insert : query := QInsert (n_ "T") [[VInt 1; VStr (n_ "a")]; [VNull; VInt 2]].
Definition ex_insert0 : query := QInsert (n_ "T") [].
Definition ex_update : query :=
  QUpdate (n_ "T") [(n_ "A", VInt 1); (n_ "B", VNull)] (Some (BinOp OEq (Col (n_ "K")) (Lit (VInt 2)))).
Definition ex_delete : query := QDelete (n_ "T") None.
Definition ex_delete_where : query :=
  QDelete (n_ "T") (Some (Or (BinOp OLt (Col (n_ "K")) (Lit (VInt (-3)))) (BinOp ONe (Col (n_ "V")) (Lit VNull)))).

Example text_star : query_text ex_star = n_ "SELECT * FROM Foo".
Proof. vm_compute. reflexivity. Qed.
Example text_join : query_text ex_join =
  n_ "SELECT Bar.K, Foo.V FROM Foo INNER JOIN (SELECT * FROM Bar WHERE K > 1) ON Foo.K = Bar.K WHERE Foo.V = ""x""".
Proof. vm_compute. reflexivity. Qed.
Example text_nested : query_text ex_nested =
  n_ "SELECT * FROM (SELECT * FROM A INNER JOIN B ON A.K = B.K) LEFT JOIN C ON A.K = C.K AND (NOT C.Z)".
Proof. vm_compute. reflexivity. Qed.
Example text_insert : query_text ex_insert = n_ "INSERT INTO T VALUES (1, ""a""), (NULL, 2)".
Proof. vm_compute. reflexivity. Qed.
Example text_insert0 : query_text ex_insert0 = n_ "INSERT INTO T".
Proof. vm_compute. reflexivity. Qed.
Example text_update : query_text ex_update = n_ "UPDATE T SET A = 1, B = NULL WHERE K = 2".
Proof. vm_compute. reflexivity. Qed.
Example text_delete : query_text ex_delete = n_ "DELETE FROM T".
Proof. vm_compute. reflexivity. Qed.
Example text_delete_where : query_text ex_delete_where = n_ "DELETE FROM T WHERE K < -3 OR V != NULL".
Proof. vm_compute. reflexivity. Qed.

Example read_examples :
  map (fun q => parse_query (print_query q))
      [ex_star; ex_join; ex_nested; ex_insert; ex_insert0; ex_update; ex_delete; ex_delete_where]
  = map Some [ex_star; ex_join; ex_nested; ex_insert; ex_insert0; ex_update; ex_delete; ex_delete_where].
Proof. vm_compute. reflexivity. Qed.

(* ---- findings: queries the API can build whose text the grammar does not read ---------------------------- *)
(* an INSERT row without values prints "()"; Row needs at least one Literal *)
Example insert_empty_row_text : query_text (QInsert (n_ "T") [[]]) = n_ "INSERT INTO T VALUES ()".
Proof. vm_compute. reflexivity. Qed.
Example insert_empty_row_unread : parse_query (print_query (QInsert (n_ "T") [[]])) = None.
Proof. vm_compute. reflexivity. Qed.
(* an UPDATE without assignments prints "SET " followed by nothing; AssignmentList needs an Assignment *)
Example update_no_assignment_text :
  query_text (QUpdate (n_ "T") [] (Some (Col (n_ "K")))) = n_ "UPDATE T SET  WHERE K".
Proof. vm_compute. reflexivity. Qed.
Example update_no_assignment_unread : parse_query (print_query (QUpdate (n_ "T") [] (Some (Col (n_ "K"))))) = None.
Proof. vm_compute. reflexivity. Qed.
(* an assigned column is an Ident, not a CompoundIdent: a dotted name is not read in SET *)
Example update_dotted_column_unread :
  parse_query (print_query (QUpdate (n_ "T") [(n_ "T.A", VInt 1)] None)) = None
  /\ parse_query (print_query (QSelect (Sel (JTable (n_ "T")) [n_ "T.A"] None)))
     = Some (QSelect (Sel (JTable (n_ "T")) [n_ "T.A"] None)).
Proof. vm_compute. split; reflexivity. Qed.
(* a name that is a keyword (in any case) is not an Ident *)
Example keyword_name_unread : parse_query (print_query (QDelete (n_ "Values") None)) = None.
Proof. vm_compute. reflexivity. Qed.

Print Assumptions query_text_render.
Print Assumptions query_roundtrip.
Print Assumptions query_roundtrip_iff.
Print Assumptions query_same_structure.
Print Assumptions query_text_reads_back.
